#!/venv/bin/python
"""Writes MANIFEST.json from the table below (python -m vlib.mkmanifest)."""
import importlib
import json
import os

VERIF = os.path.dirname(os.path.dirname(os.path.abspath(__file__)))

NOTE_COMMON = ("Trusted base: Lean 4.33 kernel (+leanchecker in thorough), Mathlib v4.33 as compiled, axioms propext/Classical.choice/Quot.sound only "
               "(audited per theorem every run), the py2lean translator (validated by differential execution every run), the correspondence harness "
               "and Lean Float (= C doubles) as execution vehicle. ")

# pid -> (technique, level text, level_note, design_ref)
TABLE = {
    "C11": ("Lean 4 theorems about index/size functions re-translated from the Python source on every run (translator + translation validation)",
            "Machine-checked proof, for all integers, that the generated (re-translated every run) size functions count the documented nested-loop "
            "orderings and the index functions return positions in them (incl. symmetric folding, methods = free functions, int64 exactness up to 10^6 and a "
            "proved overflow witness beyond). Complete for the property; the translator is validated by differential execution on every run.",
            NOTE_COMMON + "numba types Python ints as int64 (modelled by the generated *_w twins); brute-force sweeps only support the failing-input search.",
            "DESIGN.md §7 C11"),
}

NOT_YET = {}


def main():
    props = [json.loads(l) for l in open(os.path.join(VERIF, "properties.jsonl"), encoding="utf-8")]
    checks, na = [], []
    for p in props:
        pid = p["id"]
        have = os.path.exists(os.path.join(VERIF, "vlib", "props", f"{pid}.py")) and pid in TABLE
        if have:
            tech, text, note, ref = TABLE[pid]
            checks.append({
                "property_id": pid,
                "quick_cmd": f"./check {pid} --tier quick",
                "thorough_cmd": f"./check {pid} --tier thorough",
                "evidence_file": f"evidence/{pid}.json",
                "replay_cmd_template": f"./check {pid} --replay {{path}}",
                "engine": "lean4-proof+correspondence",
                "level_claimed": {"category": "proof", "text": text, "design_ref": ref},
                "level_note": note,
                "technique": tech,
            })
        else:
            na.append({"property_id": pid, "reason": NOT_YET.get(pid, "check not built yet at this commit (no claim made); see DESIGN.md §7 for the planned proof")})
    man = {
        "version": 1,
        "setup_cmd": "./setup.sh",
        "hooks": {"guard": "SPHERICAL_VERIF", "enable": "no source hooks: kernels are module-level globals wrapped from outside (SPHERICAL_VERIF=1 is exported by ./check but read by nothing in /repo)",
                  "baseline_off_cmd": "cd /repo && /venv/bin/python -m pytest -ra -q -p no:cacheprovider --timeout=900 --continue-on-collection-errors",
                  "source_commits": [], "add_only": True},
        "engines": [{"name": "lean4-proof+correspondence", "path": "lean/ + vlib/", "serves_properties": [c["property_id"] for c in checks],
                     "kind_free_text": "Lean 4 theorems about (a) definitions re-translated from the Python source each run and (b) hand-written executable models tied to the numba kernels by bit-for-bit correspondence; failing-input search + oracle gap monitor in Python"}],
        "checks": checks,
        "not_applicable": na,
        "notes": "One entry point ./check Cxx --tier quick|thorough. Exit 0 = held; 1 = VIOLATION line(s); 2 = infrastructure error. KNOWN_FINDINGS.json lists recorded/fixed defects.",
    }
    with open(os.path.join(VERIF, "MANIFEST.json"), "w", encoding="utf-8") as f:
        json.dump(man, f, indent=1, ensure_ascii=False)
    print(f"MANIFEST: {len(checks)} checks, {len(na)} not_applicable")


if __name__ == "__main__":
    main()
