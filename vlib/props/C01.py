"""C01 — Wigner D and d equal their mathematical definition for every rotation.

Obligations: theorems of Props/C01.lean (+ shared Props/HKernel.lean, Props/Routes.lean when present).
Correspondence (bitwise): coefficient tables, H recursion from poisoned workspaces, Euler phases, complex
powers, fill_d, fill_D.  Gap monitor / failing-input search: implementation vs the documented polynomial
evaluated with mpmath on stratified rotors x sampled (ell, m', m)."""
import math

import numpy as np

from .. import corr, kern, oracle
from . import common

EPS = 2.0 ** -52
K_BOUND = 16.0   # |error| <= K (ell+1) eps ; worst observed on the pinned tree ~1.7


def band_info(R):
    a = R[0] ** 2 + R[3] ** 2
    b = R[1] ** 2 + R[2] ** 2
    return {"a_sq": a, "b_sq": b, "min_sq": min(a, b)}


def sample_entries(rng, ell, n):
    pts = set()
    if ell <= 3:
        return [(mp, m) for mp in range(-ell, ell + 1) for m in range(-ell, ell + 1)]
    for mp in (-ell, -ell + 1, -1, 0, 1, ell - 1, ell):
        for m in (-ell, -1, 0, 1, ell):
            pts.add((mp, m))
    pts = list(pts)
    rng.shuffle(pts)
    pts = pts[:max(4, n // 2)]
    # first off-diagonals: the entries that carry a near-pole rotor's deviation from the pole (∝ sqrt(l(l+1)) β / 2)
    pts += [(0, 1), (1, 0), (-1, 0), (ell, ell - 1), (-ell + 1, -ell), (rng.randint(-ell, ell - 1),) * 2]
    pts[-1] = (pts[-1][0], pts[-1][0] + 1)
    while len(pts) < n + 6:
        pts.append((rng.randint(-ell, ell), rng.randint(-ell, ell)))
    return pts


def gap_D(run, ell_maxes, rotors, per_ell, deep=False):
    import spherical
    import quaternionic
    rng = run.rng
    worst = 0.0
    for L in ell_maxes:
        emin = 0
        if isinstance(L, tuple):      # (ell_max, ell_min): a calculator whose range starts above 0
            L, emin = L
        w = spherical.Wigner(L, ell_min=emin)
        ells = sorted(set([0, 1, 2, 3, emin, emin + 1, L // 2, L - 1, L] + ([rng.randint(4, L) for _ in range(3)] if L > 4 else [])) & set(range(emin, L + 1)))
        for lab, R in rotors:
            try:
                D = w.D(quaternionic.array(R))
            except Exception as e:
                run.violation("D-raised", "Wigner.D", {"ell_max": L, "R": list(R), **band_info(R)}, "values", repr(e))
                continue
            # the same request through an explicit (fresh, then recycled) workspace must give the same matrix
            dirty = w.new_workspace()
            dirty[:] = float("nan")      # arbitrary previous content (np.empty garbage may be NaN): every cell read must have been written by this call
            for wsname, ws in (("fresh", w.new_workspace()), ("recycled", getattr(w, "_verif_ws", None)), ("nan-filled", dirty if L <= 64 else None)):
                if ws is None:
                    continue
                D2 = w.D(quaternionic.array(R), workspace=ws)
                if not np.array_equal(D2, D, equal_nan=True):
                    k = int(np.flatnonzero(D2 != D)[0])
                    tr = [t for t in spherical.WignerDrange(emin, L) if w.Dindex(*[int(x) for x in t]) == k]
                    ell_k, mp_k, m_k = [int(x) for x in tr[0]]
                    ex = oracle.D_exact(R, ell_k, mp_k, m_k)
                    run.violation("D-differs-from-definition", "Wigner.D", {"ell_max": L, "R": list(R), "ell": ell_k, "mp": mp_k, "m": m_k, "workspace": wsname, **band_info(R)},
                                  str(oracle.to_complex(ex)), str(complex(D2[k])), detail={"note": "explicit workspace after a default-workspace call"})
                    break
            w._verif_ws = w.new_workspace() if getattr(w, "_verif_ws", None) is None else w._verif_ws
            if not np.all(np.isfinite(D)):
                i = int(np.flatnonzero(~np.isfinite(D))[0])
                run.violation("D-not-finite", "Wigner.D", {"ell_max": L, "R": list(R), "flat_index": i, **band_info(R)}, "finite", str(D[i]))
                continue
            for ell in ells:
                for mp_, m in sample_entries(rng, ell, per_ell if ell > 3 else 49):
                    ex = oracle.D_exact(R, ell, mp_, m)
                    got = D[w.Dindex(ell, mp_, m)]
                    e = oracle.err(ex, got)
                    rel = e / ((ell + 1) * EPS)
                    worst = max(worst, rel)
                    run.gap_case("D-vs-documented-polynomial", (L, R, ell, mp_, m), lab,
                                 {"ell_max": L, "R": list(R), "ell": ell, "mp": mp_, "m": m, "err_over_(ell+1)eps": round(rel, 3)})
                    if not (rel <= K_BOUND):
                        run.violation("D-differs-from-definition", "Wigner.D", {"ell_max": L, "R": list(R), "ell": ell, "mp": mp_, "m": m, **band_info(R)},
                                      str(oracle.to_complex(ex)), str(complex(got)), detail={"err_over_(ell+1)eps": rel, "stratum": lab})
                        break
    run.notes["worst_D_err_over_(ell+1)eps"] = round(worst, 3)


def gap_d(run, ell_maxes, betas, per_ell):
    import spherical
    rng = run.rng
    worst = 0.0
    for L in ell_maxes:
        emin = 0
        if isinstance(L, tuple):
            L, emin = L
        w = spherical.Wigner(L, ell_min=emin)
        ells = sorted(set([0, 1, 2, emin, emin + 1, L // 2, L]) & set(range(emin, L + 1)))
        for lab, z in betas:
            if z.imag < 0:
                continue
            d = w.d(complex(z))
            if not np.all(np.isfinite(d)):
                run.violation("d-not-finite", "Wigner.d", {"ell_max": L, "expibeta": [z.real, z.imag]}, "finite", "nan/inf")
                continue
            for ell in ells:
                for mp_, m in sample_entries(rng, ell, per_ell if ell > 3 else 49):
                    ex = oracle.d_exact(z, ell, mp_, m)
                    got = d[w.dindex(ell, mp_, m)]
                    e = abs(float(ex) - got) if abs(float(ex)) > 1e-300 else abs(got)
                    e = float(abs(ex - oracle.mp.mpf(float(got))))
                    rel = e / ((ell + 1) * EPS)
                    worst = max(worst, rel)
                    run.gap_case("d-vs-documented-polynomial", (L, z, ell, mp_, m), lab, {"ell_max": L, "expibeta": [z.real, z.imag], "ell": ell, "mp": mp_, "m": m, "err_over_(ell+1)eps": round(rel, 3)})
                    if not (rel <= K_BOUND):
                        run.violation("d-differs-from-definition", "Wigner.d", {"ell_max": L, "expibeta": [z.real, z.imag], "ell": ell, "mp": mp_, "m": m},
                                      str(float(ex)), str(float(got)), detail={"err_over_(ell+1)eps": rel})
                        break
    run.notes["worst_d_err_over_(ell+1)eps"] = round(worst, 3)


def subnormal_band_rotors():
    """near-pole rotors whose squared off-pole magnitude is subnormal (known finding F10 lives here)"""
    out = []
    for mag in (2e-162, 1e-160, 3e-158, 1e-155):
        out.append((f"band-b-{mag:g}", (1.0, mag, 0.0, 0.0)))
        out.append((f"band-a-{mag:g}", (mag, 0.0, 1.0, 0.0)))
    return out


def wrapper_checks(run):
    """module-level wigner_d / wigner_D wrappers return what the methods return"""
    import spherical
    import quaternionic
    R = quaternionic.array([0.5, -0.1, 0.7, 0.2]).normalized
    for ell_min, ell_max in [(0, 3), (2, 5)]:
        a = spherical.wigner_D(R, ell_min, ell_max)
        b = spherical.Wigner(ell_max, ell_min).D(R)
        run.gap_case("wrappers", ("D", ell_min, ell_max))
        if a.shape != b.shape or not np.array_equal(a, b):
            run.violation("wrapper-differs", "wigner_D", {"ell_min": ell_min, "ell_max": ell_max}, "Wigner.D", "differs")
        z = np.exp(0.7j)
        a = spherical.wigner_d(z, ell_min, ell_max)
        b = spherical.Wigner(ell_max, ell_min).d(z)
        if a.shape != b.shape or not np.array_equal(a, b):
            run.violation("wrapper-differs", "wigner_d", {"ell_min": ell_min, "ell_max": ell_max}, "Wigner.d", "differs")


def derived_calculators(run):
    """calculators that reach the user through a copy (copy.copy, copy.deepcopy, a pickle round trip — what multiprocessing,
    joblib or MPI do), taken before and after the original was used: their D and d must satisfy the same bound; checked
    against the oracle on sampled entries and bit for bit against a freshly constructed calculator"""
    import copy
    import pickle
    import spherical
    import quaternionic
    rng = run.rng
    rots = [("generic", (0.5, -0.1, 0.7, 0.2)), ("generic2", (-0.3, 0.4, 0.1, 0.86)), ("near-pole", (1.0, 1e-9, -2e-9, 0.0)), ("z-rot", (0.8, 0.0, 0.0, 0.6))]
    rots = [(lab, tuple(x / np.sqrt(sum(y * y for y in R)) for x in R)) for lab, R in rots]
    for (L, emin) in [(6, 0), (9, 2)]:
        for used in (False, True):
            base = spherical.Wigner(L, ell_min=emin)
            if used:
                base.D(quaternionic.array(rots[1][1]))
                base.d(np.exp(0.3j))
            makers = {"copy.copy": lambda: copy.copy(base), "copy.deepcopy": lambda: copy.deepcopy(base),
                      "pickle": lambda: pickle.loads(pickle.dumps(base)), "deepcopy-of-deepcopy": lambda: copy.deepcopy(copy.deepcopy(base))}
            for how, mk in makers.items():
                try:
                    w = mk()
                except Exception as e:   # noqa: BLE001
                    run.violation("derived-calculator-raised", "Wigner", {"ell_max": L, "ell_min": emin, "derived_by": how, "original_used_before": used}, "a working calculator", repr(e)[:200])
                    continue
                for lab, R in rots:
                    fresh = spherical.Wigner(L, ell_min=emin)
                    Rq = quaternionic.array(R)
                    z = complex(2 * (R[0] ** 2 + R[3] ** 2) - 1, 2 * np.sqrt((R[0] ** 2 + R[3] ** 2) * (R[1] ** 2 + R[2] ** 2)))
                    for what, got, ref in (("Wigner.D", w.D(Rq), fresh.D(Rq)), ("Wigner.d", w.d(z), fresh.d(z))):
                        run.gap_case("derived-calculators", (L, emin, used, how, lab, what), how)
                        if got.shape != ref.shape or not np.array_equal(got, ref):
                            k = int(np.flatnonzero(got != ref)[0]) if got.shape == ref.shape else 0
                            tr = [t for t in spherical.WignerDrange(emin, L) if fresh.Dindex(*[int(x) for x in t]) == k]
                            ell_k, mp_k, m_k = [int(x) for x in tr[0]]
                            ex = oracle.D_exact(R, ell_k, mp_k, m_k) if what == "Wigner.D" else oracle.d_exact(z, ell_k, mp_k, m_k)
                            run.violation("D-differs-from-definition" if what == "Wigner.D" else "d-differs-from-definition", what,
                                          {"ell_max": L, "ell_min": emin, "R": list(R), "ell": ell_k, "mp": mp_k, "m": m_k, "calculator_derived_by": how, "original_used_before": used},
                                          str(oracle.to_complex(ex)) if what == "Wigner.D" else str(float(ex)), str(got.ravel()[k]),
                                          detail={"note": "a calculator obtained by " + how + " differs from a freshly constructed one (which agrees with the oracle)"})
                            break


def check(run):
    quick = run.tier == "quick"
    run.regenerate()
    run.lean_props(common.modules_for("C01"))
    rng = run.rng
    betas = corr.expibeta_strata(rng, 3 if quick else 10)
    rotors = corr.rotor_strata(rng, 6 if quick else 24)
    # ---- correspondence (bitwise) ----
    run.attempt("corr:corr_tables", kern.corr_tables, run, [0, 1, 2, 7] if quick else [0, 1, 2, 3, 7, 20, 40])
    cfgs = [(0, 0), (1, 0), (1, 1), (2, 1), (2, 2), (3, 3), (5, 2), (8, 8), (12, 1), (12, 12)] if quick else \
        [(L, P) for L in range(0, 10) for P in range(0, L + 1)] + [(16, 5), (24, 24), (32, 3), (32, 32), (48, 17)]
    bad = run.attempt("corr:corr_H", kern.corr_H, run, cfgs, betas, corr.POISONS[:2] if quick else corr.POISONS)
    preps = run.attempt("corr:euler", kern.prep_rotors, run, rotors + subnormal_band_rotors(), default={})
    zs = [(lab, complex(p["z"][i])) for (lab, R) in rotors for p in [preps.get(R)] if p for i in (0, 2)]
    run.attempt("corr:corr_cpow", kern.corr_cpow, run, zs[:40] if quick else zs, [0, 1, 2, 3, 17] if quick else [0, 1, 2, 3, 5, 17, 64, 200])
    run.attempt("corr:corr_d", kern.corr_d, run, [(0, 0), (3, 0), (6, 2)] if quick else [(0, 0), (1, 1), (3, 0), (6, 2), (12, 0), (20, 7)], betas, poison=float("nan"))
    run.attempt("corr:corr_D", kern.corr_D, run, [(0, 0), (2, 0), (5, 1), (8, 0)] if quick else [(0, 0), (1, 0), (2, 0), (5, 1), (8, 0), (12, 4), (20, 0)], rotors, preps, poison=float("nan"))
    # ---- gap monitor / failing-input search: documented definition (mpmath) ----
    deep = bool(run.broken)
    wrapper_checks(run)
    run.attempt("gap:derived_calculators", derived_calculators, run)
    gap_D(run, [4, 24] if quick and not deep else ([4, 24, 64] if quick else [4, 24, 64, 128, 256]), rotors, 6 if quick else 10)
    if quick:
        gap_D(run, [128] if not deep else [128, 256], [rotors[0], rotors[9], rotors[14]] + rotors[-2:], 4)   # a large calculator on a few rotors (overflow / accumulation defects appear only there)
    gap_D(run, [0, 1, 2], rotors[::3], 6)
    gap_D(run, [(6, 1), (6, 2), (7, 3), (9, 5), (5, 5)], rotors[::4], 6)     # ranges that start at ell_min > 0 (their first block is ell = ell_min)     # the smallest calculators (ell_max = 0 is the lower edge of "all calculator sizes")
    gap_D(run, [12], subnormal_band_rotors(), 6)
    gap_d(run, [0, 1, 16] if quick else [0, 1, 16, 96, 256], betas, 6 if quick else 10)
    gap_d(run, [(6, 2), (7, 4), (3, 3)], betas[::2], 6)
    run.assumptions += ["numba compiles IEEE operations in source order without contraction (re-measured by the bitwise correspondence every run)",
                        "rounding-error bound K=16 (ell+1) eps is checked by oracle sampling only (no theorem): DESIGN.md §5",
                        "exact arithmetic: the model of Wigner.D / Wigner.d EQUALS the documented formula for every ell, every unit quaternion and every entry (DAll.D_all, d_all on top of DocD.objd_eq_docd); what remains unproved for C01 is only the floating-point error bound, which the mpmath oracle samples"]


def replay(body):
    import spherical
    import quaternionic
    inp = body["input"]
    if "R" in inp:
        w = spherical.Wigner(inp["ell_max"])
        D = w.D(quaternionic.array(inp["R"]))
        if "ell" in inp:
            got = D[w.Dindex(inp["ell"], inp["mp"], inp["m"])]
            ex = oracle.to_complex(oracle.D_exact(inp["R"], inp["ell"], inp["mp"], inp["m"]))
            print("implementation:", got, " documented definition:", ex, " |diff|/((ell+1)eps):", abs(got - ex) / ((inp["ell"] + 1) * EPS))
    elif "expibeta" in inp:
        w = spherical.Wigner(inp["ell_max"])
        z = complex(*inp["expibeta"])
        d = w.d(z)
        got = d[w.dindex(inp["ell"], inp["mp"], inp["m"])]
        print("implementation:", got, " documented definition:", float(oracle.d_exact(z, inp["ell"], inp["mp"], inp["m"])))
    else:
        print(body)
    return 0
