"""C17 — vectorised calls and out= arrays reproduce the per-rotor results exactly.

Obligations: Props/C17.lean + HKernel (purity: each rotor's result is a function of that rotor only).
Gap/search: rotor arrays of rank 0..3 (incl. size-1 axes) x modes with 0..2 leading axes x {d, D, sYlm, evaluate,
rotate} x strategy x with/without out= x with/without workspace=: shapes, bitwise equality with per-rotor calls,
identity of returned array vs out, inputs unmodified, no aliasing of inputs/workspace."""
import math

import numpy as np

from .. import helpers
from . import common

RSHAPES = [(), (1,), (3,), (2, 1), (1, 2), (2, 3), (2, 1, 2)]


def check(run):
    import spherical
    import quaternionic
    quick = run.tier == "quick"
    run.regenerate()
    run.lean_props(common.modules_for("C17"))
    rng = run.rng
    # ---- correspondence (bitwise): the loop over rotors as generated from the method text, one workspace threaded through ----
    from .. import kern, corr
    crot = corr.rotor_strata(rng, 4 if quick else 12)
    preps = run.attempt("corr:euler", kern.prep_rotors, run, crot, default={})
    lists = []
    for n in (1, 2, 3, 5):
        for rep in range(2 if quick else 6):
            pick = [crot[rng.randrange(len(crot))] for _ in range(n)]
            lists.append((f"N={n}|" + "+".join(sorted({lab for lab, _ in pick}))[:60], [R for _, R in pick]))
    run.attempt("corr:corr_Dloop", kern.corr_Dloop, run, [(3, 0), (5, 1)] if quick else [(0, 0), (3, 0), (5, 1), (8, 0), (12, 3)], lists, preps, poison=float("nan"))
    L = 4
    w = spherical.Wigner(L)
    wl = spherical.Wigner(L, mp_max=2)
    default_ws = w.Hwedge.base

    def rotors(shape):
        n = int(np.prod(shape)) if shape else 1
        arr = np.array([helpers.random_rotor(rng) for _ in range(n)]).reshape(shape + (4,))
        if n > 1 and rng.random() < 0.5:
            arr.reshape(-1, 4)[0] = (1.0, 0.0, 0.0, 0.0)     # a pole among them
        if n > 1 and rng.random() < 0.6:
            # consecutive rotors that share cos(beta) to the last bit but not beta (near a pole), or share beta exactly
            flat = arr.reshape(-1, 4)
            kind = rng.choice(["near-pole-run", "same-beta", "antipole-run"])
            for i in range(flat.shape[0]):
                if kind == "near-pole-run":
                    flat[i] = (math.cos(0.2 * i), (1 + 2 * i) * 1e-9, -(1 + i) * 1e-9, math.sin(0.2 * i))
                elif kind == "antipole-run":
                    flat[i] = ((1 + i) * 2e-9, math.cos(0.3 * i), math.sin(0.3 * i), (1 + i) * 1e-9)
                else:
                    a, g = 0.4 * i, 1.1 - 0.3 * i
                    flat[i] = (math.cos(0.35) * math.cos((a + g) / 2), -math.sin(0.35) * math.sin((a - g) / 2), math.sin(0.35) * math.cos((a - g) / 2), math.cos(0.35) * math.sin((a + g) / 2))
                flat[i] /= np.linalg.norm(flat[i])
        return arr

    cases = [(sh, "C") for sh in (RSHAPES if not quick else RSHAPES[:6])] + [((2, 3), "F"), ((3, 2), "F-view")] + ([] if quick else [((2, 2, 3), "F")])
    # rotors need not be normalised (the Euler phases are ratios: every result is invariant under R -> lambda R): means of rotors,
    # raw samples, integer-valued quaternions are legitimate arguments and, like every argument, must come back untouched
    cases += [((), "C-nonunit"), ((3,), "C-nonunit"), ((2, 2), "C-nonunit")]
    for shape, layout in cases:
        for use_ws in (False, True):
            Rarr = rotors(shape)
            if layout == "C-nonunit":
                flat_ = Rarr.reshape(-1, 4)
                for i in range(flat_.shape[0]):
                    flat_[i] *= [2.0, 0.5, 3.0, 1.0 + 1e-9, 7.25][i % 5]
                Rarr = np.ascontiguousarray(Rarr, dtype=np.float64)
            if layout == "F":
                Rarr = np.asfortranarray(Rarr)            # e.g. a grid of rotors built from component arrays, np.array([w, x, y, z]).T
            elif layout == "F-view":
                Rarr = np.array([Rarr[..., k].T.copy() for k in range(4)]).T
            Rq = quaternionic.array(Rarr)
            Rcopy = Rarr.copy()
            flat = Rarr.reshape(-1, 4)
            for name, obj, size, call, single in (
                    ("D", w, w.Dsize, lambda o, ws: w.D(Rq, out=o, workspace=ws), lambda r: w.D(quaternionic.array(r))),
                    ("sYlm", wl, wl.Ysize, lambda o, ws: wl.sYlm(-2, Rq, out=o, workspace=ws), lambda r: wl.sYlm(-2, quaternionic.array(r)))):
                per = np.stack([single(r) for r in flat]).reshape(shape + (size,))
                for out_kind in ("none", "flat", "shaped"):
                    ws = obj.new_workspace() if use_ws else None
                    if out_kind == "none":
                        o = None
                    elif out_kind == "flat":
                        o = np.full(per.size, np.nan + 0j)
                    else:
                        o = np.full(per.shape, np.nan + 0j)
                    inp = {"method": name, "R_shape": list(shape), "R_layout": layout, "out": out_kind, "workspace": use_ws}
                    try:
                        r = call(o, ws)
                    except Exception as e:
                        run.violation("vectorised-call-raised", f"Wigner.{name}", inp, "values", repr(e))
                        continue
                    run.gap_case("vectorised-D-sYlm", (name, shape, layout, out_kind, use_ws), f"{name}|rank{len(shape)}|{layout}|out={out_kind}", inp)
                    if r.shape != shape + (size,):
                        run.violation("vectorised-shape", f"Wigner.{name}", inp, list(shape + (size,)), list(r.shape))
                        continue
                    if not helpers.bits_equal(r, per):
                        run.violation("vectorised-differs-from-per-rotor", f"Wigner.{name}", inp, "bit-identical to single-rotor calls", "differs")
                    if o is not None and (not np.shares_memory(r, o) or not helpers.bits_equal(o.reshape(per.shape), per)):
                        run.violation("out-array-not-filled-or-not-returned", f"Wigner.{name}", inp, "out holds the values and is returned", "no")
                    if not np.array_equal(Rarr, Rcopy):
                        run.violation("input-modified", f"Wigner.{name}", inp, "R unchanged", "changed")
                    if np.shares_memory(r, Rarr) or np.shares_memory(r, default_ws) or (ws is not None and np.shares_memory(r, ws)):
                        run.violation("result-aliases-input-or-workspace", f"Wigner.{name}", inp, "fresh array or view of out", "aliases")
            # evaluate / rotate
            for lead in [(), (2,), (2, 3)][: (2 if quick else 3)]:
                s = rng.choice([0, -1, 2])
                modes = helpers.make_modes(rng, s, L, lead)
                marr = modes.ndarray.copy()
                for horner in (True, False):
                    per = np.stack([np.asarray(w.evaluate(modes, quaternionic.array(r), horner=horner)) for r in flat], axis=-1).reshape(lead + shape)
                    for out_kind in ("none", "documented-shape"):
                        ws = w.new_workspace() if use_ws else None
                        o = None if out_kind == "none" else np.full(lead + shape, 7.0 + 3.0j)
                        inp = {"method": "evaluate", "horner": horner, "R_shape": list(shape), "R_layout": layout, "lead": list(lead), "out": out_kind, "workspace": use_ws, "s": s}
                        try:
                            r = w.evaluate(modes, Rq, out=o, workspace=ws, horner=horner)
                        except Exception as e:
                            run.violation("vectorised-call-raised", f"Wigner.evaluate[horner={horner}]", inp, "values", repr(e))
                            continue
                        run.gap_case("vectorised-evaluate", (shape, layout, lead, horner, out_kind, use_ws), f"evaluate|horner={horner}|{layout}|out={out_kind}", inp)
                        r = np.asarray(r)
                        if r.shape != lead + shape:
                            run.violation("vectorised-shape", f"Wigner.evaluate[horner={horner}]", inp, list(lead + shape), list(r.shape))
                            continue
                        ok = helpers.bits_equal(r, per) if horner else np.allclose(r, per, rtol=1e-13, atol=1e-13)
                        if not ok:
                            run.violation("vectorised-differs-from-per-rotor", f"Wigner.evaluate[horner={horner}]", {**inp, "out_prefilled_nonzero": o is not None}, "per-rotor values", f"max diff {float(np.max(np.abs(r - per))) if r.size else 0}")
                        if o is not None and (not np.shares_memory(r, o) or not (helpers.bits_equal(o, per) if horner else np.allclose(o, per, rtol=1e-13, atol=1e-13))):
                            run.violation("out-array-not-filled-or-not-returned", f"Wigner.evaluate[horner={horner}]", inp, "out holds the values and is returned", "no")
                        if not np.array_equal(modes.ndarray, marr) or not np.array_equal(Rarr, Rcopy):
                            run.violation("input-modified", f"Wigner.evaluate[horner={horner}]", inp, "inputs unchanged", "changed")
                        if np.shares_memory(r, modes.ndarray) or np.shares_memory(r, default_ws) or np.shares_memory(r, Rarr):
                            run.violation("result-aliases-input-or-workspace", f"Wigner.evaluate[horner={horner}]", inp, "fresh or out", "aliases")
                if shape == ():
                    for horner in (True, False):
                        ref = w.rotate(modes, Rq, horner=horner).ndarray
                        for out_kind in ("documented-shape",):
                            ws = w.new_workspace() if use_ws else None
                            o = np.full(modes.shape, 7.0 + 3.0j)
                            inp = {"method": "rotate", "horner": horner, "lead": list(lead), "out": out_kind, "workspace": use_ws, "s": s}
                            try:
                                r = w.rotate(modes, Rq, out=o, workspace=ws, horner=horner)
                            except Exception as e:
                                run.violation("vectorised-call-raised", f"Wigner.rotate[horner={horner}]", inp, "Modes", repr(e))
                                continue
                            run.gap_case("rotate-out", (lead, horner, use_ws), f"rotate|horner={horner}", inp)
                            ra = r.ndarray
                            ok = helpers.bits_equal(ra, ref) if horner else np.allclose(ra, ref, rtol=1e-13, atol=1e-13)
                            if ra.shape != modes.shape or not ok:
                                run.violation("out-call-differs", f"Wigner.rotate[horner={horner}]", inp, "same as without out", "differs")
                            if not np.shares_memory(ra, o) or not (helpers.bits_equal(o, ref) if horner else np.allclose(o, ref, rtol=1e-13, atol=1e-13)):
                                run.violation("out-array-not-filled-or-not-returned", f"Wigner.rotate[horner={horner}]", inp, "out holds the values", "no")
                            if not np.array_equal(modes.ndarray, marr):
                                run.violation("input-modified", f"Wigner.rotate[horner={horner}]", inp, "modes unchanged", "changed")
    # rotor counts that coincide with the size of the mode axis (a list of exactly Ysize / Dsize rotors, a Ysize x Ysize grid of rotors): the
    # documented output shape R.shape[:-1] + (size,) is then square / cubic, and anything that guesses a layout from the shape goes wrong
    wS = spherical.Wigner(2)
    wlS = spherical.Wigner(3, mp_max=1)
    for name, obj, size, fn in (("D", wS, wS.Dsize, lambda Rq_, o, ws_: wS.D(Rq_, out=o, workspace=ws_)),
                                ("sYlm", wlS, wlS.Ysize, lambda Rq_, o, ws_: wlS.sYlm(1, Rq_, out=o, workspace=ws_)),
                                ("sYlm", wS, wS.Ysize, lambda Rq_, o, ws_: wS.sYlm(-2, Rq_, out=o, workspace=ws_))):
        for shape in ((size,), (size, size)) if size <= 16 else ((size,),):
            n = int(np.prod(shape))
            Rarr = np.array([helpers.random_rotor(rng) for _ in range(n)]).reshape(shape + (4,))
            Rq_ = quaternionic.array(Rarr)
            per = np.stack([fn(quaternionic.array(r), None, None) for r in Rarr.reshape(-1, 4)]).reshape(shape + (size,))
            for out_kind in ("none", "flat", "shaped"):
                for use_ws in (False, True):
                    o = None if out_kind == "none" else (np.full(per.size, np.nan + 0j) if out_kind == "flat" else np.full(per.shape, np.nan + 0j))
                    inp = {"method": name, "R_shape": list(shape), "R_layout": "C", "out": out_kind, "workspace": use_ws, "calculator": {"ell_max": obj.ell_max, "mp_max": obj.mp_max},
                           "note": "number of rotors along each axis equals the size of the mode axis"}
                    run.gap_case("vectorised-D-sYlm", (name, shape, "size-coincidence", out_kind, use_ws), f"{name}|rank{len(shape)}|rotor-count=size|out={out_kind}", inp)
                    try:
                        r = fn(Rq_, o, obj.new_workspace() if use_ws else None)
                    except Exception as e:
                        run.violation("vectorised-call-raised", f"Wigner.{name}", inp, "values", repr(e))
                        continue
                    if r.shape != shape + (size,):
                        run.violation("vectorised-shape", f"Wigner.{name}", inp, list(shape + (size,)), list(r.shape))
                        continue
                    if not helpers.bits_equal(r, per):
                        run.violation("vectorised-differs-from-per-rotor", f"Wigner.{name}", inp, "bit-identical to single-rotor calls", "differs")
                    if o is not None and (not np.shares_memory(r, o) or not helpers.bits_equal(o.reshape(per.shape), per)):
                        run.violation("out-array-not-filled-or-not-returned", f"Wigner.{name}", inp, "out holds the values and is returned", "no")
    # rotate with out= on calculators whose range starts above |s| (the default strategy has no D blocks below ell_min there)
    for emin in (1, 2):
        we = spherical.Wigner(L, ell_min=emin)
        for s in (0, -1, 1):
            for lead in ((), (2,)):
                modes = helpers.make_modes(rng, s, L, lead)
                for horner in (True, False):
                    Rq1 = quaternionic.array(helpers.random_rotor(rng))
                    inp = {"method": "rotate", "horner": horner, "lead": list(lead), "s": s, "calculator": {"ell_min": emin, "ell_max": L}, "out": "documented-shape"}
                    run.gap_case("rotate-out", (emin, s, lead, horner), f"rotate|ell_min={emin}|horner={horner}")
                    try:
                        ref = we.rotate(modes, Rq1, horner=horner).ndarray
                        o = np.full(modes.shape, 7.0 + 3.0j)
                        r = we.rotate(modes, Rq1, out=o, horner=horner)
                    except Exception as e:
                        run.violation("vectorised-call-raised", f"Wigner.rotate[horner={horner}]", inp, "Modes", repr(e))
                        continue
                    ok = helpers.bits_equal(r.ndarray, ref) if horner else np.allclose(r.ndarray, ref, rtol=1e-13, atol=1e-13)
                    if not ok:
                        run.violation("out-call-differs", f"Wigner.rotate[horner={horner}]", inp, "same as without out", "differs")
                    if not np.shares_memory(r.ndarray, o) or not np.allclose(o, ref, rtol=1e-13, atol=1e-13):
                        run.violation("out-array-not-filled-or-not-returned", f"Wigner.rotate[horner={horner}]", inp, "out holds the values and is returned", "no")
    # d: exp(i beta) input not modified, out used
    z = np.exp(0.3j)
    o = np.full(w.dsize, np.nan)
    r = w.d(z, out=o)
    run.gap_case("d-out", "d", "d")
    if r is not o or not helpers.bits_equal(o, w.d(z)):
        run.violation("out-array-not-filled-or-not-returned", "Wigner.d", {"method": "d"}, "out is returned and filled", "no")
    run.assumptions += ["numpy reshape of a contiguous out array is a view (the documented out arrays are contiguous here)"]


def replay(body):
    print(body["input"], body["expected"], body["got"])
    return 0
