import SphericalVerif.Lemmas.HRefine2
import SphericalVerif.Lemmas.HRefine4
import SphericalVerif.Lemmas.HRefine5
/-! Refinement of `Model.runH`: composition of steps 1 … 5. -/
namespace HRefine
set_option linter.unusedSectionVars false
section
open Scalar Model Spec
variable {α : Type} [Scalar α] {μ : Type} [Mem μ α] [LawfulMem μ α]

/-- the m'=0 column after steps 1 and 2, for every L (including L = 0) -/
theorem step12_col0 (L : Nat) (c s : α) (st : μ) (n m : Nat) (hn : n ≤ L) (hm : m ≤ n) :
    rd (step2 L c s (step1 (α := α) st)) (.hw n 0 m) = valW c s n 0 m := by
  by_cases hL : L = 0
  · subst hL
    have : n = 0 := by omega
    subst this
    have : m = 0 := by omega
    subst this
    rw [step2_zero]
    unfold step1
    rw [rd_wr_same, valW_zero]; rfl
  · obtain ⟨a, _, _, f⟩ := step2_refines L (by omega) c s (step1 (α := α) st)
    by_cases hn0 : n = 0
    · subst hn0
      have : m = 0 := by omega
      subst this
      rw [f _ (fun n m h1 _ _ => hw_ne_of_n (by omega)) (fun _ _ => hw_ne_hx) (fun _ _ _ => ⟨hw_ne_hv, hw_ne_hv⟩)]
      unfold step1
      rw [rd_wr_same, valW_zero]; rfl
    · exact a n m (by omega) hn hm

/-- (T1) `runH` computes, in every wedge cell, the value given by the coordinate recursion `valW`:
    independently of the sizes L, P, of the memory representation and of the initial memory. -/
theorem runH_refines (L P : Nat) (c s : α) (st : μ) (n : Nat) (mp : Int) (m : Nat)
    (hn : n ≤ L) (hmp : mp.natAbs ≤ min n P) (hm1 : mp.natAbs ≤ m) (hm2 : m ≤ n) :
    rd (runH L P c s st) (.hw n mp m) = valW c s n mp m := by
  unfold runH
  by_cases h0 : L = 0 ∨ P = 0
  · rw [step5_eq, if_pos h0, step4_eq, if_pos h0, step3_eq, if_pos h0]
    have : mp = 0 := by omega
    subst this
    exact step12_col0 L c s st n m hn hm2
  · have hL : 0 < L := by omega
    have hP : 0 < P := by omega
    obtain ⟨a2, x2, v2, _⟩ := step2_refines L hL c s (step1 (α := α) st)
    have c2 := step12_col0 L c s st
    -- step 3
    obtain ⟨a3, f3⟩ := step3_refines L P c s (step2 L c s (step1 (α := α) st)) hL hP
      (fun n m h1 h2 hm => by
        by_cases hnL : n ≤ L
        · rw [rowLoc_le hnL]; exact c2 n m hnL hm
        · have : n = L + 1 := by omega
          subst this
          rw [rowLoc_gt hnL]; exact x2 m hm)
    have c3 : ∀ n m, n ≤ L → m ≤ n →
        rd (step3 L P c s (step2 L c s (step1 (α := α) st))) (.hw n 0 m) = valW c s n 0 m := by
      intro n m h1 h2
      rw [f3 _ (fun _ _ _ _ _ _ => hw_ne_of_col (by omega))]; exact c2 n m h1 h2
    have v3 : ∀ n, 1 ≤ n → n ≤ L →
        rd (step3 L P c s (step2 L c s (step1 (α := α) st))) (.hv n 1) = valV c s n 1
        ∧ rd (step3 L P c s (step2 L c s (step1 (α := α) st))) (.hv n 0) = valV c s n 0 := by
      intro n h1 h2
      rw [f3 _ (fun _ _ _ _ _ _ => hv_ne_hw), f3 _ (fun _ _ _ _ _ _ => hv_ne_hw)]; exact v2 n h1 h2
    -- step 4
    obtain ⟨a4, _, f4⟩ := step4_refines L P c s (step3 L P c s (step2 L c s (step1 (α := α) st))) hL hP
      (fun n m h1 h2 _ hm => c3 n m h2 hm)
      (fun n m h1 h2 hm1 hm => a3 n m (by omega) h2 hm1 hm)
      (fun n h1 h2 => (v3 n (by omega) h2).1)
    have c4 : ∀ n m, n ≤ L → m ≤ n →
        rd (step4 (α := α) L P (step3 L P c s (step2 L c s (step1 (α := α) st)))) (.hw n 0 m) = valW c s n 0 m := by
      intro n m h1 h2
      rw [f4 _ (fun _ k _ _ _ _ => ⟨hw_ne_hv, fun _ _ _ => hw_ne_of_col (by omega)⟩)]; exact c3 n m h1 h2
    have b4 : ∀ n m, 1 ≤ n → n ≤ L → 1 ≤ m → m ≤ n →
        rd (step4 (α := α) L P (step3 L P c s (step2 L c s (step1 (α := α) st)))) (.hw n 1 m) = valW c s n 1 m := by
      intro n m h1 h2 h3 h4
      rw [f4 _ (fun _ k _ _ _ _ => ⟨hw_ne_hv, fun _ _ _ => hw_ne_of_col (by omega)⟩)]; exact a3 n m h1 h2 h3 h4
    have v4 : ∀ n, 1 ≤ n → n ≤ L →
        rd (step4 (α := α) L P (step3 L P c s (step2 L c s (step1 (α := α) st)))) (.hv n 1) = valV c s n 1
        ∧ rd (step4 (α := α) L P (step3 L P c s (step2 L c s (step1 (α := α) st)))) (.hv n 0) = valV c s n 0 := by
      intro n h1 h2
      rw [f4 _ (fun _ k _ _ _ _ => ⟨hv_ne_of_k (by omega), fun _ _ _ => hv_ne_hw⟩),
          f4 _ (fun _ k _ _ _ _ => ⟨hv_ne_of_k (by omega), fun _ _ _ => hv_ne_hw⟩)]
      exact v3 n h1 h2
    -- step 5
    obtain ⟨a5, _, f5⟩ := step5_refines L P c s
      (step4 (α := α) L P (step3 L P c s (step2 L c s (step1 (α := α) st)))) hL hP
      c4 b4 (fun n h1 h2 => (v4 n h1 h2).2) (fun n h1 h2 => (v4 n h1 h2).1)
    obtain ⟨k, rfl | rfl⟩ := Int.eq_nat_or_neg mp
    · rw [Int.natAbs_natCast] at hmp hm1
      rw [f5 _ (fun _ q _ _ _ => ⟨hw_ne_hv, fun _ _ _ => hw_ne_of_col (by omega)⟩)]
      by_cases hk2 : 2 ≤ k
      · exact a4 n k m (by omega) hn hk2 hmp hm1 hm2
      · have : k = 0 ∨ k = 1 := by omega
        rcases this with rfl | rfl
        · exact c4 n m hn hm2
        · exact b4 n m (by omega) hn hm1 hm2
    · rw [Int.natAbs_neg, Int.natAbs_natCast] at hmp hm1
      by_cases hk : k = 0
      · subst hk
        rw [f5 _ (fun _ q _ _ _ => ⟨hw_ne_hv, fun _ _ _ => hw_ne_of_col (by omega)⟩)]
        exact c4 n m hn hm2
      · exact a5 n k m hn (by omega) hmp hm1 hm2

end
end HRefine
