"""C09 — calculators are pure: a result never depends on the calls made before it.

Obligations: Props/C09.lean + HKernel (runH_pure: wedge after runH does not depend on the initial memory, for every
arithmetic).  Correspondence: kernels run from NaN/1e300/random-poisoned workspaces reproduce the model bit for bit.
Gap/search: all call sequences of length 2 (quick) / 3 (thorough) over an alphabet of ~45 operations on a full and on
an mp_max-limited calculator + long random sequences, each result compared with a fresh object; returned arrays are
snapshotted and re-checked after later calls."""
import itertools
import math

import numpy as np

from .. import corr, kern, helpers
from . import common


SHARED = {}      # input objects that live across a whole call sequence (as a caller's own Modes would): name -> (object, pristine bytes)


def shared_inputs_intact():
    """names of the shared input objects whose bytes differ from their pristine snapshot (and restore them)"""
    bad = []
    for k, (obj, snap) in SHARED.items():
        a = np.asarray(obj.ndarray if hasattr(obj, "ndarray") else obj)
        if a.tobytes() != snap:
            bad.append(k)
            a[...] = np.frombuffer(snap, dtype=a.dtype).reshape(a.shape)
    return bad


def raises(f):
    """outcome of a call that is expected to be rejected: the exception class name as an array (comparable with `same`)"""
    try:
        f()
    except Exception as e:   # noqa: BLE001
        return np.frombuffer(type(e).__name__.encode().ljust(16), dtype=np.uint8).copy()
    return np.zeros(16, dtype=np.uint8)


def alphabet(rng, limited):
    """operations as (name, callable(w) -> ndarray).  9 kinds x contrasting rotations."""
    import spherical
    import quaternionic
    s2 = math.sqrt(0.5)
    rots = {"generic": (0.5, -0.1, 0.7, 0.2), "pole+": (1.0, 0.0, 0.0, 0.0), "pole-": (0.0, 0.6, 0.8, 0.0), "near-pole": (1.0, 1e-9, -2e-9, 0.0),
            "z-rot": (math.cos(0.7), 0.0, 0.0, math.sin(0.7)), "generic2": (-0.3, 0.4, 0.1, 0.86)}
    rots = {k: tuple(x / math.sqrt(sum(y * y for y in v)) for x in v) for k, v in rots.items()}
    ops = []
    L = 5
    mw = helpers.random_weights(rng, -1, 4)
    m0 = helpers.random_weights(rng, 0, 3, (2,))
    # the caller's own objects, handed to many calls in a row (never rebuilt): no call may change them
    SHARED.clear()
    for key, obj in (("modes(s=-1,ell_max=4)", spherical.Modes(mw.copy(), spin_weight=-1, ell_min=0, ell_max=4)),
                     ("modes(s=0,ell_max=3,2 rows)", spherical.Modes(m0.copy(), spin_weight=0, ell_min=0, ell_max=3))):
        SHARED[key] = (obj, np.asarray(obj.ndarray).tobytes())
    sh1, sh0 = SHARED["modes(s=-1,ell_max=4)"][0], SHARED["modes(s=0,ell_max=3,2 rows)"][0]
    for rn, R in rots.items():
        Rq = quaternionic.array(R)
        beta = complex(2 * (R[0] ** 2 + R[3] ** 2) - 1, 2 * math.sqrt((R[0] ** 2 + R[3] ** 2) * (R[1] ** 2 + R[2] ** 2)))
        if not limited:
            ops.append((f"D({rn})", lambda w, Rq=Rq: w.D(Rq)))
            ops.append((f"d({rn})", lambda w, b=beta: w.d(b)))
            ops.append((f"D(ws,{rn})", lambda w, Rq=Rq: w.D(Rq, workspace=w.new_workspace())))
            ops.append((f"rotateH({rn})", lambda w, Rq=Rq: w.rotate(spherical.Modes(m0.copy(), spin_weight=0, ell_min=0, ell_max=3), Rq, horner=True).ndarray))
            ops.append((f"rotateM({rn})", lambda w, Rq=Rq: w.rotate(spherical.Modes(m0.copy(), spin_weight=0, ell_min=0, ell_max=3), Rq, horner=False).ndarray))
        ops.append((f"sYlm(-1,{rn})", lambda w, Rq=Rq: w.sYlm(-1, Rq)))
        ops.append((f"sYlm(1,ws,{rn})", lambda w, Rq=Rq: w.sYlm(1, Rq, workspace=w.new_workspace())))
        ops.append((f"evalH({rn})", lambda w, Rq=Rq: np.asarray(w.evaluate(spherical.Modes(mw.copy(), spin_weight=-1, ell_min=0, ell_max=4), Rq, horner=True))))
        ops.append((f"evalM({rn})", lambda w, Rq=Rq: np.asarray(w.evaluate(spherical.Modes(np.concatenate([mw, np.zeros(36 - 25)]) if False else helpers_pad(mw, 5), spin_weight=-1, ell_min=0, ell_max=5), Rq, horner=False))))
        ops.append((f"H({rn})", lambda w, b=beta: w.H(b, w.Hwedge, w.Hv, w.Hextra).copy()))
        if rn in ("generic", "near-pole"):
            ops.append((f"evalH-shared({rn})", lambda w, Rq=Rq: np.asarray(w.evaluate(sh1, Rq, horner=True))))
            ops.append((f"evalM-shared({rn})", lambda w, Rq=Rq: np.asarray(w.evaluate(sh1, Rq, horner=False))))
            # a request that is rejected (workspace too small) must leave nothing behind: neither in the object nor in the caller's input
            ops.append((f"evalH-shared-small-ws({rn})", lambda w, Rq=Rq: raises(lambda: w.evaluate(sh1, Rq, workspace=np.zeros(5), horner=True))))
            ops.append((f"sYlm-small-ws({rn})", lambda w, Rq=Rq: raises(lambda: w.sYlm(-1, Rq, workspace=np.zeros(5)))))
            if not limited:
                ops.append((f"rotateH-shared({rn})", lambda w, Rq=Rq: w.rotate(sh0, Rq, horner=True).ndarray))
                ops.append((f"rotateM-shared({rn})", lambda w, Rq=Rq: w.rotate(sh0, Rq, horner=False).ndarray))
                ops.append((f"rotateH-shared-small-ws({rn})", lambda w, Rq=Rq: raises(lambda: w.rotate(sh0, Rq, workspace=np.zeros(5), horner=True))))
        if rn in ("generic", "pole-"):
            # requests the documentation places out of range: whether they are rejected or served, they must leave the object as it was
            # (a calculator that adapts itself to such a request is no longer the object the caller constructed)
            big = spherical.Modes(helpers.random_weights(rng, -1, L + 2), spin_weight=-1, ell_min=0, ell_max=L + 2)
            ops.append((f"evalH-modes-beyond-calculator({rn})", lambda w, Rq=Rq, big=big: raises(lambda: w.evaluate(big, Rq, horner=True))))
            ops.append((f"evalM-modes-beyond-calculator({rn})", lambda w, Rq=Rq, big=big: raises(lambda: w.evaluate(big, Rq, horner=False))))
            ops.append((f"sYlm-spin-beyond-mp_max({rn})", lambda w, Rq=Rq: raises(lambda: w.sYlm(w.mp_max + 1, Rq))))
            ops.append((f"sYlm-wrong-out-size({rn})", lambda w, Rq=Rq: raises(lambda: w.sYlm(-1, Rq, out=np.zeros(3, dtype=complex)))))
            if not limited:
                big0 = spherical.Modes(helpers.random_weights(rng, 0, L + 1), spin_weight=0, ell_min=0, ell_max=L + 1)
                ops.append((f"rotateH-modes-beyond-calculator({rn})", lambda w, Rq=Rq, big0=big0: raises(lambda: w.rotate(big0, Rq, horner=True))))
                ops.append((f"rotateM-modes-beyond-calculator({rn})", lambda w, Rq=Rq, big0=big0: raises(lambda: w.rotate(big0, Rq, horner=False))))
                ops.append((f"D-wrong-out-size({rn})", lambda w, Rq=Rq: raises(lambda: w.D(Rq, out=np.zeros(3, dtype=complex)))))
            # degenerate but legitimate requests: modes that contain no ell >= |s| (the zero function), an ell_max = 0 object
            ops.append((f"evalH-empty({rn})", lambda w, Rq=Rq: np.asarray(w.evaluate(spherical.Modes(np.zeros(4, dtype=complex), spin_weight=-3 if not limited else -1, ell_min=0, ell_max=1) if not limited else spherical.Modes(np.zeros(1, dtype=complex), spin_weight=0, ell_min=0, ell_max=0), Rq, horner=True))))
            ops.append((f"evalM-empty({rn})", lambda w, Rq=Rq: np.asarray(w.evaluate(spherical.Modes(np.zeros(4, dtype=complex), spin_weight=-3 if not limited else -1, ell_min=0, ell_max=1) if not limited else spherical.Modes(np.zeros(1, dtype=complex), spin_weight=0, ell_min=0, ell_max=0), Rq, horner=False))))
            ops.append((f"evalH-const({rn})", lambda w, Rq=Rq: np.asarray(w.evaluate(spherical.Modes(np.array([1.5 - 2j]), spin_weight=0, ell_min=0, ell_max=0), Rq, horner=True))))
        if rn in ("generic", "near-pole", "pole-"):
            # explicit workspaces whose previous content is arbitrary (np.empty garbage may be NaN/inf): the result may not depend on it
            def dirty(w, val):
                ws = w.new_workspace()
                ws[:] = val
                ws[::3] = -7.25
                return ws
            ops.append((f"sYlm(-1,ws=nan,{rn})", lambda w, Rq=Rq: w.sYlm(-1, Rq, workspace=dirty(w, float("nan")))))
            if not limited:
                ops.append((f"D(ws=1e300,{rn})", lambda w, Rq=Rq: w.D(Rq, workspace=dirty(w, 1e300))))
                ops.append((f"D(ws=nan,{rn})", lambda w, Rq=Rq: w.D(Rq, workspace=dirty(w, float("nan")))))
    return ops


def helpers_pad(mw, L):
    out = np.zeros((L + 1) ** 2, dtype=complex)
    out[:mw.size] = mw
    return out


BLAS = ("rotateM", "evalM")


def check_inputs(run, limited, names):
    bad = shared_inputs_intact()
    if bad:
        run.violation("call-modified-its-input", f"history:{'limited' if limited else 'full'}", {"sequence": list(names), "modified": bad, "limited": limited},
                      "the caller's Modes object bit-for-bit unchanged (so that the next call sees the same argument)", "changed")
    return bool(bad)


def same(name, a, b):
    if name.startswith(BLAS):
        return a.shape == b.shape and np.allclose(a, b, rtol=1e-13, atol=1e-13)
    return helpers.bits_equal(a, b)


def check(run):
    import spherical
    quick = run.tier == "quick"
    run.regenerate()
    run.lean_props(common.modules_for("C09"))
    rng = run.rng
    betas = corr.expibeta_strata(rng, 1)
    run.attempt("corr:corr_H", kern.corr_H, run, [(0, 0), (1, 1), (3, 1), (4, 4), (7, 3)] if quick else [(L, P) for L in range(0, 9) for P in (0, 1, L) if P <= L], betas[:5] if quick else betas, corr.POISONS)
    for limited in (False, True):
        make = (lambda: spherical.Wigner(5, mp_max=1)) if limited else (lambda: spherical.Wigner(5))
        ops = alphabet(rng, limited)
        fresh = {}
        for name, f in ops:
            fresh[name] = np.array(f(make()), copy=True)
            check_inputs(run, limited, [name])
        for name, f in ops:     # a call through a dirty explicit workspace is held to the result of the plain call on a fresh object
            if "ws=" in name:
                base = name.replace("ws=nan,", "").replace("ws=1e300,", "")
                if not same(name, fresh[name], fresh[base]):
                    run.violation("result-depends-on-history", name, {"sequence": [name], "calculator": "limited" if limited else "full", "workspace": "explicit, prefilled"},
                                  "the result of the same call with a clean workspace", "differs")
                fresh[name] = fresh[base]
        run.notes[f"alphabet_size_{'limited' if limited else 'full'}"] = len(ops)
        depth = 2 if quick else 3
        seqs = list(itertools.product(range(len(ops)), repeat=2))
        if depth == 3:
            tri = list(itertools.product(range(len(ops)), repeat=3))
            rng.shuffle(tri)
            seqs += tri[:6000]
        for seq in seqs:
            w = make()
            held = []
            bad = False
            for k, i in enumerate(seq):
                name, f = ops[i]
                try:
                    r = f(w)
                except Exception as e:   # noqa: BLE001  (the same call on a fresh object returned normally: the history changed the outcome)
                    run.violation("result-depends-on-history", f"history:{'limited' if limited else 'full'}", {"sequence": [ops[j][0] for j in seq[:k + 1]], "limited": limited},
                                  "what a fresh object returns", f"raised {type(e).__name__}: {str(e)[:120]}")
                    bad = True
                    break
                if check_inputs(run, limited, [ops[j][0] for j in seq[:k + 1]]):
                    bad = True
                    break
                if not same(name, np.asarray(r), fresh[name]):
                    run.violation("result-depends-on-history", f"history:{'limited' if limited else 'full'}", {"sequence": [ops[j][0] for j in seq[:k + 1]], "limited": limited},
                                  "what a fresh object returns", "differs")
                    bad = True
                    break
                if not name.startswith("H("):
                    held.append((name, r, np.array(r, copy=True)))
            for name, r, snap in held:
                if not helpers.bits_equal(np.asarray(r), snap):
                    run.violation("returned-array-modified-by-later-call", f"history:{'limited' if limited else 'full'}", {"sequence": [ops[j][0] for j in seq], "array_of": name, "limited": limited}, "unchanged", "changed")
            run.gap_case("histories", (limited, seq), f"len{len(seq)}|{'limited' if limited else 'full'}", {"sequence": [ops[j][0] for j in seq]} if not bad else None)
        # long random sequences
        for _ in range(6 if quick else 40):
            w = make()
            seq = [rng.randrange(len(ops)) for _ in range(40)]
            for k, i in enumerate(seq):
                name, f = ops[i]
                try:
                    rr = np.asarray(f(w))
                except Exception as e:   # noqa: BLE001
                    run.violation("result-depends-on-history", f"history:{'limited' if limited else 'full'}", {"sequence": [ops[j][0] for j in seq[:k + 1]], "limited": limited},
                                  "what a fresh object returns", f"raised {type(e).__name__}: {str(e)[:120]}")
                    break
                if not same(name, rr, fresh[name]):
                    run.violation("result-depends-on-history", f"history:{'limited' if limited else 'full'}", {"sequence": [ops[j][0] for j in seq[:k + 1]], "limited": limited}, "what a fresh object returns", "differs")
                    break
            run.gap_case("histories", (limited, tuple(seq)), f"long|{'limited' if limited else 'full'}")
    # Wigner3jCalculator reuse
    calc = spherical.Wigner3jCalculator(8, 8)
    args = [(rng.randint(0, 8), rng.randint(0, 8)) for _ in range(40)]
    args = [(a, b, rng.randint(-a - 1, a + 1), rng.randint(-b - 1, b + 1)) for a, b in args]
    for a in args:
        for b in args[:12]:
            calc.calculate(*a)
            r = calc.calculate(*b).copy()
            f = spherical.Wigner3jCalculator(8, 8).calculate(*b).copy()
            run.gap_case("w3j-histories", (a, b), "w3j")
            if not helpers.bits_equal(r, f):
                run.violation("result-depends-on-history", "Wigner3jCalculator", {"first": list(a), "then": list(b)}, "fresh calculator", "differs")
    run.assumptions += ["BLAS-backed matrix strategies compared to 1e-13 (as the property allows); all other results bit for bit"]


def replay(body):
    print(body["input"], body["expected"], body["got"])
    return 0
