import SphericalVerif.Lemmas.HRefine
/-! Refinement of `Model.runH`, part: step 5 (columns m' = -1 … -min(n,P)). -/
namespace HRefine
set_option linter.unusedSectionVars false
section
open Scalar Model Spec
variable {α : Type} [Scalar α] {μ : Type} [Mem μ α] [LawfulMem μ α]

/-! ### recursion equations of `valW` / `valV` in the shape of `_step_5` -/

theorem valV_step5_zero (c s : α) (n : Nat) :
    valV c s n (-((0 : Nat) : Int) - 1) = f5v n 0 (valV c s n 1) (valV c s n 0) (valW c s n 0 1) := by
  rw [show (-((0 : Nat) : Int) - 1) = -((1 : Nat) : Int) by omega, valV_neg, valV_one, valV_zero, valW_zero]
  rfl

theorem valV_step5 (c s : α) (n q : Nat) (h1 : 1 ≤ q) :
    valV c s n (-(q : Int) - 1) =
      f5v n q (valW c s n (-(q : Int) + 1) q) (valV c s n (-(q : Int))) (valW c s n (-(q : Int)) (q+1)) := by
  obtain ⟨k, rfl⟩ : ∃ k, q = k + 1 := ⟨q - 1, by omega⟩
  rw [show (-((k+1 : Nat) : Int) - 1) = -((k+2 : Nat) : Int) by omega,
      show (-((k+1 : Nat) : Int) + 1) = -(k : Int) by omega,
      valV_neg, valV_neg, valW_neg, valW_neg]
  rfl

theorem valW_step5mid (c s : α) (n q i : Nat) (h2 : q + i < n) :
    valW c s n (-(q : Int) - 1) (q + i) =
      f5mid n q i (valW c s n (-(q : Int) + 1) (q + i)) (valW c s n (-(q : Int)) (q + i - 1))
        (valW c s n (-(q : Int)) (q + i + 1)) := by
  cases q with
  | zero =>
    rw [show (-((0 : Nat) : Int) - 1) = -((1 : Nat) : Int) by omega,
        show (-((0 : Nat) : Int) + 1) = ((1 : Nat) : Int) by omega,
        valW_neg, valW_neg, valW_ofNat, Nat.zero_add]
    rw [Nat.zero_add] at h2
    show (if i < n then _ else _) = _
    rw [if_pos h2]; rfl
  | succ k =>
    rw [show (-((k+1 : Nat) : Int) - 1) = -((k+2 : Nat) : Int) by omega,
        show (-((k+1 : Nat) : Int) + 1) = -(k : Int) by omega,
        valW_neg, valW_neg, valW_neg, valW_neg]
    show (if k + 1 + i < n then _ else _) = _
    rw [if_pos h2, Nat.add_sub_cancel_left]

theorem valW_step5top (c s : α) (n q : Nat) :
    valW c s n (-(q : Int) - 1) n =
      f5top n q (valW c s n (-(q : Int) + 1) n) (valW c s n (-(q : Int)) (n - 1)) := by
  cases q with
  | zero =>
    rw [show (-((0 : Nat) : Int) - 1) = -((1 : Nat) : Int) by omega,
        show (-((0 : Nat) : Int) + 1) = ((1 : Nat) : Int) by omega,
        valW_neg, valW_neg, valW_ofNat]
    show (if n < n then _ else _) = _
    rw [if_neg (Nat.lt_irrefl n)]; rfl
  | succ k =>
    rw [show (-((k+1 : Nat) : Int) - 1) = -((k+2 : Nat) : Int) by omega,
        show (-((k+1 : Nat) : Int) + 1) = -(k : Int) by omega,
        valW_neg, valW_neg, valW_neg]
    show (if n < n then _ else _) = _
    rw [if_neg (Nat.lt_irrefl n)]

/-! ### decomposition of `step5` into its loop levels -/

/-- i = 0: the sub-diagonal cell goes to `hv` -/
def s5v (n q : Nat) (st : μ) : μ :=
  if q = 0 then
    wr st (.hv n (-1))
      (f5v n q (rd (α := α) st (.hv n 1)) (rd (α := α) st (.hv n 0)) (rd (α := α) st (.hw n 0 1)))
  else
    wr st (.hv n (-(q : Int) - 1))
      (f5v n q (rd (α := α) st (.hw n (-(q : Int) + 1) q)) (rd (α := α) st (.hv n (-(q : Int))))
        (rd (α := α) st (.hw n (-(q : Int)) (q+1))))

/-- 1 ≤ i = t+1 < n - q -/
def s5cell (n q : Nat) : Nat → μ → μ := fun t st =>
  wr st (.hw n (-(q : Int) - 1) (q + (t+1)))
    (f5mid n q (t+1) (rd (α := α) st (.hw n (-(q : Int) + 1) (q + (t+1))))
      (rd (α := α) st (.hw n (-(q : Int)) (q + (t+1) - 1))) (rd (α := α) st (.hw n (-(q : Int)) (q + (t+1) + 1))))

/-- i = n - q: the cell m = n -/
def s5top (n q : Nat) (st : μ) : μ :=
  wr st (.hw n (-(q : Int) - 1) n)
    (f5top n q (rd (α := α) st (.hw n (-(q : Int) + 1) n)) (rd (α := α) st (.hw n (-(q : Int)) (n - 1))))

/-- column m' = -q-1 of row n from columns -q+1 and -q -/
def s5col (n q : Nat) (st : μ) : μ :=
  s5top (α := α) n q (loopN (n - q - 1) (s5cell (α := α) n q) (s5v (α := α) n q st))

def s5row (P : Nat) : Nat → μ → μ := fun n st =>
  loopN (min n P) (fun q st => s5col (α := α) n q st) st

theorem step5_eq (L P : Nat) (st : μ) :
    step5 (α := α) L P st = if L = 0 ∨ P = 0 then st else loopN (L+1) (s5row (α := α) P) st := rfl

/-! ### one column -/

theorem s5col_spec (c s : α) (n q : Nat) (h2 : q + 1 ≤ n) (st : μ)
    (hA : ∀ m, q ≤ m → 1 ≤ m → m ≤ n → rd st (.hw n (-(q : Int) + 1) m) = valW c s n (-(q : Int) + 1) m)
    (hB : ∀ m, q ≤ m → m ≤ n → rd st (.hw n (-(q : Int)) m) = valW c s n (-(q : Int)) m)
    (hV : rd st (.hv n (-(q : Int))) = valV c s n (-(q : Int)))
    (hV1 : q = 0 → rd st (.hv n 1) = valV c s n 1) :
    (∀ m, q + 1 ≤ m → m ≤ n →
        rd (s5col (α := α) n q st) (.hw n (-(q : Int) - 1) m) = valW c s n (-(q : Int) - 1) m)
    ∧ rd (s5col (α := α) n q st) (.hv n (-(q : Int) - 1)) = valV c s n (-(q : Int) - 1)
    ∧ (∀ l, l ≠ .hv n (-(q : Int) - 1) → (∀ m, q + 1 ≤ m → m ≤ n → l ≠ .hw n (-(q : Int) - 1) m) →
        rd (α := α) (s5col (α := α) n q st) l = rd st l) := by
  -- after the i = 0 assignment
  have f1 : ∀ l, l ≠ .hv n (-(q : Int) - 1) → rd (α := α) (s5v (α := α) n q st) l = rd st l := by
    intro l hl
    unfold s5v
    by_cases hq : q = 0
    · subst hq; rw [if_pos rfl]; exact rd_wr_ne _ _ hl
    · rw [if_neg hq]; exact rd_wr_ne _ _ hl
  have f1v : rd (s5v (α := α) n q st) (.hv n (-(q : Int) - 1)) = valV c s n (-(q : Int) - 1) := by
    unfold s5v
    by_cases hq : q = 0
    · subst hq
      have hV' : rd st (.hv n 0) = valV c s n 0 := hV
      have hB' : rd st (.hw n 0 1) = valW c s n 0 1 := hB 1 (by omega) (by omega)
      rw [if_pos rfl]
      show rd (wr st (.hv n (-1)) _) (.hv n (-1)) = _
      rw [rd_wr_same, hV1 rfl, hV', hB', valV_step5_zero]
    · rw [if_neg hq, rd_wr_same, hA q (Nat.le_refl _) (by omega) (by omega), hV, hB (q+1) (by omega) h2,
        valV_step5 c s n q (by omega)]
  -- the i loop
  let Q : Nat → μ → Prop := fun t st' =>
    (∀ m, q + 1 ≤ m → m ≤ q + t → rd st' (.hw n (-(q : Int) - 1) m) = valW c s n (-(q : Int) - 1) m)
    ∧ (∀ l, (∀ m, q + 1 ≤ m → m ≤ q + t → l ≠ .hw n (-(q : Int) - 1) m) →
        rd (α := α) st' l = rd (s5v (α := α) n q st) l)
  have key : ∀ cnt, cnt ≤ n - q - 1 → Q cnt (loopN cnt (s5cell (α := α) n q) (s5v (α := α) n q st)) := by
    intro cnt hcnt
    apply loopN_inv Q
    · exact ⟨fun m h1 h2 => by omega, fun l _ => rfl⟩
    · intro t st' ht ⟨qA, qB⟩
      have rA : ∀ m, q ≤ m → 1 ≤ m → m ≤ n →
          rd st' (.hw n (-(q : Int) + 1) m) = valW c s n (-(q : Int) + 1) m := by
        intro m hm1 hm0 hm2
        rw [qB _ (fun _ _ _ => hw_ne_of_col (by omega)), f1 _ hw_ne_hv]; exact hA m hm1 hm0 hm2
      have rB : ∀ m, q ≤ m → m ≤ n → rd st' (.hw n (-(q : Int)) m) = valW c s n (-(q : Int)) m := by
        intro m hm1 hm2
        rw [qB _ (fun _ _ _ => hw_ne_of_col (by omega)), f1 _ hw_ne_hv]; exact hB m hm1 hm2
      refine ⟨?_, ?_⟩
      · intro m hm1 hm2
        by_cases hm : m = q + (t+1)
        · subst hm
          unfold s5cell
          rw [rd_wr_same, rA _ (by omega) (by omega) (by omega), rB _ (by omega) (by omega),
            rB _ (by omega) (by omega), valW_step5mid c s n q (t+1) (by omega)]
        · unfold s5cell
          rw [rd_wr_ne _ _ (hw_ne_of_m hm)]
          exact qA m hm1 (by omega)
      · intro l hl
        unfold s5cell
        rw [rd_wr_ne _ _ (hl _ (by omega) (by omega))]
        exact qB l (fun m hm1 hm2 => hl m hm1 (by omega))
  obtain ⟨kA, kB⟩ := key (n - q - 1) (Nat.le_refl _)
  have tA : rd (loopN (n - q - 1) (s5cell (α := α) n q) (s5v (α := α) n q st)) (.hw n (-(q : Int) + 1) n)
      = valW c s n (-(q : Int) + 1) n := by
    rw [kB _ (fun _ _ _ => hw_ne_of_col (by omega)), f1 _ hw_ne_hv]
    exact hA n (by omega) (by omega) (Nat.le_refl _)
  have tB : rd (loopN (n - q - 1) (s5cell (α := α) n q) (s5v (α := α) n q st)) (.hw n (-(q : Int)) (n - 1))
      = valW c s n (-(q : Int)) (n - 1) := by
    rw [kB _ (fun _ _ _ => hw_ne_of_col (by omega)), f1 _ hw_ne_hv]; exact hB (n-1) (by omega) (by omega)
  refine ⟨?_, ?_, ?_⟩
  · intro m hm1 hm2
    unfold s5col s5top
    by_cases hm : m = n
    · subst hm
      rw [rd_wr_same, tA, tB, valW_step5top c s m q]
    · rw [rd_wr_ne _ _ (hw_ne_of_m hm)]
      exact kA m hm1 (by omega)
  · unfold s5col s5top
    rw [rd_wr_ne _ _ hv_ne_hw, kB _ (fun _ _ _ => hv_ne_hw)]
    exact f1v
  · intro l hl1 hl2
    unfold s5col s5top
    rw [rd_wr_ne _ _ (hl2 n (by omega) (Nat.le_refl _)), kB _ (fun m hm1 hm2 => hl2 m hm1 (by omega))]
    exact f1 l hl1

/-! ### one row -/

theorem s5row_spec (c s : α) (n P : Nat) (st : μ)
    (h0 : ∀ m, m ≤ n → rd st (.hw n 0 m) = valW c s n 0 m)
    (h1 : ∀ m, 1 ≤ m → m ≤ n → rd st (.hw n 1 m) = valW c s n 1 m)
    (hv0 : 1 ≤ n → rd st (.hv n 0) = valV c s n 0)
    (hv1 : 1 ≤ n → rd st (.hv n 1) = valV c s n 1) :
    (∀ q m, 1 ≤ q → q ≤ min n P → q ≤ m → m ≤ n →
        rd (s5row (α := α) P n st) (.hw n (-(q : Int)) m) = valW c s n (-(q : Int)) m)
    ∧ (∀ q, 1 ≤ q → q ≤ min n P →
        rd (s5row (α := α) P n st) (.hv n (-(q : Int))) = valV c s n (-(q : Int)))
    ∧ (∀ l, (∀ q, 1 ≤ q → q ≤ min n P → l ≠ .hv n (-(q : Int)) ∧ ∀ m, q ≤ m → m ≤ n → l ≠ .hw n (-(q : Int)) m) →
        rd (α := α) (s5row (α := α) P n st) l = rd st l) := by
  let R : Nat → μ → Prop := fun j st' =>
    (∀ q m, q ≤ j → q ≤ m → m ≤ n → rd st' (.hw n (-(q : Int)) m) = valW c s n (-(q : Int)) m)
    ∧ (∀ m, 1 ≤ m → m ≤ n → rd st' (.hw n 1 m) = valW c s n 1 m)
    ∧ (∀ q, q ≤ j → 1 ≤ n → rd st' (.hv n (-(q : Int))) = valV c s n (-(q : Int)))
    ∧ (1 ≤ n → rd st' (.hv n 1) = valV c s n 1)
    ∧ (∀ l, (∀ q, 1 ≤ q → q ≤ j → l ≠ .hv n (-(q : Int)) ∧ ∀ m, q ≤ m → m ≤ n → l ≠ .hw n (-(q : Int)) m) →
        rd (α := α) st' l = rd st l)
  have key : ∀ cnt, cnt ≤ min n P → R cnt (loopN cnt (fun q st => s5col (α := α) n q st) st) := by
    intro cnt hcnt
    apply loopN_inv R
    · refine ⟨?_, h1, ?_, hv1, fun l _ => rfl⟩
      · intro q m hq hqm hm
        have : q = 0 := by omega
        subst this; exact h0 m hm
      · intro q hq hn
        have : q = 0 := by omega
        subst this; exact hv0 hn
    · intro j st' hj ⟨rA, r1, rV, rV1, rF⟩
      have e2 : (-(j : Int) - 1) = -((j+1 : Nat) : Int) := by omega
      have hn : j + 1 ≤ n := by omega
      obtain ⟨cA, cV, cF⟩ := s5col_spec c s n j hn st'
        (fun m hm1 hm0 hm2 => by
          cases j with
          | zero => exact r1 m hm0 hm2
          | succ i =>
            rw [show (-((i+1 : Nat) : Int) + 1) = -(i : Int) by omega]
            exact rA i m (by omega) (by omega) hm2)
        (fun m hm1 hm2 => rA j m (Nat.le_refl _) hm1 hm2)
        (rV j (Nat.le_refl _) (by omega))
        (fun _ => rV1 (by omega))
      rw [e2] at cA cV cF
      refine ⟨?_, ?_, ?_, ?_, ?_⟩
      · intro q m hq hqm hm
        by_cases hq2 : q = j + 1
        · subst hq2; exact cA m hqm hm
        · rw [cF _ hw_ne_hv (fun _ _ _ => hw_ne_of_col (by omega))]
          exact rA q m (by omega) hqm hm
      · intro m hm1 hm2
        rw [cF _ hw_ne_hv (fun _ _ _ => hw_ne_of_col (by omega))]
        exact r1 m hm1 hm2
      · intro q hq hn1
        by_cases hq2 : q = j + 1
        · subst hq2; exact cV
        · rw [cF _ (hv_ne_of_k (by omega)) (fun _ _ _ => hv_ne_hw)]
          exact rV q (by omega) hn1
      · intro hn1
        rw [cF _ (hv_ne_of_k (by omega)) (fun _ _ _ => hv_ne_hw)]
        exact rV1 hn1
      · intro l hl
        rw [cF l (hl (j+1) (by omega) (by omega)).1 (fun m hm1 hm2 => (hl (j+1) (by omega) (by omega)).2 m hm1 hm2)]
        exact rF l (fun q hq1 hq2 => hl q hq1 (by omega))
  obtain ⟨kA, _, kV, _, kF⟩ := key (min n P) (Nat.le_refl _)
  exact ⟨fun q m hq1 hq2 hqm hm => kA q m hq2 hqm hm,
         fun q hq1 hq2 => kV q hq2 (by omega),
         fun l hl => kF l hl⟩

/-! ### the whole step -/

/-- Step 5 writes exactly the cells (n, -q, m) with n ≤ L, 1 ≤ q ≤ min(n,P), q ≤ m ≤ n (value `valW c s n (-q) m`)
    and the scratch cells `hv n (-q)` for the same n, q (value `valV c s n (-q)`), provided the columns
    m' = 0, 1 and `hv n 0`, `hv n 1` hold their `valW`/`valV` values; every other cell is unchanged. -/
theorem step5_refines (L P : Nat) (c s : α) (st : μ) (hL : 0 < L) (hP : 0 < P)
    (h0 : ∀ n m, n ≤ L → m ≤ n → rd st (.hw n 0 m) = valW c s n 0 m)
    (h1 : ∀ n m, 1 ≤ n → n ≤ L → 1 ≤ m → m ≤ n → rd st (.hw n 1 m) = valW c s n 1 m)
    (hv0 : ∀ n, 1 ≤ n → n ≤ L → rd st (.hv n 0) = valV c s n 0)
    (hv1 : ∀ n, 1 ≤ n → n ≤ L → rd st (.hv n 1) = valV c s n 1) :
    (∀ n q m, n ≤ L → 1 ≤ q → q ≤ min n P → q ≤ m → m ≤ n →
        rd (step5 (α := α) L P st) (.hw n (-(q : Int)) m) = valW c s n (-(q : Int)) m)
    ∧ (∀ n q, n ≤ L → 1 ≤ q → q ≤ min n P →
        rd (step5 (α := α) L P st) (.hv n (-(q : Int))) = valV c s n (-(q : Int)))
    ∧ (∀ l, (∀ n q, n ≤ L → 1 ≤ q → q ≤ min n P →
              l ≠ .hv n (-(q : Int)) ∧ ∀ m, q ≤ m → m ≤ n → l ≠ .hw n (-(q : Int)) m) →
        rd (α := α) (step5 (α := α) L P st) l = rd st l) := by
  rw [step5_eq, if_neg (by omega)]
  let S : Nat → μ → Prop := fun r st' =>
    (∀ n q m, n < r → 1 ≤ q → q ≤ min n P → q ≤ m → m ≤ n →
        rd st' (.hw n (-(q : Int)) m) = valW c s n (-(q : Int)) m)
    ∧ (∀ n q, n < r → 1 ≤ q → q ≤ min n P → rd st' (.hv n (-(q : Int))) = valV c s n (-(q : Int)))
    ∧ (∀ l, (∀ n q, n < r → 1 ≤ q → q ≤ min n P →
              l ≠ .hv n (-(q : Int)) ∧ ∀ m, q ≤ m → m ≤ n → l ≠ .hw n (-(q : Int)) m) →
        rd (α := α) st' l = rd st l)
  have key : ∀ cnt, cnt ≤ L + 1 → S cnt (loopN cnt (s5row (α := α) P) st) := by
    intro cnt hcnt
    apply loopN_inv S
    · exact ⟨fun n q m h1 => by omega, fun n q h1 => by omega, fun l _ => rfl⟩
    · intro r st' hr ⟨sA, sV, sF⟩
      obtain ⟨wA, wV, wF⟩ := s5row_spec c s r P st'
        (fun m hm => by
          rw [sF _ (fun n q _ _ _ => ⟨hw_ne_hv, fun _ _ _ => hw_ne_of_col (by omega)⟩)]
          exact h0 r m (by omega) hm)
        (fun m hm1 hm2 => by
          rw [sF _ (fun n q _ _ _ => ⟨hw_ne_hv, fun _ _ _ => hw_ne_of_col (by omega)⟩)]
          exact h1 r m (by omega) (by omega) hm1 hm2)
        (fun hr1 => by
          rw [sF _ (fun n q _ _ _ => ⟨hv_ne_of_k (by omega), fun _ _ _ => hv_ne_hw⟩)]
          exact hv0 r hr1 (by omega))
        (fun hr1 => by
          rw [sF _ (fun n q _ _ _ => ⟨hv_ne_of_k (by omega), fun _ _ _ => hv_ne_hw⟩)]
          exact hv1 r hr1 (by omega))
      refine ⟨?_, ?_, ?_⟩
      · intro n q m hn hq1 hq2 hqm hm
        by_cases hnr : n = r
        · subst hnr; exact wA q m hq1 hq2 hqm hm
        · rw [wF _ (fun _ _ _ => ⟨hw_ne_hv, fun _ _ _ => hw_ne_of_n hnr⟩)]
          exact sA n q m (by omega) hq1 hq2 hqm hm
      · intro n q hn hq1 hq2
        by_cases hnr : n = r
        · subst hnr; exact wV q hq1 hq2
        · rw [wF _ (fun _ _ _ => ⟨hv_ne_of_n hnr, fun _ _ _ => hv_ne_hw⟩)]
          exact sV n q (by omega) hq1 hq2
      · intro l hl
        rw [wF l (fun q hq1 hq2 => hl r q (by omega) hq1 hq2)]
        exact sF l (fun n q hn hq1 hq2 => hl n q (by omega) hq1 hq2)
  obtain ⟨kA, kV, kF⟩ := key (L + 1) (Nat.le_refl _)
  exact ⟨fun n q m hn => kA n q m (by omega),
         fun n q hn => kV n q (by omega),
         fun l hl => kF l (fun n q hn => hl n q (by omega))⟩

end
end HRefine
