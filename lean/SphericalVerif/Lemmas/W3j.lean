import SphericalVerif.Model.W3j
import SphericalVerif.Lemmas.Int64
import Mathlib.Tactic.Ring
import Mathlib.Tactic.Linarith
import Mathlib.Tactic.NormNum
/-! Helper lemmas for property C05 (Wigner 3-j / Clebsch-Gordan):
    * the fixed-width integer coefficient `B` and the radicand of `A` are exact (no overflow) on a
      bounded domain — proved through `wrap64` bounds on the *generated* definitions;
    * data-flow facts about the hand-written model `Model.W3j` that hold for every `Scalar α`. -/
namespace Lemmas.W3j
open Gen Lemmas

/-! ### `B` -/

theorem B_w_eq (j j2 j3 m2 m3 : Int) (hj : 0 ≤ j ∧ j ≤ 40000) (hj2 : 0 ≤ j2 ∧ j2 ≤ 20000)
    (hj3 : 0 ≤ j3 ∧ j3 ≤ 20000) (hm2 : -20001 ≤ m2 ∧ m2 ≤ 20001) (hm3 : -20001 ≤ m3 ∧ m3 ≤ 20001) :
    B_w j j2 j3 m2 m3 = B j j2 j3 m2 m3 := by
  have : Bnd j 0 40000 := ⟨hj⟩
  have : Bnd j2 0 20000 := ⟨hj2⟩
  have : Bnd j3 0 20000 := ⟨hj3⟩
  have : Bnd m2 (-20001) 20001 := ⟨hm2⟩
  have : Bnd m3 (-20001) 20001 := ⟨hm3⟩
  unfold B_w B
  simp (discharger := decide) only [wrap64_bnd]

theorem B_bnd (j j2 j3 m2 m3 : Int) (hj : 0 ≤ j ∧ j ≤ 40000) (hj2 : 0 ≤ j2 ∧ j2 ≤ 20000)
    (hj3 : 0 ≤ j3 ∧ j3 ≤ 20000) (hm2 : -20001 ≤ m2 ∧ m2 ≤ 20001) (hm3 : -20001 ≤ m3 ∧ m3 ≤ 20001) :
    -9223372036854775808 ≤ B j j2 j3 m2 m3 ∧ B j j2 j3 m2 m3 ≤ 9223372036854775807 := by
  have : Bnd j 0 40000 := ⟨hj⟩
  have : Bnd j2 0 20000 := ⟨hj2⟩
  have : Bnd j3 0 20000 := ⟨hj3⟩
  have : Bnd m2 (-20001) 20001 := ⟨hm2⟩
  have : Bnd m3 (-20001) 20001 := ⟨hm3⟩
  unfold B
  exact (inferInstance : Bnd _ _ _).weaken (by decide) (by decide)

end Lemmas.W3j
