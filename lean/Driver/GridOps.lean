/-! Line-protocol operations for the Grid glue model (filled in by the Grid model; `none` = unknown op). -/
namespace GridOps
def step (_toks : List String) : Option String := none
end GridOps
