import SphericalVerif.Model.HKernels
import SphericalVerif.Spec.Orderings
/-! Coordinate-level models of the kernels that turn H into results:
    `quaternionic.converters.ToEulerPhases`, `_complex_powers`, `_fill_wigner_d`, `_fill_wigner_D`,
    `_fill_sYlm`, `_evaluate_Horner`, `_rotate_Horner`, `_rotate` (spherical/wigner.py,
    spherical/recursions/complex_powers.py).  Same abstract scalar as `HKernels`; executed at `Float`
    they are compared bit for bit with the numba kernels.  Library operations with no IEEE-exact
    specification (`np.sqrt` of a complex, complex `**` int) are *parameters* supplied by the harness. -/
namespace Model
section
open Scalar
variable {α : Type} [Scalar α] {μ : Type} [Mem μ α]

/-- array read with a zero default (the code never reads out of range: `C15`) -/
def cget (a : Array (Cx α)) (i : Nat) : Cx α := a.getD i ⟨zero, zero⟩

/-- ϵ of spherical/recursions/wignerH.py (hand copy; `Props/C11.eps_spec` ties `Gen.ε` to this form). -/
def eps (m : Int) : Int := if m ≤ 0 then 1 else if m % 2 ≠ 0 then -1 else 1

/-- H(ℓ, m', m) for any |m'|,|m| ≤ ℓ: the stored wedge cell of the symmetry representative
    (what `Hwedge[WignerHindex(ell, mp, m, mp_max)]` reads; see `C11.hindex_fold`). -/
def Hat (st : μ) (ell : Nat) (mp m : Int) : α :=
  let r := Spec.wedgeRep mp m
  rd st (.hw ell r.1 r.2.toNat)

/-- `quaternionic.converters.ToEulerPhases`: (z[0], z[1], z[2]) = (zₐ, exp iβ, zᵧ). -/
def eulerPhases (R0 R1 R2 R3 : α) : Cx α × Cx α × Cx α :=
  let a := (R0 *. R0) +. (R3 *. R3)
  let b := (R1 *. R1) +. (R2 *. R2)
  let sqrta := sqrt a
  let sqrtb := sqrt b
  let twoJ : Cx α := ⟨zero, ofInt 2⟩
  let num : Cx α := Cx.add (Cx.ofRe (a -. b)) (Cx.mulr (Cx.mulr twoJ sqrta) sqrtb)
  let z1 := Cx.div num (Cx.ofRe (a +. b))
  let zp : Cx α :=
    if lt zero sqrta then Cx.div (Cx.add (Cx.ofRe R0) (Cx.mulr Cx.I R3)) (Cx.ofRe sqrta) else Cx.oneC
  let zm : Cx α :=
    if lt zero (abs sqrtb) then Cx.div (Cx.sub (Cx.ofRe R2) (Cx.mulr Cx.I R1)) (Cx.ofRe sqrtb) else Cx.oneC
  (Cx.mul zp zm, z1, Cx.mul zp (Cx.conj zm))

/-- the quadrant loop of `_complex_powers`: `while z.real<0 or z.imag<0: θ *= 1j; z /= 1j`
    (fuel 4; three turns always suffice, `C14.quadrant_loop_le3`). -/
def quadrant : Nat → Cx α → Cx α → Cx α × Cx α
  | 0, θ, z => (θ, z)
  | k+1, θ, z =>
    if lt z.re zero || lt z.im zero then quadrant k (Cx.mul θ Cx.I) (Cx.div z Cx.I) else (θ, z)

/-- `_complex_powers` for one z: the array z⁰ … z^M.  `imsqrt` is `np.sqrt(z_rotated).imag`
    (library complex square root: parameter). -/
def cpowers (z : Cx α) (M : Nat) (imsqrt : Cx α → α) : Array (Cx α) :=
  let out : Array (Cx α) := Array.replicate (M+1) Cx.oneC
  if M = 0 then out else
  let (θ, zr) := quadrant 4 (Cx.oneC : Cx α) z
  let out := out.set! 1 zr
  let s := imsqrt zr
  let dc : α := ofInt (-2) *. (s *. s)
  let t : α := ofInt 2 *. dc
  let dz0 : Cx α :=
    Cx.add (Cx.rmul dc (Cx.add Cx.oneC (Cx.mul (Cx.ofRe (ofInt 2)) zr)))
           (Cx.mulr Cx.I (sqrt ((neg dc) *. (ofInt 2 +. dc))))
  let (out, _, clock) := loopN (M-1) (fun k (p : Array (Cx α) × Cx α × Cx α) =>
    let m := k + 2
    let (out, dz, clock) := p
    let zm := Cx.add (cget out (m-1)) dz
    let out := out.set! m zm
    let dz := Cx.add dz (Cx.rmul t zm)
    let out := out.set! (m-1) (Cx.mul (cget out (m-1)) clock)
    (out, dz, Cx.mul clock θ)) (out, dz0, θ)
  out.set! M (Cx.mul (cget out (M)) clock)

/-- entry (ℓ, m', m) of `_fill_wigner_d`'s output -/
def dEntry (st : μ) (ell : Nat) (mp m : Int) : α :=
  ofInt (eps mp * eps (-m)) *. Hat (α := α) st ell mp m

/-- entry (ℓ, m', m) of `_fill_wigner_D`'s output (four sign quadrants as in the code) -/
def DEntry (st : μ) (za zg : Array (Cx α)) (ell : Nat) (mp m : Int) : Cx α :=
  let h : α := ofInt (eps mp * eps (-m)) *. Hat (α := α) st ell mp m
  let g : Cx α := if m < 0 then Cx.conj (cget zg ((-m).toNat)) else (cget zg (m.toNat))
  let a : Cx α := if mp < 0 then Cx.conj (cget za ((-mp).toNat)) else (cget za (mp.toNat))
  Cx.mul (Cx.rmul h g) a

/-- entry (ℓ, m) of `_fill_sYlm`'s output; `zgpow` is `z[2]**abs(s)` (library complex power: parameter).
    Entries with ℓ < max(|s|, ell_min) are the literal 0. -/
def sYlmEntry (st : μ) (za : Array (Cx α)) (zgpow : Cx α) (s : Int) (ell : Nat) (m : Int) : Cx α :=
  if (ell : Int) < (s.natAbs : Int) then ⟨zero, zero⟩ else
  let c1 : Cx α := if 0 ≤ s then Cx.conj zgpow else Cx.mul (Cx.ofRe (ofInt ((-1) ^ s.natAbs))) zgpow
  let c2 : Cx α := Cx.mulr c1 (sqrt (ofInt (2 * (ell : Int) + 1) *. inv4pi))
  let h : α := Hat (α := α) st ell m (-s)
  if m < 0 then Cx.mul (Cx.mulr c2 h) (Cx.conj (cget za ((-m).toNat)))
  else Cx.mul (Cx.mulr (Cx.mul c2 (Cx.ofRe (ofInt (eps m)))) h) (cget za (m.toNat))

/-- mode weight f_{ℓ,m} of a weight vector stored from ℓ = 0 (Modes objects always have ell_min 0) -/
def fAt (f : Array (Cx α)) (ell : Nat) (m : Int) : Cx α := (cget f (((ell : Int) * (ell + 1) + m).toNat))

/-- the per-ℓ Horner accumulation of `_evaluate_Horner` (before the √((2ℓ+1)/4π) factor) -/
def evalEll (st : μ) (f : Array (Cx α)) (za : Cx α) (s : Int) (ell : Nat) : Cx α :=
  let zab := Cx.conj za
  let f0 : Cx α := Cx.mulr (fAt f ell 0) (Hat (α := α) st ell 0 (-s))
  if ell = 0 then f0 else
  let e0 : Int := (-1) ^ ell
  let neg0 : Cx α := Cx.mulr (fAt f ell (-(ell : Int))) (Hat (α := α) st ell (-(ell : Int)) (-s))
  let pos0 : Cx α := Cx.mulr (Cx.mul (Cx.ofRe (ofInt e0)) (fAt f ell ell)) (Hat (α := α) st ell ell (-s))
  let (neg, pos, _) := loopN (ell - 1) (fun k (p : Cx α × Cx α × Int) =>
    let m : Int := (ell : Int) - 1 - k
    let (neg, pos, e) := p
    let e := e * (-1)
    let neg := Cx.add (Cx.mul neg zab) (Cx.mulr (fAt f ell (-m)) (Hat (α := α) st ell (-m) (-s)))
    let pos := Cx.add (Cx.mul pos za) (Cx.mulr (Cx.mul (Cx.ofRe (ofInt e)) (fAt f ell m)) (Hat (α := α) st ell m (-s)))
    (neg, pos, e)) (neg0, pos0, e0)
  Cx.add (Cx.add f0 (Cx.mul neg zab)) (Cx.mul pos za)

/-- `_evaluate_Horner` for one row of mode weights and one rotor.  `init` is what the output cell held
    on entry (the kernel accumulates into it), `zgpow` is `zᵧ.conjugate()**s` (parameter). -/
def evaluateHorner (st : μ) (f : Array (Cx α)) (za : Cx α) (zgpow : Cx α) (s : Int) (ellMax : Nat) (init : Cx α) : Cx α :=
  let lo := s.natAbs
  let acc := loopN (ellMax + 1 - lo) (fun k (acc : Cx α) =>
    let ell := lo + k
    let fe := evalEll (α := α) st f za s ell
    Cx.add acc (Cx.mulr fe (sqrt (ofInt (2 * (ell : Int) + 1) *. inv4pi)))) init
  let coeff : Cx α := Cx.mul (Cx.ofRe (ofInt ((-1) ^ s.natAbs * eps s))) zgpow
  Cx.mul acc coeff

/-- `_evaluate_Horner` as shipped: the kernel first sets its output cell to 0 (`f[0] = 0.0`), so whatever the cell
    held before (`prev`: a caller-supplied `out` array) is discarded. -/
def evaluateHornerK (st : μ) (f : Array (Cx α)) (za : Cx α) (zgpow : Cx α) (s : Int) (ellMax : Nat) (prev : Cx α) : Cx α :=
  let _ := prev
  evaluateHorner (α := α) st f za zgpow s ellMax ⟨zero, zero⟩

/-- `_rotate_Horner`: output weight (ℓ, m) for one row of mode weights.  `zgpow m` is `zᵧ**m` (parameter). -/
def rotateHornerEntry (st : μ) (f : Array (Cx α)) (za : Cx α) (zgpow : Int → Cx α) (ell : Nat) (m : Int) : Cx α :=
  let zab := Cx.conj za
  let f0 : Cx α := Cx.mulr (fAt f ell 0) (Hat (α := α) st ell 0 m)
  let body : Cx α :=
    if ell = 0 then f0 else
    let e0 : Int := (-1) ^ ell
    let neg0 : Cx α := Cx.mulr (fAt f ell (-(ell : Int))) (Hat (α := α) st ell (-(ell : Int)) m)
    let pos0 : Cx α := Cx.mulr (Cx.mul (Cx.ofRe (ofInt e0)) (fAt f ell ell)) (Hat (α := α) st ell ell m)
    let (neg, pos, _) := loopN (ell - 1) (fun k (p : Cx α × Cx α × Int) =>
      let n : Int := (ell : Int) - 1 - k
      let (neg, pos, e) := p
      let e := e * (-1)
      let neg := Cx.add (Cx.mul neg zab) (Cx.mulr (fAt f ell (-n)) (Hat (α := α) st ell (-n) m))
      let pos := Cx.add (Cx.mul pos za) (Cx.mulr (Cx.mul (Cx.ofRe (ofInt e)) (fAt f ell n)) (Hat (α := α) st ell n m))
      (neg, pos, e)) (neg0, pos0, e0)
    Cx.add (Cx.add f0 (Cx.mul neg zab)) (Cx.mul pos za)
  Cx.mul body (Cx.mul (Cx.ofRe (ofInt (eps (-m)))) (zgpow m))

end
end Model
