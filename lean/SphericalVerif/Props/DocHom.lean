import SphericalVerif.Props.DHom
import SphericalVerif.Lemmas.DocHom
/-! DocHom — the group laws of the DOCUMENTED Wigner D matrix `DDef.docD` (docs/WignerDMatrices.md, Eq. "DAnalytically")
    for EVERY ℓ.  Generalises the ℓ = 1, 2 theorems `docD_hom_ell*`, `docD_unitary_ell*`, `docD_inverse_neg_ell*` of
    `Props/DHom.lean` (same statements, same index set `Finset.Icc (−ℓ) ℓ`, same order of factors, with 1 / 2
    replaced by ℓ).

    Property theorems only; helpers live in `Lemmas/DocHom1.lean` (polynomials) and `Lemmas/DocHom.lean`.

    Method (`DocHom.docD_eq_coeff`): for |m'|, |m| ≤ ℓ the ρ-sum of the documented formula is the coefficient of
    t^{ℓ−m} of (A − conj(B) t)^{ℓ+m'} (B + conj(A) t)^{ℓ−m'}, so that, up to the factor √[(ℓ+m)!(ℓ−m)!/((ℓ+m')!(ℓ−m')!)],
    D^ℓ(A, B) is the matrix of the substitution x ↦ A x − conj(B) y, y ↦ B x + conj(A) y on binary forms of degree 2ℓ
    in the monomial basis.  Substitution is functorial (`DocHom.coeff_gen_comp`) — the representation property;
    transposing the 2×2 matrix transposes the normalised matrix (`DocHom.coeff_gen_transpose`) — the inverse law.

    Proved for all ℓ : ℕ and all |m'|, |m| ≤ ℓ, for ALL complex A = R_a, B = R_b (no unit-norm hypothesis, the
    identities are polynomial) except where stated:
      * `docD_hom`         D(A₁A₂ − conj(B₁)B₂, B₁A₂ + conj(A₁)B₂) = D(A₁, B₁)·D(A₂, B₂)
      * `docD_diag`        D(A, 0)_{m',m} = δ_{m',m} A^{ℓ+m'} conj(A)^{ℓ−m'};  `docD_identity`  D(1, 0) = 1;
                           `docD_corner`  D(A, B)_{ℓ,ℓ} = A^{2ℓ}
      * `docD_inverse`     D(conj A, −B)_{m',m} = conj D(A, B)_{m,m'}
      * `docD_unitary_gen` D·D† = (|A|² + |B|²)^{2ℓ}·1;  `docD_unitary`  D·D† = 1 when |A|² + |B|² = 1
      * `docD_neg`         D(−A, −B) = D(A, B)
      * `docD_conj_symm`   D(A, B)_{−m',−m} = (−1)^{m'+m} conj D(A, B)_{m',m}
      * `docD_hom_quat`, `docD_inverse_quat`, `docD_neg_quat`, `docD_unitary_quat`
                           the same in terms of rotors (`DHom.qmul`, `qconj`, `qneg`; `QA R = R_a`, `QB R = R_b`)
    NOT proved here: that the model `Model.objD` of `Wigner.D` equals `docD` for ℓ ≥ 3 (see `Props/DDef*.lean`). -/
noncomputable section
namespace DocHom
open Model DDef DHom
open scoped ComplexConjugate

/-! ### 1. the documented sum is a representation, every ℓ (polynomial identity: no unit-norm hypothesis) -/

/-- D(A₁₂, B₁₂) = D(A₁, B₁)·D(A₂, B₂) with A₁₂ = A₁A₂ − conj(B₁)B₂, B₁₂ = B₁A₂ + conj(A₁)B₂ (the composition law
    `DHom.Ra_mul`, `DHom.Rb_mul` of R_a, R_b under the quaternion product), for ALL complex A₁, B₁, A₂, B₂ -/
theorem docD_hom (ℓ : ℕ) (A1 B1 A2 B2 : ℂ) (mp m : ℤ) (hmp : mp.natAbs ≤ ℓ) (hm : m.natAbs ≤ ℓ) :
    docD ℓ (A1 * A2 - conj B1 * B2) (B1 * A2 + conj A1 * B2) mp m
      = ∑ k ∈ Finset.Icc (-(ℓ : ℤ)) ℓ, docD ℓ A1 B1 mp k * docD ℓ A2 B2 k m :=
  hom_docD ℓ A1 B1 A2 B2 mp m hmp hm

/-! ### 2. identity -/

/-- a rotor with R_b = 0 (a rotation about z) has a diagonal matrix -/
theorem docD_diag (ℓ : ℕ) (A : ℂ) (mp m : ℤ) (hmp : mp.natAbs ≤ ℓ) (hm : m.natAbs ≤ ℓ) :
    docD ℓ A 0 mp m = if mp = m then A ^ ((ℓ : ℤ) + mp).toNat * conj A ^ ((ℓ : ℤ) - mp).toNat else 0 :=
  diag_docD ℓ A mp m hmp hm

/-- the identity rotor (1, 0, 0, 0): R_a = 1, R_b = 0 -/
theorem docD_identity (ℓ : ℕ) (mp m : ℤ) (hmp : mp.natAbs ≤ ℓ) (hm : m.natAbs ≤ ℓ) :
    docD ℓ 1 0 mp m = if mp = m then 1 else 0 :=
  identity_docD ℓ mp m hmp hm

/-- the corner entry: D_{ℓ,ℓ} = R_a^{2ℓ} -/
theorem docD_corner (ℓ : ℕ) (A B : ℂ) : docD ℓ A B ℓ ℓ = A ^ (2 * ℓ) :=
  corner_docD ℓ A B

/-! ### 3. inverse, unitarity -/

/-- D(conj A, −B) is the conjugate transpose of D(A, B) (the inverse rotor has R_a ↦ conj R_a, R_b ↦ −R_b,
    `DHom.Ra_Rb_conj_neg`); ALL complex A, B -/
theorem docD_inverse (ℓ : ℕ) (A B : ℂ) (mp m : ℤ) (hmp : mp.natAbs ≤ ℓ) (hm : m.natAbs ≤ ℓ) :
    docD ℓ (conj A) (-B) mp m = conj (docD ℓ A B m mp) :=
  inverse_docD ℓ A B mp m hmp hm

/-- D·D† = (|A|² + |B|²)^{2ℓ} · 1 for ALL complex A, B -/
theorem docD_unitary_gen (ℓ : ℕ) (A B : ℂ) (mp m : ℤ) (hmp : mp.natAbs ≤ ℓ) (hm : m.natAbs ≤ ℓ) :
    ∑ k ∈ Finset.Icc (-(ℓ : ℤ)) ℓ, docD ℓ A B mp k * conj (docD ℓ A B m k)
      = if mp = m then (A * conj A + B * conj B) ^ (2 * ℓ) else 0 :=
  unitary_gen_docD ℓ A B mp m hmp hm

/-- the rows of D(A, B) are orthonormal when |A|² + |B|² = 1 -/
theorem docD_unitary (ℓ : ℕ) (A B : ℂ) (hAB : A * conj A + B * conj B = 1) (mp m : ℤ) (hmp : mp.natAbs ≤ ℓ)
    (hm : m.natAbs ≤ ℓ) :
    ∑ k ∈ Finset.Icc (-(ℓ : ℤ)) ℓ, docD ℓ A B mp k * conj (docD ℓ A B m k) = if mp = m then 1 else 0 :=
  unitary_docD ℓ A B hAB mp m hmp hm

/-- D(A, B)·D(conj A, −B) = 1 when |A|² + |B|² = 1: from `docD_hom` and `docD_identity` alone -/
theorem docD_mul_inverse (ℓ : ℕ) (A B : ℂ) (hAB : A * conj A + B * conj B = 1) (mp m : ℤ) (hmp : mp.natAbs ≤ ℓ)
    (hm : m.natAbs ≤ ℓ) :
    ∑ k ∈ Finset.Icc (-(ℓ : ℤ)) ℓ, docD ℓ A B mp k * docD ℓ (conj A) (-B) k m = if mp = m then 1 else 0 := by
  rw [← docD_hom ℓ A B (conj A) (-B) mp m hmp hm, ← docD_identity ℓ mp m hmp hm]
  congr 1
  · rw [← hAB]; ring
  · ring

/-! ### 4. the two rotors ±R of one rotation -/

/-- D(−A, −B) = D(A, B): the total degree 2ℓ is even -/
theorem docD_neg (ℓ : ℕ) (A B : ℂ) (mp m : ℤ) (hmp : mp.natAbs ≤ ℓ) (hm : m.natAbs ≤ ℓ) :
    docD ℓ (-A) (-B) mp m = docD ℓ A B mp m :=
  neg_docD ℓ A B mp m hmp hm

/-! ### 5. the symmetry (m', m) ↦ (−m', −m) -/

/-- D_{−m',−m} = (−1)^{m'+m} conj D_{m',m} (integer power of −1) -/
theorem docD_conj_symm (ℓ : ℕ) (A B : ℂ) (mp m : ℤ) (hmp : mp.natAbs ≤ ℓ) (hm : m.natAbs ≤ ℓ) :
    docD ℓ A B (-mp) (-m) = (-1 : ℂ) ^ (mp + m) * conj (docD ℓ A B mp m) :=
  conj_symm_docD ℓ A B mp m hmp hm

/-- the same with the sign as a natural power, (−1)^{(ℓ+m') + (ℓ+m)} -/
theorem docD_conj_symm_nat (ℓ : ℕ) (A B : ℂ) (mp m : ℤ) (hmp : mp.natAbs ≤ ℓ) (hm : m.natAbs ≤ ℓ) :
    docD ℓ A B (-mp) (-m)
      = (-1) ^ (((ℓ : ℤ) + mp).toNat + ((ℓ : ℤ) + m).toNat) * conj (docD ℓ A B mp m) :=
  conj_symm_nat_docD ℓ A B mp m hmp hm

/-! ### 6. in terms of rotors -/

/-- 𝔇(PQ) = 𝔇(P)·𝔇(Q) for the documented matrices of ANY two quaternions (unit or not) -/
theorem docD_hom_quat (ℓ : ℕ) (P Q : Quat ℝ) (mp m : ℤ) (hmp : mp.natAbs ≤ ℓ) (hm : m.natAbs ≤ ℓ) :
    docD ℓ (QA (qmul P Q)) (QB (qmul P Q)) mp m
      = ∑ k ∈ Finset.Icc (-(ℓ : ℤ)) ℓ, docD ℓ (QA P) (QB P) mp k * docD ℓ (QA Q) (QB Q) k m := by
  rw [QA_mul, QB_mul]
  exact docD_hom ℓ _ _ _ _ mp m hmp hm

/-- 𝔇(R̄)_{m',m} = conj 𝔇(R)_{m,m'} -/
theorem docD_inverse_quat (ℓ : ℕ) (R : Quat ℝ) (mp m : ℤ) (hmp : mp.natAbs ≤ ℓ) (hm : m.natAbs ≤ ℓ) :
    docD ℓ (QA (qconj R)) (QB (qconj R)) mp m = conj (docD ℓ (QA R) (QB R) m mp) := by
  rw [QA_conj, QB_conj]
  exact docD_inverse ℓ _ _ mp m hmp hm

/-- 𝔇(−R) = 𝔇(R) -/
theorem docD_neg_quat (ℓ : ℕ) (R : Quat ℝ) (mp m : ℤ) (hmp : mp.natAbs ≤ ℓ) (hm : m.natAbs ≤ ℓ) :
    docD ℓ (QA (qneg R)) (QB (qneg R)) mp m = docD ℓ (QA R) (QB R) mp m := by
  rw [QA_neg, QB_neg]
  exact docD_neg ℓ _ _ mp m hmp hm

/-- the documented matrix of a unit quaternion is unitary -/
theorem docD_unitary_quat (ℓ : ℕ) (R : Quat ℝ) (hR : R.w ^ 2 + R.x ^ 2 + R.y ^ 2 + R.z ^ 2 = 1) (mp m : ℤ)
    (hmp : mp.natAbs ≤ ℓ) (hm : m.natAbs ≤ ℓ) :
    ∑ k ∈ Finset.Icc (-(ℓ : ℤ)) ℓ, docD ℓ (QA R) (QB R) mp k * conj (docD ℓ (QA R) (QB R) m k)
      = if mp = m then 1 else 0 :=
  docD_unitary ℓ _ _ (QAB_unit R hR) mp m hmp hm

/-! ### sanity: the ℓ = 1, 2 theorems of `Props/DHom.lean` are instances -/

/-- `DHom.docD_hom_ell1`, re-derived -/
example (A1 B1 A2 B2 : ℂ) (mp m : ℤ) (hmp : mp.natAbs ≤ 1) (hm : m.natAbs ≤ 1) :
    docD 1 (A1 * A2 - conj B1 * B2) (B1 * A2 + conj A1 * B2) mp m
      = ∑ k ∈ Finset.Icc (-1 : ℤ) 1, docD 1 A1 B1 mp k * docD 1 A2 B2 k m :=
  docD_hom 1 A1 B1 A2 B2 mp m hmp hm

/-- `DHom.docD_hom_ell2`, re-derived -/
example (A1 B1 A2 B2 : ℂ) (mp m : ℤ) (hmp : mp.natAbs ≤ 2) (hm : m.natAbs ≤ 2) :
    docD 2 (A1 * A2 - conj B1 * B2) (B1 * A2 + conj A1 * B2) mp m
      = ∑ k ∈ Finset.Icc (-2 : ℤ) 2, docD 2 A1 B1 mp k * docD 2 A2 B2 k m :=
  docD_hom 2 A1 B1 A2 B2 mp m hmp hm

/-- `DHom.docD_unitary_ell1`, `DHom.docD_unitary_ell2`, re-derived -/
example (A B : ℂ) (mp m : ℤ) (hmp : mp.natAbs ≤ 1) (hm : m.natAbs ≤ 1) :
    ∑ k ∈ Finset.Icc (-1 : ℤ) 1, docD 1 A B mp k * conj (docD 1 A B m k)
      = if mp = m then (A * conj A + B * conj B) ^ 2 else 0 :=
  docD_unitary_gen 1 A B mp m hmp hm
example (A B : ℂ) (mp m : ℤ) (hmp : mp.natAbs ≤ 2) (hm : m.natAbs ≤ 2) :
    ∑ k ∈ Finset.Icc (-2 : ℤ) 2, docD 2 A B mp k * conj (docD 2 A B m k)
      = if mp = m then (A * conj A + B * conj B) ^ 4 else 0 :=
  docD_unitary_gen 2 A B mp m hmp hm

/-- `DHom.docD_inverse_neg_ell1`, `DHom.docD_inverse_neg_ell2`, re-derived -/
example (A B : ℂ) (mp m : ℤ) (hmp : mp.natAbs ≤ 1) (hm : m.natAbs ≤ 1) :
    docD 1 (conj A) (-B) mp m = conj (docD 1 A B m mp) ∧ docD 1 (-A) (-B) mp m = docD 1 A B mp m :=
  ⟨docD_inverse 1 A B mp m hmp hm, docD_neg 1 A B mp m hmp hm⟩
example (A B : ℂ) (mp m : ℤ) (hmp : mp.natAbs ≤ 2) (hm : m.natAbs ≤ 2) :
    docD 2 (conj A) (-B) mp m = conj (docD 2 A B m mp) ∧ docD 2 (-A) (-B) mp m = docD 2 A B mp m :=
  ⟨docD_inverse 2 A B mp m hmp hm, docD_neg 2 A B mp m hmp hm⟩

/-- an instance with content, ℓ = 3 (beyond the brute-force range): the corner entry of a product,
    D³(A, B)_{3,3} = A⁶ (`docD_corner`), so (A₁A₂ − conj(B₁)B₂)⁶ = Σ_k D³(A₁,B₁)_{3,k} D³(A₂,B₂)_{k,3} -/
example (A1 B1 A2 B2 : ℂ) :
    (A1 * A2 - conj B1 * B2) ^ 6 = ∑ k ∈ Finset.Icc (-3 : ℤ) 3, docD 3 A1 B1 3 k * docD 3 A2 B2 k 3 := by
  have h := docD_hom 3 A1 B1 A2 B2 3 3 (by decide) (by decide)
  rw [show ((3 : ℤ)) = ((3 : ℕ) : ℤ) from rfl, docD_corner 3] at h
  exact h

/-- the symmetry at (m', m) = (1, 0): D_{−1,0} = −conj D_{1,0}, every ℓ ≥ 1 -/
example (ℓ : ℕ) (hℓ : 1 ≤ ℓ) (A B : ℂ) : docD ℓ A B (-1) 0 = -conj (docD ℓ A B 1 0) := by
  have h := docD_conj_symm ℓ A B 1 0 (by simpa using hℓ) (by simp)
  simpa using h

end DocHom
end
