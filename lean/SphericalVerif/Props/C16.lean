import SphericalVerif.Lemmas.Grid
/-! C16 — spin-weight bookkeeping of `spherical.Grid` arithmetic.

    Property theorems only (helpers: `Lemmas/Grid.lean`).  Statements are about the executable model
    `Model/Grid.lean` — a branch-by-branch transcription of `Grid.__new__`, `Grid.__array_ufunc__`,
    `_check_broadcasting` and the method forms of `grid/algebra.py` — which is tied to the real class by
    the correspondence harness `vlib/glue_grid.py` (generated operations executed on real `Grid`
    objects and on the model through the compiled driver; outcomes compared string for string).

    Every theorem holds for ALL spin weights (`Int`), all grid sizes and all leading shapes.
    Reading guide: `dispatch c` is what numpy's override protocol obtains from `Grid.__array_ufunc__`
    for the call `c` (first component: returned value / raised exception; second component: the new
    `_metadata` of `out[0]` if it was rebound); `call2 uf a b` is `uf(a, b)` and `call1 uf a` is `uf(a)`
    (no `out=`, no keywords); `freshGrid s nt np lead extra k` is a returned *new* Grid object of spin
    weight `s` on an `nt × np` grid whose `_metadata` is the `k`-th dict allocated during the call;
    `enough s nt np` is the constructor's requirement `n_theta, n_phi ≥ 2|s|+1`;
    `Res.notImplemented` is the `NotImplemented` singleton (numpy then raises `TypeError`). -/
namespace C16
open Model.Grid

/-! ## Grid × Grid -/

/-- `np.multiply(g1, g2)`: spin weights add. -/
theorem multiply_spin (g1 g2 : G) (l : List Nat) (hnt : g1.nTheta = g2.nTheta) (hnp : g1.nPhi = g2.nPhi)
    (hl : broadcast g1.lead g2.lead = some l) (he : enough (g1.spin + g2.spin) g1.nTheta g1.nPhi) :
    dispatch (call2 .multiply (.grid g1) (.grid g2)) =
      some (freshGrid (g1.spin + g2.spin) g1.nTheta g1.nPhi l g1.extra 1, none) := by
  rw [call2, dispatch_first_grid, arrayUfunc_multiply _ _ rfl rfl]
  simp only [finish_call, mulDiv_gg true [] hnt hnp hl, outcome_enough' he, ↓reduceIte]

example : dispatch (call2 .multiply (.grid { spin := 2, nTheta := 5, nPhi := 7, lead := [3] })
      (.grid { spin := -1, nTheta := 5, nPhi := 7, metaId := 1 })) = some (freshGrid 1 5 7 [3] [] 1, none) :=
  multiply_spin _ _ [3] rfl rfl (by decide) (by decide)

/-- `np.divide(g1, g2)` / `np.true_divide(g1, g2)`: spin weights subtract. -/
theorem divide_spin (uf : UF) (hu : uf = .divide ∨ uf = .true_divide) (g1 g2 : G) (l : List Nat)
    (hnt : g1.nTheta = g2.nTheta) (hnp : g1.nPhi = g2.nPhi) (hl : broadcast g1.lead g2.lead = some l)
    (he : enough (g1.spin - g2.spin) g1.nTheta g1.nPhi) :
    dispatch (call2 uf (.grid g1) (.grid g2)) =
      some (freshGrid (g1.spin - g2.spin) g1.nTheta g1.nPhi l g1.extra 1, none) := by
  rw [call2, dispatch_first_grid, arrayUfunc_divide _ _ rfl hu]
  simp only [finish_call, mulDiv_gg false [] hnt hnp hl, outcome_enough' he, Bool.false_eq_true, ↓reduceIte]

example : dispatch (call2 .true_divide (.grid { spin := 2, nTheta := 7, nPhi := 7 })
      (.grid { spin := -1, nTheta := 7, nPhi := 7, lead := [2] })) = some (freshGrid 3 7 7 [2] [] 1, none) :=
  divide_spin _ (Or.inr rfl) _ _ [2] rfl rfl (by decide) (by decide)

/-- `np.add(g1, g2)` / `np.subtract(g1, g2)` with EQUAL spin weights: that spin weight. -/
theorem add_sub_equal_spin (uf : UF) (hu : uf = .add ∨ uf = .subtract) (g1 g2 : G) (l : List Nat)
    (hs : g1.spin = g2.spin) (hnt : g1.nTheta = g2.nTheta) (hnp : g1.nPhi = g2.nPhi)
    (hl : broadcast g1.lead g2.lead = some l) (he : enough g1.spin g1.nTheta g1.nPhi) :
    dispatch (call2 uf (.grid g1) (.grid g2)) = some (freshGrid g1.spin g1.nTheta g1.nPhi l g1.extra 0, none) := by
  rw [call2, dispatch_first_grid, arrayUfunc_addSub _ _ rfl hu]
  simp only [finish_call, addSub_gg [] hs hnt hnp hl, outcome_enough' he]

example : dispatch (call2 .subtract (.grid { spin := -2, nTheta := 5, nPhi := 5 })
      (.grid { spin := -2, nTheta := 5, nPhi := 5 })) = some (freshGrid (-2) 5 5 [] [] 0, none) :=
  add_sub_equal_spin _ (Or.inr rfl) _ _ [] rfl rfl rfl (by decide) (by decide)

/-- `np.add(g1, g2)` / `np.subtract(g1, g2)` with DIFFERENT spin weights raise `ValueError`
    (whatever the shapes, `out=` and ufunc method are). -/
theorem add_sub_spin_mismatch (uf : UF) (hu : uf = .add ∨ uf = .subtract) (g1 g2 : G) (hs : g1.spin ≠ g2.spin)
    (m : Meth) (out : Option OutArg) :
    dispatch { uf := uf, meth := m, args := [.grid g1, .grid g2], out := out } = some (.raises .spinMismatch, none) ∧
    Err.spinMismatch.pyClass = .ValueError := by
  refine ⟨?_, rfl⟩
  rw [dispatch_first_grid, arrayUfunc_addSub _ _ rfl hu]
  simp only [addSub_gg_spin [] out hs, finish_reject]

example : dispatch { uf := .add, args := [.grid { spin := 1, nTheta := 5, nPhi := 5 }, .grid { spin := 0, nTheta := 5, nPhi := 5 }] }
    = some (.raises .spinMismatch, none) :=
  (add_sub_spin_mismatch _ (Or.inl rfl) _ _ (by decide) .call none).1

/-- Mismatched `n_theta` / `n_phi`: every binary Grid × Grid ufunc raises `ValueError`
    (for add/subtract the spin check comes first and raises `ValueError` as well). -/
theorem grid_shape_mismatch (uf : UF)
    (hu : uf = .add ∨ uf = .subtract ∨ uf = .multiply ∨ uf = .divide ∨ uf = .true_divide) (g1 g2 : G)
    (hsh : g1.nTheta ≠ g2.nTheta ∨ g1.nPhi ≠ g2.nPhi) (m : Meth) (out : Option OutArg) :
    ∃ e, dispatch { uf := uf, meth := m, args := [.grid g1, .grid g2], out := out } = some (.raises e, none) ∧
      e.pyClass = .ValueError ∧ (e = .shapeMismatch ∨ (e = .spinMismatch ∧ g1.spin ≠ g2.spin)) := by
  rw [dispatch_first_grid]
  rcases hu with h | h | h | h | h <;> subst h
  · by_cases hs : g1.spin = g2.spin
    · refine ⟨.shapeMismatch, ?_, rfl, Or.inl rfl⟩
      rw [arrayUfunc_addSub _ _ rfl (Or.inl rfl)]; simp only [addSub_gg_shape [] out hs hsh, finish_reject]
    · refine ⟨.spinMismatch, ?_, rfl, Or.inr ⟨rfl, hs⟩⟩
      rw [arrayUfunc_addSub _ _ rfl (Or.inl rfl)]; simp only [addSub_gg_spin [] out hs, finish_reject]
  · by_cases hs : g1.spin = g2.spin
    · refine ⟨.shapeMismatch, ?_, rfl, Or.inl rfl⟩
      rw [arrayUfunc_addSub _ _ rfl (Or.inr rfl)]; simp only [addSub_gg_shape [] out hs hsh, finish_reject]
    · refine ⟨.spinMismatch, ?_, rfl, Or.inr ⟨rfl, hs⟩⟩
      rw [arrayUfunc_addSub _ _ rfl (Or.inr rfl)]; simp only [addSub_gg_spin [] out hs, finish_reject]
  · refine ⟨.shapeMismatch, ?_, rfl, Or.inl rfl⟩
    rw [arrayUfunc_multiply _ _ rfl rfl]; simp only [mulDiv_gg_shape true [] out hsh, finish_reject]
  · refine ⟨.shapeMismatch, ?_, rfl, Or.inl rfl⟩
    rw [arrayUfunc_divide _ _ rfl (Or.inl rfl)]; simp only [mulDiv_gg_shape false [] out hsh, finish_reject]
  · refine ⟨.shapeMismatch, ?_, rfl, Or.inl rfl⟩
    rw [arrayUfunc_divide _ _ rfl (Or.inr rfl)]; simp only [mulDiv_gg_shape false [] out hsh, finish_reject]

example : ∃ e, dispatch { uf := .multiply, args := [.grid { spin := 0, nTheta := 5, nPhi := 5 }, .grid { spin := 0, nTheta := 5, nPhi := 6 }] }
    = some (.raises e, none) ∧ e.pyClass = .ValueError ∧ (e = .shapeMismatch ∨ (e = .spinMismatch ∧ (0 : Int) ≠ 0)) :=
  grid_shape_mismatch .multiply (by simp) { spin := 0, nTheta := 5, nPhi := 5 } { spin := 0, nTheta := 5, nPhi := 6 } (by decide) .call none

/-- A product / quotient whose spin weight needs more grid points than there are RAISES: every result is
    rebuilt by `type(self)(array, **metadata)`, i.e. goes through `__new__` again. -/
theorem too_few_points_raises (g1 g2 : G) (l : List Nat) (hnt : g1.nTheta = g2.nTheta) (hnp : g1.nPhi = g2.nPhi)
    (hl : broadcast g1.lead g2.lead = some l) :
    (¬ enough (g1.spin + g2.spin) g1.nTheta g1.nPhi →
      dispatch (call2 .multiply (.grid g1) (.grid g2)) = some (.raises .tooSmall, none)) ∧
    (¬ enough (g1.spin - g2.spin) g1.nTheta g1.nPhi →
      dispatch (call2 .divide (.grid g1) (.grid g2)) = some (.raises .tooSmall, none)) := by
  constructor <;> intro he <;> rw [call2, dispatch_first_grid]
  · rw [arrayUfunc_multiply _ _ rfl rfl]
    simp only [finish_call, mulDiv_gg true [] hnt hnp hl, ↓reduceIte, outcome_tooSmall he]
  · rw [arrayUfunc_divide _ _ rfl (Or.inl rfl)]
    simp only [finish_call, mulDiv_gg false [] hnt hnp hl, Bool.false_eq_true, ↓reduceIte, outcome_tooSmall he]

example : dispatch (call2 .multiply (.grid { spin := 2, nTheta := 5, nPhi := 5 }) (.grid { spin := 1, nTheta := 5, nPhi := 5 }))
    = some (.raises .tooSmall, none) :=
  (too_few_points_raises _ _ [] rfl rfl (by decide)).1 (by decide)
example : dispatch (call2 .divide (.grid { spin := 2, nTheta := 5, nPhi := 5 }) (.grid { spin := -1, nTheta := 5, nPhi := 5 }))
    = some (.raises .tooSmall, none) :=
  (too_few_points_raises { spin := 2, nTheta := 5, nPhi := 5 } { spin := -1, nTheta := 5, nPhi := 5 } [] rfl rfl (by decide)).2 (by decide)

/-! ## unary ufuncs -/

/-- `np.conj` / `np.conjugate` / `np.reciprocal`: spin weight `-s`. -/
theorem conj_reciprocal_spin (uf : UF) (hu : uf = .conj ∨ uf = .conjugate ∨ uf = .reciprocal) (g : G)
    (he : enough g.spin g.nTheta g.nPhi) :
    dispatch (call1 uf (.grid g)) = some (freshGrid (-g.spin) g.nTheta g.nPhi g.lead g.extra 1, none) := by
  have he' : enough (-g.spin) g.nTheta g.nPhi := enough_neg.mpr he
  have hr : unaryRule uf = some (fun s => some (-s)) := by rcases hu with h | h | h <;> subst h <;> rfl
  rw [call1, dispatch_first_grid, arrayUfunc_unary hr _ _ rfl rfl]
  simp only [finish_call, unary_g (fun s => some (-s)) [] (s := -g.spin) rfl, outcome_enough' he']

example : dispatch (call1 .reciprocal (.grid { spin := 3, nTheta := 7, nPhi := 8 })) = some (freshGrid (-3) 7 8 [] [] 1, none) :=
  conj_reciprocal_spin _ (by simp) _ (by decide)

/-- `np.absolute`: spin weight 0 (on any non-empty grid). -/
theorem absolute_spin (g : G) (hnt : 1 ≤ g.nTheta) (hnp : 1 ≤ g.nPhi) :
    dispatch (call1 .absolute (.grid g)) = some (freshGrid 0 g.nTheta g.nPhi g.lead g.extra 1, none) := by
  rw [call1, dispatch_first_grid, arrayUfunc_unary (f := fun _ => some 0) rfl _ _ rfl rfl]
  simp only [finish_call, unary_g (fun _ => some 0) [] (s := 0) rfl, outcome_enough' (enough_zero.mpr ⟨hnt, hnp⟩)]

example : dispatch (call1 .absolute (.grid { spin := -3, nTheta := 7, nPhi := 7 })) = some (freshGrid 0 7 7 [] [] 1, none) :=
  absolute_spin _ (by decide) (by decide)

/-- `np.square`: spin weight `2 s`. -/
theorem square_spin (g : G) (he : enough (2 * g.spin) g.nTheta g.nPhi) :
    dispatch (call1 .square (.grid g)) = some (freshGrid (2 * g.spin) g.nTheta g.nPhi g.lead g.extra 1, none) := by
  rw [call1, dispatch_first_grid, arrayUfunc_unary (f := fun s => some (s * 2)) rfl _ _ rfl rfl]
  simp only [finish_call, unary_g (fun s => some (s * 2)) [] (s := 2 * g.spin) (by rw [Int.mul_comm]), outcome_enough' he]

example : dispatch (call1 .square (.grid { spin := -1, nTheta := 5, nPhi := 5 })) = some (freshGrid (-2) 5 5 [] [] 1, none) :=
  square_spin _ (by decide)

/-- `np.sqrt`: defined exactly for EVEN spin weights, with spin weight `s / 2`; odd spin → NotImplemented. -/
theorem sqrt_spin (g : G) :
    (g.spin % 2 = 0 → enough (g.spin / 2) g.nTheta g.nPhi →
      dispatch (call1 .sqrt (.grid g)) = some (freshGrid (g.spin / 2) g.nTheta g.nPhi g.lead g.extra 1, none) ∧
      2 * (g.spin / 2) = g.spin) ∧
    (g.spin % 2 ≠ 0 → ∀ (m : Meth) (out : Option OutArg),
      dispatch { uf := .sqrt, meth := m, args := [.grid g], out := out } = some (.notImplemented, none)) := by
  constructor
  · intro hev he
    refine ⟨?_, by omega⟩
    rw [call1, dispatch_first_grid, arrayUfunc_unary (f := fun s => if s % 2 ≠ 0 then none else some (s / 2)) rfl _ _ rfl rfl]
    simp only [finish_call, unary_g (g := g) (fun s => if s % 2 ≠ 0 then none else some (s / 2)) [] (s := g.spin / 2) (by simp [hev]),
      outcome_enough' he]
  · intro hodd m out
    rw [dispatch_first_grid, arrayUfunc_unary (f := fun s => if s % 2 ≠ 0 then none else some (s / 2)) rfl _ _ rfl rfl]
    simp only [unary_g_none (g := g) (fun s => if s % 2 ≠ 0 then none else some (s / 2)) [] out (by simp [hodd]), finish_notImplemented]

example : dispatch (call1 .sqrt (.grid { spin := -4, nTheta := 5, nPhi := 5 })) = some (freshGrid (-2) 5 5 [] [] 1, none) :=
  ((sqrt_spin _).1 (by decide) (by decide)).1
example : dispatch { uf := .sqrt, args := [.grid { spin := 3, nTheta := 7, nPhi := 7 }] } = some (.notImplemented, none) :=
  (sqrt_spin _).2 (by decide) .call none

/-- `np.positive` / `np.negative`: spin weight unchanged. -/
theorem pos_neg_spin (uf : UF) (hu : uf = .positive ∨ uf = .negative) (g : G) (he : enough g.spin g.nTheta g.nPhi) :
    dispatch (call1 uf (.grid g)) = some (freshGrid g.spin g.nTheta g.nPhi g.lead g.extra 0, none) := by
  rw [call1, dispatch_first_grid, arrayUfunc_posneg _ _ rfl hu]
  simp only [finish_call, posneg_self, outcome_enough' he]

example : dispatch (call1 .negative (.grid { spin := 1, nTheta := 3, nPhi := 3 })) = some (freshGrid 1 3 3 [] [] 0, none) :=
  pos_neg_spin _ (Or.inr rfl) _ (by decide)

/-! ## power -/

/-- `np.power(g, x)` where `int(x) == x` (`k = int(x)`): spin weight `k s`. -/
theorem power_integral (g : G) (nz : Bool) (sh : List Nat) (k : Int) (he : enough (k * g.spin) g.nTheta g.nPhi) :
    dispatch (call2 .power (.grid g) (.scalar nz sh (some k))) =
      some (freshGrid (k * g.spin) g.nTheta g.nPhi g.lead g.extra 1, none) := by
  rw [call2, dispatch_first_grid, arrayUfunc_power _ _ rfl rfl]
  simp only [finish_call, power_g, outcome_enough' he]

example : dispatch (call2 .power (.grid { spin := 1, nTheta := 7, nPhi := 7 }) (.scalar true [] (some (-3)))) =
    some (freshGrid (-3) 7 7 [] [] 1, none) := power_integral _ _ _ _ (by decide)

/-- `np.power(g, x)` where `int(x)` fails or `int(x) != x` (2.5, nan, 1j, arrays, …), where the exponent is a
    Grid, or where the base is not a Grid: NotImplemented — never a silently truncated exponent. -/
theorem power_non_integral (g : G) (m : Meth) (out : Option OutArg) :
    (∀ nz sh, dispatch { uf := .power, meth := m, args := [.grid g, .scalar nz sh none], out := out } =
      some (.notImplemented, none)) ∧
    (∀ g2, dispatch { uf := .power, meth := m, args := [.grid g, .grid g2], out := out } = some (.notImplemented, none)) ∧
    (∀ nz sh iv, dispatch { uf := .power, meth := m, args := [.scalar nz sh iv, .grid g], out := out } =
      some (.notImplemented, none)) := by
  refine ⟨fun nz sh => ?_, fun g2 => ?_, fun nz sh iv => ?_⟩
  · rw [dispatch_first_grid, arrayUfunc_power _ _ rfl rfl]; simp only [power, finish_notImplemented]
  · rw [dispatch_first_grid, arrayUfunc_power _ _ rfl rfl]; simp only [power, finish_notImplemented]
  · rw [dispatch_second_grid, arrayUfunc_power _ _ rfl rfl]; simp only [power, finish_notImplemented]

example : dispatch { uf := .power, args := [.grid { spin := 1, nTheta := 7, nPhi := 7 }, .scalar true [] none] } =
    some (.notImplemented, none) := (power_non_integral _ .call none).1 true []

/-! ## scalars (anything that is not a Grid is a spin-0 function constant over the sphere) -/

/-- `g * x`, `x * g`, `g / x` keep the spin weight; `x / g` negates it.  `x` must broadcast against the
    LEADING shape of `g` with no more dimensions than it. -/
theorem scalar_mul_div (g : G) (nz : Bool) (sh l : List Nat) (iv : Option Int) (hd : sh.length ≤ g.lead.length)
    (hl : broadcast g.lead sh = some l) (he : enough g.spin g.nTheta g.nPhi)
    (uf : UF) (hu : uf = .multiply ∨ uf = .divide ∨ uf = .true_divide) :
    dispatch (call2 uf (.grid g) (.scalar nz sh iv)) = some (freshGrid g.spin g.nTheta g.nPhi l g.extra 1, none) ∧
    dispatch (call2 uf (.scalar nz sh iv) (.grid g)) =
      some (freshGrid (if uf = .multiply then g.spin else -g.spin) g.nTheta g.nPhi l g.extra 1, none) := by
  constructor
  · rw [call2, dispatch_first_grid, arrayUfunc_mulDiv _ _ rfl hu]
    simp only [finish_call, mulDiv_gs _ nz iv [] hd hl, outcome_enough' he]
  · rw [call2, dispatch_second_grid]
    rcases hu with h | h | h <;> subst h
    · rw [arrayUfunc_multiply _ _ rfl rfl]
      simp only [finish_call, mulDiv_sg true nz iv [] hd hl, outcome_enough' he, ↓reduceIte]
    · rw [arrayUfunc_divide _ _ rfl (Or.inl rfl)]
      simp only [finish_call, mulDiv_sg false nz iv [] hd hl, Bool.false_eq_true, ↓reduceIte, outcome_enough' (enough_neg.mpr he)]
      simp
    · rw [arrayUfunc_divide _ _ rfl (Or.inr rfl)]
      simp only [finish_call, mulDiv_sg false nz iv [] hd hl, Bool.false_eq_true, ↓reduceIte, outcome_enough' (enough_neg.mpr he)]
      simp

example : dispatch (call2 .divide (.scalar true [] (some 3)) (.grid { spin := 2, nTheta := 5, nPhi := 5, lead := [4] })) =
    some (freshGrid (-2) 5 5 [4] [] 1, none) :=
  (scalar_mul_div _ _ [] [4] _ (by decide) (by decide) (by decide) .divide (by simp)).2

/-- Adding / subtracting a NONZERO scalar to a function of NONZERO spin weight is refused (either order). -/
theorem add_nonzero_scalar_nonzero_spin (uf : UF) (hu : uf = .add ∨ uf = .subtract) (g : G) (hs : g.spin ≠ 0)
    (sh : List Nat) (iv : Option Int) (m : Meth) (out : Option OutArg) :
    dispatch { uf := uf, meth := m, args := [.grid g, .scalar true sh iv], out := out } = some (.notImplemented, none) ∧
    dispatch { uf := uf, meth := m, args := [.scalar true sh iv, .grid g], out := out } = some (.notImplemented, none) := by
  constructor
  · rw [dispatch_first_grid, arrayUfunc_addSub _ _ rfl hu]
    simp only [(addSub_nonzero (self := g) (sh := sh) iv [] out hs).1, finish_notImplemented]
  · rw [dispatch_second_grid, arrayUfunc_addSub _ _ rfl hu]
    simp only [(addSub_nonzero (self := g) (sh := sh) iv [] out hs).2, finish_notImplemented]

example : dispatch { uf := .add, args := [.grid { spin := 1, nTheta := 3, nPhi := 3 }, .scalar true [] (some 1)] } =
    some (.notImplemented, none) := (add_nonzero_scalar_nonzero_spin _ (Or.inl rfl) _ (by decide) _ _ .call none).1

/-- Adding / subtracting a scalar is fine when the spin weight is 0 (any scalar) or the scalar is zero (any
    spin weight); the spin weight is unchanged (either order). -/
theorem add_scalar_ok (uf : UF) (hu : uf = .add ∨ uf = .subtract) (g : G) (nz : Bool) (hz : g.spin = 0 ∨ nz = false)
    (sh l : List Nat) (iv : Option Int) (hd : sh.length ≤ g.lead.length) (hl : broadcast g.lead sh = some l)
    (he : enough g.spin g.nTheta g.nPhi) :
    dispatch (call2 uf (.grid g) (.scalar nz sh iv)) = some (freshGrid g.spin g.nTheta g.nPhi l g.extra 0, none) ∧
    dispatch (call2 uf (.scalar nz sh iv) (.grid g)) = some (freshGrid g.spin g.nTheta g.nPhi l g.extra 0, none) := by
  constructor
  · rw [call2, dispatch_first_grid, arrayUfunc_addSub _ _ rfl hu]
    simp only [finish_call, addSub_gs iv [] hz hd hl, outcome_enough' he]
  · rw [call2, dispatch_second_grid, arrayUfunc_addSub _ _ rfl hu]
    simp only [finish_call, addSub_sg iv [] hz hd hl, outcome_enough' he]

example : dispatch (call2 .add (.grid { spin := 0, nTheta := 3, nPhi := 3 }) (.scalar true [] none)) =
    some (freshGrid 0 3 3 [] [] 0, none) :=
  (add_scalar_ok _ (Or.inl rfl) _ _ (Or.inl rfl) [] [] _ (by decide) (by decide) (by decide)).1

/-- A scalar array with more dimensions than the leading shape of the Grid raises `ValueError`
    (it would act on individual grid values), unless add/subtract already refused it. -/
theorem scalar_too_many_dims (g : G) (nz : Bool) (sh : List Nat) (iv : Option Int) (hd : g.lead.length < sh.length)
    (uf : UF) (hu : uf = .multiply ∨ uf = .divide ∨ uf = .true_divide) (m : Meth) (out : Option OutArg) :
    dispatch { uf := uf, meth := m, args := [.grid g, .scalar nz sh iv], out := out } = some (.raises .scalarDims, none) ∧
    Err.scalarDims.pyClass = .ValueError := by
  refine ⟨?_, rfl⟩
  rw [dispatch_first_grid, arrayUfunc_mulDiv _ _ rfl hu]
  have : checkBroadcasting g sh = .raisesDims := by simp [checkBroadcasting, hd]
  simp only [mulDiv, this, finish_reject]

example : dispatch { uf := .multiply, args := [.grid { spin := 0, nTheta := 3, nPhi := 3 }, .scalar true [3] none] } =
    some (.raises .scalarDims, none) := (scalar_too_many_dims _ _ [3] _ (by decide) _ (by simp) .call none).1

/-! ## rejections -/

/-- Every ufunc outside the two lists returns NotImplemented, whatever the arguments. -/
theorem outside_allow_list (self : G) (c : Call) (hp : c.uf.isPassthrough = false) (ha : c.uf.isAllowed = false) :
    arrayUfunc self c = (.notImplemented, none) := by
  simp [arrayUfunc, hp, ha]

example : arrayUfunc { spin := 1, nTheta := 3, nPhi := 3 } { uf := .other, args := [], kwargs := true } = (.notImplemented, none) :=
  outside_allow_list _ _ rfl rfl

/-- Any extra keyword (`where=`, `dtype=`, `axis=`, …) to a supported ufunc raises NotImplementedError. -/
theorem kwargs_rejected (self : G) (c : Call) (ha : c.uf.isAllowed = true) (hk : c.kwargs = true) :
    arrayUfunc self c = (.raises .kwargs, none) ∧ Err.kwargs.pyClass = .NotImplementedError := by
  refine ⟨?_, rfl⟩
  have hp : c.uf.isPassthrough = false := by
    cases hu : c.uf <;> simp [hu, UF.isAllowed] at ha <;> rfl
  simp [arrayUfunc, hp, ha, hk]

example : arrayUfunc { spin := 1, nTheta := 3, nPhi := 3 } { uf := .multiply, args := [], kwargs := true } = (.raises .kwargs, none) :=
  (kwargs_rejected _ _ rfl rfl).1

/-- The comparison / logical / `isfinite`-family ufuncs never return a Grid. -/
theorem passthrough_not_grid (self : G) (c : Call) (hp : c.uf.isPassthrough = true) (r : RGrid) :
    (arrayUfunc self c).1 ≠ .grid r := by
  rcases arrayUfunc_cases self c with ⟨_, h | h⟩ | ⟨h, _⟩ | ⟨ha, _⟩ | ⟨_, hu, _⟩ | ⟨_, hu, _⟩ | ⟨_, hu, _⟩ | ⟨_, hu, _⟩ |
    ⟨_, f, hu, _⟩
  · rw [h]; simp
  · rw [h]; simp
  · rw [hp] at h; cases h
  · cases hu' : c.uf <;> simp [hu', UF.isAllowed, UF.isPassthrough] at ha hp
  · rcases hu with h | h <;> rw [h] at hp <;> cases hp
  · rcases hu with h | h <;> rw [h] at hp <;> cases hp
  · rcases hu with h | h | h <;> rw [h] at hp <;> cases hp
  · rw [hu] at hp; cases hp
  · cases hu' : c.uf <;> simp [hu', unaryRule, UF.isPassthrough] at hu hp

example : (arrayUfunc { spin := 1, nTheta := 3, nPhi := 3 } { uf := .less, args := [] }).1 ≠ .grid ⟨0, 0, 0, [], [], .fresh 0, .new⟩ :=
  passthrough_not_grid _ _ rfl _

/-! ## every result goes through the constructor, with a dict of its own -/

/-- Whatever the ufunc, method, arguments, `out=` and keywords: a Grid returned by `__array_ufunc__`
    (1) satisfies the constructor's invariant `n_theta, n_phi ≥ 2|s|+1`, (2) is a new object, and
    (3) its `_metadata` is a dictionary allocated during the call — never an operand's dictionary. -/
theorem result_metadata_fresh (self : G) (c : Call) (r : RGrid) (h : (arrayUfunc self c).1 = .grid r) :
    (∃ k, r.metaId = .fresh k) ∧ (∀ i, r.metaId ≠ .pre i) ∧ r.obj = .new ∧ enough r.spin r.nTheta r.nPhi := by
  have key : ∃ k, GoodGrid k r := by
    rcases arrayUfunc_cases self c with ⟨_, h' | h'⟩ | ⟨_, _, h'⟩ | ⟨_, _, h'⟩ | ⟨_, _, h'⟩ | ⟨_, _, h'⟩ | ⟨_, _, h'⟩ |
      ⟨_, _, h'⟩ | ⟨_, f, _, h'⟩ <;> rw [h'] at h
    · cases h
    · cases h
    · cases h
    · cases h
    · exact ⟨0, build_good (finish_fst_grid.mp h).2⟩
    · exact ⟨0, addSub_good (finish_fst_grid.mp h).2⟩
    · exact ⟨1, mulDiv_good (finish_fst_grid.mp h).2⟩
    · exact ⟨1, power_good (finish_fst_grid.mp h).2⟩
    · exact ⟨1, unary_good (finish_fst_grid.mp h).2⟩
  obtain ⟨k, h1, h2, h3⟩ := key
  refine ⟨⟨k, h1⟩, ?_, h2, h3⟩
  intro i hi
  rw [h1] at hi
  cases hi

example : ∀ i, (⟨1, 5, 7, [3], [], .fresh 1, .new⟩ : RGrid).metaId ≠ .pre i :=
  (result_metadata_fresh { spin := 2, nTheta := 5, nPhi := 7, lead := [3] }
    (call2 .multiply (.grid { spin := 2, nTheta := 5, nPhi := 7, lead := [3] }) (.grid { spin := -1, nTheta := 5, nPhi := 7, metaId := 1 }))
    ⟨1, 5, 7, [3], [], .fresh 1, .new⟩ (by decide)).2.1

/-- With `out=` a Grid, `out[0]._metadata` is rebound only when a result was produced, to a dictionary
    allocated during the call that is neither an operand's dictionary nor the returned Grid's. -/
theorem out_metadata_fresh (self : G) (c : Call) (m : Meta) (h : (arrayUfunc self c).2 = some m) :
    (∃ k, m.id = .fresh k) ∧ (∀ r, (arrayUfunc self c).1 = .grid r → r.metaId ≠ m.id) := by
  rcases arrayUfunc_cases self c with ⟨_, h' | h'⟩ | ⟨_, _, h'⟩ | ⟨_, _, h'⟩ | ⟨_, _, h'⟩ | ⟨_, _, h'⟩ | ⟨_, _, h'⟩ |
    ⟨_, _, h'⟩ | ⟨_, f, _, h'⟩ <;> rw [h'] at h ⊢
  · cases h
  · cases h
  · cases h
  · cases h
  · rw [finish_snd] at h
    have hm := (build_snd h).1
    refine ⟨⟨1, by rw [hm]⟩, fun r hr => ?_⟩
    rw [(build_good (finish_fst_grid.mp hr).2).1, hm]; simp
  · rw [finish_snd] at h
    have hm := addSub_snd h
    refine ⟨⟨1, by rw [hm]⟩, fun r hr => ?_⟩
    rw [(addSub_good (finish_fst_grid.mp hr).2).1, hm]; simp
  · rw [finish_snd] at h
    have hm := mulDiv_snd h
    refine ⟨⟨0, hm⟩, fun r hr => ?_⟩
    rw [(mulDiv_good (finish_fst_grid.mp hr).2).1, hm]; simp
  · rw [finish_snd] at h
    have hm := power_snd h
    refine ⟨⟨0, hm⟩, fun r hr => ?_⟩
    rw [(power_good (finish_fst_grid.mp hr).2).1, hm]; simp
  · rw [finish_snd] at h
    have hm := unary_snd h
    refine ⟨⟨0, hm⟩, fun r hr => ?_⟩
    rw [(unary_good (finish_fst_grid.mp hr).2).1, hm]; simp

example : ∃ k, (⟨.fresh 0, some 2, []⟩ : Meta).id = .fresh k :=
  (out_metadata_fresh { spin := 1, nTheta := 5, nPhi := 5 }
    { uf := .multiply, args := [.grid { spin := 1, nTheta := 5, nPhi := 5 }, .grid { spin := 1, nTheta := 5, nPhi := 5 }],
      out := some (.grid { spin := 1, nTheta := 5, nPhi := 5 }) } ⟨.fresh 0, some 2, []⟩ (by decide)).1

/-! ## `out=` and in-place forms -/

/-- `ufunc(..., out=o)` — in particular the in-place operators `g op= x`, which numpy turns into
    `ufunc(g, x, out=(g,))` — returns the same Grid description as `ufunc(...)`, provided `o` has the shape of
    that result. -/
theorem out_form_same_result (self : G) (c : Call) (hc : c.out = none) (o : OutArg) (r : RGrid)
    (h : (arrayUfunc self c).1 = .grid r) (hsh : o.shape = r.lead ++ [r.nTheta, r.nPhi]) :
    (arrayUfunc self { c with out := some o }).1 = .grid r := by
  rcases arrayUfunc_cases self c with ⟨_, h' | h'⟩ | ⟨_, _, h'⟩ | ⟨_, _, h'⟩ | ⟨hk, hu, h'⟩ | ⟨hk, hu, h'⟩ |
    ⟨hk, hu, h'⟩ | ⟨hk, hu, h'⟩ | ⟨hk, f, hu, h'⟩ <;> rw [h'] at h
  · cases h
  · cases h
  · cases h
  · cases h
  · rw [arrayUfunc_posneg self { c with out := some o } hk hu]
    rw [hc] at h
    exact ((OutRel.build _ _ _ _ _ _).finish c.meth).1 o r rfl h hsh
  · rw [arrayUfunc_addSub self { c with out := some o } hk hu]
    rw [hc] at h
    exact ((addSub_outRel self c.args (some o)).finish c.meth).1 o r rfl h hsh
  · rw [arrayUfunc_mulDiv self { c with out := some o } hk hu]
    rw [hc] at h
    exact ((mulDiv_outRel _ c.args (some o)).finish c.meth).1 o r rfl h hsh
  · rw [arrayUfunc_power self { c with out := some o } hk hu]
    rw [hc] at h
    exact ((power_outRel c.args (some o)).finish c.meth).1 o r rfl h hsh
  · rw [arrayUfunc_unary hu self { c with out := some o } rfl hk]
    rw [hc] at h
    exact ((unary_outRel f c.args (some o)).finish c.meth).1 o r rfl h hsh

/-- in-place product `g1 *= g2` (`g2` broadcasting into `g1`): same spin bookkeeping as `g1 * g2` -/
example : (arrayUfunc { spin := 1, nTheta := 5, nPhi := 5, lead := [3] }
    { uf := .multiply, args := [.grid { spin := 1, nTheta := 5, nPhi := 5, lead := [3] }, .grid { spin := 1, nTheta := 5, nPhi := 5 }],
      out := some (.grid { spin := 1, nTheta := 5, nPhi := 5, lead := [3] }) }).1 =
    .grid ⟨2, 5, 5, [3], [], .fresh 1, .new⟩ :=
  out_form_same_result { spin := 1, nTheta := 5, nPhi := 5, lead := [3] }
    (call2 .multiply (.grid { spin := 1, nTheta := 5, nPhi := 5, lead := [3] }) (.grid { spin := 1, nTheta := 5, nPhi := 5 })) rfl
    (.grid { spin := 1, nTheta := 5, nPhi := 5, lead := [3] }) _ (by decide) (by decide)

/-- What the class itself refuses (NotImplemented; kwargs, spin mismatch, shape mismatch, too-many-dims
    scalar; missing argument) it refuses identically whatever `out=` is. -/
theorem out_form_same_rejection (self : G) (c : Call) (hc : c.out = none) (o : Option OutArg)
    (h : (arrayUfunc self c).1.isDecisionReject = true) :
    (arrayUfunc self { c with out := o }).1 = (arrayUfunc self c).1 := by
  rcases arrayUfunc_cases self c with ⟨hp, h' | h'⟩ | ⟨hp, ha, h'⟩ | ⟨ha, hk, h'⟩ | ⟨hk, hu, h'⟩ | ⟨hk, hu, h'⟩ |
    ⟨hk, hu, h'⟩ | ⟨hk, hu, h'⟩ | ⟨hk, f, hu, h'⟩ <;> rw [h'] at h ⊢
  · simp [Res.isDecisionReject] at h
  · simp [Res.isDecisionReject] at h
  · rw [outside_allow_list self { c with out := o } hp ha]
  · rw [(kwargs_rejected self { c with out := o } ha hk).1]
  · rw [arrayUfunc_posneg self { c with out := o } hk hu]
    rw [hc] at h ⊢
    exact ((OutRel.build _ _ _ _ _ _).finish c.meth).2 h
  · rw [arrayUfunc_addSub self { c with out := o } hk hu]
    rw [hc] at h ⊢
    exact ((addSub_outRel self c.args o).finish c.meth).2 h
  · rw [arrayUfunc_mulDiv self { c with out := o } hk hu]
    rw [hc] at h ⊢
    exact ((mulDiv_outRel _ c.args o).finish c.meth).2 h
  · rw [arrayUfunc_power self { c with out := o } hk hu]
    rw [hc] at h ⊢
    exact ((power_outRel c.args o).finish c.meth).2 h
  · rw [arrayUfunc_unary hu self { c with out := o } rfl hk]
    rw [hc] at h ⊢
    exact ((unary_outRel f c.args o).finish c.meth).2 h

/-- in-place sum of different spin weights `g1 += g2` raises exactly as `g1 + g2` does -/
example : (arrayUfunc { spin := 1, nTheta := 5, nPhi := 5 }
    { uf := .add, args := [.grid { spin := 1, nTheta := 5, nPhi := 5 }, .grid { spin := 0, nTheta := 5, nPhi := 5 }],
      out := some (.grid { spin := 1, nTheta := 5, nPhi := 5 }) }).1 = .raises .spinMismatch :=
  out_form_same_rejection { spin := 1, nTheta := 5, nPhi := 5 }
    (call2 .add (.grid { spin := 1, nTheta := 5, nPhi := 5 }) (.grid { spin := 0, nTheta := 5, nPhi := 5 })) rfl _ (by decide)

/-! ## the method forms of `grid/algebra.py` -/

/-- `g1.add(g2)`, `g1.multiply(g2)`, `g1.divide(g2)` give exactly what `np.add(g1, g2)`, `np.multiply(g1, g2)`,
    `np.divide(g1, g2)` give — same Grid, same exceptions. -/
theorem method_matches_ufunc_grid (g1 g2 : G) :
    method .add g1 (some (.grid g2)) = (arrayUfunc g1 (call2 .add (.grid g1) (.grid g2))).1 ∧
    method .multiply g1 (some (.grid g2)) = (arrayUfunc g1 (call2 .multiply (.grid g1) (.grid g2))).1 ∧
    method .divide g1 (some (.grid g2)) = (arrayUfunc g1 (call2 .divide (.grid g1) (.grid g2))).1 := by
  refine ⟨?_, ?_, ?_⟩
  · rw [call2, arrayUfunc_addSub _ _ rfl (Or.inl rfl), finish_call]
    simp only [method, addSubMethod, addSub, rawBinary, build, Option.map_none, ufuncShape_none, broadcastAll_two]
    repeat' split
    all_goals simp_all [resOfExcept]
  · rw [call2, arrayUfunc_multiply _ _ rfl rfl, finish_call]
    simp only [method, mulDivMethod, mulDiv, rawBinary, build, Option.map_none, ufuncShape_none, broadcastAll_two]
    repeat' split
    all_goals simp_all [resOfExcept]
  · rw [call2, arrayUfunc_divide _ _ rfl (Or.inl rfl), finish_call]
    simp only [method, mulDivMethod, mulDiv, rawBinary, build, Option.map_none, ufuncShape_none, broadcastAll_two]
    repeat' split
    all_goals simp_all [resOfExcept]

/-- `g1.subtract(g2)` agrees with `np.subtract(g1, g2)` when the spin weights are equal, and raises (as the ufunc
    does) when they differ. -/
theorem method_subtract (g1 g2 : G) :
    (g1.spin = g2.spin → method .subtract g1 (some (.grid g2)) = (arrayUfunc g1 (call2 .subtract (.grid g1) (.grid g2))).1) ∧
    (g1.spin ≠ g2.spin → method .subtract g1 (some (.grid g2)) = .raises .spinMismatchSubtract ∧
      (arrayUfunc g1 (call2 .subtract (.grid g1) (.grid g2))).1 = .raises .spinMismatch) := by
  constructor
  · intro hs
    rw [call2, arrayUfunc_addSub _ _ rfl (Or.inr rfl), finish_call]
    simp only [method, addSubMethod, addSub, rawBinary, build, Option.map_none, ufuncShape_none, broadcastAll_two]
    repeat' split
    all_goals simp_all [resOfExcept]
  · intro hs
    constructor
    · simp [method, addSubMethod, hs]
    · rw [arrayUfunc_addSub _ _ rfl (Or.inr rfl)]; simp only [call2, finish_call, addSub_gg_spin [] none hs]

example : method .subtract { spin := 1, nTheta := 5, nPhi := 5 } (some (.grid { spin := 1, nTheta := 5, nPhi := 5, lead := [2] })) =
    (arrayUfunc { spin := 1, nTheta := 5, nPhi := 5 }
      (call2 .subtract (.grid { spin := 1, nTheta := 5, nPhi := 5 }) (.grid { spin := 1, nTheta := 5, nPhi := 5, lead := [2] }))).1 :=
  (method_subtract _ _).1 rfl
example : method .subtract { spin := 1, nTheta := 5, nPhi := 5 } (some (.grid { spin := 0, nTheta := 5, nPhi := 5 })) =
    .raises .spinMismatchSubtract := ((method_subtract _ _).2 (by decide)).1

/-- `g1.add(g2)` raises `ValueError` when the spin weights differ. -/
theorem method_add_spin_mismatch (g1 g2 : G) (hs : g1.spin ≠ g2.spin) :
    method .add g1 (some (.grid g2)) = .raises .spinMismatch ∧ Err.spinMismatch.pyClass = .ValueError := by
  simp [method, addSubMethod, hs, Err.pyClass]

example : method .add { spin := 1, nTheta := 5, nPhi := 5 } (some (.grid { spin := 0, nTheta := 5, nPhi := 5 })) = .raises .spinMismatch :=
  (method_add_spin_mismatch _ _ (by decide)).1

/-- `g.conjugate()`, `g.bar`, `g.absolute()` give exactly what `np.conjugate(g)`, `np.absolute(g)` give. -/
theorem method_matches_ufunc_unary (g : G) :
    method (.conjugate false) g none = (arrayUfunc g (call1 .conjugate (.grid g))).1 ∧
    method .bar g none = (arrayUfunc g (call1 .conjugate (.grid g))).1 ∧
    method .absolute g none = (arrayUfunc g (call1 .absolute (.grid g))).1 := by
  refine ⟨?_, ?_, ?_⟩
  · rw [call1, arrayUfunc_unary (f := fun s => some (-s)) rfl _ _ rfl rfl, finish_call]
    simp only [method, unary, build, Option.map_none, ufuncShape_none, broadcastAll_one]
    cases construct (.fresh 1) g.shape (g.meta.copyWith 0 (-g.spin)) <;> rfl
  · rw [call1, arrayUfunc_unary (f := fun s => some (-s)) rfl _ _ rfl rfl, finish_call]
    simp only [method, unary, build, Option.map_none, ufuncShape_none, broadcastAll_one]
    cases construct (.fresh 1) g.shape (g.meta.copyWith 0 (-g.spin)) <;> rfl
  · rw [call1, arrayUfunc_unary (f := fun _ => some 0) rfl _ _ rfl rfl, finish_call]
    simp only [method, unary, build, Option.map_none, ufuncShape_none, broadcastAll_one]
    cases construct (.fresh 1) g.shape (g.meta.copyWith 0 0) <;> rfl

/-- `g.conjugate(inplace=True)` returns `g` itself with the spin weight negated in its own dict. -/
theorem method_conjugate_inplace (g : G) :
    method (.conjugate true) g none =
      .grid { spin := -g.spin, nTheta := g.nTheta, nPhi := g.nPhi, lead := g.lead, extra := g.extra,
              metaId := .pre g.metaId, obj := .self } := rfl

/-- `g.real` / `g.imag` raise `ValueError` unless the spin weight is 0; for spin weight 0 they return a spin-0 Grid. -/
theorem method_real_imag (mth : Method) (hm : mth = .real ∨ mth = .imag) (g : G) :
    (g.spin ≠ 0 → method mth g none = .raises .realImagSpin ∧ Err.realImagSpin.pyClass = .ValueError) ∧
    (g.spin = 0 → 1 ≤ g.nTheta → 1 ≤ g.nPhi → method mth g none = freshGrid 0 g.nTheta g.nPhi g.lead g.extra 0) := by
  constructor
  · intro hs
    rcases hm with h | h <;> subst h <;> simp [method, hs, Err.pyClass]
  · intro hs hnt hnp
    have hc := construct_ok (nid := .fresh 0) (l := g.lead) (md := g.meta) (s := 0) (by simp [G.meta, hs])
      (enough_zero.mpr ⟨hnt, hnp⟩)
    rcases hm with h | h <;> subst h <;> simp only [method, hs, ne_eq, not_true_eq_false, ↓reduceIte, G.shape_eq, hc] <;> rfl

example : method .real { spin := 2, nTheta := 5, nPhi := 5 } none = .raises .realImagSpin :=
  ((method_real_imag _ (Or.inl rfl) _).1 (by decide)).1
example : method .imag { spin := 0, nTheta := 5, nPhi := 5 } none = freshGrid 0 5 5 [] [] 0 :=
  (method_real_imag _ (Or.inr rfl) _).2 rfl (by decide) (by decide)

/-- With a 0-dimensional scalar `x`: `g.multiply(x)` / `g.divide(x)` return what `g * x` / `g / x` return (same spin
    weight, shape and extra metadata; both dicts fresh), and `g.add(x)` / `g.subtract(x)` refuse a nonzero scalar on
    nonzero spin weight with `ValueError` where the ufunc answers NotImplemented. -/
theorem method_scalar0 (g : G) (nz : Bool) (iv : Option Int) (he : enough g.spin g.nTheta g.nPhi) :
    method .multiply g (some (.scalar nz [] iv)) = freshGrid g.spin g.nTheta g.nPhi g.lead g.extra 0 ∧
    method .divide g (some (.scalar nz [] iv)) = freshGrid g.spin g.nTheta g.nPhi g.lead g.extra 0 ∧
    (arrayUfunc g (call2 .multiply (.grid g) (.scalar nz [] iv))).1 = freshGrid g.spin g.nTheta g.nPhi g.lead g.extra 1 ∧
    (arrayUfunc g (call2 .divide (.grid g) (.scalar nz [] iv))).1 = freshGrid g.spin g.nTheta g.nPhi g.lead g.extra 1 ∧
    (g.spin ≠ 0 → nz = true →
      method .add g (some (.scalar nz [] iv)) = .raises .scalarNonzero ∧
      method .subtract g (some (.scalar nz [] iv)) = .raises .scalarNonzero ∧
      (arrayUfunc g (call2 .add (.grid g) (.scalar nz [] iv))).1 = .notImplemented) := by
  have hc := construct_ok (nid := .fresh 0) (l := g.lead) (md := g.meta) (s := g.spin) rfl he
  have hb : broadcast g.shape [] = some (g.lead ++ [g.nTheta, g.nPhi]) := broadcast_nil_right _
  have hl : broadcast g.lead [] = some g.lead := broadcast_nil_right _
  refine ⟨?_, ?_, ?_, ?_, ?_⟩
  · simp only [method, mulDivMethod, checkBroadcasting_scalar0, rawBinary, hb, hc]; rfl
  · simp only [method, mulDivMethod, checkBroadcasting_scalar0, rawBinary, hb, hc]; rfl
  · rw [arrayUfunc_multiply _ _ rfl rfl]; simp only [call2, finish_call, mulDiv_gs true nz iv [] (Nat.zero_le _) hl, outcome_enough' he]
  · rw [arrayUfunc_divide _ _ rfl (Or.inl rfl)]; simp only [call2, finish_call, mulDiv_gs false nz iv [] (Nat.zero_le _) hl, outcome_enough' he]
  · intro hs hnz
    subst hnz
    refine ⟨by simp [method, addSubMethod, hs], by simp [method, addSubMethod, hs], ?_⟩
    rw [arrayUfunc_addSub _ _ rfl (Or.inl rfl)]; simp only [call2, finish_call, (addSub_nonzero (self := g) (sh := []) iv [] none hs).1]

example : method .multiply { spin := 2, nTheta := 5, nPhi := 5 } (some (.scalar true [] none)) = freshGrid 2 5 5 [] [] 0 :=
  (method_scalar0 _ _ _ (by decide)).1
example : method .add { spin := 2, nTheta := 5, nPhi := 5 } (some (.scalar true [] none)) = .raises .scalarNonzero :=
  ((method_scalar0 { spin := 2, nTheta := 5, nPhi := 5 } true none (by decide)).2.2.2.2 (by decide) rfl).1

/-- No method form except `conjugate(inplace=True)` returns the receiver or shares its dict: the result is a new
    object with a fresh dict that satisfies the constructor's invariant. -/
theorem method_result_fresh (mth : Method) (hm : mth ≠ .conjugate true) (g : G) (other : Option Arg) (r : RGrid)
    (h : method mth g other = .grid r) :
    (∃ k, r.metaId = .fresh k) ∧ r.obj = .new ∧ enough r.spin r.nTheta r.nPhi := by
  have hC : ∀ {k : Nat} {sh : List Nat} {md : Meta}, resOfExcept (construct (.fresh k) sh md) = .grid r →
      (∃ k, r.metaId = .fresh k) ∧ r.obj = .new ∧ enough r.spin r.nTheta r.nPhi := by
    intro k sh md hh
    cases hc : construct (.fresh k) sh md with
    | error e => rw [hc] at hh; cases hh
    | ok r' =>
      rw [hc] at hh
      simp only [resOfExcept, Res.grid.injEq] at hh
      subst hh
      obtain ⟨h1, h2, h3, _⟩ := construct_spec hc
      exact ⟨⟨k, h2⟩, h3, h1⟩
  have hR : ∀ {k : Nat} {sh : List Nat} {md : Meta}, rawBinary g sh md (.fresh k) = .grid r →
      (∃ k, r.metaId = .fresh k) ∧ r.obj = .new ∧ enough r.spin r.nTheta r.nPhi := by
    intro k sh md hh
    unfold rawBinary at hh
    split at hh
    · cases hh
    · exact hC hh
  cases mth
  case conjugate b =>
    cases b
    · exact hC h
    · exact absurd rfl hm
  case bar => exact hC h
  case real =>
    simp only [method] at h
    split at h
    · cases h
    · exact hC h
  case imag =>
    simp only [method] at h
    split at h
    · cases h
    · exact hC h
  case absolute => exact hC h
  case add =>
    simp only [method, addSubMethod] at h
    repeat' split at h
    all_goals first | exact hR h | cases h
  case subtract =>
    simp only [method, addSubMethod] at h
    repeat' split at h
    all_goals first | exact hR h | cases h
  case multiply =>
    simp only [method, mulDivMethod] at h
    repeat' split at h
    all_goals first | exact hR h | cases h
  case divide =>
    simp only [method, mulDivMethod] at h
    repeat' split at h
    all_goals first | exact hR h | cases h

example : ∃ k, (⟨3, 7, 7, [], [], .fresh 1, .new⟩ : RGrid).metaId = .fresh k :=
  (method_result_fresh .multiply (by decide) { spin := 2, nTheta := 7, nPhi := 7 } (some (.grid { spin := 1, nTheta := 7, nPhi := 7 }))
    ⟨3, 7, 7, [], [], .fresh 1, .new⟩ (by decide)).1

/-! ## `Grid.__new__` -/

/-- The constructor succeeds exactly when: at most one extra positional argument, `ndim ≥ 2`, a spin weight is
    known (positional overrides keyword overrides the input's `_metadata`), and `n_theta, n_phi ≥ 2|s|+1`; the new
    object's dict is always the newly created one. -/
theorem new_ok_iff (nid : MId) (inMeta : Option Meta) (shape : List Nat) (pos : List (Option Int))
    (kwSpin : Option (Option Int)) (kwExtra : List String) (r : RGrid) :
    new nid inMeta shape pos kwSpin kwExtra = .ok r →
      pos.length ≤ 1 ∧ shape = r.lead ++ [r.nTheta, r.nPhi] ∧ enough r.spin r.nTheta r.nPhi ∧ r.metaId = nid ∧
      r.obj = .new ∧
      some r.spin = (match pos with
        | [a] => a
        | _ => match kwSpin with
          | some v => v
          | none => inMeta.bind (·.spin)) := by
  intro h
  unfold new at h
  split at h
  · cases h
  · rename_i hlen
    simp only at h
    split at h
    · cases h
    · rename_i lead nt np hl
      split at h
      · cases h
      · rename_i s hs
        split at h
        · cases h
        · rename_i hne
          injection h with h
          subst h
          refine ⟨by omega, lastTwo_eq hl, by unfold enough; simp only; omega, rfl, rfl, ?_⟩
          rw [← hs]
          rcases pos with _ | ⟨a, _ | ⟨b, t⟩⟩
          · cases kwSpin <;> cases inMeta <;> rfl
          · rfl
          · simp at hlen

example : new (.fresh 0) none [5, 5] [some 2] none [] = .ok ⟨2, 5, 5, [], [], .fresh 0, .new⟩ := rfl

/-- The constructor's rejections, in the order the source tests them. -/
theorem new_rejections (nid : MId) (inMeta : Option Meta) (shape : List Nat) (pos : List (Option Int))
    (kwSpin : Option (Option Int)) (kwExtra : List String) :
    (1 < pos.length → new nid inMeta shape pos kwSpin kwExtra = .error .tooManyPositional) ∧
    (pos.length ≤ 1 → shape.length < 2 → new nid inMeta shape pos kwSpin kwExtra = .error .ndimLt2) ∧
    (∀ l nt np s, shape = l ++ [nt, np] → pos = [some s] → ¬ enough s nt np →
      new nid inMeta shape pos kwSpin kwExtra = .error .tooSmall) ∧
    (∀ l nt np, shape = l ++ [nt, np] → pos = [] → kwSpin = none → inMeta = none →
      new nid inMeta shape pos kwSpin kwExtra = .error .noSpin) := by
  refine ⟨fun h => by simp [new, h], fun h1 h2 => ?_, fun l nt np s hsh hp he => ?_, fun l nt np hsh hp hk hi => ?_⟩
  · have hl : lastTwo shape = none := by
      unfold lastTwo
      rcases hsr : shape.reverse with _ | ⟨p, _ | ⟨t, rest⟩⟩
      · rfl
      · rfl
      · have : shape.reverse.length = shape.length := List.length_reverse
        rw [hsr] at this; simp at this; omega
    have : ¬ pos.length > 1 := by omega
    simp [new, this, hl]
  · subst hsh hp
    have h' : (nt < 2 * s.natAbs + 1 ∨ np < 2 * s.natAbs + 1) := not_enough_iff.mp he
    simp [new, lastTwo_append, h']
  · subst hsh hp hk hi
    simp [new, lastTwo_append]

example : new (.fresh 0) none [5, 5] [some 3] none [] = .error .tooSmall :=
  (new_rejections _ _ _ _ _ _).2.2.1 [] 5 5 3 rfl rfl (by decide)
example : new (.fresh 0) none [5, 5] [some 1, some 2] none [] = .error .tooManyPositional :=
  (new_rejections _ _ _ _ _ _).1 (by decide)
example : new (.fresh 0) none [5] [some 0] none [] = .error .ndimLt2 :=
  (new_rejections _ _ _ _ _ _).2.1 (by decide) (by decide)
example : new (.fresh 0) none [5, 5] [] none ["note"] = .error .noSpin :=
  (new_rejections _ _ _ _ _ _).2.2.2 [] 5 5 rfl rfl rfl rfl

end C16
