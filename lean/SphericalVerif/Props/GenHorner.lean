import SphericalVerif.Lemmas.GenHorner
import SphericalVerif.Props.GenFill
/-! GenHorner — `Wigner.evaluate(horner=True)` **as the Python text states it** (kernel level): the generated
    `_evaluate_Horner` (`Gen/HornerKern.lean`, regenerated on every run) run on the workspace left by the generated
    `Wigner.H` (`Gen/HKern.lean`) returns, for one row of mode weights and one rotor, exactly
    `Model.evaluateHornerK` of the coordinate model — the value about which `Routes.evaluate_eq_sum_sYlm`,
    `HomAll.evaluate_is_evalW` (= Σ f_lm · sYlm(documented), exact arithmetic, every ℓ) and the purity / calculator-
    independence theorems are proved.  Every spin `|s| ≤ mp_max`, every `ell_max` of the modes up to the calculator's,
    every arithmetic (IEEE doubles bit for bit), every previous content of workspace and output cell.

    Parameters rather than generated code: the phases `zₐ`, `zᵧ` (from `to_euler_phases`: hand model, bitwise
    correspondence) and the library operation `zᵧ.conjugate()**s` (`cpowi`).  Rows: `mode_weights` is the 2-d array
    `Wigner.evaluate` builds by `reshape`; the theorem is per row (`nrows = 1`), the kernel's row loop being a plain
    repetition (`GenHorner.gen_eq_rows`). -/
namespace GenHorner
open Gen Model Spec GenH GenFill

variable {α : Type} [Scalar α] {φ : Type} [FMem φ α] [LawfulFMem φ α]

/-- **`Wigner.evaluate` (Horner strategy), kernel level, from the Python text.** -/
theorem gen_evaluate_row (L P : Nat) (fv : Nat) (c s : α) (a b d g h : Int → α) (ht : TabOK L a b d g h)
    (farr : Array (Cx α)) (za zg : Cx α) (sw : Int) (ellMax : Nat) (ncols : Int) (cpowi : Cx α → Int → Cx α)
    (F : φ) (J : Loc → α) (hsP : sw.natAbs ≤ P) (hM : ellMax ≤ L) :
    let stH := Gen.Wigner_H (α := α) g h (L : Int) (P : Int) a b d ⟨c, s⟩ idW idV idX F
    frdC (α := α) (Gen.u_evaluate_Horner (α := α) (fun i => Model.cget farr i.toNat) fv 0 (L : Int) (P : Int) 0 (ellMax : Int) sw
        (fun i => frd (α := α) stH idW i) za zg 1 ncols cpowi stH) fv 0
      = Model.evaluateHornerK (α := α) (Model.runH (α := α) L P c s (⟨F, J⟩ : Hyb L P φ α)) farr za (cpowi (Cx.conj zg) sw) sw ellMax
          (frdC (α := α) stH fv 0) := by
  intro stH
  refine evalH_row (Model.runH (α := α) L P c s (⟨F, J⟩ : Hyb L P φ α)) farr fv 0 L P ellMax sw _ za zg ncols cpowi stH
    (by omega) ?_
  intro ell a' hs1 hl h1 h2
  exact (hat_gen L P c s a b d g h ht F J ell a' (-sw) (by omega) h1 h2 (by omega) (by omega) (by omega)).symm

/-- **… for any number of rows of mode weights** (the leading axes of a `Modes` object, flattened by `Wigner.evaluate`): row `r`
    of the output is the per-row value — the vectorised kernel call is the per-row call, for every arithmetic (hence bit for bit). -/
theorem gen_evaluate_rows (L P : Nat) (fv : Nat) (c s : α) (a b d g h : Int → α) (ht : TabOK L a b d g h)
    (farrs : Nat → Array (Cx α)) (mw : Int → Cx α) (za zg : Cx α) (sw : Int) (ellMax : Nat) (N : Nat) (ncols : Int)
    (cpowi : Cx α → Int → Cx α) (F : φ) (J : Loc → α) (hsP : sw.natAbs ≤ P) (hM : ellMax ≤ L)
    (hrows : ∀ (r : Nat) (j : Int), r < N → 0 ≤ j → mw ((r : Int) * ncols + j) = Model.cget (farrs r) j.toNat)
    (r : Nat) (hr : r < N) :
    let stH := Gen.Wigner_H (α := α) g h (L : Int) (P : Int) a b d ⟨c, s⟩ idW idV idX F
    ∃ prev : Cx α, frdC (α := α) (Gen.u_evaluate_Horner (α := α) mw fv 0 (L : Int) (P : Int) 0 (ellMax : Int) sw
        (fun i => frd (α := α) stH idW i) za zg (N : Int) ncols cpowi stH) fv (r : Int)
      = Model.evaluateHornerK (α := α) (Model.runH (α := α) L P c s (⟨F, J⟩ : Hyb L P φ α)) (farrs r) za (cpowi (Cx.conj zg) sw) sw ellMax prev := by
  intro stH
  refine evalH_rows (Model.runH (α := α) L P c s (⟨F, J⟩ : Hyb L P φ α)) farrs mw fv 0 L P ellMax sw _ za zg N ncols cpowi stH
    (by omega) hrows ?_ r hr
  intro ell a' hs1 hl h1 h2
  exact (hat_gen L P c s a b d g h ht F J ell a' (-sw) (by omega) h1 h2 (by omega) (by omega) (by omega)).symm

/-- non-vacuity: spin −2 modes with `ell_max = 3` on the calculator `(L, P) = (4, 2)`, IEEE doubles, executable memory -/
example (c s : Float) (farr : Array (Cx Float)) (za zg : Cx Float) (cpowi : Cx Float → Int → Cx Float) (F : HFMem Float) :
    let stH := Gen.Wigner_H (α := Float) (tabOfRange Scalar.half (Spec.nmRange 5) Gen.tab_g)
      (tabOfRange Scalar.half (Spec.nmRange 5) Gen.tab_h) 4 2 (tabOfRange Scalar.half (Spec.nabsmRange 5) Gen.tab_a)
      (tabOfRange Scalar.half (Spec.nmRange 5) Gen.tab_b) (tabOfRange Scalar.half (Spec.nmRange 5) Gen.tab_d) ⟨c, s⟩ idW idV idX F
    frdC (α := Float) (Gen.u_evaluate_Horner (α := Float) (fun i => Model.cget farr i.toNat) 3 0 4 2 0 3 (-2)
        (fun i => frd (α := Float) stH idW i) za zg 1 16 cpowi stH) 3 0
      = Model.evaluateHornerK (α := Float) (Model.runH (α := Float) 4 2 c s (⟨F, fun _ => 0.0⟩ : Hyb 4 2 (HFMem Float) Float)) farr za
          (cpowi (Cx.conj zg) (-2)) (-2) 3 (frdC (α := Float) stH 3 0) :=
  gen_evaluate_row 4 2 3 c s _ _ _ _ _ (tabOK_ranges 4) farr za zg (-2) 3 16 cpowi F (fun _ => 0.0) (by decide) (by decide)

end GenHorner
