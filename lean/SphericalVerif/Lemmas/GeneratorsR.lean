import SphericalVerif.Lemmas.Generators
/-! Helper lemmas for `Props/Generators.lean`, part 3: the right generators at first order.

    ₛY_{ℓm}(Q·P) = c_{s,ℓ} 𝔇^ℓ_{m,−s}(Q·P) = c_{s,ℓ} Σ_k 𝔇_{m,k}(Q) 𝔇_{k,−s}(P): row m of 𝔇(Q), rotated by P, read at the
    column −s.  The derivative in P = exp(t g) at t = 0 is therefore the LEFT-generator formula applied to that row;
    the ladder steps −s ↦ −s ∓ 1 of the column are the steps s ↦ s ± 1 of the spin weight, and c_{s±1,ℓ} = −c_{s,ℓ}. -/
noncomputable section
namespace Generators
open Model DDef DHom HomAll
open scoped ComplexConjugate Nat

/-- the normalisation (−1)^s √((2ℓ+1)/(4π)) of `HomAll.Ylm` -/
def cY (s : ℤ) (ℓ : ℕ) : ℂ := (((-1) ^ s.natAbs * Real.sqrt ((2 * (ℓ : ℝ) + 1) / (4 * Real.pi)) : ℝ) : ℂ)

theorem Ylm_eq (s : ℤ) (Q : Quat ℝ) (ℓ : ℕ) (m : ℤ) : Ylm s Q ℓ m = cY s ℓ * docD ℓ (QA Q) (QB Q) m (-s) := rfl

theorem neg_one_pow_natAbs_succ (s : ℤ) : (-1 : ℝ) ^ (s + 1).natAbs = -(-1) ^ s.natAbs := by
  rcases Int.even_or_odd s with h | h
  · have h1 : Odd (s + 1) := h.add_one
    rw [(Int.natAbs_odd.mpr h1).neg_one_pow, (Int.natAbs_even.mpr h).neg_one_pow]
  · have h1 : Even (s + 1) := h.add_one
    rw [(Int.natAbs_even.mpr h1).neg_one_pow, (Int.natAbs_odd.mpr h).neg_one_pow, neg_neg]

theorem cY_succ (s : ℤ) (ℓ : ℕ) : cY (s + 1) ℓ = -cY s ℓ := by
  unfold cY
  rw [neg_one_pow_natAbs_succ]
  push_cast
  ring

theorem cY_pred (s : ℤ) (ℓ : ℕ) : cY (s - 1) ℓ = -cY s ℓ := by
  have h := cY_succ (s - 1) ℓ
  rw [sub_add_cancel] at h
  rw [h, neg_neg]

/-- row m of 𝔇^ℓ(Q) as a family of weights -/
def rowD (Q : Quat ℝ) (ℓ : ℕ) (m : ℤ) : ℕ → ℤ → ℂ := fun _ n => docD ℓ (QA Q) (QB Q) m n

/-- ₛY_{ℓm}(Q·P) is row m of 𝔇(Q) rotated by P, at column −s -/
theorem Ylm_qmul (s : ℤ) (Q P : Quat ℝ) (ℓ : ℕ) (m : ℤ) (hm : m.natAbs ≤ ℓ) (hs : s.natAbs ≤ ℓ) :
    Ylm s (qmul Q P) ℓ m = cY s ℓ * rot P (rowD Q ℓ m) ℓ (-s) := by
  rw [Ylm_eq, DocHom.docD_hom_quat ℓ Q P m (-s) hm (by omega)]
  rfl

theorem sqrtC_zero_mul (x y : ℝ) (h : x = 0) : sqrtC (x * y) = 0 := by
  unfold sqrtC
  rw [h, zero_mul, Real.sqrt_zero, Complex.ofReal_zero]

/-- c_{s,ℓ} (L₊ row)_{−s} = −√((ℓ−s)(ℓ+s+1)) ₛ₊₁Y_{ℓm}(Q) -/
theorem cY_LpC_row (s : ℤ) (Q : Quat ℝ) (ℓ : ℕ) (m : ℤ) (hs : s.natAbs ≤ ℓ) :
    cY s ℓ * LpC (rowD Q ℓ m) ℓ (-s) = -(sqrtC (((ℓ : ℝ) - s) * (ℓ + s + 1)) * Ylm (s + 1) Q ℓ m) := by
  unfold LpC
  by_cases c : s < (ℓ : ℤ)
  · rw [if_pos (by omega), Ylm_eq, cY_succ]
    have r : ((ℓ : ℝ) + ((-s : ℤ) : ℝ)) * ((ℓ : ℝ) - ((-s : ℤ) : ℝ) + 1) = ((ℓ : ℝ) - s) * (ℓ + s + 1) := by
      push_cast; ring
    have e : -s - 1 = -(s + 1) := by ring
    rw [r, e]
    unfold rowD
    ring
  · rw [if_neg (by omega)]
    have hs' : (ℓ : ℤ) = s := by omega
    have h0 : (ℓ : ℝ) - (s : ℝ) = 0 := by
      have : ((ℓ : ℤ) : ℝ) = ((s : ℤ) : ℝ) := by rw [hs']
      push_cast at this
      linarith
    rw [sqrtC_zero_mul _ _ h0]
    ring

/-- c_{s,ℓ} (L₋ row)_{−s} = −√((ℓ+s)(ℓ−s+1)) ₛ₋₁Y_{ℓm}(Q) -/
theorem cY_LmC_row (s : ℤ) (Q : Quat ℝ) (ℓ : ℕ) (m : ℤ) (hs : s.natAbs ≤ ℓ) :
    cY s ℓ * LmC (rowD Q ℓ m) ℓ (-s) = -(sqrtC (((ℓ : ℝ) + s) * (ℓ - s + 1)) * Ylm (s - 1) Q ℓ m) := by
  unfold LmC
  by_cases c : -(ℓ : ℤ) < s
  · rw [if_pos (by omega), Ylm_eq, cY_pred]
    have r : ((ℓ : ℝ) - ((-s : ℤ) : ℝ)) * ((ℓ : ℝ) + ((-s : ℤ) : ℝ) + 1) = ((ℓ : ℝ) + s) * (ℓ - s + 1) := by
      push_cast; ring
    have e : -s + 1 = -(s - 1) := by ring
    rw [r, e]
    unfold rowD
    ring
  · rw [if_neg (by omega)]
    have hs' : (ℓ : ℤ) = -s := by omega
    have h0 : (ℓ : ℝ) + (s : ℝ) = 0 := by
      have : ((ℓ : ℤ) : ℝ) = ((-s : ℤ) : ℝ) := by rw [hs']
      push_cast at this
      linarith
    rw [sqrtC_zero_mul _ _ h0]
    ring

/-- the first-order change of ₛY_{ℓm} under Q ↦ Q·exp(t g) -/
def dYlm (g : Quat ℝ) (s : ℤ) (Q : Quat ℝ) (ℓ : ℕ) (m : ℤ) : ℂ :=
  2 * Complex.I *
    ((g.x : ℂ) * ((-(sqrtC (((ℓ : ℝ) + s) * (ℓ - s + 1)) * Ylm (s - 1) Q ℓ m)
        - sqrtC (((ℓ : ℝ) - s) * (ℓ + s + 1)) * Ylm (s + 1) Q ℓ m) / 2)
     + (g.y : ℂ) * (Complex.I * (sqrtC (((ℓ : ℝ) - s) * (ℓ + s + 1)) * Ylm (s + 1) Q ℓ m
        - sqrtC (((ℓ : ℝ) + s) * (ℓ - s + 1)) * Ylm (s - 1) Q ℓ m) / 2)
     + (g.z : ℂ) * (-(s : ℂ) * Ylm s Q ℓ m))

theorem Ylm_right_hasDerivAt_zero (g : Quat ℝ) (s : ℤ) (Q : Quat ℝ) (ℓ : ℕ) (m : ℤ) (hm : m.natAbs ≤ ℓ)
    (hs : s.natAbs ≤ ℓ) :
    HasDerivAt (fun t => Ylm s (qmul Q (qexp g t)) ℓ m) (dYlm g s Q ℓ m) 0 := by
  have e : (fun t => Ylm s (qmul Q (qexp g t)) ℓ m) = fun t => cY s ℓ * rot (qexp g t) (rowD Q ℓ m) ℓ (-s) :=
    funext fun t => Ylm_qmul s Q (qexp g t) ℓ m hm hs
  rw [e]
  refine ((rot_qexp_hasDerivAt_zero g (rowD Q ℓ m) ℓ (-s) (by omega)).const_mul (cY s ℓ)).congr_deriv ?_
  have hp := cY_LpC_row s Q ℓ m hs
  have hmn := cY_LmC_row s Q ℓ m hs
  have hz : cY s ℓ * LzC (rowD Q ℓ m) ℓ (-s) = -(s : ℂ) * Ylm s Q ℓ m := by
    rw [Ylm_eq]
    unfold LzC rowD
    push_cast
    ring
  have hinv : (2 * Complex.I)⁻¹ = -(Complex.I / 2) := by
    rw [mul_inv, Complex.inv_I]; ring
  unfold dYlm LgC LxC LyC
  have e1 : cY s ℓ * (2 * Complex.I * ((g.x : ℂ) * ((LpC (rowD Q ℓ m) ℓ (-s) + LmC (rowD Q ℓ m) ℓ (-s)) / 2)
        + (g.y : ℂ) * ((LpC (rowD Q ℓ m) ℓ (-s) - LmC (rowD Q ℓ m) ℓ (-s)) / (2 * Complex.I))
        + (g.z : ℂ) * LzC (rowD Q ℓ m) ℓ (-s)))
      = 2 * Complex.I * ((g.x : ℂ) * ((cY s ℓ * LpC (rowD Q ℓ m) ℓ (-s) + cY s ℓ * LmC (rowD Q ℓ m) ℓ (-s)) / 2)
        + (g.y : ℂ) * ((cY s ℓ * LpC (rowD Q ℓ m) ℓ (-s) - cY s ℓ * LmC (rowD Q ℓ m) ℓ (-s)) * (2 * Complex.I)⁻¹)
        + (g.z : ℂ) * (cY s ℓ * LzC (rowD Q ℓ m) ℓ (-s))) := by
    rw [div_eq_mul_inv _ (2 * Complex.I)]
    ring
  rw [e1, hp, hmn, hz, hinv]
  ring

/-! ### the model's `Rz`, `eth`, `ethbar` on ℂ-valued weights of spin weight s, and the evaluated statement -/

/-- `Rz` on ℂ-valued weights of spin weight s (cell formula `C12.Rz_cell`) -/
def RzC (s : ℤ) (f : ℕ → ℤ → ℂ) (ℓ : ℕ) (m : ℤ) : ℂ := -(s : ℂ) * f ℓ m

/-- `eth` on ℂ-valued weights of spin weight s; the result has spin weight s + 1 (cell formula `C12.eth_cell`,
    zero below max(|s|, |s+1|) as in the model, `C12.annihilation`) -/
def ethC (s : ℤ) (f : ℕ → ℤ → ℂ) (ℓ : ℕ) (m : ℤ) : ℂ :=
  if max (s + 1).natAbs s.natAbs ≤ ℓ then sqrtC (((ℓ : ℝ) - s) * (ℓ + s + 1)) * f ℓ m else 0

/-- `ethbar` on ℂ-valued weights of spin weight s; the result has spin weight s − 1 (cell formula `C12.ethbar_cell`) -/
def ethbarC (s : ℤ) (f : ℕ → ℤ → ℂ) (ℓ : ℕ) (m : ℤ) : ℂ :=
  if max (s - 1).natAbs s.natAbs ≤ ℓ then -sqrtC (((ℓ : ℝ) + s) * (ℓ - s + 1)) * f ℓ m else 0

theorem evalW_ethC (s : ℤ) (Q : Quat ℝ) (f : ℕ → ℤ → ℂ) (ellMax : ℕ) :
    evalW (s + 1) Q (ethC s f) ellMax
      = ∑ ℓ ∈ Finset.Icc s.natAbs ellMax, ∑ m ∈ Finset.Icc (-(ℓ : ℤ)) ℓ,
          sqrtC (((ℓ : ℝ) - s) * (ℓ + s + 1)) * (f ℓ m * Ylm (s + 1) Q ℓ m) := by
  unfold evalW
  have A : ∑ ℓ ∈ Finset.Icc (max (s + 1).natAbs s.natAbs) ellMax,
        ∑ m ∈ Finset.Icc (-(ℓ : ℤ)) ℓ, ethC s f ℓ m * Ylm (s + 1) Q ℓ m
      = ∑ ℓ ∈ Finset.Icc (s + 1).natAbs ellMax, ∑ m ∈ Finset.Icc (-(ℓ : ℤ)) ℓ, ethC s f ℓ m * Ylm (s + 1) Q ℓ m := by
    apply Finset.sum_subset
    · intro ℓ hℓ
      rw [Finset.mem_Icc] at hℓ ⊢
      exact ⟨le_trans (le_max_left _ _) hℓ.1, hℓ.2⟩
    · intro ℓ h1 h2
      rw [Finset.mem_Icc] at h1 h2
      apply Finset.sum_eq_zero
      intro m _
      unfold ethC
      rw [if_neg (fun c => h2 ⟨c, h1.2⟩), zero_mul]
  have B : ∑ ℓ ∈ Finset.Icc (max (s + 1).natAbs s.natAbs) ellMax, ∑ m ∈ Finset.Icc (-(ℓ : ℤ)) ℓ,
        sqrtC (((ℓ : ℝ) - s) * (ℓ + s + 1)) * (f ℓ m * Ylm (s + 1) Q ℓ m)
      = ∑ ℓ ∈ Finset.Icc s.natAbs ellMax, ∑ m ∈ Finset.Icc (-(ℓ : ℤ)) ℓ,
        sqrtC (((ℓ : ℝ) - s) * (ℓ + s + 1)) * (f ℓ m * Ylm (s + 1) Q ℓ m) := by
    apply Finset.sum_subset
    · intro ℓ hℓ
      rw [Finset.mem_Icc] at hℓ ⊢
      exact ⟨le_trans (le_max_right _ _) hℓ.1, hℓ.2⟩
    · intro ℓ h1 h2
      rw [Finset.mem_Icc] at h1 h2
      have hlt : ¬ max (s + 1).natAbs s.natAbs ≤ ℓ := fun c => h2 ⟨c, h1.2⟩
      have hs' : (ℓ : ℤ) = s := by
        rcases le_total (s + 1).natAbs s.natAbs with c | c
        · rw [max_eq_right c] at hlt; omega
        · rw [max_eq_left c] at hlt; omega
      have h0 : (ℓ : ℝ) - (s : ℝ) = 0 := by
        have : ((ℓ : ℤ) : ℝ) = ((s : ℤ) : ℝ) := by rw [hs']
        push_cast at this
        linarith
      apply Finset.sum_eq_zero
      intro m _
      rw [sqrtC_zero_mul _ _ h0, zero_mul]
  rw [← A, ← B]
  apply Finset.sum_congr rfl
  intro ℓ hℓ
  rw [Finset.mem_Icc] at hℓ
  apply Finset.sum_congr rfl
  intro m _
  unfold ethC
  rw [if_pos hℓ.1, mul_assoc]

theorem evalW_ethbarC (s : ℤ) (Q : Quat ℝ) (f : ℕ → ℤ → ℂ) (ellMax : ℕ) :
    evalW (s - 1) Q (ethbarC s f) ellMax
      = -∑ ℓ ∈ Finset.Icc s.natAbs ellMax, ∑ m ∈ Finset.Icc (-(ℓ : ℤ)) ℓ,
          sqrtC (((ℓ : ℝ) + s) * (ℓ - s + 1)) * (f ℓ m * Ylm (s - 1) Q ℓ m) := by
  unfold evalW
  have A : ∑ ℓ ∈ Finset.Icc (max (s - 1).natAbs s.natAbs) ellMax,
        ∑ m ∈ Finset.Icc (-(ℓ : ℤ)) ℓ, ethbarC s f ℓ m * Ylm (s - 1) Q ℓ m
      = ∑ ℓ ∈ Finset.Icc (s - 1).natAbs ellMax, ∑ m ∈ Finset.Icc (-(ℓ : ℤ)) ℓ, ethbarC s f ℓ m * Ylm (s - 1) Q ℓ m := by
    apply Finset.sum_subset
    · intro ℓ hℓ
      rw [Finset.mem_Icc] at hℓ ⊢
      exact ⟨le_trans (le_max_left _ _) hℓ.1, hℓ.2⟩
    · intro ℓ h1 h2
      rw [Finset.mem_Icc] at h1 h2
      apply Finset.sum_eq_zero
      intro m _
      unfold ethbarC
      rw [if_neg (fun c => h2 ⟨c, h1.2⟩), zero_mul]
  have B : ∑ ℓ ∈ Finset.Icc (max (s - 1).natAbs s.natAbs) ellMax, ∑ m ∈ Finset.Icc (-(ℓ : ℤ)) ℓ,
        sqrtC (((ℓ : ℝ) + s) * (ℓ - s + 1)) * (f ℓ m * Ylm (s - 1) Q ℓ m)
      = ∑ ℓ ∈ Finset.Icc s.natAbs ellMax, ∑ m ∈ Finset.Icc (-(ℓ : ℤ)) ℓ,
        sqrtC (((ℓ : ℝ) + s) * (ℓ - s + 1)) * (f ℓ m * Ylm (s - 1) Q ℓ m) := by
    apply Finset.sum_subset
    · intro ℓ hℓ
      rw [Finset.mem_Icc] at hℓ ⊢
      exact ⟨le_trans (le_max_right _ _) hℓ.1, hℓ.2⟩
    · intro ℓ h1 h2
      rw [Finset.mem_Icc] at h1 h2
      have hlt : ¬ max (s - 1).natAbs s.natAbs ≤ ℓ := fun c => h2 ⟨c, h1.2⟩
      have hs' : (ℓ : ℤ) = -s := by
        rcases le_total (s - 1).natAbs s.natAbs with c | c
        · rw [max_eq_right c] at hlt; omega
        · rw [max_eq_left c] at hlt; omega
      have h0 : (ℓ : ℝ) + (s : ℝ) = 0 := by
        have : ((ℓ : ℤ) : ℝ) = ((-s : ℤ) : ℝ) := by rw [hs']
        push_cast at this
        linarith
      apply Finset.sum_eq_zero
      intro m _
      rw [sqrtC_zero_mul _ _ h0, zero_mul]
  rw [← A, ← B, ← Finset.sum_neg_distrib]
  apply Finset.sum_congr rfl
  intro ℓ hℓ
  rw [Finset.mem_Icc] at hℓ
  rw [← Finset.sum_neg_distrib]
  apply Finset.sum_congr rfl
  intro m _
  unfold ethbarC
  rw [if_pos hℓ.1]
  ring

theorem evalW_RzC (s : ℤ) (Q : Quat ℝ) (f : ℕ → ℤ → ℂ) (ellMax : ℕ) :
    evalW s Q (RzC s f) ellMax
      = -(s : ℂ) * ∑ ℓ ∈ Finset.Icc s.natAbs ellMax, ∑ m ∈ Finset.Icc (-(ℓ : ℤ)) ℓ, f ℓ m * Ylm s Q ℓ m := by
  unfold evalW RzC
  rw [Finset.mul_sum]
  apply Finset.sum_congr rfl
  intro ℓ _
  rw [Finset.mul_sum]
  apply Finset.sum_congr rfl
  intro m _
  ring

/-- **the right generators at first order**: d/dt f(Q·exp(t g)) at t = 0 -/
theorem evalW_right_hasDerivAt_zero (g : Quat ℝ) (s : ℤ) (Q : Quat ℝ) (f : ℕ → ℤ → ℂ) (ellMax : ℕ) :
    HasDerivAt (fun t => evalW s (qmul Q (qexp g t)) f ellMax)
      (2 * Complex.I *
        ((g.x : ℂ) * ((evalW (s - 1) Q (ethbarC s f) ellMax - evalW (s + 1) Q (ethC s f) ellMax) / 2)
         + (g.y : ℂ) * (Complex.I * (evalW (s + 1) Q (ethC s f) ellMax + evalW (s - 1) Q (ethbarC s f) ellMax) / 2)
         + (g.z : ℂ) * evalW s Q (RzC s f) ellMax)) 0 := by
  have h : HasDerivAt (fun t => ∑ ℓ ∈ Finset.Icc s.natAbs ellMax, ∑ m ∈ Finset.Icc (-(ℓ : ℤ)) ℓ,
        f ℓ m * Ylm s (qmul Q (qexp g t)) ℓ m)
      (∑ ℓ ∈ Finset.Icc s.natAbs ellMax, ∑ m ∈ Finset.Icc (-(ℓ : ℤ)) ℓ, f ℓ m * dYlm g s Q ℓ m) 0 :=
    HasDerivAt.fun_sum (fun ℓ hℓ => HasDerivAt.fun_sum (fun m hm =>
      (Ylm_right_hasDerivAt_zero g s Q ℓ m (mem_blk hm) (Finset.mem_Icc.mp hℓ).1).const_mul (f ℓ m)))
  refine HasDerivAt.congr_deriv (f := fun t => evalW s (qmul Q (qexp g t)) f ellMax) h ?_
  have key : ∀ (ℓ : ℕ) (m : ℤ), f ℓ m * dYlm g s Q ℓ m
      = (2 * Complex.I * (-(g.x : ℂ) / 2 + (g.y : ℂ) * Complex.I / 2))
          * (sqrtC (((ℓ : ℝ) - s) * (ℓ + s + 1)) * (f ℓ m * Ylm (s + 1) Q ℓ m))
        + (2 * Complex.I * (-(g.x : ℂ) / 2 - (g.y : ℂ) * Complex.I / 2))
          * (sqrtC (((ℓ : ℝ) + s) * (ℓ - s + 1)) * (f ℓ m * Ylm (s - 1) Q ℓ m))
        + (2 * Complex.I * ((g.z : ℂ) * -(s : ℂ))) * (f ℓ m * Ylm s Q ℓ m) := by
    intro ℓ m
    unfold dYlm
    ring
  rw [evalW_ethC, evalW_ethbarC, evalW_RzC]
  simp only [key, Finset.sum_add_distrib, ← Finset.mul_sum]
  ring

end Generators
end
