import SphericalVerif.Gen.Indexing
import SphericalVerif.Gen.Guards
import SphericalVerif.Spec.Orderings
/-! Executable model of the *decision logic and storage layout* of `spherical.Modes`
    (spherical/modes/__init__.py, utilities.py, ufuncs.py, algebra.py, spherical/multiplication.py).

    What is modelled: which branch every call takes, the class / shape / metadata of what it returns (or which
    exception it raises), and where every input weight ends up in the stored row.  Floating-point values are not
    modelled (only positions, signs and conjugations of entries).  numpy itself is modelled only as far as the
    Modes code depends on it: broadcasting of shapes, `out=` shape rules, the re-dispatch of a nested ufunc call
    whose `out` holds a Modes, Python slice clipping, and the copy / pickle hooks of ndarray subclasses.

    Positions and sizes are the *generated* `Gen.Yindex` / `Gen.Ysize` (= `LM_index` / `LM_total_size`), the
    guards of `Modes.index` are the generated `Gen.index_ok`.  Core Lean only; validated line by line against
    the real class by `vlib/glue_modes.py` through `Driver/ModesOps.lean`. -/
namespace Model.Modes
open Gen

/-! ## data -/

/-- the `multiplication_truncator` callables the harness uses: `sum`, `max`, `min`, `lambda t: k` -/
inductive Trunc where
  | sum | max | min
  | const (k : Int)
  deriving DecidableEq, Repr

/-- `truncator((L1, L2))` -/
def Trunc.apply : Trunc → Int → Int → Int
  | .sum, a, b => a + b
  | .max, a, b => Max.max a b
  | .min, a, b => Min.min a b
  | .const k, _, _ => k

/-- `_metadata`: `spin_weight`, `ell_max`, and the optional `multiplication_truncator` -/
structure Meta where
  spin : Int
  ellMax : Int
  trunc : Option Trunc := none
  deriving DecidableEq, Repr

/-- a Modes instance as far as dispatch is concerned: metadata, leading shape, length of the last axis -/
structure Obj where
  md : Meta
  lead : List Nat
  n : Nat
  deriving DecidableEq, Repr

def Obj.shape (o : Obj) : List Nat := o.lead ++ [o.n]

/-- the last axis has the `LM_total_size(0, ell_max)` entries the metadata promises (`ell_max ≥ -1`; every object
    the constructor returns for `0 ≤ ell_min ≤ ell_max + 1` is of this kind) -/
def WellFormed (o : Obj) : Prop := o.n = (Gen.Ysize 0 o.md.ellMax).toNat ∧ -1 ≤ o.md.ellMax

instance (o : Obj) : Decidable (WellFormed o) := inferInstanceAs (Decidable (_ ∧ _))

/-- a ufunc / method operand: a Modes, or anything else seen through `np.asanyarray` (Python scalars have
    shape `[]`); `nonzero` is `np.any(x)` -/
inductive Operand where
  | modes (o : Obj)
  | arr (shape : List Nat) (nonzero : Bool)
  deriving DecidableEq, Repr

def Operand.shape : Operand → List Nat
  | .modes o => o.shape
  | .arr s _ => s

def Operand.isModes : Operand → Bool
  | .modes _ => true
  | .arr _ _ => false

inductive Err where
  | valueError
  | notImplemented        -- `__array_ufunc__` returned NotImplemented; numpy turns that into TypeError
  | notImplementedError
  | indexError
  | attributeError
  deriving DecidableEq, Repr

inductive DType where
  | bool | float | complex
  deriving DecidableEq, Repr

inductive Outcome where
  /-- a Modes result; `outMeta` = what `out[0]._metadata` was set to when `out` holds a Modes -/
  | modes (o : Obj) (outMeta : Option Meta)
  /-- a plain ndarray / numpy scalar -/
  | plain (dt : DType) (shape : List Nat)
  | err (e : Err)
  /-- no operand is a Modes: the call never reaches `Modes.__array_ufunc__` -/
  | notDispatched
  deriving DecidableEq, Repr

/-! ## numpy shape rules -/

def bdim (a b : Nat) : Option Nat :=
  if a = b then some a else if a = 1 then some b else if b = 1 then some a else none

/-- broadcasting of two shapes given last axis first -/
def bcastRev : List Nat → List Nat → Option (List Nat)
  | [], ys => some ys
  | x :: xs, [] => some (x :: xs)
  | x :: xs, y :: ys =>
    match bdim x y, bcastRev xs ys with
    | some d, some r => some (d :: r)
    | _, _ => none

/-- `np.broadcast(a, b).shape`, `none` = ValueError -/
def bcast (a b : List Nat) : Option (List Nat) := (bcastRev a.reverse b.reverse).map List.reverse

/-- `src` can be assigned into / written to an array of shape `dst` -/
def bcastTo (src dst : List Nat) : Bool := bcast src dst == some dst

/-- stop of the Python slice `[:stop]` on an axis of length `n` -/
def pySliceStop (n : Nat) (stop : Int) : Nat :=
  if stop < 0 then (n + stop).toNat else min stop.toNat n

/-- shape of `res[..., 0:k]` (`none`: `res` is 0-d, IndexError) -/
def sliceShape (res : List Nat) (k : Nat) : Option (List Nat) :=
  match res.reverse with
  | [] => none
  | n :: l => some (l.reverse ++ [min k n])

/-- `res[..., 0:k] = src` / `res[..., 0:k] += src` -/
def sliceAssign (res : List Nat) (k : Nat) (src : List Nat) : Except Err Unit :=
  match sliceShape res k with
  | none => .error .indexError
  | some t => if bcastTo src t then .ok () else .error .valueError

/-! ## constructor -/

/-- the `input_array` of the constructor: `md = some _` iff it is itself a Modes; `shape` in the array's own
    dtype; `real` = float64 pairs rather than complex128 -/
structure InArr where
  md : Option Meta
  shape : List Nat
  real : Bool
  deriving DecidableEq, Repr

/-- `Modes(input_array, *pos, spin_weight=…, ell_min=…, ell_max=…, multiplication_truncator=…)` -/
structure CtorCall where
  pos : List Int
  kwSpin : Option Int := none
  kwEllMin : Option Int := none
  kwEllMax : Option Int := none
  kwTrunc : Option Trunc := none
  input : InArr
  deriving Repr

/-- `np.asanyarray(input_array).view(complex)`: shape seen as complex, `none` = ValueError -/
def viewComplex (a : InArr) : Option (List Nat) :=
  if a.real then
    match a.shape.reverse with
    | [] => none
    | d :: l => if d % 2 = 0 then some (l.reverse ++ [d / 2]) else none
  else some a.shape

/-- `LM_deduce_ell_max(size, ell_min)`: `int(np.sqrt(size + ell_min**2) - 1)` then the exact size test
    (`none` = ValueError).  `Nat.sqrt` is exact where the float square root is (sizes below 2^52). -/
def deduceEllMax (size : Nat) (ell_min : Int) : Option Int :=
  let ell_max : Int := (Nat.sqrt (size + ell_min.natAbs ^ 2) : Int) - 1
  if Ysize ell_min ell_max = (size : Int) then some ell_max else none

/-- number of zeros `np.insert` puts in front: `LM_total_size(0, ell_min-1)` unless `ell_min == 0` -/
def padCount (ell_min : Int) : Nat :=
  if ell_min = 0 then 0 else (Ysize 0 (ell_min - 1)).toNat

/-- `obj[..., :LM_total_size(0, abs(spin_weight)-1)] = 0.0` -/
def zeroCount (s : Int) : Int := Ysize 0 ((s.natAbs : Int) - 1)

def ctor (c : CtorCall) : Outcome :=
  if c.pos.length = 2 ∨ c.pos.length > 3 then .err .valueError else
  let kwSpin := match c.pos with
    | s :: _ => some s
    | [] => c.kwSpin
  let kwEllMin := match c.pos with
    | [_, a, _] => some a
    | _ => c.kwEllMin
  let kwEllMax := match c.pos with
    | [_, _, b] => some b
    | _ => c.kwEllMax
  let ell_min := kwEllMin.getD 0            -- `getattr(input_array, 'ell_min', 0)` is 0 for a Modes too
  match kwSpin <|> c.input.md.map (·.spin) with
  | none => .err .valueError
  | some s =>
    let ellMax? := kwEllMax <|> c.input.md.map (·.ellMax)
    let trunc := c.kwTrunc <|> c.input.md.bind (·.trunc)
    match viewComplex c.input with
    | none => .err .valueError
    | some shape =>
      match shape.reverse with
      | [] => .err .indexError              -- 0-d input: `input_array.shape[-1]`
      | size :: leadRev =>
        let L? := match ellMax? with
          | some L => some L
          | none => deduceEllMax size ell_min
        match L? with
        | none => .err .valueError
        | some L =>
          if (size : Int) ≠ Ysize ell_min L then .err .valueError
          else .modes ⟨⟨s, L, trunc⟩, leadRev.reverse, size + padCount ell_min⟩ none

/-- One stored row as a function of the input row: flat position `p` of the object ← input position / zero. -/
def stored {α : Type} (s ell_min _ell_max : Int) (input : Nat → α) (zero : α) (p : Nat) : α :=
  if (p : Int) < zeroCount s then zero
  else if p < padCount ell_min then zero
  else input (p - padCount ell_min)

/-- length of the stored row for an accepted input (`size = Ysize ell_min ell_max`) -/
def storedLen (ell_min ell_max : Int) : Int := (padCount ell_min : Int) + Ysize ell_min ell_max

/-- `type(self)(array, **metadata)`: re-construction of a result from a plain complex array (or, in the
    conjugate ufunc with `out=`, from the Modes held in `out`) -/
def construct (m : Meta) (shape : List Nat) (inMeta : Option Meta := none) : Outcome :=
  ctor { pos := [], kwSpin := some m.spin, kwEllMin := none, kwEllMax := some m.ellMax, kwTrunc := m.trunc,
         input := ⟨inMeta, shape, false⟩ }

/-! ## index, truncate_ell, views -/

/-- `Modes.index(ell, m)` (`self.ell_min` is always 0) -/
def index (o : Obj) (ell m : Int) : Except Err Int :=
  if index_ok ell m o.md.spin 0 o.md.ellMax then .ok (Yindex ell m 0) else .error .valueError

structure TruncOut where
  result : Obj
  /-- `truncate_ell` returned `self` itself -/
  same : Bool
  /-- the receiver after the call -/
  original : Obj
  deriving DecidableEq, Repr

/-- `Modes.truncate_ell(new_ell_max)`: a view `self[..., :LM_index(L, L, 0)+1]` whose *own* metadata copy gets
    `ell_max = L` -/
def truncateEll (o : Obj) (L : Int) : TruncOut :=
  if L ≥ o.md.ellMax then ⟨o, true, o⟩
  else ⟨{ o with md := { o.md with ellMax := L }, n := pySliceStop o.n (Yindex L L 0 + 1) }, false, o⟩

/-- data of the truncated view: the leading part of the row, unchanged -/
def truncateRow {α : Type} (row : Nat → α) : Nat → α := fun p => row p

/-- `modes[i]` along a leading axis (`none`: the object has no leading axis; the result is a scalar) -/
def viewLead (o : Obj) : Option Obj :=
  match o.lead with
  | [] => none
  | _ :: rest => some { o with lead := rest }

/-! ## `__array_ufunc__` -/

inductive UFunc where
  | notEqual | equal | logicalAnd | logicalOr | isfinite | isinf | isnan
  | positive | negative | add | subtract | multiply | divide | trueDivide | conj | conjugate | absolute
  | other (name : String)
  deriving DecidableEq, Repr

def UFunc.passthrough : UFunc → Bool
  | .notEqual | .equal | .logicalAnd | .logicalOr | .isfinite | .isinf | .isnan => true
  | _ => false

def UFunc.allowed : UFunc → Bool
  | .positive | .negative | .add | .subtract | .multiply | .divide | .trueDivide | .conj | .conjugate
  | .absolute => true
  | _ => false

structure Call where
  uf : UFunc
  args : List Operand
  out : Option Operand := none
  /-- any further keyword (`where=`, `dtype=`, `casting=`, …) -/
  kwargs : Bool := false
  deriving Repr

/-- the instance whose `__array_ufunc__` runs: the first Modes among inputs, then outputs -/
def selfOf (c : Call) : Option Obj :=
  (c.args ++ c.out.toList).findSome? fun
    | .modes o => some o
    | .arr _ _ => none

/-- attach `out[0]._metadata = …` when `out` holds a Modes -/
def withOut (out : Option Operand) (m : Meta) : Outcome → Outcome
  | .modes o _ => .modes o (match out with
      | some (.modes _) => some m
      | _ => none)
  | r => r

inductive Chk where
  | yes | no | raise
  deriving DecidableEq, Repr

/-- `modes._check_broadcasting(array)` for a non-Modes `array` -/
def checkBroadcasting (m : Obj) (sh : List Nat) : Chk :=
  if (sh.length : Int) > (m.shape.length : Int) - 1 then .raise
  else if (bcast m.lead sh).isSome then .yes else .no

/-- `ufunc(modes.view(np.ndarray), scalars[..., np.newaxis], out=out)`: plain numpy, unless `out` holds a Modes:
    then the nested call is dispatched to `out[0].__array_ufunc__` with two plain inputs, which returns
    NotImplemented (TypeError) -/
def innerScalarUfunc (m : Obj) (sh : List Nat) (out : Option Operand) : Except Err (List Nat) :=
  match out with
  | some (.modes _) => .error .notImplemented
  | _ =>
    match bcast m.shape (sh ++ [1]) with
    | none => .error .valueError
    | some r =>
      match out with
      | none => .ok r
      | some o => if bcastTo r o.shape then .ok o.shape else .error .valueError

/-- the Modes-with-scalars branches of add / subtract / multiply / divide -/
def scalarBranch (self m : Obj) (sh : List Nat) (nz mustBeZero : Bool) (out : Option Operand) : Outcome :=
  if mustBeZero && nz then .err .notImplemented else
  match checkBroadcasting m sh with
  | .raise => .err .valueError
  | .no => .err .notImplemented
  | .yes =>
    match innerScalarUfunc m sh out with
    | .error e => .err e
    | .ok r => withOut out self.md (construct self.md r)

/-- the shape the result array of a Modes×Modes operation has: `out[0]` if given, else `np.zeros(shape)` -/
def resultShape (shape : List Nat) (out : Option Operand) : List Nat :=
  match out with
  | some o => o.shape
  | none => shape

/-- `if out is not None: if result.shape != shape: raise ValueError` (Modes×Modes add / subtract / multiply) -/
def outShapeOk (shape : List Nat) (out : Option Operand) : Bool :=
  match out with
  | none => true
  | some o => o.shape == shape

/-- add / subtract of two Modes of equal spin (shared by the ufunc and the method).  With `out=` the output must
    have exactly the result's shape; it is then cleared and written (entries: `addEntries`). -/
def addCore (self m1 m2 : Obj) (out : Option Operand) : Outcome :=
  let L := Max.max m1.md.ellMax m2.md.ellMax
  match bcast m1.lead m2.lead with
  | none => .err .valueError
  | some ld =>
    if !outShapeOk (ld ++ [(Ysize 0 L).toNat]) out then .err .valueError else
    let res := resultShape (ld ++ [(Ysize 0 L).toNat]) out
    match sliceAssign res (Ysize 0 m1.md.ellMax).toNat m1.shape with
    | .error e => .err e
    | .ok _ =>
      match sliceAssign res (Ysize 0 m2.md.ellMax).toNat m2.shape with
      | .error e => .err e
      | .ok _ =>
        let mt : Meta := { spin := m1.md.spin, ellMax := L, trunc := self.md.trunc }
        withOut out mt (construct mt res)

/-- `ell_max` of a product: explicit truncator, else the greater of what the operands' truncators return -/
def productEllMax (m1 m2 : Obj) (truncator : Option Trunc) : Int :=
  match truncator with
  | some t => t.apply m1.md.ellMax m2.md.ellMax
  | none =>
    Max.max ((m1.md.trunc.getD .sum).apply m1.md.ellMax m2.md.ellMax)
            ((m2.md.trunc.getD .sum).apply m1.md.ellMax m2.md.ellMax)

/-- multiply of two Modes (shared by the ufunc and the method).  With `out=` the output must have exactly the
    product's shape (ValueError otherwise, before anything is written); it is then cleared and the jitted helper
    accumulates into it (entries: `mulEntries`). -/
def mulCore (self m1 m2 : Obj) (truncator : Option Trunc) (out : Option Operand) : Outcome :=
  let s := m1.md.spin + m2.md.spin
  let L := productEllMax m1 m2 truncator
  match bcast m1.lead m2.lead with
  | none => .err .valueError
  | some ld =>
    let shape := ld ++ [(Ysize 0 L).toNat]
    if !outShapeOk shape out then .err .valueError else
    let mt : Meta := { spin := s, ellMax := L, trunc := self.md.trunc }
    withOut out mt (construct mt (resultShape shape out))

/-- the loops of conjugate / real / imag visit `LM_index(ell, ±m, 0)` for `lo ≤ ell ≤ ell_max` in a row of
    length `n` (source) and write rows of leading shape `srcLead` into rows of `dstLead` -/
def pairLoopOk (lo L : Int) (nSrc nDst : Nat) (srcLead dstLead : List Nat) : Except Err Unit :=
  if L < lo then .ok ()
  else if (nSrc : Int) < Ysize 0 L ∨ (nDst : Int) < Ysize 0 L then .error .indexError
  else if bcastTo srcLead dstLead then .ok () else .error .valueError

def arrayUfunc (c : Call) : Outcome :=
  match selfOf c with
  | none => .notDispatched
  | some self =>
    if c.uf.passthrough then
      -- views as ndarray, plain numpy (keywords passed through)
      match c.args.foldl (fun acc a => acc.bind (bcast · a.shape)) (some []) with
      | none => .err .valueError
      | some sh =>
        match c.out with
        | none => .plain .bool sh
        | some o => if bcastTo sh o.shape then .plain .complex o.shape else .err .valueError
    else if !c.uf.allowed then .err .notImplemented
    else if c.kwargs then .err .notImplementedError
    else
      match c.uf with
      | .positive | .negative =>
        -- `ufunc(self.view(np.ndarray), out=out[0].view(np.ndarray))`, on *self*
        let r? := match c.out with
          | none => some self.shape
          | some o => if bcastTo self.shape o.shape then some o.shape else none
        match r? with
        | none => .err .valueError
        | some r => withOut c.out self.md (construct self.md r)
      | .add | .subtract =>
        match c.args with
        | [.modes m1, .modes m2] =>
          if m1.md.spin ≠ m2.md.spin then .err .notImplemented else addCore self m1 m2 c.out
        | [.modes m, .arr sh nz] => scalarBranch self m sh nz true c.out
        | [.arr sh nz, .modes m] => scalarBranch self m sh nz true c.out
        | _ => .err .notImplemented
      | .multiply =>
        match c.args with
        | [.modes m1, .modes m2] => mulCore self m1 m2 none c.out
        | [.modes m, .arr sh nz] => scalarBranch self m sh nz false c.out
        | [.arr sh nz, .modes m] => scalarBranch self m sh nz false c.out
        | _ => .err .notImplemented
      | .divide | .trueDivide =>
        match c.args with
        | [.modes m, .arr sh nz] => scalarBranch self m sh nz false c.out
        | _ => .err .notImplemented
      | .conj | .conjugate =>
        match c.args with
        | .modes m :: _ =>
          -- `c = np.zeros_like(s) if out is None else out[0]` (not viewed: a Modes in `out` keeps its metadata)
          let cshape := resultShape m.shape c.out
          match cshape.reverse with
          | [] => .err .indexError
          | nc :: cl =>
            match pairLoopOk (m.md.spin.natAbs : Int) m.md.ellMax m.n nc m.lead cl.reverse with
            | .error e => .err e
            | .ok _ =>
              let mt : Meta := { m.md with spin := -m.md.spin }
              let inMeta := match c.out with
                | some (.modes o) => some o.md
                | _ => none
              withOut c.out mt (construct mt cshape inMeta)
        | _ => .err .notImplemented
      | .absolute =>
        match c.args with
        | .modes m :: _ => .plain .float m.lead     -- `args[0].norm()`; `out` is ignored
        | _ => .err .attributeError
      | _ => .err .notImplementedError

/-! ## operator and method spellings -/

inductive BinOp where
  | add | sub | mul | div
  deriving DecidableEq, Repr

def BinOp.uf : BinOp → UFunc
  | .add => .add
  | .sub => .subtract
  | .mul => .multiply
  | .div => .trueDivide

/-- `a ∘ b`: `ndarray.__op__` / the reflected `ndarray.__rop__` both end in `ufunc(a, b)` -/
def binop (op : BinOp) (a b : Operand) : Outcome := arrayUfunc { uf := op.uf, args := [a, b] }

/-- `a ∘= b` for an array `a`: `ufunc(a, b, out=(a,))`; Python rebinds the name to what is returned -/
def inplaceOp (op : BinOp) (a b : Operand) : Outcome := arrayUfunc { uf := op.uf, args := [a, b], out := some a }

/-- `-a`, `+a`, `abs(a)` -/
def unop (uf : UFunc) (a : Operand) : Outcome := arrayUfunc { uf := uf, args := [a] }

/-- `Modes.add(other)` / `Modes.subtract(other)` (`Modes.add(other, True)`) -/
def methodAdd (self : Obj) (other : Operand) (subtraction : Bool) : Outcome :=
  match other with
  | .modes o =>
    if self.md.spin ≠ o.md.spin then .err .valueError else addCore self self o none
  | .arr _ nz =>
    if nz then .err .valueError
    else arrayUfunc { uf := if subtraction then .subtract else .add, args := [.modes self, other] }

/-- `Modes.multiply(other, truncator=None)` -/
def methodMultiply (self : Obj) (other : Operand) (truncator : Option Trunc) : Outcome :=
  match other with
  | .modes o => mulCore self self o truncator none
  | .arr sh _ =>
    match checkBroadcasting self sh with
    | .raise => .err .valueError
    | .yes => binop .mul (.modes self) other
    | .no => .err .valueError     -- the reversed check fails for the same shapes

/-- `Modes.divide(other)` -/
def methodDivide (self : Obj) (other : Operand) : Outcome :=
  match other with
  | .modes _ => .err .valueError
  | .arr _ _ => binop .div (.modes self) other

/-- `Modes.conjugate(inplace)` / `.conj` / `.bar`: `same = true` when `self` itself is returned -/
def methodConjugate (self : Obj) (inplace : Bool) : Outcome × Bool :=
  match pairLoopOk (self.md.spin.natAbs : Int) self.md.ellMax self.n self.n self.lead self.lead with
  | .error e => (.err e, false)
  | .ok _ =>
    let mt : Meta := { self.md with spin := -self.md.spin }
    if inplace then (.modes { self with md := mt } none, true)
    else (construct mt self.shape, false)

/-- `Modes.real` / `Modes.imag` -/
def methodRealImag (self : Obj) : Outcome :=
  if self.md.spin ≠ 0 then .err .valueError else
  match pairLoopOk (self.md.spin.natAbs : Int) self.md.ellMax self.n self.n self.lead self.lead with
  | .error e => .err e
  | .ok _ => construct self.md self.shape

/-- `Modes.norm()` -/
def methodNorm (self : Obj) : Outcome := .plain .float self.lead

/-! ## the conjugation loops (entries) -/

/-- a row of entries being written (a structure rather than a bare function so that compiled code evaluates a
    loop once instead of once per lookup) -/
structure Row (α : Type) where
  get : Nat → α

/-- `c[..., i] = v` -/
def Row.upd {α : Type} (c : Row α) (i : Nat) (v : α) : Row α := ⟨fun p => if p = i then v else c.get p⟩

/-- `x` or `-x` according to the parity of `k` (`k % 2 == 0` in Python: non-negative remainder) -/
def sgn {α : Type} (neg : α → α) (k : Int) (x : α) : α := if k % 2 = 0 then x else neg x

/-- position of `(ell, m)` in a row starting at `ell = 0` -/
def pos (ell m : Int) : Nat := (Yindex ell m 0).toNat

/-- one `ell` of the loop in `Modes.conjugate` (spherical/modes/algebra.py); `inplace`: `c` *is* `s` -/
def conjStepMethod {α : Type} (neg conj : α → α) (s : Int) (inplace : Bool) (src : Nat → α)
    (c : Row α) (ell : Int) : Row α :=
  let rd := fun (c : Row α) (p : Nat) => if inplace then c.get p else src p
  let c := c.upd (pos ell 0) (sgn neg s (conj (rd c (pos ell 0))))
  (Spec.irange 1 ell).foldl (fun c m =>
    let a := conj (rd c (pos ell (-m)))
    let b := conj (rd c (pos ell m))
    (c.upd (pos ell m) (sgn neg (s + m) a)).upd (pos ell (-m)) (sgn neg (s + m) b)) c

/-- `Modes.conjugate(inplace)`: the row written, starting from `c0` (`np.zeros_like(s)`, or `s` itself) -/
def conjLoopMethod {α : Type} (neg conj : α → α) (s L : Int) (inplace : Bool) (src : Nat → α) (c0 : Row α) : Row α :=
  (Spec.irange (s.natAbs : Int) L).foldl (conjStepMethod neg conj s inplace src) c0

/-- one `ell` of the loop in the `np.conjugate` branch of `__array_ufunc__` (spherical/modes/ufuncs.py) -/
def conjStepUfunc {α : Type} (neg conj : α → α) (s : Int) (src : Nat → α) (c : Row α) (ell : Int) : Row α :=
  let i := pos ell 0
  let c := if s % 2 = 0 then c.upd i (conj (src i)) else c.upd i (neg (conj (src i)))
  (Spec.irange 1 ell).foldl (fun c m =>
    let ip := pos ell m
    let im := pos ell (-m)
    if (s + m) % 2 = 0 then (c.upd ip (conj (src im))).upd im (conj (src ip))
    else (c.upd ip (neg (conj (src im)))).upd im (neg (conj (src ip)))) c

/-- the `np.conjugate` branch: `c0` = `np.zeros_like(s)` or the content of `out[0]` -/
def conjLoopUfunc {α : Type} (neg conj : α → α) (s L : Int) (src : Nat → α) (c0 : Row α) : Row α :=
  (Spec.irange (s.natAbs : Int) L).foldl (conjStepUfunc neg conj s src) c0

/-- the stored row of the result: the constructor then zeroes everything below `|−s|` -/
def conjRow {α : Type} (neg conj : α → α) (s L : Int) (src : Nat → α) (c0 : Row α) (zero : α) : Nat → α :=
  stored (-s) 0 L (conjLoopUfunc neg conj s L src c0).get zero

/-! ## `_multiplication_helper`: the loop nest as a list of terms -/

/-- `(ell1, m1, ell2, m2, ell3)` -/
abbrev Term := Int × Int × Int × Int × Int

def Term.ell3 (t : Term) : Int := t.2.2.2.2
def Term.m3 (t : Term) : Int := t.2.1 + t.2.2.2.1

/-- index written: `LM_index(ell3, m1+m2, 0)` -/
def Term.widx (t : Term) : Nat := pos t.ell3 t.m3

/-- the terms in the order the helper visits them (`ellmin_f = ellmin_g = ellmin_fg = 0` as every Modes has) -/
def terms (L1 L2 Lfg : Int) : List Term :=
  (Spec.irange 0 L1).flatMap fun ell1 =>
    (Spec.irange (-ell1) ell1).flatMap fun m1 =>
      (Spec.irange 0 L2).flatMap fun ell2 =>
        (Spec.irange (-ell2) ell2).flatMap fun m2 =>
          (Spec.irange (Max.max (((m1 + m2).natAbs : Nat) : Int) (((ell1 - ell2).natAbs : Nat) : Int))
              (Min.min (ell1 + ell2) Lfg)).map fun ell3 => (ell1, m1, ell2, m2, ell3)

/-- the accumulation `fg[..., i] += val(term)` over a list of terms, starting from `fg0` -/
def accumulate {β : Type} (add : β → β → β) (val : Term → β) (ts : List Term) (fg0 : Row β) : Row β :=
  ts.foldl (fun fg t => fg.upd t.widx (add (fg.get t.widx) (val t))) fg0

/-! ## entries of Modes×Modes add / subtract / multiply, with and without `out=`

    Arrays are rows by buffer identity (`mem`), so that `out` may be the very buffer of an operand.  The code with
    `out=` first takes copies of both operands (`.copy()`: their content *before* anything is written), then clears
    the output (`result[...] = 0.0`), then writes exactly as it does into a fresh `np.zeros`. -/

/-- `res[..., 0:k] = src` -/
def Row.sliceSet {β : Type} (res : Row β) (k : Nat) (src : Nat → β) : Row β :=
  ⟨fun p => if p < k then src p else res.get p⟩

/-- `res[..., 0:k] += src` / `-= src` -/
def Row.sliceAcc {β : Type} (comb : β → β → β) (res : Row β) (k : Nat) (src : Nat → β) : Row β :=
  ⟨fun p => if p < k then comb (res.get p) (src p) else res.get p⟩

/-- the memory after `np.add(m1, m2, out=…)` / `np.subtract`: `b1`, `b2` the operands' buffers, `bo` the output's
    (`none`: a fresh buffer `fresh` of zeros); `k1`, `k2` = `LM_total_size(0, ell_max)` of the operands -/
def addEntries {β : Type} (comb : β → β → β) (zero : β) (k1 k2 : Nat) (mem : Nat → Row β) (b1 b2 fresh : Nat)
    (out : Option Nat) : (Nat → Row β) × Nat :=
  let a1 := (mem b1).get
  let a2 := (mem b2).get
  match out with
  | none =>
    let res : Row β := ⟨fun _ => zero⟩                                            -- np.zeros(shape)
    (fun i => if i = fresh then (res.sliceSet k1 a1).sliceAcc comb k2 a2 else mem i, fresh)
  | some bo =>
    -- `a1, a2 = a1.copy(), a2.copy()`: the values read below are those held before the output is touched
    let mem1 : Nat → Row β := fun i => if i = bo then ⟨fun _ => zero⟩ else mem i    -- result[...] = 0.0
    let mem2 : Nat → Row β := fun i => if i = bo then (mem1 bo).sliceSet k1 a1 else mem1 i
    (fun i => if i = bo then (mem2 bo).sliceAcc comb k2 a2 else mem2 i, bo)

/-- the memory after `np.multiply(m1, m2, out=…)`: `val f g t` is the contribution of term `t` given the operand
    rows (it does not depend on the output) -/
def mulEntries {β : Type} (add : β → β → β) (val : (Nat → β) → (Nat → β) → Term → β) (zero : β) (L1 L2 L : Int)
    (mem : Nat → Row β) (b1 b2 fresh : Nat) (out : Option Nat) : (Nat → Row β) × Nat :=
  let s := (mem b1).get
  let o := (mem b2).get
  match out with
  | none =>
    (fun i => if i = fresh then accumulate add (val s o) (terms L1 L2 L) ⟨fun _ => zero⟩ else mem i, fresh)
  | some bo =>
    -- `s, o = s.copy(), o.copy()` then `result[...] = 0.0`
    let mem1 : Nat → Row β := fun i => if i = bo then ⟨fun _ => zero⟩ else mem i
    (fun i => if i = bo then accumulate add (val s o) (terms L1 L2 L) (mem1 bo) else mem1 i, bo)

/-! ## copy / pickle hooks -/

/-- a metadata value: immutable atoms, or a reference to a mutable Python object (a list, say) -/
inductive Val where
  | int (i : Int)
  | fn (name : String)
  | none
  | ref (id : Nat)
  deriving DecidableEq, Repr

inductive Cls where
  | modes | ndarray
  deriving DecidableEq, Repr

/-- an array object: class, identity of its data buffer, identity of its `_metadata` dict -/
structure PyObj where
  cls : Cls
  buf : Nat
  dict : Nat
  deriving DecidableEq, Repr

/-- the part of the Python heap that matters: dicts, mutable values and data buffers by identity, with
    allocation counters (every identity `≥ next…` is fresh) -/
structure Heap where
  dicts : Nat → List (String × Val)
  vals : Nat → List Int
  bufs : Nat → Nat → Int
  nextDict : Nat
  nextVal : Nat
  nextBuf : Nat

def Heap.lookup (h : Heap) (d : Nat) (k : String) : Option Val := (h.dicts d).lookup k

/-- `obj` lives in `h`: its buffer, its dict and the mutable values its dict refers to have been allocated -/
def Heap.Live (h : Heap) (obj : PyObj) : Prop :=
  obj.buf < h.nextBuf ∧ obj.dict < h.nextDict ∧ ∀ k id, (k, Val.ref id) ∈ h.dicts obj.dict → id < h.nextVal

/-- `v` (in heap `h`) and `v'` (in heap `h'`) are equal as Python values: the same atom, or mutable objects with
    equal content -/
def sameValue (h : Heap) (v : Val) (h' : Heap) (v' : Val) : Prop :=
  match v, v' with
  | .ref a, .ref b => h'.vals b = h.vals a
  | .ref _, _ => False
  | a, b => b = a

/-- `d[k] = v` -/
def Heap.setKey (h : Heap) (d : Nat) (k : String) (v : Val) : Heap :=
  { h with dicts := fun i => if i = d then (k, v) :: (h.dicts d).filter (fun e => e.1 != k) else h.dicts i }

/-- in-place mutation of a mutable value (`lst.append(x)`) -/
def Heap.mutate (h : Heap) (id : Nat) (x : Int) : Heap :=
  { h with vals := fun i => if i = id then h.vals id ++ [x] else h.vals i }

/-- `arr[...] = x` on the buffer -/
def Heap.fill (h : Heap) (b : Nat) (x : Int) : Heap :=
  { h with bufs := fun i => if i = b then fun _ => x else h.bufs i }

/-- `copy.copy(d)`: a new dict with the same values (references shared) -/
def Heap.shallowCopyDict (h : Heap) (d : Nat) : Heap × Nat :=
  ({ h with dicts := fun i => if i = h.nextDict then h.dicts d else h.dicts i, nextDict := h.nextDict + 1 },
   h.nextDict)

/-- `copy.deepcopy` of one value -/
def Heap.deepCopyVal (h : Heap) : Val → Heap × Val
  | .ref id => ({ h with vals := fun i => if i = h.nextVal then h.vals id else h.vals i, nextVal := h.nextVal + 1 },
                .ref h.nextVal)
  | v => (h, v)

def Heap.deepCopyEntries (h : Heap) : List (String × Val) → Heap × List (String × Val)
  | [] => (h, [])
  | (k, v) :: es =>
    let (h1, v') := h.deepCopyVal v
    let (h2, es') := h1.deepCopyEntries es
    (h2, (k, v') :: es')

/-- `copy.deepcopy(d)` / a pickle round trip of the dict -/
def Heap.deepCopyDict (h : Heap) (d : Nat) : Heap × Nat :=
  let (h1, es) := h.deepCopyEntries (h.dicts d)
  ({ h1 with dicts := fun i => if i = h1.nextDict then es else h1.dicts i, nextDict := h1.nextDict + 1 },
   h1.nextDict)

/-- a fresh buffer holding a copy of the data -/
def Heap.copyBuf (h : Heap) (b : Nat) : Heap × Nat :=
  ({ h with bufs := fun i => if i = h.nextBuf then h.bufs b else h.bufs i, nextBuf := h.nextBuf + 1 }, h.nextBuf)

/-- `spin_weight` / `ell_max` are forced to exist (as `None`) by `__array_finalize__` -/
def ensureKeys (es : List (String × Val)) : List (String × Val) :=
  let es := if (es.lookup "spin_weight").isSome then es else es ++ [("spin_weight", Val.none)]
  if (es.lookup "ell_max").isSome then es else es ++ [("ell_max", Val.none)]

/-- `Modes.__array_finalize__(self, obj)` for a new array on buffer `buf` derived from `obj`:
    `self._metadata = copy.copy(obj._metadata)` -/
def finalize (h : Heap) (buf : Nat) (obj : PyObj) : Heap × PyObj :=
  let (h1, d) := h.shallowCopyDict obj.dict
  ({ h1 with dicts := fun i => if i = d then ensureKeys (h1.dicts d) else h1.dicts i }, ⟨.modes, buf, d⟩)

/-- a view (`modes[i]`, `modes[..., :k]`): same buffer, finalized metadata -/
def viewObj (h : Heap) (obj : PyObj) : Heap × PyObj := finalize h obj.buf obj

/-- `Modes.__reduce__` then `Modes.__setstate__`: the ndarray state (class, data) plus `_metadata`,
    serialised (deep) and restored with `copy.deepcopy` -/
def pickleRoundTrip (h : Heap) (obj : PyObj) : Heap × PyObj :=
  let (h1, b) := h.copyBuf obj.buf
  let (h2, d1) := h1.deepCopyDict obj.dict       -- serialisation of state[-1]
  let (h3, d2) := h2.deepCopyDict d1             -- `copy.deepcopy(state[-1])` in `__setstate__`
  (h3, ⟨obj.cls, b, d2⟩)

/-- `Modes.__deepcopy__`: `super().__deepcopy__(memo)` (new data, `__array_finalize__`: a shallow dict copy that is
    then dropped) followed by `result._metadata = copy.deepcopy(self._metadata, memo)` -/
def deepCopyHook (h : Heap) (obj : PyObj) : Heap × PyObj :=
  let (h1, b) := h.copyBuf obj.buf
  let (h2, c) := finalize h1 b obj
  let (h3, d) := h2.deepCopyDict obj.dict
  (h3, { c with dict := d })

inductive Route where
  | copyMethod        -- `obj.copy()`
  | copyCopy          -- `copy.copy(obj)`      (ndarray.__copy__)
  | deepCopy          -- `copy.deepcopy(obj)`  (`Modes.__deepcopy__`)
  | npArray           -- `np.array(obj, copy=True, subok=True)`
  | pickle (protocol : Nat)
  deriving DecidableEq, Repr

/-- the routes that deep-copy the metadata values -/
def Route.deep : Route → Bool
  | .deepCopy | .pickle _ => true
  | _ => false

def copyRoute (r : Route) (h : Heap) (obj : PyObj) : Heap × PyObj :=
  match r with
  | .pickle _ => pickleRoundTrip h obj
  | .deepCopy => deepCopyHook h obj
  | _ =>
    let (h1, b) := h.copyBuf obj.buf
    finalize h1 b obj

/-- `truncate_ell` on the heap: a view whose own dict gets `ell_max = L` -/
def truncateObj (h : Heap) (obj : PyObj) (L : Int) : Heap × PyObj :=
  let (h1, v) := viewObj h obj
  (h1.setKey v.dict "ell_max" (.int L), v)

end Model.Modes
