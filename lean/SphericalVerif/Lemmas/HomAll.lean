import SphericalVerif.Props.DAll
import SphericalVerif.Props.DocHom
/-! Helper lemmas for `Props/HomAll.lean`: the representation laws of what the MODEL of `Wigner.D` / `Wigner.sYlm` /
    `Wigner.rotate` / `Wigner.evaluate` computes, for EVERY degree ℓ.

    Nothing new is computed here: `DAll.D_all` (model = documented sum `DDef.docD`, every ℓ, every unit quaternion)
    is combined with `DocHom.docD_*` (the documented sum is a unitary representation, every ℓ).  The file provides
      * `objD_doc`, `objY_doc`, `objRotH_doc`, `objEvalH_doc`: the four object-level models in terms of `docD`
        (rotor given as a `Model.Quat`, R_a = `DHom.QA`, R_b = `DHom.QB`);
      * matrix algebra of `docD` that `Props/DocHom.lean` does not state: left inverse and orthonormal COLUMNS;
      * `rot`, `Ylm`, `evalW`: rotation of mode weights by the documented matrix, the documented spin-weighted
        harmonic as a function of a rotor, evaluation of a set of weights; their algebra. -/
noncomputable section
namespace HomAll
open Model Spec Horner DDef DHom
open scoped ComplexConjugate

/-! ### index bookkeeping -/

theorem mem_blk {ℓ : ℕ} {k : ℤ} (hk : k ∈ Finset.Icc (-(ℓ : ℤ)) ℓ) : k.natAbs ≤ ℓ := by
  rw [Finset.mem_Icc] at hk; omega

theorem blk_mem {ℓ : ℕ} {k : ℤ} (hk : k.natAbs ≤ ℓ) : k ∈ Finset.Icc (-(ℓ : ℤ)) ℓ := by
  rw [Finset.mem_Icc]; omega

/-- Σ_n g(n)·δ_{n,m} = g(m) for m in the block -/
theorem sum_mul_delta (ℓ : ℕ) (g : ℤ → ℂ) (m : ℤ) (hm : m.natAbs ≤ ℓ) :
    ∑ n ∈ Finset.Icc (-(ℓ : ℤ)) ℓ, g n * (if n = m then (1 : ℂ) else 0) = g m := by
  simp only [mul_ite, mul_one, mul_zero]
  rw [Finset.sum_ite_eq', if_pos (blk_mem hm)]

/-- Σ_k g(k)·δ_{n,k} = g(n) for n in the block -/
theorem sum_mul_delta' (ℓ : ℕ) (g : ℤ → ℂ) (n : ℤ) (hn : n.natAbs ≤ ℓ) :
    ∑ k ∈ Finset.Icc (-(ℓ : ℤ)) ℓ, g k * (if n = k then (1 : ℂ) else 0) = g n := by
  simp only [mul_ite, mul_one, mul_zero]
  rw [Finset.sum_ite_eq, if_pos (blk_mem hn)]

/-! ### rotors -/

/-- the identity rotor -/
def qone : Quat ℝ := ⟨1, 0, 0, 0⟩

theorem qone_unit : qone.w ^ 2 + qone.x ^ 2 + qone.y ^ 2 + qone.z ^ 2 = 1 := by
  simp [qone]

theorem QA_one : QA qone = 1 := by apply Complex.ext <;> simp [QA, Ra, qone]
theorem QB_one : QB qone = 0 := by apply Complex.ext <;> simp [QB, Rb, qone]

theorem Ra_one : Ra 1 0 = 1 := QA_one
theorem Rb_zero : Rb 0 0 = 0 := QB_one

/-- R·R̄ = 1 for a unit quaternion -/
theorem qmul_qconj (R : Quat ℝ) (hR : R.w ^ 2 + R.x ^ 2 + R.y ^ 2 + R.z ^ 2 = 1) : qmul R (qconj R) = qone := by
  simp only [qmul, qconj, qone, Quat.mk.injEq]
  refine ⟨?_, ?_, ?_, ?_⟩
  · rw [← hR]; ring
  · ring
  · ring
  · ring

/-- R̄·R = 1 for a unit quaternion -/
theorem qconj_qmul (R : Quat ℝ) (hR : R.w ^ 2 + R.x ^ 2 + R.y ^ 2 + R.z ^ 2 = 1) : qmul (qconj R) R = qone := by
  simp only [qmul, qconj, qone, Quat.mk.injEq]
  refine ⟨?_, ?_, ?_, ?_⟩
  · rw [← hR]; ring
  · ring
  · ring
  · ring

/-- the quaternion product is associative -/
theorem qmul_assoc (P Q R : Quat ℝ) : qmul (qmul P Q) R = qmul P (qmul Q R) := by
  simp only [qmul, Quat.mk.injEq]
  refine ⟨?_, ?_, ?_, ?_⟩ <;> ring

/-! ### matrix algebra of the documented sum beyond `Props/DocHom.lean` -/

theorem unit_inv {A B : ℂ} (h : A * conj A + B * conj B = 1) :
    conj A * conj (conj A) + (-B) * conj (-B) = 1 := by
  rw [Complex.conj_conj, map_neg]; linear_combination h

/-- D(conj A, −B)·D(A, B) = 1 when |A|² + |B|² = 1 (the LEFT inverse; `DocHom.docD_mul_inverse` is the right one) -/
theorem docD_inverse_mul (ℓ : ℕ) (A B : ℂ) (hAB : A * conj A + B * conj B = 1) (mp m : ℤ) (hmp : mp.natAbs ≤ ℓ)
    (hm : m.natAbs ≤ ℓ) :
    ∑ k ∈ Finset.Icc (-(ℓ : ℤ)) ℓ, docD ℓ (conj A) (-B) mp k * docD ℓ A B k m = if mp = m then 1 else 0 := by
  have h := DocHom.docD_mul_inverse ℓ (conj A) (-B) (unit_inv hAB) mp m hmp hm
  rw [Complex.conj_conj, neg_neg] at h
  exact h

/-- the COLUMNS of D(A, B) are orthonormal when |A|² + |B|² = 1: Σ_k conj(D_{k,m'}) D_{k,m} = δ_{m',m} -/
theorem docD_col_unitary (ℓ : ℕ) (A B : ℂ) (hAB : A * conj A + B * conj B = 1) (mp m : ℤ) (hmp : mp.natAbs ≤ ℓ)
    (hm : m.natAbs ≤ ℓ) :
    ∑ k ∈ Finset.Icc (-(ℓ : ℤ)) ℓ, conj (docD ℓ A B k mp) * docD ℓ A B k m = if mp = m then 1 else 0 := by
  rw [← docD_inverse_mul ℓ A B hAB mp m hmp hm]
  apply Finset.sum_congr rfl
  intro k hk
  rw [DocHom.docD_inverse ℓ A B mp k hmp (mem_blk hk)]

/-- a column of a unitary matrix has norm 1: Σ_k |D_{k,m}|² = 1 (as a real number) -/
theorem docD_col_normSq (ℓ : ℕ) (A B : ℂ) (hAB : A * conj A + B * conj B = 1) (m : ℤ) (hm : m.natAbs ≤ ℓ) :
    ∑ k ∈ Finset.Icc (-(ℓ : ℤ)) ℓ, Complex.normSq (docD ℓ A B k m) = 1 := by
  have h := docD_col_unitary ℓ A B hAB m m hm hm
  rw [if_pos rfl] at h
  have h2 : ((∑ k ∈ Finset.Icc (-(ℓ : ℤ)) ℓ, Complex.normSq (docD ℓ A B k m) : ℝ) : ℂ) = 1 := by
    rw [← h, Complex.ofReal_sum]
    apply Finset.sum_congr rfl
    intro k _
    rw [mul_comm, Complex.mul_conj]
  exact_mod_cast h2

/-! ### the object-level models in terms of the documented sum -/

section model
variable {μ : Type} [Mem μ ℝ] [LawfulMem μ ℝ]

/-- `DAll.D_all` for a rotor given as a `Quat`, in the vocabulary R_a = `QA R`, R_b = `QB R` -/
theorem objD_doc (L : ℕ) (st : μ) (R : Quat ℝ) (hR : R.w ^ 2 + R.x ^ 2 + R.y ^ 2 + R.z ^ 2 = 1)
    (imsqrt : Cx ℝ → ℝ) (hs : ∀ w : Cx ℝ, w.re ^ 2 + w.im ^ 2 = 1 → 2 * (imsqrt w) ^ 2 = 1 - w.re)
    (ℓ : ℕ) (hl : ℓ ≤ L) (mp m : ℤ) (hmp : mp.natAbs ≤ ℓ) (hm : m.natAbs ≤ ℓ) :
    toC (objD L st R.w R.x R.y R.z imsqrt ℓ mp m) = docD ℓ (QA R) (QB R) mp m :=
  DAll.D_all L st R.w R.x R.y R.z hR imsqrt hs ℓ hl mp m hmp hm

/-- the documented spin-weighted spherical harmonic as a function of a rotor (docs of the library; the right-hand side
    of `DAll.sYlm_all`):  ₛY_{ℓm}(Q) = (−1)^s √((2ℓ+1)/(4π)) · D^ℓ_{m,−s}(Q) -/
def Ylm (s : ℤ) (Q : Quat ℝ) (ℓ : ℕ) (m : ℤ) : ℂ :=
  (((-1) ^ s.natAbs * Real.sqrt ((2 * (ℓ : ℝ) + 1) / (4 * Real.pi)) : ℝ) : ℂ) * docD ℓ (QA Q) (QB Q) m (-s)

/-- `DAll.sYlm_all` for a rotor given as a `Quat` -/
theorem objY_doc (L P : ℕ) (st : μ) (R : Quat ℝ) (hR : R.w ^ 2 + R.x ^ 2 + R.y ^ 2 + R.z ^ 2 = 1)
    (imsqrt : Cx ℝ → ℝ) (hs : ∀ w : Cx ℝ, w.re ^ 2 + w.im ^ 2 = 1 → 2 * (imsqrt w) ^ 2 = 1 - w.re)
    (zgpow : Cx ℝ) (s : ℤ) (hY : toC zgpow = toC (eulerPhases R.w R.x R.y R.z).2.2 ^ s.natAbs)
    (ℓ : ℕ) (hl : ℓ ≤ L) (hsl : s.natAbs ≤ ℓ) (hsP : s.natAbs ≤ P) (m : ℤ) (hm : m.natAbs ≤ ℓ) :
    toC (objY L P st R.w R.x R.y R.z imsqrt zgpow s ℓ m) = Ylm s R ℓ m :=
  DAll.sYlm_all L P st R.w R.x R.y R.z hR imsqrt hs zgpow s hY ℓ hl hsl hsP m hm

/-- `Wigner.rotate(modes, R, horner=True)`, output weight (ℓ, m), ℓ ≥ |s|: the row vector of input weights of degree ℓ
    times the documented matrix, Σ_n f_{ℓ,n} D^ℓ_{n,m}(R).  `zgpow m` is the library power `zᵧ**m`. -/
theorem objRotH_doc (L : ℕ) (st : μ) (R : Quat ℝ) (hR : R.w ^ 2 + R.x ^ 2 + R.y ^ 2 + R.z ^ 2 = 1)
    (zgpow : ℤ → Cx ℝ) (f : Array (Cx ℝ)) (s : ℤ) (ℓ : ℕ) (hl : ℓ ≤ L) (hsl : s.natAbs ≤ ℓ)
    (m : ℤ) (hm : m.natAbs ≤ ℓ)
    (hpow : toC (zgpow m) = toC (eulerPhases R.w R.x R.y R.z).2.2 ^ m) :
    toC (objRotH L st R.w R.x R.y R.z zgpow f s ℓ m)
      = ∑ n ∈ Finset.Icc (-(ℓ : ℤ)) ℓ, toC (fAt f ℓ n) * docD ℓ (QA R) (QB R) n m := by
  unfold objRotH
  rw [eulerPhases_unit R.w R.x R.y R.z hR] at hpow ⊢
  simp only [] at hpow ⊢
  rw [if_neg (by omega)]
  have up := (zpR_spec R.w R.z).2
  have um := (zmR_spec R.x R.y).2
  have uz := mul_unit _ _ up (conj_unit _ um)
  rw [Routes.rotateHorner_eq_matrix _ f _ (Cx.mul (zpR R.w R.z) (Cx.conj (zmR R.x R.y))) zgpow
      (cpowers (Cx.mul (zpR R.w R.z) (zmR R.x R.y)) L imsqrtR)
      (cpowers (Cx.mul (zpR R.w R.z) (Cx.conj (zmR R.x R.y))) L imsqrtR) ℓ m hm
      (fun k hk => cpowers_cget _ (mul_unit _ _ up um) L imsqrtR imsqrtR_spec k (by omega))
      (fun k hk => cpowers_cget _ uz L imsqrtR imsqrtR_spec k (by omega))
      (DAll.normSq_of_unit (unit_mul_conj _ uz)) hpow]
  apply Finset.sum_congr rfl
  intro n hn
  rw [DAll.DEntry_core L L st R.w R.x R.y R.z hR imsqrtR imsqrtR_spec ℓ hl n m (mem_blk hn) hm (by omega)]
  rfl

/-- `Wigner.evaluate(modes, Q, horner=True)` for one row of weights and one rotor: Σ_{ℓ=|s|}^{ellMax} Σ_m f_{ℓm} ₛY_{ℓm}(Q)
    with the documented harmonics.  `zgpowE` is the library power `zᵧ.conjugate()**s`; `prev` (the previous content of
    the output cell) is irrelevant. -/
theorem objEvalH_doc (L P : ℕ) (st : μ) (Q : Quat ℝ) (hQ : Q.w ^ 2 + Q.x ^ 2 + Q.y ^ 2 + Q.z ^ 2 = 1)
    (zgpowE : Cx ℝ) (f : Array (Cx ℝ)) (s : ℤ) (ellMax : ℕ) (hL : ellMax ≤ L) (hsP : s.natAbs ≤ P) (prev : Cx ℝ)
    (hE : toC zgpowE = conj (toC (eulerPhases Q.w Q.x Q.y Q.z).2.2) ^ s) :
    toC (objEvalH L P st Q.w Q.x Q.y Q.z zgpowE f s ellMax prev)
      = ∑ ℓ ∈ Finset.Icc s.natAbs ellMax, ∑ m ∈ Finset.Icc (-(ℓ : ℤ)) ℓ, toC (fAt f ℓ m) * Ylm s Q ℓ m := by
  unfold objEvalH
  rw [eulerPhases_unit Q.w Q.x Q.y Q.z hQ] at hE ⊢
  simp only [] at hE ⊢
  unfold evaluateHornerK
  simp only []
  have up := (zpR_spec Q.w Q.z).2
  have um := (zmR_spec Q.x Q.y).2
  have uz := mul_unit _ _ up (conj_unit _ um)
  rw [Routes.evaluate_eq_sum_sYlm _ f _ (Cx.mul (zpR Q.w Q.z) (Cx.conj (zmR Q.x Q.y))) zgpowE
      (ofC (toC (Cx.mul (zpR Q.w Q.z) (Cx.conj (zmR Q.x Q.y))) ^ s.natAbs))
      (cpowers (Cx.mul (zpR Q.w Q.z) (zmR Q.x Q.y)) L imsqrtR) s ellMax
      (fun k hk => cpowers_cget _ (mul_unit _ _ up um) L imsqrtR imsqrtR_spec k (by omega))
      (DAll.normSq_of_unit (unit_mul_conj _ uz)) hE (toC_ofC _)]
  apply Finset.sum_congr rfl
  intro ℓ hℓ
  rw [Finset.mem_Icc] at hℓ
  apply Finset.sum_congr rfl
  intro m hm
  have hm' := mem_blk hm
  rw [Routes.sYlm_eq_D_column _ (cpowers (Cx.mul (zpR Q.w Q.z) (zmR Q.x Q.y)) L imsqrtR)
      (cpowers (Cx.mul (zpR Q.w Q.z) (Cx.conj (zmR Q.x Q.y))) L imsqrtR)
      (Cx.mul (zpR Q.w Q.z) (Cx.conj (zmR Q.x Q.y))) _ s ℓ m hℓ.1
      (fun k hk => cpowers_cget _ uz L imsqrtR imsqrtR_spec k (by omega)) (toC_ofC _),
    DAll.DEntry_core L P st Q.w Q.x Q.y Q.z hQ imsqrtR imsqrtR_spec ℓ (by omega) m (-s) hm' (by omega) (by omega)]
  rfl

end model

/-! ### rotation of mode weights by the documented matrix -/

/-- the weights `f` (a function of (ℓ, m)) rotated by the rotor R: the ROW vector of each degree times the documented
    matrix, (rot R f)_{ℓ,m} = Σ_n f_{ℓ,n} D^ℓ_{n,m}(R) — what `Wigner.rotate` computes (`objRotH_doc`) -/
def rot (R : Quat ℝ) (f : ℕ → ℤ → ℂ) (ℓ : ℕ) (m : ℤ) : ℂ :=
  ∑ n ∈ Finset.Icc (-(ℓ : ℤ)) ℓ, f ℓ n * docD ℓ (QA R) (QB R) n m

/-- the value at the rotor Q of the spin-s function with weights `f`, degrees |s| … ellMax — what `Wigner.evaluate`
    computes (`objEvalH_doc`) -/
def evalW (s : ℤ) (Q : Quat ℝ) (f : ℕ → ℤ → ℂ) (ellMax : ℕ) : ℂ :=
  ∑ ℓ ∈ Finset.Icc s.natAbs ellMax, ∑ m ∈ Finset.Icc (-(ℓ : ℤ)) ℓ, f ℓ m * Ylm s Q ℓ m

/-- the weights stored in an array, as a function of (ℓ, m) -/
def wts (f : Array (Cx ℝ)) (ℓ : ℕ) (m : ℤ) : ℂ := toC (fAt f ℓ m)

/-- rotating by P, then by Q, is rotating by the product P·Q (in this order) -/
theorem compose_rot (P Q : Quat ℝ) (f : ℕ → ℤ → ℂ) (ℓ : ℕ) (m : ℤ) (hm : m.natAbs ≤ ℓ) :
    rot Q (rot P f) ℓ m = rot (qmul P Q) f ℓ m := by
  simp only [rot, Finset.sum_mul]
  rw [Finset.sum_comm]
  apply Finset.sum_congr rfl
  intro n hn
  rw [DocHom.docD_hom_quat ℓ P Q n m (mem_blk hn) hm, Finset.mul_sum]
  apply Finset.sum_congr rfl
  intro k _
  ring

theorem identity_rot (f : ℕ → ℤ → ℂ) (ℓ : ℕ) (m : ℤ) (hm : m.natAbs ≤ ℓ) : rot qone f ℓ m = f ℓ m := by
  simp only [rot, QA_one, QB_one]
  rw [Finset.sum_congr rfl (fun n hn => by rw [DocHom.docD_identity ℓ n m (mem_blk hn) hm])]
  exact sum_mul_delta ℓ (f ℓ) m hm

theorem neg_rot (R : Quat ℝ) (f : ℕ → ℤ → ℂ) (ℓ : ℕ) (m : ℤ) (hm : m.natAbs ≤ ℓ) :
    rot (qneg R) f ℓ m = rot R f ℓ m := by
  simp only [rot]
  apply Finset.sum_congr rfl
  intro n hn
  rw [DocHom.docD_neg_quat ℓ R n m (mem_blk hn) hm]

/-- every ℓ-block keeps its norm: Σ_m (rot R f)_{ℓm} conj (rot R f)_{ℓm} = Σ_m f_{ℓm} conj f_{ℓm} -/
theorem block_norm_rot (R : Quat ℝ) (hR : R.w ^ 2 + R.x ^ 2 + R.y ^ 2 + R.z ^ 2 = 1) (f : ℕ → ℤ → ℂ) (ℓ : ℕ) :
    ∑ m ∈ Finset.Icc (-(ℓ : ℤ)) ℓ, rot R f ℓ m * conj (rot R f ℓ m)
      = ∑ m ∈ Finset.Icc (-(ℓ : ℤ)) ℓ, f ℓ m * conj (f ℓ m) := by
  have e1 : ∑ m ∈ Finset.Icc (-(ℓ : ℤ)) ℓ, rot R f ℓ m * conj (rot R f ℓ m)
      = ∑ n ∈ Finset.Icc (-(ℓ : ℤ)) ℓ, ∑ k ∈ Finset.Icc (-(ℓ : ℤ)) ℓ, (f ℓ n * conj (f ℓ k))
          * ∑ m ∈ Finset.Icc (-(ℓ : ℤ)) ℓ, docD ℓ (QA R) (QB R) n m * conj (docD ℓ (QA R) (QB R) k m) := by
    simp only [rot, map_sum, map_mul, Finset.sum_mul_sum]
    rw [Finset.sum_comm]
    apply Finset.sum_congr rfl
    intro n _
    rw [Finset.sum_comm]
    apply Finset.sum_congr rfl
    intro k _
    rw [Finset.mul_sum]
    apply Finset.sum_congr rfl
    intro m _
    ring
  rw [e1]
  apply Finset.sum_congr rfl
  intro n hn
  rw [Finset.sum_congr rfl (fun k hk => by
    rw [DocHom.docD_unitary_quat ℓ R hR n k (mem_blk hn) (mem_blk hk)])]
  exact sum_mul_delta' ℓ (fun k => f ℓ n * conj (f ℓ k)) n (mem_blk hn)

/-- one degree of `rot_evaluate`: Σ_m (rot R f)_{ℓm} ₛY_{ℓm}(Q) = Σ_n f_{ℓn} ₛY_{ℓn}(R·Q) -/
theorem evaluate_rot_block (R Q : Quat ℝ) (f : ℕ → ℤ → ℂ) (s : ℤ) (ℓ : ℕ) (hs : s.natAbs ≤ ℓ) :
    ∑ m ∈ Finset.Icc (-(ℓ : ℤ)) ℓ, rot R f ℓ m * Ylm s Q ℓ m
      = ∑ n ∈ Finset.Icc (-(ℓ : ℤ)) ℓ, f ℓ n * Ylm s (qmul R Q) ℓ n := by
  simp only [rot, Ylm, Finset.sum_mul]
  rw [Finset.sum_comm]
  apply Finset.sum_congr rfl
  intro n hn
  rw [DocHom.docD_hom_quat ℓ R Q n (-s) (mem_blk hn) (by omega), Finset.mul_sum, Finset.mul_sum]
  apply Finset.sum_congr rfl
  intro k _
  ring

/-- `rot R f` in degree ℓ only reads the weights of degree ℓ with |n| ≤ ℓ -/
theorem rot_congr (R : Quat ℝ) (f g : ℕ → ℤ → ℂ) (ℓ : ℕ) (m : ℤ)
    (h : ∀ n : ℤ, n.natAbs ≤ ℓ → f ℓ n = g ℓ n) : rot R f ℓ m = rot R g ℓ m := by
  unfold rot
  apply Finset.sum_congr rfl
  intro n hn
  rw [h n (mem_blk hn)]

/-- `evalW s Q f ellMax` only reads the weights of degrees |s| ≤ ℓ ≤ ellMax with |m| ≤ ℓ -/
theorem evalW_congr (s : ℤ) (Q : Quat ℝ) (f g : ℕ → ℤ → ℂ) (ellMax : ℕ)
    (h : ∀ ℓ : ℕ, s.natAbs ≤ ℓ → ℓ ≤ ellMax → ∀ m : ℤ, m.natAbs ≤ ℓ → f ℓ m = g ℓ m) :
    evalW s Q f ellMax = evalW s Q g ellMax := by
  unfold evalW
  apply Finset.sum_congr rfl
  intro ℓ hℓ
  rw [Finset.mem_Icc] at hℓ
  apply Finset.sum_congr rfl
  intro m hm
  rw [h ℓ hℓ.1 hℓ.2 m (mem_blk hm)]

/-- rotating the unit weight at (ℓ, n₀) reads off row n₀ of the matrix -/
theorem rot_delta (R : Quat ℝ) (ℓ : ℕ) (n0 m : ℤ) (hn0 : n0.natAbs ≤ ℓ) :
    rot R (fun _ n => if n = n0 then 1 else 0) ℓ m = docD ℓ (QA R) (QB R) n0 m := by
  unfold rot
  rw [Finset.sum_congr rfl (fun n _ => mul_comm _ _)]
  exact sum_mul_delta ℓ (fun n => docD ℓ (QA R) (QB R) n m) n0 hn0

/-- |ₛY_{ℓm}|² summed over m -/
theorem Ylm_normSq_sum (s : ℤ) (Q : Quat ℝ) (hQ : Q.w ^ 2 + Q.x ^ 2 + Q.y ^ 2 + Q.z ^ 2 = 1) (ℓ : ℕ)
    (hs : s.natAbs ≤ ℓ) :
    ∑ m ∈ Finset.Icc (-(ℓ : ℤ)) ℓ, Complex.normSq (Ylm s Q ℓ m) = (2 * (ℓ : ℝ) + 1) / (4 * Real.pi) := by
  have hpos : 0 ≤ (2 * (ℓ : ℝ) + 1) / (4 * Real.pi) := by
    have := Real.pi_pos
    positivity
  have hc : ((-1) ^ s.natAbs * Real.sqrt ((2 * (ℓ : ℝ) + 1) / (4 * Real.pi))) ^ 2
      = (2 * (ℓ : ℝ) + 1) / (4 * Real.pi) := by
    rw [mul_pow, Real.sq_sqrt hpos, ← pow_mul, mul_comm s.natAbs 2, pow_mul]
    norm_num
  have e : ∀ m : ℤ, Complex.normSq (Ylm s Q ℓ m)
      = (2 * (ℓ : ℝ) + 1) / (4 * Real.pi) * Complex.normSq (docD ℓ (QA Q) (QB Q) m (-s)) := by
    intro m
    unfold Ylm
    rw [Complex.normSq_mul, Complex.normSq_ofReal, ← pow_two, hc]
  rw [Finset.sum_congr rfl (fun m _ => e m), ← Finset.mul_sum,
    docD_col_normSq ℓ (QA Q) (QB Q) (QAB_unit Q hQ) (-s) (by omega), mul_one]

end HomAll
end
