import SphericalVerif.Model.Assemble
import SphericalVerif.Lemmas.RealScalar
import Mathlib.Data.Complex.Basic
import Mathlib.Tactic.Ring
import Mathlib.Tactic.Linarith
import Mathlib.Tactic.NormNum
/-! Helper lemmas for property C14 (exact-arithmetic part): the model `Model.cpowers` of
    `_complex_powers`, run at `α := ℝ`, returns the exact powers of a unit-modulus `z`. -/
noncomputable section
namespace CPow
open Model

/-- a model complex number as a Mathlib complex number -/
def toC (w : Cx ℝ) : ℂ := ⟨w.re, w.im⟩

@[simp] theorem toC_re (w : Cx ℝ) : (toC w).re = w.re := rfl
@[simp] theorem toC_im (w : Cx ℝ) : (toC w).im = w.im := rfl

theorem toC_inj {a b : Cx ℝ} (h : toC a = toC b) : a = b := by
  cases a; cases b
  simp only [toC, Complex.mk.injEq] at h
  simp [h.1, h.2]

theorem toC_mul (a b : Cx ℝ) : toC (Cx.mul a b) = toC a * toC b := by
  apply Complex.ext <;> simp [toC, Cx.mul]

theorem toC_add (a b : Cx ℝ) : toC (Cx.add a b) = toC a + toC b := by
  apply Complex.ext <;> simp [toC, Cx.add]

theorem toC_ofRe (x : ℝ) : toC (Cx.ofRe x) = (x : ℂ) := by
  apply Complex.ext <;> simp [toC, Cx.ofRe]

theorem toC_rmul (x : ℝ) (b : Cx ℝ) : toC (Cx.rmul x b) = (x : ℂ) * toC b := by
  rw [Cx.rmul, toC_mul, toC_ofRe]

theorem toC_mulr (a : Cx ℝ) (x : ℝ) : toC (Cx.mulr a x) = toC a * (x : ℂ) := by
  rw [Cx.mulr, toC_mul, toC_ofRe]

theorem toC_I : toC (Cx.I : Cx ℝ) = Complex.I := by
  apply Complex.ext <;> simp [toC, Cx.I]

theorem toC_oneC : toC (Cx.oneC : Cx ℝ) = 1 := by
  apply Complex.ext <;> simp [toC, Cx.oneC]

theorem oneC_eq : (Cx.oneC : Cx ℝ) = ⟨1, 0⟩ := by
  simp [Cx.oneC]

/-- at ℝ, division by `i` is exact: `(a + b i)/i = b - a i` -/
theorem div_I (z : Cx ℝ) : Cx.div z Cx.I = ⟨z.im, -z.re⟩ := by
  simp [Cx.div, Cx.I]

theorem toC_div_I (z : Cx ℝ) : toC z = Complex.I * toC (Cx.div z Cx.I) := by
  rw [div_I]; apply Complex.ext <;> simp [toC]

theorem quadrant_succ (k : Nat) (θ z : Cx ℝ) :
    quadrant (k+1) θ z =
      if z.re < 0 ∨ z.im < 0 then quadrant k (Cx.mul θ Cx.I) ⟨z.im, -z.re⟩ else (θ, z) := by
  simp [quadrant, div_I]

theorem mul_I (θ : Cx ℝ) : Cx.mul θ Cx.I = ⟨-θ.im, θ.re⟩ := by
  simp [Cx.mul, Cx.I]

/-- the four possible outcomes of the quadrant loop (fuel 4 is never exhausted) -/
theorem quadrant_cases (z : Cx ℝ) :
    (quadrant 4 Cx.oneC z = (⟨1, 0⟩, z) ∧ 0 ≤ z.re ∧ 0 ≤ z.im) ∨
    (quadrant 4 Cx.oneC z = (⟨0, 1⟩, ⟨z.im, -z.re⟩) ∧ 0 ≤ z.im ∧ 0 ≤ -z.re) ∨
    (quadrant 4 Cx.oneC z = (⟨-1, 0⟩, ⟨-z.re, -z.im⟩) ∧ 0 ≤ -z.re ∧ 0 ≤ -z.im) ∨
    (quadrant 4 Cx.oneC z = (⟨0, -1⟩, ⟨-z.im, z.re⟩) ∧ 0 ≤ -z.im ∧ 0 ≤ z.re) := by
  obtain ⟨a, b⟩ := z
  simp only [oneC_eq, quadrant_succ, mul_I, neg_neg, neg_zero]
  by_cases ha : a < 0 <;> by_cases hb : b < 0
  · -- third quadrant: two turns
    right; right; left
    have h1 : ¬ (-a < 0) := by linarith
    have h2 : ¬ (-b < 0) := by linarith
    simp [ha, hb, h1, h2]; constructor <;> linarith
  · right; left
    have h1 : ¬ (-a < 0) := by linarith
    simp [ha, hb, h1]; constructor <;> linarith
  · by_cases ha0 : a = 0
    · right; right; left
      subst ha0
      have h2 : ¬ (-b < 0) := by linarith
      simp [hb, h2]; linarith
    · right; right; right
      have h1 : -a < 0 := by
        rcases lt_or_gt_of_ne ha0 with h | h
        · exact absurd h ha
        · linarith
      have h2 : ¬ (-b < 0) := by linarith
      simp [ha, hb, h1, h2]; constructor <;> linarith
  · left
    simp [ha, hb]; constructor <;> linarith

/-- everything the rest of the development needs about the quadrant loop -/
theorem quadrant_spec (z : Cx ℝ) :
    0 ≤ (quadrant 4 Cx.oneC z).2.re ∧ 0 ≤ (quadrant 4 Cx.oneC z).2.im ∧
    toC z = toC (quadrant 4 Cx.oneC z).1 * toC (quadrant 4 Cx.oneC z).2 ∧
    (toC (quadrant 4 Cx.oneC z).1 = 1 ∨ toC (quadrant 4 Cx.oneC z).1 = Complex.I ∨
      toC (quadrant 4 Cx.oneC z).1 = -1 ∨ toC (quadrant 4 Cx.oneC z).1 = -Complex.I) ∧
    (quadrant 4 Cx.oneC z).2.re ^ 2 + (quadrant 4 Cx.oneC z).2.im ^ 2 = z.re ^ 2 + z.im ^ 2 ∧
    Cx.mul (quadrant 4 Cx.oneC z).2 (quadrant 4 Cx.oneC z).1 = z := by
  obtain ⟨a, b⟩ := z
  rcases quadrant_cases ⟨a, b⟩ with ⟨h, h1, h2⟩ | ⟨h, h1, h2⟩ | ⟨h, h1, h2⟩ | ⟨h, h1, h2⟩ <;>
    rw [h] <;> refine ⟨h1, h2, ?_, ?_, ?_, ?_⟩
  · apply Complex.ext <;> simp [toC]
  · left; apply Complex.ext <;> simp [toC]
  · simp
  · simp [Cx.mul]
  · apply Complex.ext <;> simp [toC]
  · right; left; apply Complex.ext <;> simp [toC]
  · simp only []; ring
  · simp [Cx.mul]
  · apply Complex.ext <;> simp [toC]
  · right; right; left; apply Complex.ext <;> simp [toC]
  · simp
  · simp [Cx.mul]
  · apply Complex.ext <;> simp [toC]
  · right; right; right; apply Complex.ext <;> simp [toC]
  · simp only []; ring
  · simp [Cx.mul]

/-- once the loop has stopped inside the first quadrant, extra fuel changes nothing -/
theorem quadrant_stable (k : Nat) (θ z : Cx ℝ)
    (h : 0 ≤ (quadrant k θ z).2.re ∧ 0 ≤ (quadrant k θ z).2.im) :
    quadrant (k+1) θ z = quadrant k θ z := by
  induction k generalizing θ z with
  | zero =>
    have h' : 0 ≤ z.re ∧ 0 ≤ z.im := h
    rw [quadrant_succ, if_neg (by rintro (h1 | h1) <;> linarith [h'.1, h'.2])]
    rfl
  | succ k ih =>
    rw [quadrant_succ k θ z] at h
    rw [quadrant_succ (k+1) θ z, quadrant_succ k θ z]
    by_cases c : z.re < 0 ∨ z.im < 0
    · simp only [if_pos c] at h ⊢; exact ih _ _ h
    · simp only [if_neg c]

/-- any fuel ≥ 4 gives the same result as fuel 4: the `while` loop makes at most three turns -/
theorem quadrant_fuel (j : Nat) (z : Cx ℝ) :
    quadrant (4 + j) Cx.oneC z = quadrant 4 Cx.oneC z := by
  induction j with
  | zero => rfl
  | succ j ih =>
    show quadrant (4 + j + 1) Cx.oneC z = _
    rw [quadrant_stable _ _ _ (by rw [ih]; exact ⟨(quadrant_spec z).1, (quadrant_spec z).2.1⟩), ih]

/-! ### arrays -/
section arrays
variable {α : Type} [Scalar α]

theorem cget_set!_self (a : Array (Cx α)) (i : Nat) (v : Cx α) (h : i < a.size) :
    cget (a.set! i v) i = v := by
  simp [cget, h]

theorem cget_set!_ne (a : Array (Cx α)) (i j : Nat) (v : Cx α) (h : i ≠ j) :
    cget (a.set! i v) j = cget a j := by
  simp [cget, Array.getD_eq_getD_getElem?, h]

theorem getElem?_eq_cget (a : Array (Cx α)) (i : Nat) (h : i < a.size) :
    a[i]? = some (cget a i) := by
  simp [cget, h]

theorem cget_replicate (n i : Nat) (v : Cx α) (h : i < n) :
    cget (Array.replicate n v) i = v := by
  simp [cget, h]

/-- the body of the main loop of `cpowers` -/
def cpBody (θ : Cx α) (t : α) (k : Nat) (p : Array (Cx α) × Cx α × Cx α) :
    Array (Cx α) × Cx α × Cx α :=
  let zm := Cx.add (cget p.1 (k+1)) p.2.1
  let out := p.1.set! (k+2) zm
  (out.set! (k+1) (Cx.mul (cget out (k+1)) p.2.2), Cx.add p.2.1 (Cx.rmul t zm), Cx.mul p.2.2 θ)

/-- the initial increment `dz` of `cpowers` -/
def cpDz0 (zr : Cx α) (dc : α) : Cx α :=
  Cx.add (Cx.rmul dc (Cx.add Cx.oneC (Cx.mul (Cx.ofRe (Scalar.ofInt 2)) zr)))
         (Cx.mulr Cx.I (Scalar.sqrt ((Scalar.neg dc) *. (Scalar.ofInt 2 +. dc))))

/-- `dc` of `cpowers` -/
def cpDc (s : α) : α := Scalar.ofInt (-2) *. (s *. s)

/-- `cpowers` with its pattern matches spelled as projections (any scalar type) -/
theorem cpowers_eq (z : Cx α) (M : Nat) (imsqrt : Cx α → α) :
    cpowers z M imsqrt =
      if M = 0 then Array.replicate (M+1) Cx.oneC else
      let q := quadrant 4 (Cx.oneC : Cx α) z
      let dc := cpDc (imsqrt q.2)
      let r := loopN (M-1) (cpBody q.1 (Scalar.ofInt 2 *. dc))
        ((Array.replicate (M+1) Cx.oneC).set! 1 q.2, cpDz0 q.2 dc, q.1)
      r.1.set! M (Cx.mul (cget r.1 M) r.2.2) := rfl

end arrays

/-! ### the recurrence in exact arithmetic -/

/-- `(w-1)² = 2(c-1)w` on the unit circle, in the form `w² + 1 = 2cw` -/
theorem unit_sq (w : Cx ℝ) (h : w.re ^ 2 + w.im ^ 2 = 1) :
    toC w ^ 2 + 1 = 2 * (w.re : ℂ) * toC w := by
  apply Complex.ext
  · simp [toC, pow_two]; linarith
  · simp [toC, pow_two]; ring

theorem dc_eq (w : Cx ℝ) (s : ℝ) (hs : 2 * s ^ 2 = 1 - w.re) : cpDc s = w.re - 1 := by
  simp only [cpDc, RealScalar.mul_def, RealScalar.ofInt_def]
  push_cast
  linarith

/-- the first increment is `zr² - zr` -/
theorem dz0_eq (w : Cx ℝ) (h : w.re ^ 2 + w.im ^ 2 = 1) (him : 0 ≤ w.im) :
    toC (cpDz0 w (w.re - 1)) = toC w ^ 2 - toC w := by
  have hsq : -(w.re - 1) * (2 + (w.re - 1)) = w.im ^ 2 := by linarith
  have hsqrt : Real.sqrt (-(w.re - 1) * (2 + (w.re - 1))) = w.im := by
    rw [hsq, Real.sqrt_sq him]
  have e : cpDz0 w (w.re - 1) =
      Cx.add (Cx.rmul (w.re - 1) (Cx.add Cx.oneC (Cx.mul (Cx.ofRe 2) w))) (Cx.mulr Cx.I w.im) := by
    simp only [cpDz0, RealScalar.mul_def, RealScalar.add_def, RealScalar.neg_def,
      RealScalar.sqrt_def, RealScalar.ofInt_def, Int.cast_ofNat, hsqrt]
  rw [e]
  apply Complex.ext
  · simp [toC, Cx.add, Cx.rmul, Cx.mulr, Cx.mul, Cx.ofRe, Cx.oneC, Cx.I, pow_two]
    linarith
  · simp [toC, Cx.add, Cx.rmul, Cx.mulr, Cx.mul, Cx.ofRe, Cx.oneC, Cx.I, pow_two]
    ring

/-- loop invariant of `cpowers` after `k` iterations -/
structure CpInv (M : Nat) (zr θ : Cx ℝ) (k : Nat) (p : Array (Cx ℝ) × Cx ℝ × Cx ℝ) : Prop where
  size : p.1.size = M + 1
  done : ∀ j, j ≤ k → toC (cget p.1 j) = (toC θ * toC zr) ^ j
  cur : toC (cget p.1 (k+1)) = toC zr ^ (k+1)
  dz : toC p.2.1 = toC zr ^ (k+2) - toC zr ^ (k+1)
  clock : toC p.2.2 = toC θ ^ (k+1)

theorem cpInv_init (n : Nat) (zr θ : Cx ℝ) (h : zr.re ^ 2 + zr.im ^ 2 = 1) (him : 0 ≤ zr.im) :
    CpInv (n+1) zr θ 0
      ((Array.replicate (n+1+1) Cx.oneC).set! 1 zr, cpDz0 zr (zr.re - 1), θ) where
  size := by simp
  done := by
    intro j hj
    obtain rfl : j = 0 := by omega
    rw [cget_set!_ne _ _ _ _ (by omega), cget_replicate _ _ _ (by omega), toC_oneC, pow_zero]
  cur := by
    rw [cget_set!_self _ _ _ (by simp), pow_one]
  dz := by
    show toC (cpDz0 zr (zr.re - 1)) = _
    rw [dz0_eq zr h him, pow_one]
  clock := by simp

theorem cpInv_step (M : Nat) (zr θ : Cx ℝ) (h : zr.re ^ 2 + zr.im ^ 2 = 1) (t : ℝ)
    (ht : t = 2 * (zr.re - 1)) (k : Nat) (p : Array (Cx ℝ) × Cx ℝ × Cx ℝ) (hk : k + 2 ≤ M)
    (hp : CpInv M zr θ k p) : CpInv M zr θ (k+1) (cpBody θ t k p) := by
  obtain ⟨hsize, hdone, hcur, hdz, hclock⟩ := hp
  have hzm : toC (Cx.add (cget p.1 (k+1)) p.2.1) = toC zr ^ (k+2) := by
    rw [toC_add, hcur, hdz]; ring
  refine ⟨?_, ?_, ?_, ?_, ?_⟩
  · simp [cpBody, hsize]
  · intro j hj
    by_cases hjk : j = k + 1
    · subst hjk
      show toC (cget (Array.set! _ _ _) _) = _
      rw [cget_set!_self _ _ _ (by simp [hsize]; omega), toC_mul,
        cget_set!_ne _ _ _ _ (by omega), hcur, hclock, mul_pow]
      ring
    · show toC (cget (Array.set! _ _ _) _) = _
      rw [cget_set!_ne _ _ _ _ (by omega), cget_set!_ne _ _ _ _ (by omega)]
      exact hdone j (by omega)
  · show toC (cget (Array.set! _ _ _) _) = _
    rw [cget_set!_ne _ _ _ _ (by omega), cget_set!_self _ _ _ (by rw [hsize]; omega), hzm]
  · show toC (Cx.add p.2.1 (Cx.rmul t (Cx.add (cget p.1 (k+1)) p.2.1))) = _
    rw [toC_add, toC_rmul, hzm, hdz, ht]
    have hu := unit_sq zr h
    push_cast
    linear_combination (-(toC zr ^ (k+1))) * hu
  · show toC (Cx.mul p.2.2 θ) = _
    rw [toC_mul, hclock]; ring

/-- the result of `cpowers` for `M = n+1`, in terms of the loop (real scalars, `dc`, `t` evaluated) -/
theorem cpowers_succ (z : Cx ℝ) (n : Nat) (imsqrt : Cx ℝ → ℝ) :
    cpowers z (n+1) imsqrt =
      (loopN n (cpBody (quadrant 4 Cx.oneC z).1 (2 * cpDc (imsqrt (quadrant 4 Cx.oneC z).2)))
        ((Array.replicate (n+1+1) Cx.oneC).set! 1 (quadrant 4 Cx.oneC z).2,
          cpDz0 (quadrant 4 Cx.oneC z).2 (cpDc (imsqrt (quadrant 4 Cx.oneC z).2)),
          (quadrant 4 Cx.oneC z).1)).1.set! (n+1)
        (Cx.mul (cget (loopN n (cpBody (quadrant 4 Cx.oneC z).1
            (2 * cpDc (imsqrt (quadrant 4 Cx.oneC z).2)))
          ((Array.replicate (n+1+1) Cx.oneC).set! 1 (quadrant 4 Cx.oneC z).2,
            cpDz0 (quadrant 4 Cx.oneC z).2 (cpDc (imsqrt (quadrant 4 Cx.oneC z).2)),
            (quadrant 4 Cx.oneC z).1)).1 (n+1))
          (loopN n (cpBody (quadrant 4 Cx.oneC z).1 (2 * cpDc (imsqrt (quadrant 4 Cx.oneC z).2)))
          ((Array.replicate (n+1+1) Cx.oneC).set! 1 (quadrant 4 Cx.oneC z).2,
            cpDz0 (quadrant 4 Cx.oneC z).2 (cpDc (imsqrt (quadrant 4 Cx.oneC z).2)),
            (quadrant 4 Cx.oneC z).1)).2.2) := by
  rw [cpowers_eq]
  simp only [Nat.succ_ne_zero, if_false, Nat.add_sub_cancel, RealScalar.mul_def,
    RealScalar.ofInt_def, Int.cast_ofNat]

/-- exactness of `cpowers` on the unit circle; the square-root hypothesis is needed only at the
    rotated value the model actually passes to `imsqrt` -/
theorem cpowers_exact (z : Cx ℝ) (hz : z.re ^ 2 + z.im ^ 2 = 1) (M : Nat) (imsqrt : Cx ℝ → ℝ)
    (hs : 2 * imsqrt (quadrant 4 Cx.oneC z).2 ^ 2 = 1 - (quadrant 4 Cx.oneC z).2.re) :
    (cpowers z M imsqrt).size = M + 1 ∧
    ∀ m, m ≤ M → ∃ e, (cpowers z M imsqrt)[m]? = some e ∧ toC e = toC z ^ m := by
  cases M with
  | zero =>
    refine ⟨by simp [cpowers_eq], ?_⟩
    intro m hm
    obtain rfl : m = 0 := by omega
    exact ⟨Cx.oneC, by simp [cpowers_eq], by rw [toC_oneC, pow_zero]⟩
  | succ n =>
    obtain ⟨_, him, hmul, _, hunit, _⟩ := quadrant_spec z
    rw [hz] at hunit
    rw [cpowers_succ, dc_eq _ _ hs]
    generalize (quadrant 4 Cx.oneC z).1 = θ at *
    generalize (quadrant 4 Cx.oneC z).2 = zr at *
    have hinv := loopN_inv (CpInv (n+1) zr θ) n (cpBody θ (2 * (zr.re - 1)))
      ((Array.replicate (n+1+1) Cx.oneC).set! 1 zr, cpDz0 zr (zr.re - 1), θ)
      (cpInv_init n zr θ hunit him)
      (fun k s hk hp => cpInv_step (n+1) zr θ hunit _ rfl k s (by omega) hp)
    generalize loopN n _ _ = r at *
    obtain ⟨hsize, hdone, hcur, _, hclock⟩ := hinv
    refine ⟨by simp [hsize], ?_⟩
    intro m hm
    refine ⟨_, getElem?_eq_cget _ _ (by simp [hsize]; omega), ?_⟩
    by_cases hmn : m = n + 1
    · subst hmn
      rw [cget_set!_self _ _ _ (by rw [hsize]; omega), toC_mul, hcur, hclock, hmul, mul_pow]
      ring
    · rw [cget_set!_ne _ _ _ _ (by omega), hdone m (by omega), hmul]

/-! ### entries 0 and 1 without any hypothesis -/

/-- size and entry 0, for every scalar type -/
theorem cpowers_size_entry0 {α : Type} [Scalar α] (z : Cx α) (M : Nat) (imsqrt : Cx α → α) :
    (cpowers z M imsqrt).size = M + 1 ∧ (cpowers z M imsqrt)[0]? = some Cx.oneC := by
  rw [cpowers_eq]
  by_cases hM : M = 0
  · subst hM; simp
  · simp only [hM, if_false]
    generalize (quadrant 4 Cx.oneC z).1 = θ
    generalize (quadrant 4 Cx.oneC z).2 = zr
    generalize Scalar.ofInt 2 *. cpDc (imsqrt zr) = t
    generalize cpDz0 zr (cpDc (imsqrt zr)) = dz0
    have hinv := loopN_inv
      (fun (_ : Nat) (p : Array (Cx α) × Cx α × Cx α) => p.1.size = M + 1 ∧ cget p.1 0 = Cx.oneC)
      (M-1) (cpBody θ t) ((Array.replicate (M+1) Cx.oneC).set! 1 zr, dz0, θ)
      ⟨by simp, by rw [cget_set!_ne _ _ _ _ (by omega), cget_replicate _ _ _ (by omega)]⟩
      (fun k s _ hp => ⟨by simp [cpBody, hp.1], by
        show cget (Array.set! _ _ _) _ = _
        rw [cget_set!_ne _ _ _ _ (by omega), cget_set!_ne _ _ _ _ (by omega)]; exact hp.2⟩)
    generalize loopN (M-1) _ _ = r at *
    refine ⟨by simp [hinv.1], ?_⟩
    rw [getElem?_eq_cget _ _ (by simp [hinv.1]), cget_set!_ne _ _ _ _ (by omega), hinv.2]

/-- entry 1 is `z` itself for every real `z` (no unit-modulus hypothesis, any `imsqrt`) -/
theorem cpowers_entry1 (z : Cx ℝ) (M : Nat) (hM : 1 ≤ M) (imsqrt : Cx ℝ → ℝ) :
    (cpowers z M imsqrt)[1]? = some z := by
  obtain ⟨n, rfl⟩ : ∃ n, M = n + 1 := ⟨M - 1, by omega⟩
  obtain ⟨_, _, _, _, _, hmul⟩ := quadrant_spec z
  rw [cpowers_succ]
  generalize (quadrant 4 Cx.oneC z).1 = θ at *
  generalize (quadrant 4 Cx.oneC z).2 = zr at *
  generalize 2 * cpDc (imsqrt zr) = t
  generalize cpDz0 zr (cpDc (imsqrt zr)) = dz0
  have hinv := loopN_inv
    (fun (k : Nat) (p : Array (Cx ℝ) × Cx ℝ × Cx ℝ) => p.1.size = n + 1 + 1 ∧
      (k = 0 → cget p.1 1 = zr ∧ p.2.2 = θ) ∧ (1 ≤ k → cget p.1 1 = z))
    n (cpBody θ t) ((Array.replicate (n+1+1) Cx.oneC).set! 1 zr, dz0, θ)
    ⟨by simp, fun _ => ⟨by rw [cget_set!_self _ _ _ (by simp)], rfl⟩, fun h => by omega⟩
    (fun k s _ hp => ⟨by simp [cpBody, hp.1], fun h => by omega, fun _ => by
      show cget (Array.set! _ _ _) _ = _
      by_cases hk : k = 0
      · subst hk
        rw [cget_set!_self _ _ _ (by simp [hp.1]), cget_set!_ne _ _ _ _ (by omega),
          (hp.2.1 rfl).1, (hp.2.1 rfl).2, hmul]
      · rw [cget_set!_ne _ _ _ _ (by omega), cget_set!_ne _ _ _ _ (by omega)]
        exact hp.2.2 (by omega)⟩)
  generalize loopN n _ _ = r at *
  obtain ⟨hsize, h0, h1⟩ := hinv
  rw [getElem?_eq_cget _ _ (by simp [hsize])]
  by_cases hn : n = 0
  · subst hn
    rw [cget_set!_self _ _ _ (by simp [hsize]), (h0 rfl).1, (h0 rfl).2, hmul]
  · rw [cget_set!_ne _ _ _ _ (by omega), h1 (by omega)]

end CPow
end
