/-! Threads as lists of atomic steps over named buffers (a step = one compiled kernel execution: the GIL cannot change
    hands inside it), interleavings, and the wiring of every workspace-accepting `Wigner` method to buffers.
    Core Lean only.  Hand-written from spherical/wigner.py; the wiring (`callSteps`) is validated on every run against
    the real code by the footprint monitor of vlib/sched.py (which buffer each kernel of each method is handed). -/
namespace Model.Sched

/-- memory: buffer name ↦ content -/
abbrev St (Buf V : Type) := Buf → V

/-- an atomic step: it changes only what it writes (`frame`) and what it writes depends only on what it reads (`local_`) -/
structure Step (Buf V : Type) where
  reads  : Buf → Prop
  writes : Buf → Prop
  run    : St Buf V → St Buf V
  frame  : ∀ s b, ¬ writes b → run s b = s b
  local_ : ∀ s s', (∀ b, reads b → s b = s' b) → ∀ b, writes b → run s b = run s' b

def runAll {Buf V : Type} (p : List (Step Buf V)) (s : St Buf V) : St Buf V := p.foldl (fun s st => st.run s) s

/-- `Interleave p q r`: r is an interleaving of the step lists p and q (each keeps its own order) -/
inductive Interleave {Buf V : Type} : List (Step Buf V) → List (Step Buf V) → List (Step Buf V) → Prop
  | nil : Interleave [] [] []
  | left  {a p q r} : Interleave p q r → Interleave (a :: p) q (a :: r)
  | right {a p q r} : Interleave p q r → Interleave p (a :: q) (a :: r)

/-! ### The buffers of a Wigner object and of its callers -/

/-- the six parts `_split_workspace` cuts a workspace into -/
inductive Part | Hwedge | Hv | Hextra | zaPowers | zgPowers | z
  deriving DecidableEq, Repr

inductive Buf where
  /-- a part of the object's default workspace -/
  | dflt (p : Part)
  /-- a part of the private workspace of call number `k` -/
  | priv (k : Nat) (p : Part)
  /-- the coefficient tables `_a _b _d _g _h` -/
  | tables
  /-- the output array of call `k` (supplied by the caller or freshly allocated) -/
  | out (k : Nat)
  /-- the inputs of call `k` (rotors, exp(iβ), mode weights) -/
  | input (k : Nat)
  /-- a temporary owned by call `k` (the `Y` vector of the matrix evaluate, the `D` array of the matrix rotate) -/
  | tmp (k : Nat)
  deriving DecidableEq, Repr

/-- which workspace a call uses -/
inductive WS | default | private_ (k : Nat)

def wsBuf : WS → Part → Buf
  | .default, p => .dflt p
  | .private_ k, p => .priv k p

/-- a kernel invocation: name, buffers read, buffers written (as the code passes them) -/
structure Foot where
  kernel : String
  reads  : List Buf
  writes : List Buf
  deriving Repr

/-- `Wigner.H`: `_step_1 … _step_5` on (Hwedge, Hv, Hextra) of the chosen workspace, reading the tables and exp(iβ) from `src` -/
def footH (ws : WS) (src : Buf) : List Foot :=
  let hw := wsBuf ws .Hwedge; let hv := wsBuf ws .Hv; let hx := wsBuf ws .Hextra
  [ ⟨"_step_1", [], [hw]⟩,
    ⟨"_step_2", [.tables, src, hw, hx], [hw, hx, hv]⟩,
    ⟨"_step_3", [.tables, src, hw, hx], [hw]⟩,
    ⟨"_step_4", [.tables, hw, hv], [hw, hv]⟩,
    ⟨"_step_5", [.tables, hw, hv], [hw, hv]⟩ ]

inductive Method | d | D | sYlm | evaluateHorner | evaluateMatrix | rotateHorner | rotateMatrix
  deriving DecidableEq, Repr

/-- the kernel sequence of one call (single rotor), as spherical/wigner.py wires it.  `k` = call number (names its
    private output/input/temporary buffers), `ws` = the workspace it was given.
    Note `evaluate` (matrix) forwards its workspace to `sYlm` and `rotate` (matrix) forwards it to `D` BY KEYWORD. -/
def callSteps (m : Method) (k : Nat) (ws : WS) : List Foot :=
  let z := wsBuf ws .z; let za := wsBuf ws .zaPowers; let zg := wsBuf ws .zgPowers
  let hw := wsBuf ws .Hwedge
  let euler : Foot := ⟨"to_euler_phases", [.input k], [z]⟩
  match m with
  | .d => footH ws (.input k) ++ [⟨"_fill_wigner_d", [hw], [.out k]⟩]
  | .D => [euler] ++ footH ws z ++
      [⟨"_complex_powers", [z], [za]⟩, ⟨"_complex_powers", [z], [zg]⟩, ⟨"_fill_wigner_D", [hw, za, zg], [.out k]⟩]
  | .sYlm => [euler] ++ footH ws z ++ [⟨"_complex_powers", [z], [za]⟩, ⟨"_fill_sYlm", [hw, za, z], [.out k]⟩]
  | .evaluateHorner => [euler] ++ footH ws z ++ [⟨"_evaluate_Horner", [.input k, hw, z], [.out k]⟩]
  | .evaluateMatrix => [euler] ++ footH ws z ++ [⟨"_complex_powers", [z], [za]⟩, ⟨"_fill_sYlm", [hw, za, z], [.tmp k]⟩,
      ⟨"matmul", [.input k, .tmp k], [.out k]⟩]
  | .rotateHorner => [euler] ++ footH ws z ++ [⟨"_rotate_Horner", [.input k, hw, z], [.out k]⟩]
  | .rotateMatrix => [euler] ++ footH ws z ++
      [⟨"_complex_powers", [z], [za]⟩, ⟨"_complex_powers", [z], [zg]⟩, ⟨"_fill_wigner_D", [hw, za, zg], [.tmp k]⟩,
       ⟨"_rotate", [.input k, .tmp k], [.out k]⟩]

/-- the private region of call `k` with private workspace `k`: its workspace parts, output, inputs, temporaries, and the
    (read-only) tables -/
def region (k : Nat) : Buf → Prop
  | .priv k' _ => k' = k
  | .out k' => k' = k
  | .input k' => k' = k
  | .tmp k' => k' = k
  | .tables => True
  | .dflt _ => False

instance (k : Nat) : DecidablePred (region k) := fun b => by
  cases b <;> simp only [region] <;> infer_instance

end Model.Sched
