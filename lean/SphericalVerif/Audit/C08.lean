import SphericalVerif.Props.C08
import SphericalVerif.Props.HKernel
#print axioms C08.cpowers_entry_indep
#print axioms C08.objd_cfg_indep
#print axioms C08.objD_cfg_indep
#print axioms C08.objY_cfg_indep
#print axioms C08.objEvalH_cfg_indep
#print axioms C08.objRotH_cfg_indep
#print axioms HKernel.runH_pure
#print axioms HKernel.runH_size_indep
