import SphericalVerif.Lemmas.GenH2
import SphericalVerif.Lemmas.GenH3
import SphericalVerif.Lemmas.GenH4
import SphericalVerif.Lemmas.GenH5
import SphericalVerif.Props.HKernel
/-! GenH — the H recursion **as the Python text states it** computes what the coordinate model computes.

    `Gen/HKern.lean` is regenerated on every run by `vlib/py2lean_kern.py` from the source of `_step_1 … _step_5`
    (spherical/recursions/wignerH.py) and `Wigner.H` (spherical/wigner.py): the same statements, loop ranges, flat
    index expressions and operation order, as functions on a flat memory (arrays named by ids, cells by the integer
    index the Python text computes), generic over the arithmetic.  The theorems below are therefore re-checked against
    what the code says *now*; a change to a kernel changes the statement that has to be proved.

    * `genH_sim` — running the coordinate-level model `Model.runH` on the hybrid memory (valid cells stored in the flat
      memory at `WignerHindex` / `nm_index` positions) **is** running the generated `Gen.Wigner_H` on that flat memory:
      every read and write of the kernels' text hits exactly the cell the model names, for all sizes `(L, P)`, every
      arithmetic, every initial content of the arrays.
    * `genH_refines` — hence (with `HRefine.runH_refines`, proved for every lawful memory) after `Wigner.H` the cell
      `Hwedge[WignerHindex(n, m', m, mp_max)]` holds `Spec.valW c s n m' m`, a function of the coordinates and
      `(c, s) = (cos β, sin β)` alone: no dependence on `ell_max`, `mp_max`, the previous content of any array, or
      the scratch arrays.  For `α := Float` this is a statement about IEEE doubles, bit for bit.
    * `genH_pure`, `genH_size_indep` — purity and calculator-independence of the generated `Wigner.H`.
    * `tables` — the generated element formulas of the coefficient arrays of `Wigner.__init__` are the model's
      `aC bC dC gC hC` (definitional).

    Hypothesis `TabOK`: the table arguments hold, at the `nm_index` / `nabsm_index` position of `(n, k)`, the generated
    element formula — i.e. what the numpy statements of `Wigner.__init__` store (the index arrays are built by
    comprehensions in exactly that order, checked syntactically by the translator; the stored values are compared bit
    for bit with `Gen.tab_*` on every run).  The tables are passed to the kernels as read-only functions because the
    Python text never stores into them nor aliases them (checked by the translator's parameter classification). -/
namespace GenH
open Gen Model FlatSteps

section
variable {α : Type} [Scalar α] {φ : Type} [FMem φ α] [LawfulFMem φ α]

/-- the generated element formulas of `Wigner.__init__`'s coefficient arrays are the model's coefficient functions -/
theorem tables (n k : Int) :
    Gen.tab_a (α := α) n k = Model.aC n k ∧ Gen.tab_b (α := α) n k = Model.bC n k ∧
    Gen.tab_d (α := α) n k = Model.dC n k ∧ Gen.tab_g (α := α) n k = Model.gC n k ∧
    Gen.tab_h (α := α) n k = Model.hC n k := ⟨rfl, rfl, rfl, rfl, rfl⟩

/-- **Simulation.**  `Wigner.H` as generated from the Python text, run on the flat memory `F`, is the coordinate-level
    model run on the hybrid memory over `F`. -/
theorem genH_sim (L P : Nat) (c s : α) (a b d g h : Int → α) (ht : TabOK L a b d g h) (F : φ) (J : Loc → α) :
    Model.runH (α := α) L P c s (⟨F, J⟩ : Hyb L P φ α)
      = ⟨Gen.Wigner_H (α := α) g h (L : Int) (P : Int) a b d ⟨c, s⟩ idW idV idX F, J⟩ := by
  unfold Model.runH Gen.Wigner_H
  rw [sim_step1, sim_step2 c s g h ht.g_ok ht.h_ok, sim_step3 c s a b ht.a_ok ht.b_ok, sim_step4 d ht.d_ok,
    sim_step5 d ht.d_ok]

/-- **Refinement for the generated code.**  After the generated `Wigner.H`, every stored wedge cell holds the
    size- and history-free value `Spec.valW`. -/
theorem genH_refines (L P : Nat) (c s : α) (a b d g h : Int → α) (ht : TabOK L a b d g h) (F : φ)
    (n : Nat) (mp : Int) (m : Nat) (hn : n ≤ L) (hmp : mp.natAbs ≤ min n P) (hm1 : mp.natAbs ≤ m) (hm2 : m ≤ n) :
    frd (α := α) (Gen.Wigner_H (α := α) g h (L : Int) (P : Int) a b d ⟨c, s⟩ idW idV idX F) idW
        (WignerHindex (n : Int) mp (m : Int) (some (P : Int)))
      = Spec.valW c s n mp m := by
  have hv : Valid L P (.hw n mp m) := ⟨hn, by unfold InWedge; omega⟩
  have h1 := HRefine.runH_refines (μ := Hyb L P φ α) L P c s ⟨F, fun _ => c⟩ n mp m hn hmp hm1 hm2
  rw [genH_sim L P c s a b d g h ht F, rd_valid _ _ _ idW _ hv rfl] at h1
  exact h1

/-- purity of the generated `Wigner.H`: the wedge does not depend on the previous content of any array -/
theorem genH_pure (L P : Nat) (c s : α) (a b d g h : Int → α) (ht : TabOK L a b d g h) (F₁ F₂ : φ)
    (n : Nat) (mp : Int) (m : Nat) (hn : n ≤ L) (hmp : mp.natAbs ≤ min n P) (hm1 : mp.natAbs ≤ m) (hm2 : m ≤ n) :
    frd (α := α) (Gen.Wigner_H (α := α) g h (L : Int) (P : Int) a b d ⟨c, s⟩ idW idV idX F₁) idW
        (WignerHindex (n : Int) mp (m : Int) (some (P : Int)))
      = frd (α := α) (Gen.Wigner_H (α := α) g h (L : Int) (P : Int) a b d ⟨c, s⟩ idW idV idX F₂) idW
        (WignerHindex (n : Int) mp (m : Int) (some (P : Int))) := by
  rw [genH_refines L P c s a b d g h ht F₁ n mp m hn hmp hm1 hm2, genH_refines L P c s a b d g h ht F₂ n mp m hn hmp hm1 hm2]

/-- calculators of different sizes (each with its own tables and its own flat memory, of possibly different
    representation) agree on every cell that lies in both wedges — at each one's own `WignerHindex` position -/
theorem genH_size_indep {φ' : Type} [FMem φ' α] [LawfulFMem φ' α] (L₁ P₁ L₂ P₂ : Nat) (c s : α)
    (a₁ b₁ d₁ g₁ h₁ a₂ b₂ d₂ g₂ h₂ : Int → α) (ht₁ : TabOK L₁ a₁ b₁ d₁ g₁ h₁) (ht₂ : TabOK L₂ a₂ b₂ d₂ g₂ h₂)
    (F₁ : φ) (F₂ : φ') (n : Nat) (mp : Int) (m : Nat)
    (hn₁ : n ≤ L₁) (hmp₁ : mp.natAbs ≤ min n P₁) (hn₂ : n ≤ L₂) (hmp₂ : mp.natAbs ≤ min n P₂)
    (hm1 : mp.natAbs ≤ m) (hm2 : m ≤ n) :
    frd (α := α) (Gen.Wigner_H (α := α) g₁ h₁ (L₁ : Int) (P₁ : Int) a₁ b₁ d₁ ⟨c, s⟩ idW idV idX F₁) idW
        (WignerHindex (n : Int) mp (m : Int) (some (P₁ : Int)))
      = frd (α := α) (Gen.Wigner_H (α := α) g₂ h₂ (L₂ : Int) (P₂ : Int) a₂ b₂ d₂ ⟨c, s⟩ idW idV idX F₂) idW
        (WignerHindex (n : Int) mp (m : Int) (some (P₂ : Int))) := by
  rw [genH_refines L₁ P₁ c s a₁ b₁ d₁ g₁ h₁ ht₁ F₁ n mp m hn₁ hmp₁ hm1 hm2,
    genH_refines L₂ P₂ c s a₂ b₂ d₂ g₂ h₂ ht₂ F₂ n mp m hn₂ hmp₂ hm1 hm2]

end

/-! ### the hypothesis `TabOK` is satisfiable for every arithmetic and every size

    The table functions that list the generated element formulas in the documented orderings (`Spec.nmRange`,
    `Spec.nabsmRange` — the comprehensions of `Wigner.__init__`; this is also how the driver builds them) satisfy it. -/

/-- a table listed in the order of `xs`: position `i` holds `f` of the `i`-th pair -/
def tabOfRange {α : Type} (dflt : α) (xs : List (Int × Int)) (f : Int → Int → α) (i : Int) : α :=
  match xs[i.toNat]? with
  | some t => f t.1 t.2
  | none => dflt

theorem tabOK_ranges {α : Type} [Scalar α] (L : Nat) :
    TabOK (α := α) L
      (tabOfRange Scalar.half (Spec.nabsmRange ((L : Int) + 1)) Gen.tab_a)
      (tabOfRange Scalar.half (Spec.nmRange ((L : Int) + 1)) Gen.tab_b)
      (tabOfRange Scalar.half (Spec.nmRange ((L : Int) + 1)) Gen.tab_d)
      (tabOfRange Scalar.half (Spec.nmRange ((L : Int) + 1)) Gen.tab_g)
      (tabOfRange Scalar.half (Spec.nmRange ((L : Int) + 1)) Gen.tab_h) := by
  refine ⟨?_, ?_, ?_, ?_, ?_⟩
  · intro n k h0 h1 h2 h3
    have := (NabsmSlot.table (idx := nabsm_index n k) ⟨rfl, h2, h3⟩ (L : Int) h0 h1).2.2
    simp only [tabOfRange, this]
  all_goals
    intro n k h0 h1 h2 h3
    have := (NmSlot.table (idx := nm_index n k) ⟨rfl, h2, h3⟩ (L : Int) h0 h1).2.2
    simp only [tabOfRange, this]

/-- the conclusion of `genH_refines` at a concrete non-trivial point, with tables built as the driver builds them:
    cell (3, -2, 2) of the calculator (L, P) = (3, 2), IEEE doubles on the executable flat memory -/
example (c s : Float) (F : HFMem Float) :
    frd (α := Float) (Gen.Wigner_H (α := Float) (tabOfRange Scalar.half (Spec.nmRange 4) Gen.tab_g)
        (tabOfRange Scalar.half (Spec.nmRange 4) Gen.tab_h) 3 2
        (tabOfRange Scalar.half (Spec.nabsmRange 4) Gen.tab_a) (tabOfRange Scalar.half (Spec.nmRange 4) Gen.tab_b)
        (tabOfRange Scalar.half (Spec.nmRange 4) Gen.tab_d) ⟨c, s⟩ idW idV idX F) idW (WignerHindex 3 (-2) 2 (some 2))
      = Spec.valW c s 3 (-2) 2 :=
  genH_refines 3 2 c s _ _ _ _ _ (tabOK_ranges 3) F 3 (-2) 2 (by decide) (by decide) (by decide) (by decide)

end GenH
