import Mathlib.Analysis.Real.Sqrt
import Mathlib.Algebra.BigOperators.Intervals
import Mathlib.Data.Int.Interval
/-! The characterisation of the Wigner 3-j symbols `(j j2 j3; -m2-m3 m2 m3)` as a function of `j` that the
    Luscombe–Luban algorithm of spherical/recursions/wigner3j.py rests on (Schulten–Gordon 1975, Luscombe–Luban
    1998), stated as a predicate on a candidate family `W : ℤ → ℝ` of real numbers — `W j` is the mathematical
    `(j j2 j3; m1 m2 m3)`, `m1 = -(m2 + m3)`.

    Nothing here refers to the workspace, to `size`, to the direction of the sweeps, to the matching point, to the
    rescaling or to int64 arithmetic.  The only objects shared with the model are the three coefficient functions,
    restated here in closed form over ℝ (`wX`, `wY`, `wZ`; `Lemmas/W3jUniq.lean` proves that they are the model's
    `Xf`, `Yf`, `Zf` at ℝ on the admissible domain, where the model goes through int64 arithmetic). -/
namespace W3jUniq
noncomputable section

/-- `j_min = max |j2 - j3| |m2 + m3|`; `j_max = j2 + j3` is written out -/
def jmin (j2 j3 m2 m3 : ℤ) : ℤ := max |j2 - j3| |m2 + m3|

/-- `A(j) = √((j² − (j2−j3)²) ((j2+j3+1)² − j²) (j² − m1²))`, `m1 = −(m2+m3)` -/
def wA (j2 j3 m2 m3 j : ℤ) : ℝ :=
  Real.sqrt ((((j : ℝ) ^ 2 - ((j2 : ℝ) - j3) ^ 2) * (((j2 : ℝ) + j3 + 1) ^ 2 - (j : ℝ) ^ 2))
    * ((j : ℝ) ^ 2 - ((m2 : ℝ) + m3) ^ 2))

/-- `X(j) = j · A(j+1)` -/
def wX (j2 j3 m2 m3 j : ℤ) : ℝ := (j : ℝ) * wA j2 j3 m2 m3 (j + 1)

/-- `Y(j) = B(j) = (2j+1) · ((m2+m3) (j2(j2+1) − j3(j3+1)) − (m2−m3) j (j+1))`
    (`= (2j+1) (−m1 (j2(j2+1) − j3(j3+1)) − (m2−m3) j(j+1))`: the library's sign convention) -/
def wY (j2 j3 m2 m3 j : ℤ) : ℝ :=
  (2 * (j : ℝ) + 1) * (((m2 : ℝ) + m3) * ((j2 : ℝ) * (j2 + 1) - (j3 : ℝ) * (j3 + 1))
    - ((m2 : ℝ) - m3) * j * (j + 1))

/-- `Z(j) = (j+1) · A(j)` -/
def wZ (j2 j3 m2 m3 j : ℤ) : ℝ := ((j : ℝ) + 1) * wA j2 j3 m2 m3 j

/-- `IsW3jFamily j2 j3 m2 m3 W`: `W` is what the 3-j symbols `j ↦ (j j2 j3; -m2-m3 m2 m3)` are known to be:

    (0) `W j = 0` outside `[j_min, j_max]`;
    (R) the three-term recurrence `X(j) W(j+1) + Y(j) W(j) + Z(j) W(j−1) = 0` at EVERY `j ∈ [j_min, j_max]`
        (at the two ends the out-of-range value carries the coefficient `Z(j_min) = 0` resp. `X(j_max) = 0`);
    (N) `Σ_{j=j_min}^{j_max} (2j+1) W(j)² = 1`;
    (S) `W(j_max)` has the sign of `(−1)^(j2−j3+m2+m3)` (and is not zero). -/
structure IsW3jFamily (j2 j3 m2 m3 : ℤ) (W : ℤ → ℝ) : Prop where
  zero_outside : ∀ j, j < jmin j2 j3 m2 m3 ∨ j2 + j3 < j → W j = 0
  rec3 : ∀ j, jmin j2 j3 m2 m3 ≤ j → j ≤ j2 + j3 →
    wX j2 j3 m2 m3 j * W (j + 1) + wY j2 j3 m2 m3 j * W j + wZ j2 j3 m2 m3 j * W (j - 1) = 0
  norm : ∑ j ∈ Finset.Icc (jmin j2 j3 m2 m3) (j2 + j3), (2 * (j : ℝ) + 1) * W j ^ 2 = 1
  sign : 0 < W (j2 + j3) * (-1 : ℝ) ^ (j2 - j3 + m2 + m3)

end
end W3jUniq
