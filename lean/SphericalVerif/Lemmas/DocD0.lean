import SphericalVerif.Lemmas.DocD3
import SphericalVerif.Lemmas.DDef
/-! Sanity: the documented formula `docd` at ℓ = 0 and ℓ = 1 is the table `DDef.d1doc` used by `Lemmas/DDef.lean`
    (with c = ch² − sh², s = 2 ch sh). -/
noncomputable section
namespace DocD
open Polynomial Nat
set_option linter.unusedVariables false

variable (ch sh : ℝ)

theorem w_zero : w 0 = 1 := by unfold w; simp
theorem w_one : w 1 = 1 := by unfold w; simp
theorem w_two : w 2 = Real.sqrt 2 := by unfold w; norm_num [Nat.factorial]

theorem docd_zero : docd ch sh 0 0 0 = 1 := by
  rw [docd_eq_dN ch sh 0 0 0 0 0 0 0 (by norm_num) (by norm_num) (by norm_num) (by norm_num)]
  unfold dN
  rw [nrm_eq, T_zero_a, w_zero]
  simp

theorem T11_0 : T ch sh 1 1 0 = ch * sh := by
  have := T_a_zero ch sh 0 1
  rw [T_zero_a] at this
  simpa using this

theorem T11_1 : T ch sh 1 1 1 = ch ^ 2 - sh ^ 2 := by
  have := T_a_succ ch sh 0 1 0
  rw [T_zero_a, T_zero_a] at this
  simp at this
  rw [this]; ring

theorem T11_2 : T ch sh 1 1 2 = -(ch * sh) := by
  have := T_a_succ ch sh 0 1 1
  rw [T_zero_a, T_zero_a] at this
  simp at this
  rw [this]; ring

theorem docd_one (hcs : ch ^ 2 + sh ^ 2 = 1) (mp m : ℤ) (hmp : mp.natAbs ≤ 1) (hm : m.natAbs ≤ 1) :
    docd ch sh 1 mp m = DDef.d1doc (ch ^ 2 - sh ^ 2) (2 * ch * sh) mp m := by
  have h1 : mp = -1 ∨ mp = 0 ∨ mp = 1 := by omega
  have h2 : m = -1 ∨ m = 0 ∨ m = 1 := by omega
  have h2' := Real.mul_self_sqrt (show (0 : ℝ) ≤ 2 by norm_num)
  have hp : Real.sqrt 2 ≠ 0 := (Real.sqrt_pos.mpr (by norm_num)).ne'
  rcases h1 with rfl | rfl | rfl <;> rcases h2 with rfl | rfl | rfl
  · rw [docd_eq_dN ch sh 1 (-1) (-1) 0 2 0 2 (by norm_num) (by norm_num) (by norm_num) (by norm_num)]
    unfold dN; rw [nrm_eq, T_zero_a]
    simp [DDef.d1doc, w_zero, w_two]
    field_simp
    linear_combination (1 : ℝ) * hcs
  · rw [docd_eq_dN ch sh 1 (-1) 0 0 2 1 1 (by norm_num) (by norm_num) (by norm_num) (by norm_num)]
    unfold dN; rw [nrm_eq, T_zero_a]
    simp [DDef.d1doc, w_zero, w_one, w_two]
    field_simp
  · rw [docd_eq_dN ch sh 1 (-1) 1 0 2 2 0 (by norm_num) (by norm_num) (by norm_num) (by norm_num)]
    unfold dN; rw [nrm_eq, T_zero_a]
    simp [DDef.d1doc, w_zero, w_two]
    field_simp
    linear_combination (1 : ℝ) * hcs
  · rw [docd_eq_dN ch sh 1 0 (-1) 1 1 0 2 (by norm_num) (by norm_num) (by norm_num) (by norm_num)]
    unfold dN; rw [nrm_eq, T11_2]
    simp [DDef.d1doc, w_zero, w_one, w_two]
    field_simp
    linear_combination (ch * sh) * h2'
  · rw [docd_eq_dN ch sh 1 0 0 1 1 1 1 (by norm_num) (by norm_num) (by norm_num) (by norm_num)]
    unfold dN; rw [nrm_eq, T11_1]
    simp [DDef.d1doc, w_one]
  · rw [docd_eq_dN ch sh 1 0 1 1 1 2 0 (by norm_num) (by norm_num) (by norm_num) (by norm_num)]
    unfold dN; rw [nrm_eq, T11_0]
    simp [DDef.d1doc, w_zero, w_one, w_two]
    field_simp
    linear_combination (ch * sh) * h2'
  · rw [docd_eq_dN ch sh 1 1 (-1) 2 0 0 2 (by norm_num) (by norm_num) (by norm_num) (by norm_num)]
    unfold dN; rw [nrm_eq, T_zero_b]
    simp [DDef.d1doc, w_zero, w_two]
    field_simp
    linear_combination (1 : ℝ) * hcs
  · rw [docd_eq_dN ch sh 1 1 0 2 0 1 1 (by norm_num) (by norm_num) (by norm_num) (by norm_num)]
    unfold dN; rw [nrm_eq, T_zero_b]
    simp [DDef.d1doc, w_zero, w_one, w_two]
    field_simp
  · rw [docd_eq_dN ch sh 1 1 1 2 0 2 0 (by norm_num) (by norm_num) (by norm_num) (by norm_num)]
    unfold dN; rw [nrm_eq, T_zero_b]
    simp [DDef.d1doc, w_zero, w_two]
    field_simp
    linear_combination (1 : ℝ) * hcs

end DocD
end
