import SphericalVerif.Gen.CPowKern
import SphericalVerif.Lemmas.CPow
import SphericalVerif.Lemmas.GenFill
set_option linter.unusedSectionVars false
/-! The generated `_complex_powers` (`Gen/CPowKern.lean`, translated from the Python text on every run) computes the model's
    array `Model.cpowers`: the `while` loop is `quadrant`, the main loop through the output row is `CPow.cpBody` on the array. -/
namespace GenCPow
open Gen Model Scalar GenFill

/-- two loops whose bodies preserve a step-indexed relation end in that relation -/
theorem loopN_simK {σ τ : Type} (R : Nat → σ → τ → Prop) (cnt : Nat) (f : Nat → σ → σ) (g : Nat → τ → τ) (s : σ) (t : τ)
    (h0 : R 0 s t) (hs : ∀ k s t, k < cnt → R k s t → R (k + 1) (f k s) (g k t)) : R cnt (loopN cnt f s) (loopN cnt g t) := by
  induction cnt with
  | zero => exact h0
  | succ n ih =>
    simp only [loopN]
    exact hs n _ _ (Nat.lt_succ_self n) (ih (fun k s t hk => hs k s t (Nat.lt_succ_of_lt hk)))

section
variable {α : Type} [Scalar α]

/-- the generated `while z.real<0 or z.imag<0: θ *= 1j; z /= 1j` (with `fuel` turns) is the model's `quadrant` -/
theorem while_eq_quadrant (k : Nat) (θ z : Cx α) :
    loopWhile k (fun (p : Cx α × Cx α) => (Scalar.lt p.2.re (Scalar.ofInt (0 : Int) : α)) || (Scalar.lt p.2.im (Scalar.ofInt (0 : Int) : α)))
      (fun (p : Cx α × Cx α) => (Cx.mul p.1 (Cx.mk (Scalar.ofInt (0 : Int) : α) (Scalar.ofInt (1 : Int) : α)),
        Cx.div p.2 (Cx.mk (Scalar.ofInt (0 : Int) : α) (Scalar.ofInt (1 : Int) : α)))) (θ, z) = quadrant k θ z := by
  induction k generalizing θ z with
  | zero => rfl
  | succ k ih =>
    simp only [loopWhile, quadrant]
    by_cases h : (Scalar.lt z.re (zero : α) || Scalar.lt z.im (zero : α)) = true
    · have h' : (Scalar.lt z.re (Scalar.ofInt (0 : Int) : α) || Scalar.lt z.im (Scalar.ofInt (0 : Int) : α)) = true := h
      rw [if_pos h, if_pos h']
      exact ih _ _
    · have h' : ¬ (Scalar.lt z.re (Scalar.ofInt (0 : Int) : α) || Scalar.lt z.im (Scalar.ofInt (0 : Int) : α)) = true := h
      rw [if_neg h, if_neg h']

variable {φ : Type} [FMem φ α] [LawfulFMem φ α]

theorem size_set! (a : Array (Cx α)) (i : Nat) (v : Cx α) : (a.set! i v).size = a.size := by simp

/-- the main loop body of the generated kernel (`for m in range(2, M+1)`), row `i` of `zpowers` starting at `base` -/
def gBody (zp : Nat) (base : Int) (θ : Cx α) (t : α) (k3 : Nat) (p3 : φ × Cx α × Cx α) : φ × Cx α × Cx α :=
  let m : Int := 2 + (k3 : Int)
  let st : φ := fwrC (α := α) p3.1 zp (base + m) (Cx.add (frdC (α := α) p3.1 zp (base + (m - 1))) p3.2.1)
  let dz : Cx α := Cx.add p3.2.1 (Cx.rmul t (frdC (α := α) st zp (base + m)))
  let st : φ := fwrC (α := α) st zp (base + (m - 1)) (Cx.mul (frdC (α := α) st zp (base + (m - 1))) p3.2.2)
  (st, dz, Cx.mul p3.2.2 θ)

/-- the generated kernel for row `i`, with the quadrant loop's result `q = (θ, z)` named -/
def gRow (zp : Nat) (M : Int) (base : Int) (imsqrt : Cx α → α) (q : Cx α × Cx α) (st : φ) : φ :=
  let st : φ := fwrC (α := α) st zp (base + 1) q.2
  let dc : α := (Scalar.ofInt (-(2 : Int)) : α) *. ((imsqrt q.2) *. (imsqrt q.2))
  let t : α := (Scalar.ofInt (2 : Int) : α) *. dc
  let dz : Cx α := Cx.add (Cx.rmul dc (Cx.add (Cx.ofRe (Scalar.ofInt (1 : Int) : α)) (Cx.mul (Cx.ofRe (Scalar.ofInt (2 : Int) : α)) (frdC (α := α) st zp (base + 1)))))
    (Cx.mulr (Cx.mk (Scalar.ofInt (0 : Int) : α) (Scalar.ofInt (1 : Int) : α)) (Scalar.sqrt ((Scalar.neg dc) *. ((Scalar.ofInt (2 : Int) : α) +. dc))))
  let p3 := loopN ((M + 1) - 2).toNat (gBody zp base q.1 t) (st, dz, q.1)
  fwrC (α := α) p3.1 zp (base + M) (Cx.mul (frdC (α := α) p3.1 zp (base + M)) p3.2.2)

theorem gen_eq_rows (zr : Int → Cx α) (M : Int) (zp : Nat) (n ncols : Int) (imsqrt : Cx α → α) (fuel : Nat) (st : φ) :
    Gen.u_complex_powers (α := α) zr M zp n ncols imsqrt fuel st
      = loopN (n - 0).toNat (fun k1 (st : φ) =>
          let i : Int := 0 + (k1 : Int)
          let st : φ := fwrC (α := α) st zp (i * ncols + 0) (Cx.mk (Scalar.ofInt (1 : Int) : α) (Scalar.ofInt (0 : Int) : α))
          if M > 0 then
            gRow zp M (i * ncols) imsqrt
              (loopWhile fuel (fun (p : Cx α × Cx α) => (Scalar.lt p.2.re (Scalar.ofInt (0 : Int) : α)) || (Scalar.lt p.2.im (Scalar.ofInt (0 : Int) : α)))
                (fun (p : Cx α × Cx α) => (Cx.mul p.1 (Cx.mk (Scalar.ofInt (0 : Int) : α) (Scalar.ofInt (1 : Int) : α)),
                  Cx.div p.2 (Cx.mk (Scalar.ofInt (0 : Int) : α) (Scalar.ofInt (1 : Int) : α)))) (Cx.ofRe (Scalar.ofInt (1 : Int) : α), zr i)) st
          else st) st := rfl

/-- one row, after the quadrant loop: the cells hold the entries of the model's array -/
theorem gRow_cells (zp : Nat) (M : Nat) (imsqrt : Cx α → α) (θ zr : Cx α) (st : φ) (hM : 1 ≤ M)
    (h0 : frdC (α := α) st zp 0 = Cx.oneC) (m : Nat) (hm : m ≤ M) :
    frdC (α := α) (gRow zp (M : Int) 0 imsqrt (θ, zr) st) zp (m : Int)
      = cget (let dc := CPow.cpDc (imsqrt zr)
              let r := loopN (M - 1) (CPow.cpBody θ (Scalar.ofInt 2 *. dc)) ((Array.replicate (M + 1) Cx.oneC).set! 1 zr, CPow.cpDz0 zr dc, θ)
              r.1.set! M (Cx.mul (cget r.1 M) r.2.2)) m := by
  unfold gRow
  simp only [Int.zero_add]
  have ec : (((M : Int) + 1) - 2).toNat = M - 1 := by omega
  rw [ec, frdC_fwrC_same]
  -- the loop
  have hloop := loopN_simK
    (fun k (g : φ × Cx α × Cx α) (p : Array (Cx α) × Cx α × Cx α) =>
      g.2.1 = p.2.1 ∧ g.2.2 = p.2.2 ∧ p.1.size = M + 1 ∧ ∀ j : Nat, j ≤ k + 1 → frdC (α := α) g.1 zp (j : Int) = cget p.1 j)
    (M - 1) (gBody zp 0 θ ((Scalar.ofInt (2 : Int) : α) *. ((Scalar.ofInt (-(2 : Int)) : α) *. ((imsqrt zr) *. (imsqrt zr)))))
    (CPow.cpBody θ (Scalar.ofInt 2 *. CPow.cpDc (imsqrt zr)))
    (fwrC (α := α) st zp 1 zr,
      Cx.add (Cx.rmul ((Scalar.ofInt (-(2 : Int)) : α) *. ((imsqrt zr) *. (imsqrt zr))) (Cx.add (Cx.ofRe (Scalar.ofInt (1 : Int) : α)) (Cx.mul (Cx.ofRe (Scalar.ofInt (2 : Int) : α)) zr)))
        (Cx.mulr (Cx.mk (Scalar.ofInt (0 : Int) : α) (Scalar.ofInt (1 : Int) : α))
          (Scalar.sqrt ((Scalar.neg ((Scalar.ofInt (-(2 : Int)) : α) *. ((imsqrt zr) *. (imsqrt zr)))) *. ((Scalar.ofInt (2 : Int) : α) +. ((Scalar.ofInt (-(2 : Int)) : α) *. ((imsqrt zr) *. (imsqrt zr))))))), θ)
    ((Array.replicate (M + 1) Cx.oneC).set! 1 zr, CPow.cpDz0 zr (CPow.cpDc (imsqrt zr)), θ)
    ⟨rfl, rfl, by simp, by
      intro j hj
      have : j = 0 ∨ j = 1 := by omega
      rcases this with e | e <;> subst e <;> dsimp only <;> simp only [Nat.cast_one, Nat.cast_zero]
      · rw [frdC_fwrC_other _ _ _ _ _ (by omega), CPow.cget_set!_ne _ _ _ _ (by omega), CPow.cget_replicate _ _ _ (by omega)]
        exact h0
      · rw [frdC_fwrC_same, CPow.cget_set!_self _ _ _ (by simp; omega)]⟩
    (by
      intro k g p hk ⟨a1, a2, a3, a4⟩
      unfold gBody CPow.cpBody
      simp only [Int.zero_add]
      have em : (2 : Int) + (k : Int) = ((k + 2 : Nat) : Int) := by push_cast; omega
      have em1 : ((k + 2 : Nat) : Int) - 1 = ((k + 1 : Nat) : Int) := by push_cast; omega
      rw [em, em1]
      have r1 : frdC (α := α) g.1 zp ((k + 1 : Nat) : Int) = cget p.1 (k + 1) := a4 (k + 1) (by omega)
      rw [frdC_fwrC_same, frdC_fwrC_other _ _ _ _ _ (by push_cast; omega), r1, a1, a2]
      refine ⟨rfl, rfl, by simp [a3], ?_⟩
      intro j hj
      by_cases e2 : j = k + 2
      · subst e2
        rw [frdC_fwrC_other _ _ _ _ _ (by push_cast; omega), frdC_fwrC_same, CPow.cget_set!_ne _ _ _ _ (by omega),
          CPow.cget_set!_self _ _ _ (by omega)]
      · by_cases e1 : j = k + 1
        · subst e1
          rw [frdC_fwrC_same, CPow.cget_set!_self _ _ _ (by simp [a3]; omega), CPow.cget_set!_ne _ _ _ _ (by omega)]
        · rw [frdC_fwrC_other _ _ _ _ _ (by push_cast; omega), frdC_fwrC_other _ _ _ _ _ (by push_cast; omega),
            CPow.cget_set!_ne _ _ _ _ (by omega), CPow.cget_set!_ne _ _ _ _ (by omega)]
          exact a4 j (by omega))
  obtain ⟨b1, b2, b3, b4⟩ := hloop
  generalize loopN (M - 1) (gBody (α := α) (φ := φ) zp 0 θ _) _ = g at b1 b2 b4 ⊢
  generalize loopN (M - 1) (CPow.cpBody (α := α) θ _) _ = p at b1 b2 b3 b4 ⊢
  have eM : M - 1 + 1 = M := by omega
  rw [eM] at b4
  by_cases e : m = M
  · subst e
    rw [frdC_fwrC_same, CPow.cget_set!_self _ _ _ (by omega), b4 m (le_refl _), b2]
  · rw [frdC_fwrC_other _ _ _ _ _ (by omega), CPow.cget_set!_ne _ _ _ _ (by omega)]
    exact b4 m hm

/-- **`_complex_powers` from the Python text**, one `z` (the kernel's outer loop over the elements of `z` is a plain repetition,
    `gen_eq_rows`): after the generated kernel the cell `zpowers[0, m]` holds entry `m` of `Model.cpowers z M imsqrt`, for every
    `m ≤ M` — every arithmetic, every previous content of the output array.  `fuel = 4` turns of the `while` loop, as the model's
    `quadrant 4` (three always suffice: `C14.quadrant_loop_le3`). -/
theorem gen_cpow_cell (z : Cx α) (M : Nat) (zp : Nat) (imsqrt : Cx α → α) (st : φ) (m : Nat) (hm : m ≤ M) :
    frdC (α := α) (Gen.u_complex_powers (α := α) (fun _ => z) (M : Int) zp 1 ((M : Int) + 1) imsqrt 4 st) zp (m : Int)
      = cget (cpowers z M imsqrt) m := by
  rw [gen_eq_rows]
  have e1 : ((1 : Int) - 0).toNat = 1 := rfl
  rw [e1]
  simp only [loopN, Nat.cast_zero, Int.add_zero, Int.zero_mul]
  rw [CPow.cpowers_eq]
  by_cases h0 : M = 0
  · subst h0
    have c : ¬ (((0 : Nat) : Int) > 0) := by omega
    have hm0 : m = 0 := by omega
    subst hm0
    rw [if_neg c, if_pos rfl, Nat.cast_zero, frdC_fwrC_same, CPow.cget_replicate _ _ _ (by omega)]
    rfl
  · have c : (M : Int) > 0 := by omega
    rw [if_pos c, if_neg h0, while_eq_quadrant]
    have hq : quadrant 4 (Cx.ofRe (Scalar.ofInt (1 : Int) : α)) z = quadrant 4 (Cx.oneC : Cx α) z := rfl
    rw [hq]
    generalize quadrant 4 (Cx.oneC : Cx α) z = q
    obtain ⟨θ, zr⟩ := q
    exact gRow_cells zp M imsqrt θ zr _ (by omega) (by rw [frdC_fwrC_same]; rfl) m hm
end
end GenCPow
