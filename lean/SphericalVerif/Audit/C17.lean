import SphericalVerif.Props.C17
import SphericalVerif.Props.HKernel
import SphericalVerif.Props.GenH
import SphericalVerif.Props.GenFill
import SphericalVerif.Props.Footprint
import SphericalVerif.Props.GenMethod
#print axioms C17.objDvec_eq_map
#print axioms C17.objYvec_eq_map
#print axioms C17.objDvec_getElem
#print axioms C17.objDloop_mem
#print axioms C17.evaluateHornerK_out_indep
#print axioms C17.evaluateHornerK_eq
#print axioms HKernel.runH_pure
#print axioms HKernel.runH_size_indep
#print axioms GenH.tables
#print axioms GenH.genH_sim
#print axioms GenH.genH_refines
#print axioms GenH.genH_pure
#print axioms GenH.genH_size_indep
#print axioms GenH.tabOK_ranges
#print axioms GenFill.eps_eq
#print axioms GenFill.hindex_rep
#print axioms GenFill.rep_valid
#print axioms GenFill.hat_gen
#print axioms GenFill.gen_d_entry
#print axioms GenFill.gen_D_entry
#print axioms GenFill.gen_Y_entry
#print axioms GenFill.gen_d_eq_docd
#print axioms Footprint.step3_only
#print axioms Footprint.step1_only
#print axioms Footprint.step2_only
#print axioms Footprint.step4_only
#print axioms Footprint.step5_only
#print axioms Footprint.fill_d_only
#print axioms Footprint.fill_D_only
#print axioms Footprint.fill_sYlm_only
#print axioms Footprint.euler_only
#print axioms Footprint.cpow_only
#print axioms Footprint.evalH_only
#print axioms Footprint.rotH_only
#print axioms Footprint.wigner_H_only
#print axioms Footprint.gen_D_chain_inplace
#print axioms GenMethod.cpow_one
#print axioms GenMethod.half_double
#print axioms GenMethod.D_rotor_eq
#print axioms GenMethod.frdC_after_H
#print axioms GenMethod.sYlm_rotor_eq
#print axioms GenMethod.evaluate_rotor_eq
#print axioms GenMethod.rotate_rotor_eq
#print axioms GenMethod.D_rotor_only
#print axioms GenMethod.sYlm_rotor_only
#print axioms GenMethod.evaluate_rotor_only
#print axioms GenMethod.rotate_rotor_only
#print axioms GenMethod.loop_keeps
#print axioms GenMethod.loop_keepsC
#print axioms GenMethod.D_rotor_pure
#print axioms GenMethod.D_loop_row
#print axioms GenMethod.sYlm_rotor_pure
#print axioms GenMethod.sYlm_loop_row
#print axioms GenMethod.evaluate_rotor_pure
#print axioms GenMethod.evaluate_loop_col
#print axioms GenMethod.rotate_rotor_pure
#print axioms GenMethod.D_rotor_doc
#print axioms GenMethod.sYlm_rotor_doc
#print axioms GenMethod.evaluate_rotor_doc
#print axioms GenMethod.rotate_rotor_doc
