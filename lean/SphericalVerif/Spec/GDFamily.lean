import SphericalVerif.Spec.ValH
import SphericalVerif.Spec.Orderings
import SphericalVerif.Lemmas.RealScalar
/-! The Gumerov–Duraiswami relations (arXiv:1403.7698) that the five-step H recursion of
    spherical/recursions/wignerH.py uses, stated as a predicate on a candidate family
    `H n m' m` (`n : ℕ`, `m' m : ℤ`, meaningful for |m'|, |m| ≤ n) of real numbers — the mathematical
    H^{m',m}_n(β) with cos β = `c`, sin β = `s`.

    Nothing here refers to the workspaces, to `ell_max`/`mp_max`, to memory or to the order in which the code
    visits the cells.  The only objects shared with the model are
      * the three coefficient functions, restated here in closed form (`gdA`, `gdB`, `gdD`; `Lemmas/GDFamily.lean`
        proves they are the model's tables `aC`, `bC`, `dC` at ℝ), and
      * `Spec.col0`, the m' = 0 column as the Holmes–Featherstone recursion of step 2 produces it (Eq. (32) of the
        paper expresses that column through associated Legendre functions; the predicate takes the column as ONE
        hypothesis and says nothing about Legendre functions). -/
namespace GDFamily
noncomputable section

/-- sign(m) with sign(0) = 1 (`sign` of wignerH.py) -/
def sgn (m : ℤ) : ℝ := if m < 0 then -1 else 1

/-- a^m_n = √((n+1+m)(n+1−m) / ((2n+1)(2n+3))) -/
def gdA (n m : ℤ) : ℝ := Real.sqrt ((((n + 1 + m) * (n + 1 - m) : ℤ) : ℝ) / (((2 * n + 1) * (2 * n + 3) : ℤ) : ℝ))

/-- b^m_n = sign(m) √((n−m−1)(n−m) / ((2n−1)(2n+1))) -/
def gdB (n m : ℤ) : ℝ :=
  sgn m * Real.sqrt ((((n - m - 1) * (n - m) : ℤ) : ℝ) / (((2 * n - 1) * (2 * n + 1) : ℤ) : ℝ))

/-- d^m_n = sign(m)/2 · √((n−m)(n+m+1)); note d^n_n = 0 and d^{−n−1}_n = 0 -/
def gdD (n m : ℤ) : ℝ := sgn m / 2 * Real.sqrt (((n - m) * (n + m + 1) : ℤ) : ℝ)

/-- relation (50) of the paper at (n, m', m), resolved for H^{m'+1,m}_n:
      d^{m'}_n H^{m'+1,m}_n = d^{m'−1}_n H^{m'−1,m}_n − d^{m−1}_n H^{m',m−1}_n + d^m_n H^{m',m+1}_n.
    For |m'|, |m| ≤ n every value of `H` outside the domain |·| ≤ n that the formula mentions carries a zero
    coefficient (d^n_n = 0 = d^{−n−1}_n). -/
def Rel50 (H : ℕ → ℤ → ℤ → ℝ) (n : ℕ) (mp m : ℤ) : Prop :=
  gdD n mp * H n (mp + 1) m =
    gdD n (mp - 1) * H n (mp - 1) m - gdD n (m - 1) * H n mp (m - 1) + gdD n m * H n mp (m + 1)

/-- `IsGDFamily c s H`: the family `H` satisfies exactly the relations the code uses.

    (S)  the two symmetries, for |m'|, |m| ≤ n;
    (0)  the m' = 0 column, 0 ≤ m ≤ n, is the column `Spec.col0` of step 2;
    (41) relation (41) of the paper, for 1 ≤ m ≤ n: the m' = 1 column of degree n from the m' = 0 column of
         degree n+1;
    (50) relation (50) of the paper (`Rel50`) at the instances |m'| < n, |m'| ≤ m ≤ n — the stored wedge.
         Step 4 uses the instances 1 ≤ m' (resolved for H^{m'+1,m}), step 5 the instances m' ≤ 0 (resolved for
         H^{m'−1,m}); the instances m = |m'| are those of the scratch cells `Hv`.
         At m = n the last term carries the coefficient d^n_n = 0 (`gdD_top`): the value `H n m' (n+1)`, outside
         the domain of the family, is not constrained and not used (the code drops that term).  No other
         out-of-domain value occurs: |m'±1| ≤ n and |m−1| ≤ n at every instance.
         Only the wedge instances are REQUIRED; relation (50) is invariant under the two symmetries, so together
         with (S) they give (50) on the whole square |m'|, |m| ≤ n (`Lemmas/GDFamily.lean`, `rel50_full`), and the
         instances m = |m'| are consequences of (S) alone (`rel50_diag_pos`, `rel50_diag_neg`).  A family for which
         (50) is known at all indices therefore satisfies this field by specialisation. -/
structure IsGDFamily (c s : ℝ) (H : ℕ → ℤ → ℤ → ℝ) : Prop where
  symm_swap : ∀ (n : ℕ) (mp m : ℤ), mp.natAbs ≤ n → m.natAbs ≤ n → H n mp m = H n m mp
  symm_neg : ∀ (n : ℕ) (mp m : ℤ), mp.natAbs ≤ n → m.natAbs ≤ n → H n mp m = H n (-mp) (-m)
  col0 : ∀ n m : ℕ, m ≤ n → H n 0 m = Spec.col0 c s n m
  rel41 : ∀ (n : ℕ) (m : ℤ), 1 ≤ m → m ≤ n →
    gdB (n + 1) 0 * H n 1 m =
      gdB (n + 1) (-m - 1) * (1 - c) / 2 * H (n + 1) 0 (m + 1)
        - gdB (n + 1) (m - 1) * (1 + c) / 2 * H (n + 1) 0 (m - 1)
        - gdA n m * s * H (n + 1) 0 m
  rel50 : ∀ (n : ℕ) (mp m : ℤ), mp.natAbs < n → (mp.natAbs : ℤ) ≤ m → m ≤ n → Rel50 H n mp m

/-- `valW` extended from the stored wedge |m'| ≤ m to all |m'|, |m| ≤ n through the symmetries: the value at the
    wedge representative (what `Hwedge[WignerHindex(n, m', m)]` reads) -/
def valExt (c s : ℝ) (n : ℕ) (mp m : ℤ) : ℝ :=
  Spec.valW c s n (Spec.wedgeRep mp m).1 (Spec.wedgeRep mp m).2.toNat

/-- the column of the out-of-wedge cell that the scratch cell `Hv[nm_index(n, k)]` holds:
    `hv n k` = H(n, k, k−1) for k ≥ 0 (for k = 0: H(n, 0, −1) = H(n, 0, 1)) and H(n, k, −k−1) for k < 0 -/
def hvCol (k : ℤ) : ℤ := if 0 ≤ k then k - 1 else -k - 1

end
end GDFamily
