/-! The documented nested-loop orderings of spherical/utilities/indexing.py and
    spherical/recursions/wignerH.py, written as plain lists (hand-written, stable; core Lean only).

    These are the *specifications* the generated index/size functions (`Gen.*`, re-translated from the
    Python source on every run) are proved against in `Props/C11.lean`. -/
namespace Spec

/-- Python's `range(lo, hi+1)`: the integers lo, lo+1, …, hi (empty when hi < lo). -/
def irange (lo hi : Int) : List Int :=
  (List.range (hi + 1 - lo).toNat).map (fun (k : Nat) => lo + (k : Int))

/-- ```
    [ (ell, mp, m) for ell in range(ell_max+1)
                   for mp in range(-min(ell, mp_max), min(ell, mp_max)+1)
                   for m in range(abs(mp), ell+1) ]
    ``` -/
def hRange (mp_max ell_max : Int) : List (Int × Int × Int) :=
  (irange 0 ell_max).flatMap fun ell =>
    (irange (-(min ell mp_max)) (min ell mp_max)).flatMap fun mp =>
      (irange (mp.natAbs : Int) ell).map fun m => (ell, mp, m)

/-- ```
    [ (ell, mp, m) for ell in range(ell_min, ell_max+1)
                   for mp in range(-min(ell, mp_max), min(ell, mp_max)+1)
                   for m in range(-ell, ell+1) ]
    ``` -/
def dRange (ell_min mp_max ell_max : Int) : List (Int × Int × Int) :=
  (irange ell_min ell_max).flatMap fun ell =>
    (irange (-(min ell mp_max)) (min ell mp_max)).flatMap fun mp =>
      (irange (-ell) ell).map fun m => (ell, mp, m)

/-- `[ (ell, m) for ell in range(ell_min, ell_max+1) for m in range(-ell, ell+1) ]` -/
def yRange (ell_min ell_max : Int) : List (Int × Int) :=
  (irange ell_min ell_max).flatMap fun ell => (irange (-ell) ell).map fun m => (ell, m)

/-- `[ (n, m) for n in range(n_max+1) for m in range(-n, n+1) ]` -/
def nmRange (n_max : Int) : List (Int × Int) := yRange 0 n_max

/-- `[ (n, m) for n in range(n_max+1) for m in range(n+1) ]` -/
def nabsmRange (n_max : Int) : List (Int × Int) :=
  (irange 0 n_max).flatMap fun n => (irange 0 n).map fun m => (n, m)

/-- `[ (n, mp, m) for n in range(n_max+1) for mp in range(-n, n+1) for m in range(-n, n+1) ]` -/
def nmpmRange (n_max : Int) : List (Int × Int × Int) :=
  (irange 0 n_max).flatMap fun n => (irange (-n) n).flatMap fun mp => (irange (-n) n).map fun m => (n, mp, m)

/-- The stored-wedge representative of (m', m) under the H symmetries
    H(m',m) = H(m,m') and H(m',m) = H(-m',-m):  the unique pair (a, b) in the orbit with b ≥ |a|
    (choosing the one the documented if-ladder chooses on ties). -/
def wedgeRep (mp m : Int) : Int × Int :=
  if m < -mp then (if m < mp then (-mp, -m) else (-m, -mp))
  else (if m < mp then (m, mp) else (mp, m))

end Spec
