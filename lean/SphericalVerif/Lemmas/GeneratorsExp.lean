import SphericalVerif.Lemmas.Generators
import Mathlib.Analysis.SpecialFunctions.Exponential
import Mathlib.Analysis.Calculus.MeanValue
import Mathlib.Analysis.Calculus.Deriv.Prod
import Mathlib.Topology.Algebra.Module.FiniteDimension
import Mathlib.Analysis.Normed.Module.FiniteDimension
/-! Helper lemmas for `Props/Generators.lean`, part 2: the exponential series.

    * `linear_ode_exp`: a solution of the linear ODE X' = S X in a Banach space is X(t) = exp(t S) X(0)
      (d/dt [exp(−t S) X(t)] = 0).
    * each degree ℓ of the weights is the finite-dimensional space `Blk ℓ → ℂ`; the operator 2i L_g restricted to the
      degree is the continuous linear map `genS g ℓ`; `rot_qexp_hasDerivAt` is the ODE; hence the series. -/
noncomputable section
namespace Generators
open Model DDef DHom HomAll
open scoped ComplexConjugate Nat

/-! ### the linear ODE -/

section ode
variable {E : Type*} [NormedAddCommGroup E] [NormedSpace ℝ E] [CompleteSpace E]

theorem linear_ode_exp (S : E →L[ℝ] E) (X : ℝ → E) (hX : ∀ t, HasDerivAt X (S (X t)) t) (t : ℝ) :
    X t = NormedSpace.exp (t • S) (X 0) := by
  let _ : NormedAlgebra ℚ (E →L[ℝ] E) := .restrictScalars ℚ ℝ (E →L[ℝ] E)
  have hΦ : ∀ t : ℝ, HasDerivAt (fun u : ℝ => NormedSpace.exp (u • (-S))) (NormedSpace.exp (t • (-S)) * (-S)) t :=
    fun t => hasDerivAt_exp_smul_const (-S) t
  have hY : ∀ t : ℝ, HasDerivAt (fun u : ℝ => NormedSpace.exp (u • (-S)) (X u)) 0 t := by
    intro t
    have h := (hΦ t).clm_apply (hX t)
    refine h.congr_deriv ?_
    simp [mul_apply_eq_comp]
  have hc : NormedSpace.exp (t • (-S)) (X t) = X 0 := by
    have h := is_const_of_deriv_eq_zero (f := fun u : ℝ => NormedSpace.exp (u • (-S)) (X u))
      (fun t => (hY t).differentiableAt) (fun t => (hY t).deriv) t 0
    simpa using h
  have hinv : NormedSpace.exp (t • S) * NormedSpace.exp (t • (-S)) = 1 := by
    rw [← NormedSpace.exp_add_of_commute, smul_neg, add_neg_cancel, NormedSpace.exp_zero]
    rw [smul_neg]
    exact ((Commute.refl S).smul_left t).smul_right t |>.neg_right
  calc X t = (NormedSpace.exp (t • S) * NormedSpace.exp (t • (-S))) (X t) := by rw [hinv]; rfl
    _ = NormedSpace.exp (t • S) (X 0) := by rw [mul_apply_eq_comp, hc]

/-- the series of the solution, seen through a continuous linear map -/
theorem linear_ode_hasSum (S : E →L[ℝ] E) (X : ℝ → E) (hX : ∀ t, HasDerivAt X (S (X t)) t) (t : ℝ)
    {F : Type*} [NormedAddCommGroup F] [NormedSpace ℝ F] (L : E →L[ℝ] F) :
    HasSum (fun k : ℕ => ((k ! : ℝ)⁻¹ * t ^ k) • L ((S ^ k) (X 0))) (L (X t)) := by
  have h := NormedSpace.exp_series_hasSum_exp' (𝕂 := ℝ) (t • S)
  have h2 := (L.comp (ContinuousLinearMap.apply ℝ E (X 0))).hasSum h
  have e : ∀ k : ℕ, (L.comp (ContinuousLinearMap.apply ℝ E (X 0))) ((k !⁻¹ : ℝ) • (t • S) ^ k)
      = ((k ! : ℝ)⁻¹ * t ^ k) • L ((S ^ k) (X 0)) := by
    intro k
    rw [smul_pow]
    simp [smul_smul, map_smul]
  simp only [e] at h2
  rw [linear_ode_exp S X hX t]
  exact h2

end ode

/-! ### linearity and locality of the ℂ-valued L operators -/

theorem LpC_congr (f f' : ℕ → ℤ → ℂ) (ℓ : ℕ) (m : ℤ) (h : ∀ n : ℤ, n.natAbs ≤ ℓ → f ℓ n = f' ℓ n) :
    LpC f ℓ m = LpC f' ℓ m := by
  unfold LpC
  split_ifs with c
  · rw [h (m - 1) (by omega)]
  · rfl

theorem LmC_congr (f f' : ℕ → ℤ → ℂ) (ℓ : ℕ) (m : ℤ) (h : ∀ n : ℤ, n.natAbs ≤ ℓ → f ℓ n = f' ℓ n) :
    LmC f ℓ m = LmC f' ℓ m := by
  unfold LmC
  split_ifs with c
  · rw [h (m + 1) (by omega)]
  · rfl

/-- L_g f in degree ℓ, |m| ≤ ℓ, only reads the weights of degree ℓ with |n| ≤ ℓ -/
theorem LgC_congr (g : Quat ℝ) (f f' : ℕ → ℤ → ℂ) (ℓ : ℕ) (m : ℤ) (hm : m.natAbs ≤ ℓ)
    (h : ∀ n : ℤ, n.natAbs ≤ ℓ → f ℓ n = f' ℓ n) : LgC g f ℓ m = LgC g f' ℓ m := by
  unfold LgC LxC LyC LzC
  rw [LpC_congr f f' ℓ m h, LmC_congr f f' ℓ m h, h m hm]

theorem LgC_add (g : Quat ℝ) (f f' : ℕ → ℤ → ℂ) (ℓ : ℕ) (m : ℤ) :
    LgC g (fun ℓ n => f ℓ n + f' ℓ n) ℓ m = LgC g f ℓ m + LgC g f' ℓ m := by
  unfold LgC LxC LyC LzC LpC LmC
  split_ifs <;> ring

theorem LgC_smul (g : Quat ℝ) (c : ℂ) (f : ℕ → ℤ → ℂ) (ℓ : ℕ) (m : ℤ) :
    LgC g (fun ℓ n => c * f ℓ n) ℓ m = c * LgC g f ℓ m := by
  unfold LgC LxC LyC LzC LpC LmC
  split_ifs <;> ring

/-- the operator 2i L_g on weights -/
def GgC (g : Quat ℝ) (f : ℕ → ℤ → ℂ) : ℕ → ℤ → ℂ := fun ℓ n => 2 * Complex.I * LgC g f ℓ n

theorem GgC_iterate (g : Quat ℝ) (f : ℕ → ℤ → ℂ) :
    ∀ k : ℕ, (GgC g)^[k] f = fun ℓ m => (2 * Complex.I) ^ k * (LgC g)^[k] f ℓ m
  | 0 => by simp
  | k + 1 => by
    rw [Function.iterate_succ_apply', Function.iterate_succ_apply', GgC_iterate g f k]
    funext ℓ m
    unfold GgC
    rw [LgC_smul, pow_succ]
    ring

/-! ### one degree of the weights as a finite-dimensional space -/

/-- the index set −ℓ … ℓ of one degree -/
abbrev Blk (ℓ : ℕ) : Type := {m : ℤ // m ∈ Finset.Icc (-(ℓ : ℤ)) ℓ}

/-- the weights of degree ℓ -/
def res (f : ℕ → ℤ → ℂ) (ℓ : ℕ) : Blk ℓ → ℂ := fun i => f ℓ i.1

/-- a vector of weights of degree ℓ as a family of weights (the same in every degree; zero for |n| > ℓ) -/
def ext (ℓ : ℕ) (x : Blk ℓ → ℂ) : ℕ → ℤ → ℂ :=
  fun _ n => if h : n ∈ Finset.Icc (-(ℓ : ℤ)) ℓ then x ⟨n, h⟩ else 0

theorem ext_res (f : ℕ → ℤ → ℂ) (ℓ : ℕ) (n : ℤ) (hn : n.natAbs ≤ ℓ) : ext ℓ (res f ℓ) ℓ n = f ℓ n := by
  unfold ext res
  rw [dif_pos (blk_mem hn)]

theorem ext_add (ℓ : ℕ) (x y : Blk ℓ → ℂ) : ext ℓ (x + y) = fun ℓ' n => ext ℓ x ℓ' n + ext ℓ y ℓ' n := by
  funext ℓ' n
  unfold ext
  split_ifs <;> simp

theorem ext_smul (ℓ : ℕ) (c : ℂ) (x : Blk ℓ → ℂ) : ext ℓ (c • x) = fun ℓ' n => c * ext ℓ x ℓ' n := by
  funext ℓ' n
  unfold ext
  split_ifs <;> simp

/-- 2i L_g on one degree, as a ℂ-linear map -/
def genLin (g : Quat ℝ) (ℓ : ℕ) : (Blk ℓ → ℂ) →ₗ[ℂ] (Blk ℓ → ℂ) where
  toFun x := res (GgC g (ext ℓ x)) ℓ
  map_add' x y := by
    funext i
    simp only [res, GgC, Pi.add_apply]
    rw [ext_add, LgC_add]
    ring
  map_smul' c x := by
    funext i
    simp only [res, GgC, Pi.smul_apply, RingHom.id_apply, smul_eq_mul]
    rw [ext_smul, LgC_smul]
    ring

/-- 2i L_g on one degree, as a continuous ℝ-linear map -/
def genS (g : Quat ℝ) (ℓ : ℕ) : (Blk ℓ → ℂ) →L[ℝ] (Blk ℓ → ℂ) :=
  (LinearMap.toContinuousLinearMap (genLin g ℓ)).restrictScalars ℝ

theorem genS_apply (g : Quat ℝ) (ℓ : ℕ) (x : Blk ℓ → ℂ) : genS g ℓ x = res (GgC g (ext ℓ x)) ℓ := rfl

theorem genS_res (g : Quat ℝ) (ℓ : ℕ) (f : ℕ → ℤ → ℂ) : genS g ℓ (res f ℓ) = res (GgC g f) ℓ := by
  rw [genS_apply]
  funext i
  simp only [res, GgC]
  rw [LgC_congr g _ f ℓ i.1 (mem_blk i.2) (fun n hn => ext_res f ℓ n hn)]

theorem genS_pow_res (g : Quat ℝ) (ℓ : ℕ) : ∀ (k : ℕ) (f : ℕ → ℤ → ℂ),
    (genS g ℓ ^ k) (res f ℓ) = res ((GgC g)^[k] f) ℓ
  | 0, f => by simp
  | k + 1, f => by
    rw [pow_succ, mul_apply_eq_comp, genS_res, genS_pow_res g ℓ k (GgC g f), Function.iterate_succ_apply]

/-- the coordinate m of a vector of weights of degree ℓ, as a continuous ℝ-linear map -/
def coord (ℓ : ℕ) (i : Blk ℓ) : (Blk ℓ → ℂ) →L[ℝ] ℂ := ContinuousLinearMap.proj i

/-- **the exponential series of the left generators, weight by weight** -/
theorem rot_qexp_hasSum (g : Quat ℝ) (hg : g.x ^ 2 + g.y ^ 2 + g.z ^ 2 = 1) (f : ℕ → ℤ → ℂ) (ℓ : ℕ) (m : ℤ)
    (hm : m.natAbs ≤ ℓ) (t : ℝ) :
    HasSum (fun k : ℕ => (2 * Complex.I * (t : ℂ)) ^ k / (k ! : ℂ) * (LgC g)^[k] f ℓ m) (rot (qexp g t) f ℓ m) := by
  have hX : ∀ t : ℝ, HasDerivAt (fun t : ℝ => res (rot (qexp g t) f) ℓ)
      (genS g ℓ (res (rot (qexp g t) f) ℓ)) t := by
    intro t
    rw [hasDerivAt_pi]
    intro i
    rw [genS_res]
    exact rot_qexp_hasDerivAt g hg f ℓ i.1 (mem_blk i.2) t
  have h := linear_ode_hasSum (genS g ℓ) (fun t : ℝ => res (rot (qexp g t) f) ℓ) hX t (coord ℓ ⟨m, blk_mem hm⟩)
  have e0 : res (rot (qexp g 0) f) ℓ = res f ℓ := by
    funext i
    simp only [res]
    rw [qexp_zero, identity_rot f ℓ i.1 (mem_blk i.2)]
  simp only [e0, genS_pow_res, GgC_iterate] at h
  have e : ∀ k : ℕ, ((k ! : ℝ)⁻¹ * t ^ k) •
        (coord ℓ ⟨m, blk_mem hm⟩) (res (fun ℓ m => (2 * Complex.I) ^ k * (LgC g)^[k] f ℓ m) ℓ)
      = (2 * Complex.I * (t : ℂ)) ^ k / (k ! : ℂ) * (LgC g)^[k] f ℓ m := by
    intro k
    show ((k ! : ℝ)⁻¹ * t ^ k) • ((2 * Complex.I) ^ k * (LgC g)^[k] f ℓ m) = _
    rw [Complex.real_smul, mul_pow (2 * Complex.I)]
    push_cast
    ring
  simp only [e] at h
  exact h

/-- the same as an operator exponential on the degree: (rot(exp(t g)) f)_ℓ = exp(t·2i L_g)(f_ℓ) -/
theorem rot_qexp_eq_exp (g : Quat ℝ) (hg : g.x ^ 2 + g.y ^ 2 + g.z ^ 2 = 1) (f : ℕ → ℤ → ℂ) (ℓ : ℕ) (t : ℝ) :
    res (rot (qexp g t) f) ℓ = NormedSpace.exp (t • genS g ℓ) (res f ℓ) := by
  have hX : ∀ t : ℝ, HasDerivAt (fun t : ℝ => res (rot (qexp g t) f) ℓ)
      (genS g ℓ (res (rot (qexp g t) f) ℓ)) t := by
    intro t
    rw [hasDerivAt_pi]
    intro i
    rw [genS_res]
    exact rot_qexp_hasDerivAt g hg f ℓ i.1 (mem_blk i.2) t
  have h := linear_ode_exp (genS g ℓ) (fun t : ℝ => res (rot (qexp g t) f) ℓ) hX t
  have e0 : res (rot (qexp g 0) f) ℓ = res f ℓ := by
    funext i
    simp only [res]
    rw [qexp_zero, identity_rot f ℓ i.1 (mem_blk i.2)]
  simp only [e0] at h
  exact h

/-- **the exponential series of the left generators, evaluated** -/
theorem evalW_qexp_hasSum (g : Quat ℝ) (hg : g.x ^ 2 + g.y ^ 2 + g.z ^ 2 = 1) (f : ℕ → ℤ → ℂ) (s : ℤ) (Q : Quat ℝ)
    (ellMax : ℕ) (t : ℝ) :
    HasSum (fun k : ℕ => (2 * Complex.I * (t : ℂ)) ^ k / (k ! : ℂ) * evalW s Q ((LgC g)^[k] f) ellMax)
      (evalW s (qmul (qexp g t) Q) f ellMax) := by
  rw [← rot_evaluate]
  unfold evalW
  have e : ∀ k : ℕ, (2 * Complex.I * (t : ℂ)) ^ k / (k ! : ℂ) *
        ∑ ℓ ∈ Finset.Icc s.natAbs ellMax, ∑ m ∈ Finset.Icc (-(ℓ : ℤ)) ℓ, (LgC g)^[k] f ℓ m * Ylm s Q ℓ m
      = ∑ ℓ ∈ Finset.Icc s.natAbs ellMax, ∑ m ∈ Finset.Icc (-(ℓ : ℤ)) ℓ,
          (2 * Complex.I * (t : ℂ)) ^ k / (k ! : ℂ) * (LgC g)^[k] f ℓ m * Ylm s Q ℓ m := by
    intro k
    rw [Finset.mul_sum]
    apply Finset.sum_congr rfl
    intro ℓ _
    rw [Finset.mul_sum]
    apply Finset.sum_congr rfl
    intro m _
    ring
  simp only [e]
  exact hasSum_sum (fun ℓ _ => hasSum_sum (fun m hm =>
    (rot_qexp_hasSum g hg f ℓ m (mem_blk hm) t).mul_right (Ylm s Q ℓ m)))

/-- an independent check of the constant 2i: the z rotation in closed form, (rot(exp(t z)) f)_{ℓm} = e^{2imt} f_{ℓm}
    (from `DocHom.docD_diag`: 𝔇(e^{it}, 0)_{mm} = e^{it(ℓ+m)} e^{−it(ℓ−m)}) -/
theorem rot_qexp_z (f : ℕ → ℤ → ℂ) (ℓ : ℕ) (m : ℤ) (hm : m.natAbs ≤ ℓ) (t : ℝ) :
    rot (qexp qz t) f ℓ m = Complex.exp (2 * Complex.I * (m : ℂ) * (t : ℂ)) * f ℓ m := by
  have hA : QA (qexp qz t) = Complex.exp ((t : ℂ) * Complex.I) := by
    rw [QA_qexp, Complex.exp_mul_I, Complex.ofReal_cos, Complex.ofReal_sin]
    simp [qz]
  have hB : QB (qexp qz t) = 0 := by
    rw [QB_qexp]; simp [qz]
  have hc : conj (Complex.exp ((t : ℂ) * Complex.I)) = Complex.exp (-((t : ℂ) * Complex.I)) := by
    rw [← Complex.exp_conj]
    simp
  unfold rot
  rw [hA, hB, Finset.sum_congr rfl (fun n hn => by rw [DocHom.docD_diag ℓ _ n m (mem_blk hn) hm])]
  simp only [mul_ite, mul_zero]
  rw [Finset.sum_ite_eq', if_pos (blk_mem hm), hc, ← Complex.exp_nat_mul, ← Complex.exp_nat_mul, ← Complex.exp_add,
    toNat_cast_add ℓ m hm, toNat_cast_sub ℓ m hm, mul_comm (f ℓ m)]
  congr 2
  ring

end Generators
end
