import SphericalVerif.Model.Matrix
import SphericalVerif.Lemmas.Horner
import SphericalVerif.Lemmas.IndexY
import SphericalVerif.Lemmas.IndexD
import Mathlib.Tactic.Ring
import Mathlib.Tactic.Linarith
import Mathlib.Tactic.NormNum
/-! Helper lemmas for `Props/Matrix.lean`: closed forms of the generated index functions on their natural
    domain, the square-bracket decomposition of a flat (ℓ, m) index, reads of the laid-out arrays, and the
    re-indexing of a flat sum over a slice as a double sum over (ℓ, m). -/
namespace MatrixLemmas
open Gen Spec Model

/-! ### `Yindex` / `Ysize` in closed form -/

theorem yindex_closed (ell m c : Int) (h : c ≤ ell) : Yindex ell m c = ell ^ 2 - c ^ 2 + (m + ell) := by
  unfold Yindex
  split
  · ring
  · have : ell = c := by omega
    subst this; ring

theorem ysize_closed (c L : Int) : Ysize c L = (L + 1) ^ 2 - c ^ 2 := by
  unfold Ysize; ring

/-- every natural number lies in exactly one bracket `[ℓ², (ℓ+1)²)` -/
theorem exists_sq_bracket (t : Nat) : ∃ l : Nat, l * l ≤ t ∧ t < (l + 1) * (l + 1) := by
  induction t with
  | zero => exact ⟨0, by simp⟩
  | succ t ih =>
    obtain ⟨l, h1, h2⟩ := ih
    by_cases h : t + 1 < (l + 1) * (l + 1)
    · exact ⟨l, by omega, h⟩
    · refine ⟨l + 1, by omega, ?_⟩
      have : (l + 1 + 1) * (l + 1 + 1) = (l + 1) * (l + 1) + 2 * l + 3 := by ring
      omega

theorem exists_sq_bracket_int (t : Int) (ht : 0 ≤ t) :
    ∃ l : Int, 0 ≤ l ∧ l ^ 2 ≤ t ∧ t < (l + 1) ^ 2 := by
  obtain ⟨l, h1, h2⟩ := exists_sq_bracket t.toNat
  refine ⟨l, by omega, ?_, ?_⟩
  · have : ((l * l : Nat) : Int) ≤ t := by omega
    push_cast at this; nlinarith
  · have : t < (((l + 1) * (l + 1) : Nat) : Int) := by omega
    push_cast at this; nlinarith

/-- two brackets that share a point coincide -/
theorem sq_bracket_unique (a b t : Int) (ha : 0 ≤ a) (hb : 0 ≤ b)
    (h1 : a ^ 2 ≤ t) (h2 : t < (a + 1) ^ 2) (h3 : b ^ 2 ≤ t) (h4 : t < (b + 1) ^ 2) : a = b := by
  rcases lt_trichotomy a b with h | h | h
  · exfalso
    have : (a + 1) ^ 2 ≤ b ^ 2 := by nlinarith
    omega
  · exact h
  · exfalso
    have : (b + 1) ^ 2 ≤ a ^ 2 := by nlinarith
    omega

/-- monotonicity of squares on the nonnegatives, in the two forms used below -/
theorem sq_le_sq_of_le (a b : Int) (ha : 0 ≤ a) (h : a ≤ b) : a ^ 2 ≤ b ^ 2 := by nlinarith

theorem lt_of_sq_lt_sq (a b : Int) (hb : 0 ≤ b) (h : a ^ 2 < b ^ 2) : a < b := by
  by_contra hc
  have : b ^ 2 ≤ a ^ 2 := by nlinarith
  omega

/-! ### `WignerDindex` with the default `mp_max` on a full calculator -/

/-- the size of a full range does not depend on `mp_max ≥ ell_max` -/
theorem dsize_full (e P Q L : Int) (hL : 0 ≤ L) (hP : L ≤ P) (hQ : L ≤ Q) :
    WignerDsize e P L = WignerDsize e Q L := by
  unfold WignerDsize
  have c0 : ¬ (L < 0) := by omega
  have c1 : P ≥ L := hP
  have c2 : Q ≥ L := hQ
  simp only [c0, c1, c2, if_true, if_false]

/-- `WignerDindex(ell, mp, m, ell_min)` (default `mp_max`) is `WignerDindex(ell, mp, m, ell_min, mp_max)` whenever
    `mp_max ≥ ell` -/
theorem dindex_full (ell mp m e P : Int) (he : 0 ≤ e) (hP : ell ≤ P) :
    WignerDindex ell mp m e (-1) = WignerDindex ell mp m e P := by
  rw [Lemmas.dindex_default ell mp m e (-1) (by omega)]
  by_cases hl : ell > e
  · have hP0 : 0 ≤ P := by omega
    rw [Lemmas.dindex_eq ell mp m e ell (by omega), Lemmas.dindex_eq ell mp m e P hP0]
    unfold Lemmas.dOff
    simp only [hl, if_true]
    rw [dsize_full e ell P (ell - 1) (by omega) (by omega) (by omega)]
    have : min ell P = ell := by omega
    rw [this, min_self]
  · unfold WignerDindex
    by_cases hP0 : P < 0
    · simp only [hP0, if_true, hl, if_false]
      by_cases hl0 : ell < 0
      · simp only [hl0, if_true]
      · simp only [hl0, if_false]
    · have hm : min P ell = ell := by omega
      by_cases hl0 : ell < 0
      · simp only [hl0, if_true, hP0, hl, if_false, hm, min_self]
      · simp only [hl0, hP0, hl, if_false, hm, min_self]

/-- offset form of the default-`mp_max` index: linear in `(mp, m)` -/
theorem dindex_default_affine (ell mp m e : Int) :
    WignerDindex ell mp m e (-1) =
      WignerDindex ell (-ell) (-ell) e (-1) + (mp + ell) * (2 * ell + 1) + (m + ell) := by
  unfold WignerDindex
  have c : ((-1 : Int) < 0) := by omega
  simp only [c, if_true, min_self]
  split <;> ring

/-! ### reads of the laid-out arrays -/

section reads
variable {α : Type} [Scalar α] {μ : Type} [Mem μ α]

theorem cget_map_toArray {β : Type} (l : List β) (g : β → Cx α) (i : Nat) (x : β)
    (h : l[i]? = some x) : cget (l.map g).toArray i = g x := by
  unfold cget
  simp [h]

/-- `Y[Yindex(ℓ, m, self.ell_min)]` is the `_fill_sYlm` entry (ℓ, m) -/
theorem sYlmArray_get (st : μ) (za : Array (Cx α)) (zgpow : Cx α) (s c Lc : Int) (ell : Nat) (m : Int)
    (h0 : 0 ≤ c) (h1 : c ≤ ell) (h2 : (ell : Int) ≤ Lc) (hm1 : -(ell : Int) ≤ m) (hm2 : m ≤ ell) :
    cget (sYlmArray (α := α) st za zgpow s c Lc) (Yindex ell m c).toNat
      = sYlmEntry (α := α) st za zgpow s ell m := by
  unfold sYlmArray
  rw [cget_map_toArray _ _ _ _ (Lemmas.yindex_get c Lc ell m h0 h1 h2 hm1 hm2).2.2]
  simp

/-- `𝔇[WignerDindex(ℓ, m', m, self.ell_min)]` (default `mp_max`) is the `_fill_wigner_D` entry (ℓ, m', m),
    for a calculator with `mp_max ≥ ell_max` -/
theorem DArray_get (st : μ) (za zg : Array (Cx α)) (c P Lc : Int) (ell : Nat) (mp m : Int)
    (h0 : 0 ≤ c) (h1 : c ≤ ell) (h2 : (ell : Int) ≤ Lc) (hP : Lc ≤ P)
    (hp1 : -(ell : Int) ≤ mp) (hp2 : mp ≤ ell) (hm1 : -(ell : Int) ≤ m) (hm2 : m ≤ ell) :
    cget (DArray (α := α) st za zg c P Lc) (WignerDindex ell mp m c (-1)).toNat
      = DEntry (α := α) st za zg ell mp m := by
  unfold DArray
  have hmin : min (ell : Int) P = ell := by omega
  rw [dindex_full ell mp m c P h0 (by omega),
    cget_map_toArray _ _ _ _ (Lemmas.dindex_get c P Lc ell mp m h0 h1 h2 (by omega)
      (by rw [hmin]; exact hp1) (by rw [hmin]; exact hp2) hm1 hm2).2.2]
  simp

end reads

/-! ### sums -/

open Horner in
/-- the model's left fold is, in exact arithmetic, the finite sum -/
theorem toC_dotLoop (a b : Nat → Cx ℝ) (n : Nat) :
    toC (loopN n (fun k (acc : Cx ℝ) => Cx.add acc (Cx.mul (a k) (b k))) ⟨zero, zero⟩)
      = ∑ k ∈ Finset.range n, toC (a k) * toC (b k) := by
  induction n with
  | zero => rw [Finset.sum_range_zero]; exact toC_zero
  | succ n ih => simp only [loopN, toC_add, toC_mul, ih, Finset.sum_range_succ]

/-- a flat range of length `(c+d)² − c² = d(2c+d)` cut into the blocks of lengths `2(c+i)+1`, `i < d` -/
theorem sum_range_blocks (g : ℕ → ℂ) (c d : ℕ) :
    ∑ k ∈ Finset.range (d * (2 * c + d)), g k
      = ∑ i ∈ Finset.range d, ∑ j ∈ Finset.range (2 * (c + i) + 1), g (i * (2 * c + i) + j) := by
  induction d with
  | zero => simp
  | succ d ih =>
    have e : (d + 1) * (2 * c + (d + 1)) = d * (2 * c + d) + (2 * (c + d) + 1) := by ring
    rw [e, Finset.sum_range_add, ih]
    conv_rhs => rw [Finset.sum_range_succ]

/-- `Σ_{m=-ℓ}^{ℓ} h(m) = Σ_{j<2ℓ+1} h(j − ℓ)` -/
theorem sum_Icc_int_eq_range (h : ℤ → ℂ) (l : ℕ) :
    ∑ m ∈ Finset.Icc (-(l : ℤ)) l, h m = ∑ j ∈ Finset.range (2 * l + 1), h ((j : ℤ) - l) := by
  apply Finset.sum_nbij' (fun m : ℤ => (m + l).toNat) (fun j : ℕ => (j : ℤ) - l)
  · intro a ha; rw [Finset.mem_Icc] at ha; rw [Finset.mem_range]; omega
  · intro a ha; rw [Finset.mem_range] at ha; rw [Finset.mem_Icc]; omega
  · intro a ha; rw [Finset.mem_Icc] at ha; omega
  · intro a ha; rw [Finset.mem_range] at ha; omega
  · intro a ha; rw [Finset.mem_Icc] at ha
    congr 1; omega

/-- a flat sum over `k < Ysize(c, c+d−1)` is the double sum over (ℓ, m), `c ≤ ℓ < c+d`, `|m| ≤ ℓ`, with
    `k = Yindex(ℓ, m, c)` -/
theorem sum_range_eq_sum_yindex (g : ℤ → ℂ) (c d : ℕ) :
    ∑ k ∈ Finset.range (d * (2 * c + d)), g (k : ℤ)
      = ∑ l ∈ Finset.Ico c (c + d), ∑ m ∈ Finset.Icc (-(l : ℤ)) l, g (Yindex l m c) := by
  rw [sum_range_blocks (fun k => g (k : ℤ)) c d, Finset.sum_Ico_eq_sum_range]
  simp only [Nat.add_sub_cancel_left]
  apply Finset.sum_congr rfl
  intro i _
  rw [sum_Icc_int_eq_range]
  apply Finset.sum_congr rfl
  intro j _
  congr 1
  rw [yindex_closed _ _ _ (by push_cast; omega)]
  push_cast; ring

end MatrixLemmas
