import SphericalVerif.Lemmas.DocD3
import SphericalVerif.Lemmas.DDef
/-! Column m' = 0 of the documented d is the Holmes–Featherstone column `Spec.col0` of step 2.

    Polynomial content: R = (uv)^n satisfies (uv) R' = n (uv)' R, uv = σ + c t − σ t² with σ = ch·sh = s/2,
    c = ch² − sh²; coefficientwise σ (k+1) r_{k+1} = c (n−k) r_k − σ (2n−k+1) r_{k−1}.  After normalisation this is the
    three-term recursion that defines `rawD` (times s), and for s ≠ 0 a downward induction from the seed m = n gives the
    column.  For s = 0 (the poles) both sides are computed explicitly. -/
noncomputable section
namespace DocD
open Polynomial Nat Model Spec GDFamily
set_option linter.unusedVariables false

variable (ch sh : ℝ)

/-! ### the raw three-term recurrence of the coefficients of (uv)^n -/

theorem raw_col0 (hcs : ch ^ 2 + sh ^ 2 = 1) (N j : ℕ) :
    ch * sh * ((j : ℝ) + 2) * T ch sh (N + 1) (N + 1) (j + 2) =
      (ch ^ 2 - sh ^ 2) * ((N : ℝ) - j) * T ch sh (N + 1) (N + 1) (j + 1)
        - ch * sh * (2 * (N : ℝ) + 2 - j) * T ch sh (N + 1) (N + 1) j := by
  have p := T_a_succ ch sh N (N + 1) j
  have la1 := lower_a ch sh hcs N (N + 1) (j + 1)
  have la0 := lower_a ch sh hcs N (N + 1) j
  push_cast at la1 la0
  linear_combination ((N : ℝ) + 1) * p + ch * la1 - sh * la0
    + (((N : ℝ) + 1) * T ch sh (N + 1) (N + 1) (j + 1)) * hcs

theorem raw_col0_zero (hcs : ch ^ 2 + sh ^ 2 = 1) (N : ℕ) :
    ch * sh * T ch sh (N + 1) (N + 1) 1 = (ch ^ 2 - sh ^ 2) * ((N : ℝ) + 1) * T ch sh (N + 1) (N + 1) 0 := by
  have p := T_a_zero ch sh N (N + 1)
  have la0 := lower_a ch sh hcs N (N + 1) 0
  push_cast at la0
  linear_combination ((N : ℝ) + 1) * p + ch * la0
    + (((N : ℝ) + 1) * T ch sh (N + 1) (N + 1) 0) * hcs

/-! ### normalised -/

theorem norm_col0 (hcs : ch ^ 2 + sh ^ 2 = 1) (N I J : ℕ) (h : I + J = 2 * N) :
    (2 * ch * sh) * Real.sqrt (((J : ℝ) + 1 + 1) * ((I : ℝ) + 1)) * dN ch sh (N + 1) (N + 1) I (J + 2) =
      2 * ((N : ℝ) - J) * (ch ^ 2 - sh ^ 2) * dN ch sh (N + 1) (N + 1) (I + 1) (J + 1)
        - (2 * ch * sh) * Real.sqrt (((J : ℝ) + 1) * ((I : ℝ) + 1 + 1)) * dN ch sh (N + 1) (N + 1) (I + 2) J := by
  have hR : (I : ℝ) + J = 2 * N := by exact_mod_cast h
  have r := raw_col0 ch sh hcs N J
  have n1 := nrm_j_up (N + 1) (N + 1) I (J + 1)
  have n2 := nrm_i_up (N + 1) (N + 1) (I + 1) J
  push_cast at n1 n2
  unfold dN
  have eI : (I : ℝ) = 2 * N - J := by linarith
  rw [eI] at n1 n2 ⊢
  linear_combination (2 * ch * sh * T ch sh (N + 1) (N + 1) (J + 2)) * n1
    + (2 * ch * sh * T ch sh (N + 1) (N + 1) J) * n2
    + (2 * nrm (N + 1) (N + 1) (I + 1) (J + 1)) * r

theorem norm_col0_zero (hcs : ch ^ 2 + sh ^ 2 = 1) (N I : ℕ) (h : I = 2 * N + 1) :
    (2 * ch * sh) * Real.sqrt (((0 : ℝ) + 1) * ((I : ℝ) + 1)) * dN ch sh (N + 1) (N + 1) I 1 =
      2 * ((N : ℝ) + 1) * (ch ^ 2 - sh ^ 2) * dN ch sh (N + 1) (N + 1) (I + 1) 0 := by
  have r := raw_col0_zero ch sh hcs N
  have n1 := nrm_j_up (N + 1) (N + 1) I 0
  push_cast at n1
  unfold dN
  linear_combination (2 * ch * sh * T ch sh (N + 1) (N + 1) 1) * n1
    + (2 * nrm (N + 1) (N + 1) (I + 1) 0) * r

/-! ### the seed m = n -/

theorem T_zero_coeff : ∀ a b : ℕ, T ch sh a b 0 = ch ^ a * sh ^ b
  | 0, 0 => by rw [T_zero_a]; simp
  | 0, b + 1 => by rw [T_b_zero, T_zero_coeff 0 b]; ring
  | a + 1, b => by rw [T_a_zero, T_zero_coeff a b]; ring

/-- √((2n)!)/n! = topU n · 2ⁿ / √(4n+2) -/
theorem nrm_top (n : ℕ) (hn : 1 ≤ n) :
    nrm n n (2 * n) 0 = (topU n : ℝ) * 2 ^ n / Real.sqrt (4 * (n : ℝ) + 2) := by
  obtain ⟨k, rfl⟩ : ∃ k, n = k + 1 := ⟨n - 1, by omega⟩
  have ht := DDef.topU_sq k
  have htp := DDef.topU_pos (k + 1)
  have hq : (0 : ℝ) < 4 * ((k + 1 : ℕ) : ℝ) + 2 := by positivity
  have hsq := Real.mul_self_sqrt hq.le
  have hsp := Real.sqrt_pos.mpr hq
  have hf : ((2 * (k + 1) + 1)! : ℝ) = (2 * ((k + 1 : ℕ) : ℝ) + 1) * ((2 * (k + 1))! : ℝ) := by
    rw [Nat.factorial_succ]; push_cast; ring
  have hfp : (0 : ℝ) < ((k + 1)! : ℝ) := by exact_mod_cast Nat.factorial_pos _
  rw [nrm_eq]
  have hw0 : w 0 = 1 := by unfold w; simp
  rw [hw0, mul_one]
  have hwn := w_sq (k + 1)
  have hw2 := w_sq (2 * (k + 1))
  have lhs_nonneg : 0 ≤ w (2 * (k + 1)) / (w (k + 1) * w (k + 1)) := by
    have := w_pos (2 * (k + 1)); have := w_pos (k + 1); positivity
  have rhs_nonneg : 0 ≤ (topU (k + 1) : ℝ) * 2 ^ (k + 1) / Real.sqrt (4 * ((k + 1 : ℕ) : ℝ) + 2) := by positivity
  have hwn' : w (k + 1) ^ 2 = ((k + 1)! : ℝ) := by rw [sq]; exact hwn
  have hw2' : w (2 * (k + 1)) ^ 2 = ((2 * (k + 1))! : ℝ) := by rw [sq]; exact hw2
  have hsq' : Real.sqrt (4 * ((k + 1 : ℕ) : ℝ) + 2) ^ 2 = 4 * ((k + 1 : ℕ) : ℝ) + 2 := by rw [sq]; exact hsq
  rw [← sq_eq_sq₀ lhs_nonneg rhs_nonneg, div_pow, div_pow, mul_pow, mul_pow, hwn', hw2', hsq',
    div_eq_div_iff (by positivity) hq.ne']
  rw [hf] at ht
  have e4 : ((2 : ℝ) ^ (k + 1)) ^ 2 = 4 ^ (k + 1) := by rw [← pow_mul, mul_comm, pow_mul]; norm_num
  rw [e4]
  linear_combination (-1 : ℝ) * ht

/-! ### the model's coefficient tables at the indices used by `rawD` -/

theorem gC_at (n I J : ℕ) (k : ℤ) (hk : k = (n : ℤ) - ((J + 2 : ℕ) : ℤ)) (h : I + J + 2 = 2 * n) :
    (gC (n : ℤ) k : ℝ) = 2 * ((n : ℝ) - J - 1) / Real.sqrt (((J : ℝ) + 1 + 1) * ((I : ℝ) + 1)) := by
  have hR : (I : ℝ) + J + 2 = 2 * n := by exact_mod_cast h
  subst hk
  unfold gC
  simp only [RealScalar.div_def, RealScalar.sqrt_def, RealScalar.ofInt_def]
  push_cast
  have eI : (I : ℝ) = 2 * n - J - 2 := by linarith
  rw [eI]
  congr 2 <;> ring

theorem hC_at (n I J : ℕ) (k : ℤ) (hk : k = (n : ℤ) - ((J + 2 : ℕ) : ℤ)) (h : I + J + 2 = 2 * n) :
    (hC (n : ℤ) k : ℝ) = Real.sqrt (((J : ℝ) + 1) * ((I : ℝ) + 1 + 1)) / Real.sqrt (((J : ℝ) + 1 + 1) * ((I : ℝ) + 1)) := by
  have hR : (I : ℝ) + J + 2 = 2 * n := by exact_mod_cast h
  subst hk
  unfold hC
  simp only [RealScalar.div_def, RealScalar.sqrt_def, RealScalar.ofInt_def]
  rw [← Real.sqrt_div (by positivity)]
  push_cast
  have eI : (I : ℝ) = 2 * n - J - 2 := by linarith
  rw [eI]
  congr 2 <;> ring

theorem rawD_succ2_real (c s : ℝ) (n j : ℕ) :
    rawD c s n (j + 2) = gC (n : ℤ) ((n : ℤ) - ((j + 2 : ℕ) : ℤ)) * c * rawD c s n (j + 1)
      - hC (n : ℤ) ((n : ℤ) - ((j + 2 : ℕ) : ℤ)) * (s * s) * rawD c s n j := rfl

theorem rawD_1_real (c s : ℝ) (n : ℕ) :
    rawD c s n 1 = gC (n : ℤ) ((n : ℤ) - 1) * c * topU n := rfl

theorem gC_top (n I : ℕ) (h : I + 1 = 2 * n) :
    (gC (n : ℤ) ((n : ℤ) - 1) : ℝ) = 2 * (n : ℝ) / Real.sqrt (((0 : ℝ) + 1) * ((I : ℝ) + 1)) := by
  have hR : (I : ℝ) + 1 = 2 * n := by exact_mod_cast h
  unfold gC
  simp only [RealScalar.div_def, RealScalar.sqrt_def, RealScalar.ofInt_def]
  push_cast
  rw [hR]
  congr 2 <;> ring

theorem cnorm_real (n : ℕ) : (cnorm n : ℝ) = 1 / Real.sqrt (4 * (n : ℝ) + 2) := by
  unfold cnorm
  simp only [RealScalar.div_def, RealScalar.sqrt_def, RealScalar.ofInt_def, RealScalar.one_def]
  push_cast; rfl

/-! ### the downward induction (s ≠ 0) -/

/-- for s ≠ 0: d^n_{0,n−d} = rawD(d) · s^{n−d} / √(4n+2) -/
theorem dN_eq_rawD (hcs : ch ^ 2 + sh ^ 2 = 1) (hs : 2 * ch * sh ≠ 0) (N : ℕ) :
    ∀ d I : ℕ, d ≤ N + 1 → I + d = 2 * (N + 1) →
      dN ch sh (N + 1) (N + 1) I d
        = rawD (ch ^ 2 - sh ^ 2) (2 * ch * sh) (N + 1) d * (2 * ch * sh) ^ (N + 1 - d) * cnorm (N + 1)
  | 0, I, hd, hI => by
    have e : I = 2 * (N + 1) := by omega
    subst e
    rw [DDef.rawD_0, cnorm_real]
    unfold dN
    rw [nrm_top (N + 1) (by omega), T_zero_coeff, Nat.sub_zero, mul_pow, mul_pow]
    ring
  | 1, I, hd, hI => by
    obtain ⟨I', rfl⟩ : ∃ I', I = I' + 1 := ⟨I - 1, by omega⟩
    have ih := dN_eq_rawD hcs hs N 0 (I' + 1 + 1) (by omega) (by omega)
    have nz := norm_col0_zero ch sh hcs N (I' + 1) (by omega)
    rw [ih, DDef.rawD_0] at nz
    rw [rawD_1_real, gC_top (N + 1) (I' + 1) (by omega)]
    set R := Real.sqrt (((0 : ℝ) + 1) * (((I' + 1 : ℕ) : ℝ) + 1)) with hRdef
    have hRpos : 0 < R := Real.sqrt_pos.mpr (by positivity)
    have e1 : (2 * ch * sh) ^ (N + 1 - 0) = (2 * ch * sh) ^ (N + 1 - 1) * (2 * ch * sh) := by
      rw [← pow_succ]; congr 1
    rw [e1] at nz
    apply mul_left_cancel₀ (mul_ne_zero hs hRpos.ne')
    push_cast at nz ⊢
    rw [nz]
    field_simp
  | d + 2, I, hd, hI => by
    have ih1 := dN_eq_rawD hcs hs N (d + 1) (I + 1) (by omega) (by omega)
    have ih0 := dN_eq_rawD hcs hs N d (I + 2) (by omega) (by omega)
    have nz := norm_col0 ch sh hcs N I d (by omega)
    rw [ih1, ih0] at nz
    rw [rawD_succ2_real, gC_at (N + 1) I d _ rfl (by omega), hC_at (N + 1) I d _ rfl (by omega)]
    set R := Real.sqrt (((d : ℝ) + 1 + 1) * ((I : ℝ) + 1)) with hRdef
    set R2 := Real.sqrt (((d : ℝ) + 1) * ((I : ℝ) + 1 + 1)) with hR2def
    have hRpos : 0 < R := Real.sqrt_pos.mpr (by positivity)
    obtain ⟨p, hp⟩ : ∃ p, N + 1 - (d + 2) = p := ⟨_, rfl⟩
    have e1 : N + 1 - (d + 1) = p + 1 := by omega
    have e0 : N + 1 - d = p + 2 := by omega
    rw [e1, e0] at nz
    rw [hp]
    apply mul_left_cancel₀ (mul_ne_zero hs hRpos.ne')
    push_cast at nz ⊢
    rw [nz]
    field_simp
    ring

end DocD
end
