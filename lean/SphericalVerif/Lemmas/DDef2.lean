import SphericalVerif.Lemmas.DDef
import Mathlib.Tactic.Ring
import Mathlib.Tactic.NormNum
import Mathlib.Tactic.FieldSimp
/-! Helper lemmas for `Props/DDef2.lean`: at `α := ℝ` the object-level models `Model.objD` / `Model.objd` of
    `Wigner.D` / `Wigner.d` compute, for ℓ = 2, the polynomial in R_a = w + i z, R_b = y + i x that
    docs/WignerDMatrices.md of the library documents.  Compared with ℓ ≤ 1 (`Lemmas/DDef.lean`) this pins
    step 4 of the H recursion (m' = 1 → 2) and the second column of step 5 (m' = −1 → −2), and row 3 of the
    m' = 0 column (step 2), which step 3 reads at n = 2. -/
noncomputable section
namespace DDef2
open Model Spec Horner DDef
open scoped ComplexConjugate Nat
set_option linter.unusedSimpArgs false

/-! ### square roots of small numerals -/

theorem r6 : Real.sqrt 6 ^ 2 = 6 := Real.sq_sqrt (by norm_num)
theorem r7 : Real.sqrt 7 ^ 2 = 7 := Real.sq_sqrt (by norm_num)
theorem p6 : 0 < Real.sqrt 6 := Real.sqrt_pos.mpr (by norm_num)
theorem p7 : 0 < Real.sqrt 7 := Real.sqrt_pos.mpr (by norm_num)
theorem s8 : Real.sqrt 8 = 2 * Real.sqrt 2 := by
  rw [show (8:ℝ) = 2 * 2 * 2 by norm_num, Real.sqrt_mul (by norm_num), Real.sqrt_mul_self (by norm_num)]
theorem s12 : Real.sqrt 12 = 2 * Real.sqrt 3 := by
  rw [show (12:ℝ) = 2 * 2 * 3 by norm_num, Real.sqrt_mul (by norm_num), Real.sqrt_mul_self (by norm_num)]
theorem s14 : Real.sqrt 14 = Real.sqrt 2 * Real.sqrt 7 := by
  rw [← Real.sqrt_mul (by norm_num)]; norm_num
theorem s30 : Real.sqrt 30 = Real.sqrt 2 * Real.sqrt 3 * Real.sqrt 5 := by
  rw [← Real.sqrt_mul (by norm_num), ← Real.sqrt_mul (by norm_num)]; norm_num
theorem s35 : Real.sqrt 35 = Real.sqrt 5 * Real.sqrt 7 := by
  rw [← Real.sqrt_mul (by norm_num)]; norm_num
theorem s24 : Real.sqrt 24 = 2 * Real.sqrt 6 := by
  rw [show (24:ℝ) = 2 * 2 * 6 by norm_num, Real.sqrt_mul (by norm_num), Real.sqrt_mul_self (by norm_num)]
theorem sqrt6C_sq : ((Real.sqrt 6 : ℝ) : ℂ) ^ 2 = 6 := by
  rw [← Complex.ofReal_pow, r6]; simp
theorem sqrt6C_ne : ((Real.sqrt 6 : ℝ) : ℂ) ≠ 0 := by
  rw [Ne, Complex.ofReal_eq_zero]; exact p6.ne'

theorem pw_two (z : ℂ) : pw z 2 = z ^ 2 := by unfold pw; simp
theorem pw_neg_two (z : ℂ) : pw z (-2) = conj z ^ 2 := by unfold pw; simp

/-! ### row 3 of the m' = 0 column (step 2), as computed (no relation between c and s is used) -/

section valH
variable (c s : ℝ)

/-- H³(0,3) = (√5/4) sin³β -/
theorem col0_3_3 : col0 c s 3 3 = s^3 * Real.sqrt 5 / 4 := by
  simp only [col0, topN, topU, preS, RealScalar.mul_def, RealScalar.div_def,
    RealScalar.sqrt_def, RealScalar.ofInt_def, RealScalar.one_def, RealScalar.add_def, RealScalar.half_def]
  norm_num
  simp only [s4, s6, s14]
  have h2 := r2; have h3 := r3; have h5 := r5; have h7 := r7
  have := p2.ne'; have := p3.ne'; have := p5.ne'; have := p7.ne'
  field_simp
  grind

/-- H³(0,2) = (√30/4) cos β sin²β -/
theorem col0_3_2 : col0 c s 3 2 = c * s^2 * Real.sqrt 30 / 4 := by
  simp only [col0, preS, cnorm, RealScalar.mul_def, RealScalar.div_def,
    RealScalar.sqrt_def, RealScalar.ofInt_def, RealScalar.one_def]
  norm_num [rawD_1, topU, gC]
  simp only [s4, s6, s14, s30]
  have h2 := r2; have h3 := r3; have h5 := r5; have h7 := r7
  have := p2.ne'; have := p3.ne'; have := p5.ne'; have := p7.ne'
  field_simp
  grind

/-- H³(0,1) = (√3/4) sin β (5cos²β − 1) when sin² + cos² = 1; as computed: (√3/4) s (4c² − s²) -/
theorem col0_3_1 : col0 c s 3 1 = s * (4 * c^2 - s^2) * Real.sqrt 3 / 4 := by
  simp only [col0, preS, cnorm, RealScalar.mul_def, RealScalar.div_def,
    RealScalar.sqrt_def, RealScalar.ofInt_def, RealScalar.one_def]
  norm_num [rawD_0, rawD_1, rawD_succ2, topU, gC, hC]
  simp only [s4, s6, s10, s14]
  have h2 := r2; have h3 := r3; have h5 := r5; have h7 := r7
  have := p2.ne'; have := p3.ne'; have := p5.ne'; have := p7.ne'
  field_simp
  grind

/-- H³(0,0) = (5cos³β − 3cos β)/2 when sin² + cos² = 1; as computed: c³ − (3/2) c s² -/
theorem col0_3_0 : col0 c s 3 0 = c^3 - 3 * c * s^2 / 2 := by
  simp only [col0, cnorm, bot0, RealScalar.mul_def, RealScalar.div_def,
    RealScalar.sqrt_def, RealScalar.ofInt_def, RealScalar.one_def, RealScalar.sub_def]
  norm_num [rawD_0, rawD_1, rawD_succ2, topU, gC, hC]
  simp only [s4, s6, s10, s12, s14]
  have h2 := r2; have h3 := r3; have h5 := r5; have h7 := r7
  have := p2.ne'; have := p3.ne'; have := p5.ne'; have := p7.ne'
  field_simp
  grind

/-! ### the nine wedge cells of row n = 2: H²(m', m), |m'| ≤ m ≤ 2 -/

/-- step 2: H²(0,0), as computed (no relation between c and s is used) -/
theorem valW_2_0_0_raw : valW c s 2 0 0 = c^2 - s^2/2 := by
  have e : valW c s 2 0 0 = col0 c s 2 0 := by simp [valW, valPos]
  rw [e, col0_2_0]

/-- step 2: H²(0,0) = (3cos²β − 1)/2 -/
theorem valW_2_0_0 (h : c^2 + s^2 = 1) : valW c s 2 0 0 = (3 * c^2 - 1) / 2 := by
  rw [valW_2_0_0_raw]; linear_combination (-1/2 : ℝ) * h

/-- step 2: H²(0,1) = (√6/2) cos β sin β -/
theorem valW_2_0_1 : valW c s 2 0 1 = c * s * Real.sqrt 6 / 2 := by
  have e : valW c s 2 0 1 = col0 c s 2 1 := by simp [valW, valPos]
  rw [e, col0_2_1]

/-- step 2: H²(0,2) = (√6/4) sin²β -/
theorem valW_2_0_2 : valW c s 2 0 2 = s^2 * Real.sqrt 6 / 4 := by
  have e : valW c s 2 0 2 = col0 c s 2 2 := by simp [valW, valPos]
  rw [e, col0_2_2]

/-- step 3: H²(1,1) = −(2cos²β + cos β − 1)/2 -/
theorem valW_2_1_1 (h : c^2 + s^2 = 1) : valW c s 2 1 1 = -(2 * c^2 + c - 1) / 2 := by
  have e : valW c s 2 1 1 = f3 c s 2 0 (col0 c s 3 2) (col0 c s 3 0) (col0 c s 3 1) := by
    simp [valW, valPos]
  rw [e, col0_3_2, col0_3_1, col0_3_0]
  simp only [f3, aC, bC, RealScalar.mul_def, RealScalar.div_def, RealScalar.sqrt_def, RealScalar.ofInt_def,
    RealScalar.one_def, RealScalar.add_def, RealScalar.sub_def, RealScalar.half_def]
  norm_num
  simp only [s4, s6, s8, s30, s35]
  have h2 := r2; have h3 := r3; have h5 := r5; have h7 := r7
  have := p2.ne'; have := p3.ne'; have := p5.ne'; have := p7.ne'
  field_simp
  grind

/-- step 3: H²(1,2) = −(1 + cos β) sin β / 2 -/
theorem valW_2_1_2 (h : c^2 + s^2 = 1) : valW c s 2 1 2 = -((1 + c) * s) / 2 := by
  have e : valW c s 2 1 2 = f3 c s 2 1 (col0 c s 3 3) (col0 c s 3 1) (col0 c s 3 2) := by
    simp [valW, valPos]
  rw [e, col0_3_3, col0_3_2, col0_3_1]
  simp only [f3, aC, bC, RealScalar.mul_def, RealScalar.div_def, RealScalar.sqrt_def, RealScalar.ofInt_def,
    RealScalar.one_def, RealScalar.add_def, RealScalar.sub_def, RealScalar.half_def]
  norm_num
  simp only [s4, s6, s8, s30, s35]
  have h2 := r2; have h3 := r3; have h5 := r5; have h7 := r7
  have := p2.ne'; have := p3.ne'; have := p5.ne'; have := p7.ne'
  field_simp
  grind

/-- step 4 (m' = 1 → 2): H²(2,2) = (1 + cos β)²/4 -/
theorem valW_2_2_2 (h : c^2 + s^2 = 1) : valW c s 2 2 2 = (1 + c)^2 / 4 := by
  have e : valW c s 2 2 2 = f4top 2 1 (valW c s 2 0 2) (valW c s 2 1 1) := by
    simp [valW, valPos]
  rw [e, valW_2_0_2, valW_2_1_1 c s h]
  simp only [f4top, dC, RealScalar.mul_def, RealScalar.div_def, RealScalar.sqrt_def, RealScalar.ofInt_def,
    RealScalar.one_def, RealScalar.add_def, RealScalar.sub_def, RealScalar.half_def]
  norm_num
  simp only [s4]
  have h6 := r6
  have := p6.ne'
  field_simp
  grind

/-- step 5, first column (m' = 0 → −1), inner cell: H²(−1,1) = (1 + cos β − 2cos²β)/2 -/
theorem valW_2_m1_1 (h : c^2 + s^2 = 1) : valW c s 2 (-1) 1 = (1 + c - 2 * c^2) / 2 := by
  have e : valW c s 2 (-1) 1 = f5mid 2 0 1 (valW c s 2 1 1) (valW c s 2 0 0) (valW c s 2 0 2) := by
    simp [valW, valNeg, valPos]
  rw [e, valW_2_1_1 c s h, valW_2_0_0_raw, valW_2_0_2]
  simp only [f5mid, dC, RealScalar.mul_def, RealScalar.div_def, RealScalar.sqrt_def, RealScalar.ofInt_def,
    RealScalar.one_def, RealScalar.add_def, RealScalar.sub_def, RealScalar.half_def]
  norm_num
  simp only [s4]
  have h6 := r6
  have := p6.ne'
  field_simp
  grind

/-- step 5, first column (m' = 0 → −1), top cell: H²(−1,2) = (1 − cos β) sin β / 2 -/
theorem valW_2_m1_2 (h : c^2 + s^2 = 1) : valW c s 2 (-1) 2 = (1 - c) * s / 2 := by
  have e : valW c s 2 (-1) 2 = f5top 2 0 (valW c s 2 1 2) (valW c s 2 0 1) := by
    simp [valW, valNeg, valPos]
  rw [e, valW_2_1_2 c s h, valW_2_0_1]
  simp only [f5top, dC, RealScalar.mul_def, RealScalar.div_def, RealScalar.sqrt_def, RealScalar.ofInt_def,
    RealScalar.one_def, RealScalar.add_def, RealScalar.sub_def, RealScalar.half_def]
  norm_num
  simp only [s4]
  have h6 := r6
  have := p6.ne'
  field_simp
  grind

/-- step 5, second column (m' = −1 → −2): H²(−2,2) = (1 − cos β)²/4 -/
theorem valW_2_m2_2 (h : c^2 + s^2 = 1) : valW c s 2 (-2) 2 = (1 - c)^2 / 4 := by
  have e : valW c s 2 (-2) 2 = f5top 2 1 (valW c s 2 0 2) (valW c s 2 (-1) 1) := by
    simp [valW, valNeg, valPos]
  rw [e, valW_2_0_2, valW_2_m1_1 c s h]
  simp only [f5top, dC, RealScalar.mul_def, RealScalar.div_def, RealScalar.sqrt_def, RealScalar.ofInt_def,
    RealScalar.one_def, RealScalar.add_def, RealScalar.sub_def, RealScalar.half_def]
  norm_num
  simp only [s4]
  have h6 := r6
  have := p6.ne'
  field_simp
  grind

end valH

/-! ### `Wigner.d` for ℓ = 2: the 25 entries -/

section dentries
variable {μ : Type} [Mem μ ℝ] [LawfulMem μ ℝ]
variable (L : ℕ) (st : μ) (c s : ℝ) (hcs : c ^ 2 + s ^ 2 = 1) (hl : 2 ≤ L)
include hcs hl

theorem d2_m2_m2 : objd L st c s 2 (-2) (-2) = (1 + c) ^ 2 / 4 := by
  rw [objd_eq L st c s 2 hl (-2) (-2) (by decide) (by decide)]
  have w1 : (wedgeRep (-2) (-2)).1 = 2 := by decide
  have w2 : (wedgeRep (-2) (-2)).2.toNat = 2 := by decide
  have e : eps (-2) * eps (-(-2)) = 1 := by decide
  rw [w1, w2, e, valW_2_2_2 c s hcs]
  push_cast; ring

theorem d2_m2_m1 : objd L st c s 2 (-2) (-1) = (1 + c) * s / 2 := by
  rw [objd_eq L st c s 2 hl (-2) (-1) (by decide) (by decide)]
  have w1 : (wedgeRep (-2) (-1)).1 = 1 := by decide
  have w2 : (wedgeRep (-2) (-1)).2.toNat = 2 := by decide
  have e : eps (-2) * eps (-(-1)) = -1 := by decide
  rw [w1, w2, e, valW_2_1_2 c s hcs]
  push_cast; ring

omit hcs in
theorem d2_m2_z : objd L st c s 2 (-2) 0 = s ^ 2 * Real.sqrt 6 / 4 := by
  rw [objd_eq L st c s 2 hl (-2) 0 (by decide) (by decide)]
  have w1 : (wedgeRep (-2) 0).1 = 0 := by decide
  have w2 : (wedgeRep (-2) 0).2.toNat = 2 := by decide
  have e : eps (-2) * eps (-0) = 1 := by decide
  rw [w1, w2, e, valW_2_0_2 c s]
  push_cast; ring

theorem d2_m2_p1 : objd L st c s 2 (-2) 1 = (1 - c) * s / 2 := by
  rw [objd_eq L st c s 2 hl (-2) 1 (by decide) (by decide)]
  have w1 : (wedgeRep (-2) 1).1 = -1 := by decide
  have w2 : (wedgeRep (-2) 1).2.toNat = 2 := by decide
  have e : eps (-2) * eps (-1) = 1 := by decide
  rw [w1, w2, e, valW_2_m1_2 c s hcs]
  push_cast; ring

theorem d2_m2_p2 : objd L st c s 2 (-2) 2 = (1 - c) ^ 2 / 4 := by
  rw [objd_eq L st c s 2 hl (-2) 2 (by decide) (by decide)]
  have w1 : (wedgeRep (-2) 2).1 = -2 := by decide
  have w2 : (wedgeRep (-2) 2).2.toNat = 2 := by decide
  have e : eps (-2) * eps (-2) = 1 := by decide
  rw [w1, w2, e, valW_2_m2_2 c s hcs]
  push_cast; ring

theorem d2_m1_m2 : objd L st c s 2 (-1) (-2) = -((1 + c) * s / 2) := by
  rw [objd_eq L st c s 2 hl (-1) (-2) (by decide) (by decide)]
  have w1 : (wedgeRep (-1) (-2)).1 = 1 := by decide
  have w2 : (wedgeRep (-1) (-2)).2.toNat = 2 := by decide
  have e : eps (-1) * eps (-(-2)) = 1 := by decide
  rw [w1, w2, e, valW_2_1_2 c s hcs]
  push_cast; ring

theorem d2_m1_m1 : objd L st c s 2 (-1) (-1) = (2 * c ^ 2 + c - 1) / 2 := by
  rw [objd_eq L st c s 2 hl (-1) (-1) (by decide) (by decide)]
  have w1 : (wedgeRep (-1) (-1)).1 = 1 := by decide
  have w2 : (wedgeRep (-1) (-1)).2.toNat = 1 := by decide
  have e : eps (-1) * eps (-(-1)) = -1 := by decide
  rw [w1, w2, e, valW_2_1_1 c s hcs]
  push_cast; ring

omit hcs in
theorem d2_m1_z : objd L st c s 2 (-1) 0 = c * s * Real.sqrt 6 / 2 := by
  rw [objd_eq L st c s 2 hl (-1) 0 (by decide) (by decide)]
  have w1 : (wedgeRep (-1) 0).1 = 0 := by decide
  have w2 : (wedgeRep (-1) 0).2.toNat = 1 := by decide
  have e : eps (-1) * eps (-0) = 1 := by decide
  rw [w1, w2, e, valW_2_0_1 c s]
  push_cast; ring

theorem d2_m1_p1 : objd L st c s 2 (-1) 1 = (1 + c - 2 * c ^ 2) / 2 := by
  rw [objd_eq L st c s 2 hl (-1) 1 (by decide) (by decide)]
  have w1 : (wedgeRep (-1) 1).1 = -1 := by decide
  have w2 : (wedgeRep (-1) 1).2.toNat = 1 := by decide
  have e : eps (-1) * eps (-1) = 1 := by decide
  rw [w1, w2, e, valW_2_m1_1 c s hcs]
  push_cast; ring

theorem d2_m1_p2 : objd L st c s 2 (-1) 2 = (1 - c) * s / 2 := by
  rw [objd_eq L st c s 2 hl (-1) 2 (by decide) (by decide)]
  have w1 : (wedgeRep (-1) 2).1 = -1 := by decide
  have w2 : (wedgeRep (-1) 2).2.toNat = 2 := by decide
  have e : eps (-1) * eps (-2) = 1 := by decide
  rw [w1, w2, e, valW_2_m1_2 c s hcs]
  push_cast; ring

omit hcs in
theorem d2_z_m2 : objd L st c s 2 0 (-2) = s ^ 2 * Real.sqrt 6 / 4 := by
  rw [objd_eq L st c s 2 hl 0 (-2) (by decide) (by decide)]
  have w1 : (wedgeRep 0 (-2)).1 = 0 := by decide
  have w2 : (wedgeRep 0 (-2)).2.toNat = 2 := by decide
  have e : eps 0 * eps (-(-2)) = 1 := by decide
  rw [w1, w2, e, valW_2_0_2 c s]
  push_cast; ring

omit hcs in
theorem d2_z_m1 : objd L st c s 2 0 (-1) = -(c * s * Real.sqrt 6 / 2) := by
  rw [objd_eq L st c s 2 hl 0 (-1) (by decide) (by decide)]
  have w1 : (wedgeRep 0 (-1)).1 = 0 := by decide
  have w2 : (wedgeRep 0 (-1)).2.toNat = 1 := by decide
  have e : eps 0 * eps (-(-1)) = -1 := by decide
  rw [w1, w2, e, valW_2_0_1 c s]
  push_cast; ring

theorem d2_z_z : objd L st c s 2 0 0 = (3 * c ^ 2 - 1) / 2 := by
  rw [objd_eq L st c s 2 hl 0 0 (by decide) (by decide)]
  have w1 : (wedgeRep 0 0).1 = 0 := by decide
  have w2 : (wedgeRep 0 0).2.toNat = 0 := by decide
  have e : eps 0 * eps (-0) = 1 := by decide
  rw [w1, w2, e, valW_2_0_0 c s hcs]
  push_cast; ring

omit hcs in
theorem d2_z_p1 : objd L st c s 2 0 1 = c * s * Real.sqrt 6 / 2 := by
  rw [objd_eq L st c s 2 hl 0 1 (by decide) (by decide)]
  have w1 : (wedgeRep 0 1).1 = 0 := by decide
  have w2 : (wedgeRep 0 1).2.toNat = 1 := by decide
  have e : eps 0 * eps (-1) = 1 := by decide
  rw [w1, w2, e, valW_2_0_1 c s]
  push_cast; ring

omit hcs in
theorem d2_z_p2 : objd L st c s 2 0 2 = s ^ 2 * Real.sqrt 6 / 4 := by
  rw [objd_eq L st c s 2 hl 0 2 (by decide) (by decide)]
  have w1 : (wedgeRep 0 2).1 = 0 := by decide
  have w2 : (wedgeRep 0 2).2.toNat = 2 := by decide
  have e : eps 0 * eps (-2) = 1 := by decide
  rw [w1, w2, e, valW_2_0_2 c s]
  push_cast; ring

theorem d2_p1_m2 : objd L st c s 2 1 (-2) = -((1 - c) * s / 2) := by
  rw [objd_eq L st c s 2 hl 1 (-2) (by decide) (by decide)]
  have w1 : (wedgeRep 1 (-2)).1 = -1 := by decide
  have w2 : (wedgeRep 1 (-2)).2.toNat = 2 := by decide
  have e : eps 1 * eps (-(-2)) = -1 := by decide
  rw [w1, w2, e, valW_2_m1_2 c s hcs]
  push_cast; ring

theorem d2_p1_m1 : objd L st c s 2 1 (-1) = (1 + c - 2 * c ^ 2) / 2 := by
  rw [objd_eq L st c s 2 hl 1 (-1) (by decide) (by decide)]
  have w1 : (wedgeRep 1 (-1)).1 = -1 := by decide
  have w2 : (wedgeRep 1 (-1)).2.toNat = 1 := by decide
  have e : eps 1 * eps (-(-1)) = 1 := by decide
  rw [w1, w2, e, valW_2_m1_1 c s hcs]
  push_cast; ring

omit hcs in
theorem d2_p1_z : objd L st c s 2 1 0 = -(c * s * Real.sqrt 6 / 2) := by
  rw [objd_eq L st c s 2 hl 1 0 (by decide) (by decide)]
  have w1 : (wedgeRep 1 0).1 = 0 := by decide
  have w2 : (wedgeRep 1 0).2.toNat = 1 := by decide
  have e : eps 1 * eps (-0) = -1 := by decide
  rw [w1, w2, e, valW_2_0_1 c s]
  push_cast; ring

theorem d2_p1_p1 : objd L st c s 2 1 1 = (2 * c ^ 2 + c - 1) / 2 := by
  rw [objd_eq L st c s 2 hl 1 1 (by decide) (by decide)]
  have w1 : (wedgeRep 1 1).1 = 1 := by decide
  have w2 : (wedgeRep 1 1).2.toNat = 1 := by decide
  have e : eps 1 * eps (-1) = -1 := by decide
  rw [w1, w2, e, valW_2_1_1 c s hcs]
  push_cast; ring

theorem d2_p1_p2 : objd L st c s 2 1 2 = (1 + c) * s / 2 := by
  rw [objd_eq L st c s 2 hl 1 2 (by decide) (by decide)]
  have w1 : (wedgeRep 1 2).1 = 1 := by decide
  have w2 : (wedgeRep 1 2).2.toNat = 2 := by decide
  have e : eps 1 * eps (-2) = -1 := by decide
  rw [w1, w2, e, valW_2_1_2 c s hcs]
  push_cast; ring

theorem d2_p2_m2 : objd L st c s 2 2 (-2) = (1 - c) ^ 2 / 4 := by
  rw [objd_eq L st c s 2 hl 2 (-2) (by decide) (by decide)]
  have w1 : (wedgeRep 2 (-2)).1 = -2 := by decide
  have w2 : (wedgeRep 2 (-2)).2.toNat = 2 := by decide
  have e : eps 2 * eps (-(-2)) = 1 := by decide
  rw [w1, w2, e, valW_2_m2_2 c s hcs]
  push_cast; ring

theorem d2_p2_m1 : objd L st c s 2 2 (-1) = -((1 - c) * s / 2) := by
  rw [objd_eq L st c s 2 hl 2 (-1) (by decide) (by decide)]
  have w1 : (wedgeRep 2 (-1)).1 = -1 := by decide
  have w2 : (wedgeRep 2 (-1)).2.toNat = 2 := by decide
  have e : eps 2 * eps (-(-1)) = -1 := by decide
  rw [w1, w2, e, valW_2_m1_2 c s hcs]
  push_cast; ring

omit hcs in
theorem d2_p2_z : objd L st c s 2 2 0 = s ^ 2 * Real.sqrt 6 / 4 := by
  rw [objd_eq L st c s 2 hl 2 0 (by decide) (by decide)]
  have w1 : (wedgeRep 2 0).1 = 0 := by decide
  have w2 : (wedgeRep 2 0).2.toNat = 2 := by decide
  have e : eps 2 * eps (-0) = 1 := by decide
  rw [w1, w2, e, valW_2_0_2 c s]
  push_cast; ring

theorem d2_p2_p1 : objd L st c s 2 2 1 = -((1 + c) * s / 2) := by
  rw [objd_eq L st c s 2 hl 2 1 (by decide) (by decide)]
  have w1 : (wedgeRep 2 1).1 = 1 := by decide
  have w2 : (wedgeRep 2 1).2.toNat = 2 := by decide
  have e : eps 2 * eps (-1) = 1 := by decide
  rw [w1, w2, e, valW_2_1_2 c s hcs]
  push_cast; ring

theorem d2_p2_p2 : objd L st c s 2 2 2 = (1 + c) ^ 2 / 4 := by
  rw [objd_eq L st c s 2 hl 2 2 (by decide) (by decide)]
  have w1 : (wedgeRep 2 2).1 = 2 := by decide
  have w2 : (wedgeRep 2 2).2.toNat = 2 := by decide
  have e : eps 2 * eps (-2) = 1 := by decide
  rw [w1, w2, e, valW_2_2_2 c s hcs]
  push_cast; ring

end dentries

/-! ### `Wigner.D` for ℓ = 2: the 25 entries as polynomials in R_a, R_b -/

section Dentries
variable {μ : Type} [Mem μ ℝ] [LawfulMem μ ℝ]
variable (L : ℕ) (st : μ) (R0 R1 R2 R3 : ℝ) (hR : R0 ^ 2 + R1 ^ 2 + R2 ^ 2 + R3 ^ 2 = 1)
    (imsqrt : Cx ℝ → ℝ)
    (hs : ∀ w : Cx ℝ, w.re ^ 2 + w.im ^ 2 = 1 → 2 * (imsqrt w) ^ 2 = 1 - w.re) (hl : 2 ≤ L)
include hR hs hl

theorem D2_m2_m2 : toC (objD L st R0 R1 R2 R3 imsqrt 2 (-2) (-2)) =
    conj (Ra R0 R3) ^ 4 := by
  rw [objD_eq L st R0 R1 R2 R3 hR imsqrt hs 2 hl (-2) (-2) (by decide) (by decide)]
  obtain ⟨sa, sb, P, M, eP, eM, h1, hP, hM, hA, hB, hca, hcb, hc, hsn⟩ := phase_facts R0 R1 R2 R3 hR
  have w1 : (wedgeRep (-2) (-2)).1 = 2 := by decide
  have w2 : (wedgeRep (-2) (-2)).2.toNat = 2 := by decide
  have e : eps (-2) * eps (-(-2)) = 1 := by decide
  rw [w1, w2, e, valW_2_2_2 _ _ (cos_sin_unit R0 R1 R2 R3 hR)]
  simp only [pw_one, pw_neg_one, pw_zero, pw_two, pw_neg_two, toC_mul, toC_conj, eP, eM, hA, hB, hc, hsn, map_mul,
    Complex.conj_ofReal, Complex.conj_conj]
  push_cast
  grind

theorem D2_m2_m1 : toC (objD L st R0 R1 R2 R3 imsqrt 2 (-2) (-1)) =
    2 * conj (Ra R0 R3) ^ 3 * Rb R1 R2 := by
  rw [objD_eq L st R0 R1 R2 R3 hR imsqrt hs 2 hl (-2) (-1) (by decide) (by decide)]
  obtain ⟨sa, sb, P, M, eP, eM, h1, hP, hM, hA, hB, hca, hcb, hc, hsn⟩ := phase_facts R0 R1 R2 R3 hR
  have w1 : (wedgeRep (-2) (-1)).1 = 1 := by decide
  have w2 : (wedgeRep (-2) (-1)).2.toNat = 2 := by decide
  have e : eps (-2) * eps (-(-1)) = -1 := by decide
  rw [w1, w2, e, valW_2_1_2 _ _ (cos_sin_unit R0 R1 R2 R3 hR)]
  simp only [pw_one, pw_neg_one, pw_zero, pw_two, pw_neg_two, toC_mul, toC_conj, eP, eM, hA, hB, hc, hsn, map_mul,
    Complex.conj_ofReal, Complex.conj_conj]
  push_cast
  grind

theorem D2_m2_z : toC (objD L st R0 R1 R2 R3 imsqrt 2 (-2) 0) =
    (Real.sqrt 6 : ℂ) * conj (Ra R0 R3) ^ 2 * Rb R1 R2 ^ 2 := by
  rw [objD_eq L st R0 R1 R2 R3 hR imsqrt hs 2 hl (-2) 0 (by decide) (by decide)]
  obtain ⟨sa, sb, P, M, eP, eM, h1, hP, hM, hA, hB, hca, hcb, hc, hsn⟩ := phase_facts R0 R1 R2 R3 hR
  have w1 : (wedgeRep (-2) 0).1 = 0 := by decide
  have w2 : (wedgeRep (-2) 0).2.toNat = 2 := by decide
  have e : eps (-2) * eps (-0) = 1 := by decide
  rw [w1, w2, e, valW_2_0_2]
  simp only [pw_one, pw_neg_one, pw_zero, pw_two, pw_neg_two, toC_mul, toC_conj, eP, eM, hA, hB, hc, hsn, map_mul,
    Complex.conj_ofReal, Complex.conj_conj]
  push_cast
  grind

theorem D2_m2_p1 : toC (objD L st R0 R1 R2 R3 imsqrt 2 (-2) 1) =
    2 * conj (Ra R0 R3) * Rb R1 R2 ^ 3 := by
  rw [objD_eq L st R0 R1 R2 R3 hR imsqrt hs 2 hl (-2) 1 (by decide) (by decide)]
  obtain ⟨sa, sb, P, M, eP, eM, h1, hP, hM, hA, hB, hca, hcb, hc, hsn⟩ := phase_facts R0 R1 R2 R3 hR
  have w1 : (wedgeRep (-2) 1).1 = -1 := by decide
  have w2 : (wedgeRep (-2) 1).2.toNat = 2 := by decide
  have e : eps (-2) * eps (-1) = 1 := by decide
  rw [w1, w2, e, valW_2_m1_2 _ _ (cos_sin_unit R0 R1 R2 R3 hR)]
  simp only [pw_one, pw_neg_one, pw_zero, pw_two, pw_neg_two, toC_mul, toC_conj, eP, eM, hA, hB, hc, hsn, map_mul,
    Complex.conj_ofReal, Complex.conj_conj]
  push_cast
  grind

theorem D2_m2_p2 : toC (objD L st R0 R1 R2 R3 imsqrt 2 (-2) 2) =
    Rb R1 R2 ^ 4 := by
  rw [objD_eq L st R0 R1 R2 R3 hR imsqrt hs 2 hl (-2) 2 (by decide) (by decide)]
  obtain ⟨sa, sb, P, M, eP, eM, h1, hP, hM, hA, hB, hca, hcb, hc, hsn⟩ := phase_facts R0 R1 R2 R3 hR
  have w1 : (wedgeRep (-2) 2).1 = -2 := by decide
  have w2 : (wedgeRep (-2) 2).2.toNat = 2 := by decide
  have e : eps (-2) * eps (-2) = 1 := by decide
  rw [w1, w2, e, valW_2_m2_2 _ _ (cos_sin_unit R0 R1 R2 R3 hR)]
  simp only [pw_one, pw_neg_one, pw_zero, pw_two, pw_neg_two, toC_mul, toC_conj, eP, eM, hA, hB, hc, hsn, map_mul,
    Complex.conj_ofReal, Complex.conj_conj]
  push_cast
  grind

theorem D2_m1_m2 : toC (objD L st R0 R1 R2 R3 imsqrt 2 (-1) (-2)) =
    -(2 * conj (Ra R0 R3) ^ 3 * conj (Rb R1 R2)) := by
  rw [objD_eq L st R0 R1 R2 R3 hR imsqrt hs 2 hl (-1) (-2) (by decide) (by decide)]
  obtain ⟨sa, sb, P, M, eP, eM, h1, hP, hM, hA, hB, hca, hcb, hc, hsn⟩ := phase_facts R0 R1 R2 R3 hR
  have w1 : (wedgeRep (-1) (-2)).1 = 1 := by decide
  have w2 : (wedgeRep (-1) (-2)).2.toNat = 2 := by decide
  have e : eps (-1) * eps (-(-2)) = 1 := by decide
  rw [w1, w2, e, valW_2_1_2 _ _ (cos_sin_unit R0 R1 R2 R3 hR)]
  simp only [pw_one, pw_neg_one, pw_zero, pw_two, pw_neg_two, toC_mul, toC_conj, eP, eM, hA, hB, hc, hsn, map_mul,
    Complex.conj_ofReal, Complex.conj_conj]
  push_cast
  grind

theorem D2_m1_m1 : toC (objD L st R0 R1 R2 R3 imsqrt 2 (-1) (-1)) =
    conj (Ra R0 R3) ^ 2 * ((Ra R0 R3 * conj (Ra R0 R3)) - 3 * (Rb R1 R2 * conj (Rb R1 R2))) := by
  rw [objD_eq L st R0 R1 R2 R3 hR imsqrt hs 2 hl (-1) (-1) (by decide) (by decide)]
  obtain ⟨sa, sb, P, M, eP, eM, h1, hP, hM, hA, hB, hca, hcb, hc, hsn⟩ := phase_facts R0 R1 R2 R3 hR
  have w1 : (wedgeRep (-1) (-1)).1 = 1 := by decide
  have w2 : (wedgeRep (-1) (-1)).2.toNat = 1 := by decide
  have e : eps (-1) * eps (-(-1)) = -1 := by decide
  rw [w1, w2, e, valW_2_1_1 _ _ (cos_sin_unit R0 R1 R2 R3 hR)]
  simp only [pw_one, pw_neg_one, pw_zero, pw_two, pw_neg_two, toC_mul, toC_conj, eP, eM, hA, hB, hc, hsn, map_mul,
    Complex.conj_ofReal, Complex.conj_conj]
  push_cast
  grind

theorem D2_m1_z : toC (objD L st R0 R1 R2 R3 imsqrt 2 (-1) 0) =
    (Real.sqrt 6 : ℂ) * conj (Ra R0 R3) * Rb R1 R2 * ((Ra R0 R3 * conj (Ra R0 R3)) - (Rb R1 R2 * conj (Rb R1 R2))) := by
  rw [objD_eq L st R0 R1 R2 R3 hR imsqrt hs 2 hl (-1) 0 (by decide) (by decide)]
  obtain ⟨sa, sb, P, M, eP, eM, h1, hP, hM, hA, hB, hca, hcb, hc, hsn⟩ := phase_facts R0 R1 R2 R3 hR
  have w1 : (wedgeRep (-1) 0).1 = 0 := by decide
  have w2 : (wedgeRep (-1) 0).2.toNat = 1 := by decide
  have e : eps (-1) * eps (-0) = 1 := by decide
  rw [w1, w2, e, valW_2_0_1]
  simp only [pw_one, pw_neg_one, pw_zero, pw_two, pw_neg_two, toC_mul, toC_conj, eP, eM, hA, hB, hc, hsn, map_mul,
    Complex.conj_ofReal, Complex.conj_conj]
  push_cast
  grind

theorem D2_m1_p1 : toC (objD L st R0 R1 R2 R3 imsqrt 2 (-1) 1) =
    Rb R1 R2 ^ 2 * (3 * (Ra R0 R3 * conj (Ra R0 R3)) - (Rb R1 R2 * conj (Rb R1 R2))) := by
  rw [objD_eq L st R0 R1 R2 R3 hR imsqrt hs 2 hl (-1) 1 (by decide) (by decide)]
  obtain ⟨sa, sb, P, M, eP, eM, h1, hP, hM, hA, hB, hca, hcb, hc, hsn⟩ := phase_facts R0 R1 R2 R3 hR
  have w1 : (wedgeRep (-1) 1).1 = -1 := by decide
  have w2 : (wedgeRep (-1) 1).2.toNat = 1 := by decide
  have e : eps (-1) * eps (-1) = 1 := by decide
  rw [w1, w2, e, valW_2_m1_1 _ _ (cos_sin_unit R0 R1 R2 R3 hR)]
  simp only [pw_one, pw_neg_one, pw_zero, pw_two, pw_neg_two, toC_mul, toC_conj, eP, eM, hA, hB, hc, hsn, map_mul,
    Complex.conj_ofReal, Complex.conj_conj]
  push_cast
  grind

theorem D2_m1_p2 : toC (objD L st R0 R1 R2 R3 imsqrt 2 (-1) 2) =
    2 * Ra R0 R3 * Rb R1 R2 ^ 3 := by
  rw [objD_eq L st R0 R1 R2 R3 hR imsqrt hs 2 hl (-1) 2 (by decide) (by decide)]
  obtain ⟨sa, sb, P, M, eP, eM, h1, hP, hM, hA, hB, hca, hcb, hc, hsn⟩ := phase_facts R0 R1 R2 R3 hR
  have w1 : (wedgeRep (-1) 2).1 = -1 := by decide
  have w2 : (wedgeRep (-1) 2).2.toNat = 2 := by decide
  have e : eps (-1) * eps (-2) = 1 := by decide
  rw [w1, w2, e, valW_2_m1_2 _ _ (cos_sin_unit R0 R1 R2 R3 hR)]
  simp only [pw_one, pw_neg_one, pw_zero, pw_two, pw_neg_two, toC_mul, toC_conj, eP, eM, hA, hB, hc, hsn, map_mul,
    Complex.conj_ofReal, Complex.conj_conj]
  push_cast
  grind

theorem D2_z_m2 : toC (objD L st R0 R1 R2 R3 imsqrt 2 0 (-2)) =
    (Real.sqrt 6 : ℂ) * conj (Ra R0 R3) ^ 2 * conj (Rb R1 R2) ^ 2 := by
  rw [objD_eq L st R0 R1 R2 R3 hR imsqrt hs 2 hl 0 (-2) (by decide) (by decide)]
  obtain ⟨sa, sb, P, M, eP, eM, h1, hP, hM, hA, hB, hca, hcb, hc, hsn⟩ := phase_facts R0 R1 R2 R3 hR
  have w1 : (wedgeRep 0 (-2)).1 = 0 := by decide
  have w2 : (wedgeRep 0 (-2)).2.toNat = 2 := by decide
  have e : eps 0 * eps (-(-2)) = 1 := by decide
  rw [w1, w2, e, valW_2_0_2]
  simp only [pw_one, pw_neg_one, pw_zero, pw_two, pw_neg_two, toC_mul, toC_conj, eP, eM, hA, hB, hc, hsn, map_mul,
    Complex.conj_ofReal, Complex.conj_conj]
  push_cast
  grind

theorem D2_z_m1 : toC (objD L st R0 R1 R2 R3 imsqrt 2 0 (-1)) =
    -((Real.sqrt 6 : ℂ) * conj (Ra R0 R3) * conj (Rb R1 R2) * ((Ra R0 R3 * conj (Ra R0 R3)) - (Rb R1 R2 * conj (Rb R1 R2)))) := by
  rw [objD_eq L st R0 R1 R2 R3 hR imsqrt hs 2 hl 0 (-1) (by decide) (by decide)]
  obtain ⟨sa, sb, P, M, eP, eM, h1, hP, hM, hA, hB, hca, hcb, hc, hsn⟩ := phase_facts R0 R1 R2 R3 hR
  have w1 : (wedgeRep 0 (-1)).1 = 0 := by decide
  have w2 : (wedgeRep 0 (-1)).2.toNat = 1 := by decide
  have e : eps 0 * eps (-(-1)) = -1 := by decide
  rw [w1, w2, e, valW_2_0_1]
  simp only [pw_one, pw_neg_one, pw_zero, pw_two, pw_neg_two, toC_mul, toC_conj, eP, eM, hA, hB, hc, hsn, map_mul,
    Complex.conj_ofReal, Complex.conj_conj]
  push_cast
  grind

theorem D2_z_z : toC (objD L st R0 R1 R2 R3 imsqrt 2 0 0) =
    (Ra R0 R3 * conj (Ra R0 R3)) ^ 2 - 4 * (Ra R0 R3 * conj (Ra R0 R3)) * (Rb R1 R2 * conj (Rb R1 R2)) + (Rb R1 R2 * conj (Rb R1 R2)) ^ 2 := by
  rw [objD_eq L st R0 R1 R2 R3 hR imsqrt hs 2 hl 0 0 (by decide) (by decide)]
  obtain ⟨sa, sb, P, M, eP, eM, h1, hP, hM, hA, hB, hca, hcb, hc, hsn⟩ := phase_facts R0 R1 R2 R3 hR
  have w1 : (wedgeRep 0 0).1 = 0 := by decide
  have w2 : (wedgeRep 0 0).2.toNat = 0 := by decide
  have e : eps 0 * eps (-0) = 1 := by decide
  rw [w1, w2, e, valW_2_0_0 _ _ (cos_sin_unit R0 R1 R2 R3 hR)]
  simp only [pw_one, pw_neg_one, pw_zero, pw_two, pw_neg_two, toC_mul, toC_conj, eP, eM, hA, hB, hc, hsn, map_mul,
    Complex.conj_ofReal, Complex.conj_conj]
  push_cast
  grind

theorem D2_z_p1 : toC (objD L st R0 R1 R2 R3 imsqrt 2 0 1) =
    (Real.sqrt 6 : ℂ) * Ra R0 R3 * Rb R1 R2 * ((Ra R0 R3 * conj (Ra R0 R3)) - (Rb R1 R2 * conj (Rb R1 R2))) := by
  rw [objD_eq L st R0 R1 R2 R3 hR imsqrt hs 2 hl 0 1 (by decide) (by decide)]
  obtain ⟨sa, sb, P, M, eP, eM, h1, hP, hM, hA, hB, hca, hcb, hc, hsn⟩ := phase_facts R0 R1 R2 R3 hR
  have w1 : (wedgeRep 0 1).1 = 0 := by decide
  have w2 : (wedgeRep 0 1).2.toNat = 1 := by decide
  have e : eps 0 * eps (-1) = 1 := by decide
  rw [w1, w2, e, valW_2_0_1]
  simp only [pw_one, pw_neg_one, pw_zero, pw_two, pw_neg_two, toC_mul, toC_conj, eP, eM, hA, hB, hc, hsn, map_mul,
    Complex.conj_ofReal, Complex.conj_conj]
  push_cast
  grind

theorem D2_z_p2 : toC (objD L st R0 R1 R2 R3 imsqrt 2 0 2) =
    (Real.sqrt 6 : ℂ) * Ra R0 R3 ^ 2 * Rb R1 R2 ^ 2 := by
  rw [objD_eq L st R0 R1 R2 R3 hR imsqrt hs 2 hl 0 2 (by decide) (by decide)]
  obtain ⟨sa, sb, P, M, eP, eM, h1, hP, hM, hA, hB, hca, hcb, hc, hsn⟩ := phase_facts R0 R1 R2 R3 hR
  have w1 : (wedgeRep 0 2).1 = 0 := by decide
  have w2 : (wedgeRep 0 2).2.toNat = 2 := by decide
  have e : eps 0 * eps (-2) = 1 := by decide
  rw [w1, w2, e, valW_2_0_2]
  simp only [pw_one, pw_neg_one, pw_zero, pw_two, pw_neg_two, toC_mul, toC_conj, eP, eM, hA, hB, hc, hsn, map_mul,
    Complex.conj_ofReal, Complex.conj_conj]
  push_cast
  grind

theorem D2_p1_m2 : toC (objD L st R0 R1 R2 R3 imsqrt 2 1 (-2)) =
    -(2 * conj (Ra R0 R3) * conj (Rb R1 R2) ^ 3) := by
  rw [objD_eq L st R0 R1 R2 R3 hR imsqrt hs 2 hl 1 (-2) (by decide) (by decide)]
  obtain ⟨sa, sb, P, M, eP, eM, h1, hP, hM, hA, hB, hca, hcb, hc, hsn⟩ := phase_facts R0 R1 R2 R3 hR
  have w1 : (wedgeRep 1 (-2)).1 = -1 := by decide
  have w2 : (wedgeRep 1 (-2)).2.toNat = 2 := by decide
  have e : eps 1 * eps (-(-2)) = -1 := by decide
  rw [w1, w2, e, valW_2_m1_2 _ _ (cos_sin_unit R0 R1 R2 R3 hR)]
  simp only [pw_one, pw_neg_one, pw_zero, pw_two, pw_neg_two, toC_mul, toC_conj, eP, eM, hA, hB, hc, hsn, map_mul,
    Complex.conj_ofReal, Complex.conj_conj]
  push_cast
  grind

theorem D2_p1_m1 : toC (objD L st R0 R1 R2 R3 imsqrt 2 1 (-1)) =
    conj (Rb R1 R2) ^ 2 * (3 * (Ra R0 R3 * conj (Ra R0 R3)) - (Rb R1 R2 * conj (Rb R1 R2))) := by
  rw [objD_eq L st R0 R1 R2 R3 hR imsqrt hs 2 hl 1 (-1) (by decide) (by decide)]
  obtain ⟨sa, sb, P, M, eP, eM, h1, hP, hM, hA, hB, hca, hcb, hc, hsn⟩ := phase_facts R0 R1 R2 R3 hR
  have w1 : (wedgeRep 1 (-1)).1 = -1 := by decide
  have w2 : (wedgeRep 1 (-1)).2.toNat = 1 := by decide
  have e : eps 1 * eps (-(-1)) = 1 := by decide
  rw [w1, w2, e, valW_2_m1_1 _ _ (cos_sin_unit R0 R1 R2 R3 hR)]
  simp only [pw_one, pw_neg_one, pw_zero, pw_two, pw_neg_two, toC_mul, toC_conj, eP, eM, hA, hB, hc, hsn, map_mul,
    Complex.conj_ofReal, Complex.conj_conj]
  push_cast
  grind

theorem D2_p1_z : toC (objD L st R0 R1 R2 R3 imsqrt 2 1 0) =
    -((Real.sqrt 6 : ℂ) * Ra R0 R3 * conj (Rb R1 R2) * ((Ra R0 R3 * conj (Ra R0 R3)) - (Rb R1 R2 * conj (Rb R1 R2)))) := by
  rw [objD_eq L st R0 R1 R2 R3 hR imsqrt hs 2 hl 1 0 (by decide) (by decide)]
  obtain ⟨sa, sb, P, M, eP, eM, h1, hP, hM, hA, hB, hca, hcb, hc, hsn⟩ := phase_facts R0 R1 R2 R3 hR
  have w1 : (wedgeRep 1 0).1 = 0 := by decide
  have w2 : (wedgeRep 1 0).2.toNat = 1 := by decide
  have e : eps 1 * eps (-0) = -1 := by decide
  rw [w1, w2, e, valW_2_0_1]
  simp only [pw_one, pw_neg_one, pw_zero, pw_two, pw_neg_two, toC_mul, toC_conj, eP, eM, hA, hB, hc, hsn, map_mul,
    Complex.conj_ofReal, Complex.conj_conj]
  push_cast
  grind

theorem D2_p1_p1 : toC (objD L st R0 R1 R2 R3 imsqrt 2 1 1) =
    Ra R0 R3 ^ 2 * ((Ra R0 R3 * conj (Ra R0 R3)) - 3 * (Rb R1 R2 * conj (Rb R1 R2))) := by
  rw [objD_eq L st R0 R1 R2 R3 hR imsqrt hs 2 hl 1 1 (by decide) (by decide)]
  obtain ⟨sa, sb, P, M, eP, eM, h1, hP, hM, hA, hB, hca, hcb, hc, hsn⟩ := phase_facts R0 R1 R2 R3 hR
  have w1 : (wedgeRep 1 1).1 = 1 := by decide
  have w2 : (wedgeRep 1 1).2.toNat = 1 := by decide
  have e : eps 1 * eps (-1) = -1 := by decide
  rw [w1, w2, e, valW_2_1_1 _ _ (cos_sin_unit R0 R1 R2 R3 hR)]
  simp only [pw_one, pw_neg_one, pw_zero, pw_two, pw_neg_two, toC_mul, toC_conj, eP, eM, hA, hB, hc, hsn, map_mul,
    Complex.conj_ofReal, Complex.conj_conj]
  push_cast
  grind

theorem D2_p1_p2 : toC (objD L st R0 R1 R2 R3 imsqrt 2 1 2) =
    2 * Ra R0 R3 ^ 3 * Rb R1 R2 := by
  rw [objD_eq L st R0 R1 R2 R3 hR imsqrt hs 2 hl 1 2 (by decide) (by decide)]
  obtain ⟨sa, sb, P, M, eP, eM, h1, hP, hM, hA, hB, hca, hcb, hc, hsn⟩ := phase_facts R0 R1 R2 R3 hR
  have w1 : (wedgeRep 1 2).1 = 1 := by decide
  have w2 : (wedgeRep 1 2).2.toNat = 2 := by decide
  have e : eps 1 * eps (-2) = -1 := by decide
  rw [w1, w2, e, valW_2_1_2 _ _ (cos_sin_unit R0 R1 R2 R3 hR)]
  simp only [pw_one, pw_neg_one, pw_zero, pw_two, pw_neg_two, toC_mul, toC_conj, eP, eM, hA, hB, hc, hsn, map_mul,
    Complex.conj_ofReal, Complex.conj_conj]
  push_cast
  grind

theorem D2_p2_m2 : toC (objD L st R0 R1 R2 R3 imsqrt 2 2 (-2)) =
    conj (Rb R1 R2) ^ 4 := by
  rw [objD_eq L st R0 R1 R2 R3 hR imsqrt hs 2 hl 2 (-2) (by decide) (by decide)]
  obtain ⟨sa, sb, P, M, eP, eM, h1, hP, hM, hA, hB, hca, hcb, hc, hsn⟩ := phase_facts R0 R1 R2 R3 hR
  have w1 : (wedgeRep 2 (-2)).1 = -2 := by decide
  have w2 : (wedgeRep 2 (-2)).2.toNat = 2 := by decide
  have e : eps 2 * eps (-(-2)) = 1 := by decide
  rw [w1, w2, e, valW_2_m2_2 _ _ (cos_sin_unit R0 R1 R2 R3 hR)]
  simp only [pw_one, pw_neg_one, pw_zero, pw_two, pw_neg_two, toC_mul, toC_conj, eP, eM, hA, hB, hc, hsn, map_mul,
    Complex.conj_ofReal, Complex.conj_conj]
  push_cast
  grind

theorem D2_p2_m1 : toC (objD L st R0 R1 R2 R3 imsqrt 2 2 (-1)) =
    -(2 * Ra R0 R3 * conj (Rb R1 R2) ^ 3) := by
  rw [objD_eq L st R0 R1 R2 R3 hR imsqrt hs 2 hl 2 (-1) (by decide) (by decide)]
  obtain ⟨sa, sb, P, M, eP, eM, h1, hP, hM, hA, hB, hca, hcb, hc, hsn⟩ := phase_facts R0 R1 R2 R3 hR
  have w1 : (wedgeRep 2 (-1)).1 = -1 := by decide
  have w2 : (wedgeRep 2 (-1)).2.toNat = 2 := by decide
  have e : eps 2 * eps (-(-1)) = -1 := by decide
  rw [w1, w2, e, valW_2_m1_2 _ _ (cos_sin_unit R0 R1 R2 R3 hR)]
  simp only [pw_one, pw_neg_one, pw_zero, pw_two, pw_neg_two, toC_mul, toC_conj, eP, eM, hA, hB, hc, hsn, map_mul,
    Complex.conj_ofReal, Complex.conj_conj]
  push_cast
  grind

theorem D2_p2_z : toC (objD L st R0 R1 R2 R3 imsqrt 2 2 0) =
    (Real.sqrt 6 : ℂ) * Ra R0 R3 ^ 2 * conj (Rb R1 R2) ^ 2 := by
  rw [objD_eq L st R0 R1 R2 R3 hR imsqrt hs 2 hl 2 0 (by decide) (by decide)]
  obtain ⟨sa, sb, P, M, eP, eM, h1, hP, hM, hA, hB, hca, hcb, hc, hsn⟩ := phase_facts R0 R1 R2 R3 hR
  have w1 : (wedgeRep 2 0).1 = 0 := by decide
  have w2 : (wedgeRep 2 0).2.toNat = 2 := by decide
  have e : eps 2 * eps (-0) = 1 := by decide
  rw [w1, w2, e, valW_2_0_2]
  simp only [pw_one, pw_neg_one, pw_zero, pw_two, pw_neg_two, toC_mul, toC_conj, eP, eM, hA, hB, hc, hsn, map_mul,
    Complex.conj_ofReal, Complex.conj_conj]
  push_cast
  grind

theorem D2_p2_p1 : toC (objD L st R0 R1 R2 R3 imsqrt 2 2 1) =
    -(2 * Ra R0 R3 ^ 3 * conj (Rb R1 R2)) := by
  rw [objD_eq L st R0 R1 R2 R3 hR imsqrt hs 2 hl 2 1 (by decide) (by decide)]
  obtain ⟨sa, sb, P, M, eP, eM, h1, hP, hM, hA, hB, hca, hcb, hc, hsn⟩ := phase_facts R0 R1 R2 R3 hR
  have w1 : (wedgeRep 2 1).1 = 1 := by decide
  have w2 : (wedgeRep 2 1).2.toNat = 2 := by decide
  have e : eps 2 * eps (-1) = 1 := by decide
  rw [w1, w2, e, valW_2_1_2 _ _ (cos_sin_unit R0 R1 R2 R3 hR)]
  simp only [pw_one, pw_neg_one, pw_zero, pw_two, pw_neg_two, toC_mul, toC_conj, eP, eM, hA, hB, hc, hsn, map_mul,
    Complex.conj_ofReal, Complex.conj_conj]
  push_cast
  grind

theorem D2_p2_p2 : toC (objD L st R0 R1 R2 R3 imsqrt 2 2 2) =
    Ra R0 R3 ^ 4 := by
  rw [objD_eq L st R0 R1 R2 R3 hR imsqrt hs 2 hl 2 2 (by decide) (by decide)]
  obtain ⟨sa, sb, P, M, eP, eM, h1, hP, hM, hA, hB, hca, hcb, hc, hsn⟩ := phase_facts R0 R1 R2 R3 hR
  have w1 : (wedgeRep 2 2).1 = 2 := by decide
  have w2 : (wedgeRep 2 2).2.toNat = 2 := by decide
  have e : eps 2 * eps (-2) = 1 := by decide
  rw [w1, w2, e, valW_2_2_2 _ _ (cos_sin_unit R0 R1 R2 R3 hR)]
  simp only [pw_one, pw_neg_one, pw_zero, pw_two, pw_neg_two, toC_mul, toC_conj, eP, eM, hA, hB, hc, hsn, map_mul,
    Complex.conj_ofReal, Complex.conj_conj]
  push_cast
  grind

end Dentries

/-! ### the documented sum for ℓ = 2, entry by entry -/

theorem docD_two_m2_m2 (A B : ℂ) : docD 2 A B (-2) (-2) =
    conj A ^ 4 := by
  simp [docD, ichoose, Finset.sum_range_succ, Nat.factorial, Nat.choose]

theorem docD_two_m2_m1 (A B : ℂ) : docD 2 A B (-2) (-1) =
    2 * conj A ^ 3 * B := by
  have hne := sqrt6C_ne
  have hq := sqrt6C_sq
  simp [docD, ichoose, Finset.sum_range_succ, Nat.factorial, Nat.choose]
  simp only [s4, s24]
  push_cast
  field_simp
  grind

theorem docD_two_m2_z (A B : ℂ) : docD 2 A B (-2) 0 =
    (Real.sqrt 6 : ℂ) * conj A ^ 2 * B ^ 2 := by
  have hne := sqrt6C_ne
  have hq := sqrt6C_sq
  simp [docD, ichoose, Finset.sum_range_succ, Nat.factorial, Nat.choose]
  simp only [s4, s24]
  push_cast
  field_simp
  grind

theorem docD_two_m2_p1 (A B : ℂ) : docD 2 A B (-2) 1 =
    2 * conj A * B ^ 3 := by
  have hne := sqrt6C_ne
  have hq := sqrt6C_sq
  simp [docD, ichoose, Finset.sum_range_succ, Nat.factorial, Nat.choose]
  simp only [s4, s24]
  push_cast
  field_simp
  grind

theorem docD_two_m2_p2 (A B : ℂ) : docD 2 A B (-2) 2 =
    B ^ 4 := by
  simp [docD, ichoose, Finset.sum_range_succ, Nat.factorial, Nat.choose]

theorem docD_two_m1_m2 (A B : ℂ) : docD 2 A B (-1) (-2) =
    -(2 * conj A ^ 3 * conj B) := by
  have hne := sqrt6C_ne
  have hq := sqrt6C_sq
  simp [docD, ichoose, Finset.sum_range_succ, Nat.factorial, Nat.choose]
  simp only [s4, s24]
  push_cast
  field_simp

theorem docD_two_m1_m1 (A B : ℂ) : docD 2 A B (-1) (-1) =
    conj A ^ 2 * ((A * conj A) - 3 * (B * conj B)) := by
  have hne := sqrt6C_ne
  have hq := sqrt6C_sq
  simp [docD, ichoose, Finset.sum_range_succ, Nat.factorial, Nat.choose]
  field_simp
  grind

theorem docD_two_m1_z (A B : ℂ) : docD 2 A B (-1) 0 =
    (Real.sqrt 6 : ℂ) * conj A * B * ((A * conj A) - (B * conj B)) := by
  have hne := sqrt6C_ne
  have hq := sqrt6C_sq
  simp [docD, ichoose, Finset.sum_range_succ, Nat.factorial, Nat.choose]
  simp only [s4, s24]
  push_cast
  field_simp
  grind

theorem docD_two_m1_p1 (A B : ℂ) : docD 2 A B (-1) 1 =
    B ^ 2 * (3 * (A * conj A) - (B * conj B)) := by
  have hne := sqrt6C_ne
  have hq := sqrt6C_sq
  simp [docD, ichoose, Finset.sum_range_succ, Nat.factorial, Nat.choose]
  field_simp
  grind

theorem docD_two_m1_p2 (A B : ℂ) : docD 2 A B (-1) 2 =
    2 * A * B ^ 3 := by
  have hne := sqrt6C_ne
  have hq := sqrt6C_sq
  simp [docD, ichoose, Finset.sum_range_succ, Nat.factorial, Nat.choose]
  simp only [s4, s24]
  push_cast
  field_simp

theorem docD_two_z_m2 (A B : ℂ) : docD 2 A B 0 (-2) =
    (Real.sqrt 6 : ℂ) * conj A ^ 2 * conj B ^ 2 := by
  have hne := sqrt6C_ne
  have hq := sqrt6C_sq
  simp [docD, ichoose, Finset.sum_range_succ, Nat.factorial, Nat.choose]
  simp only [s4, s24]
  push_cast
  field_simp

theorem docD_two_z_m1 (A B : ℂ) : docD 2 A B 0 (-1) =
    -((Real.sqrt 6 : ℂ) * conj A * conj B * ((A * conj A) - (B * conj B))) := by
  have hne := sqrt6C_ne
  have hq := sqrt6C_sq
  simp [docD, ichoose, Finset.sum_range_succ, Nat.factorial, Nat.choose]
  simp only [s4, s24]
  push_cast
  field_simp
  grind

theorem docD_two_z_z (A B : ℂ) : docD 2 A B 0 0 =
    (A * conj A) ^ 2 - 4 * (A * conj A) * (B * conj B) + (B * conj B) ^ 2 := by
  have hne := sqrt6C_ne
  have hq := sqrt6C_sq
  simp [docD, ichoose, Finset.sum_range_succ, Nat.factorial, Nat.choose]
  field_simp
  grind

theorem docD_two_z_p1 (A B : ℂ) : docD 2 A B 0 1 =
    (Real.sqrt 6 : ℂ) * A * B * ((A * conj A) - (B * conj B)) := by
  have hne := sqrt6C_ne
  have hq := sqrt6C_sq
  simp [docD, ichoose, Finset.sum_range_succ, Nat.factorial, Nat.choose]
  simp only [s4, s24]
  push_cast
  field_simp
  grind

theorem docD_two_z_p2 (A B : ℂ) : docD 2 A B 0 2 =
    (Real.sqrt 6 : ℂ) * A ^ 2 * B ^ 2 := by
  have hne := sqrt6C_ne
  have hq := sqrt6C_sq
  simp [docD, ichoose, Finset.sum_range_succ, Nat.factorial, Nat.choose]
  simp only [s4, s24]
  push_cast
  field_simp

theorem docD_two_p1_m2 (A B : ℂ) : docD 2 A B 1 (-2) =
    -(2 * conj A * conj B ^ 3) := by
  have hne := sqrt6C_ne
  have hq := sqrt6C_sq
  simp [docD, ichoose, Finset.sum_range_succ, Nat.factorial, Nat.choose]
  simp only [s4, s24]
  push_cast
  field_simp

theorem docD_two_p1_m1 (A B : ℂ) : docD 2 A B 1 (-1) =
    conj B ^ 2 * (3 * (A * conj A) - (B * conj B)) := by
  have hne := sqrt6C_ne
  have hq := sqrt6C_sq
  simp [docD, ichoose, Finset.sum_range_succ, Nat.factorial, Nat.choose]
  field_simp
  grind

theorem docD_two_p1_z (A B : ℂ) : docD 2 A B 1 0 =
    -((Real.sqrt 6 : ℂ) * A * conj B * ((A * conj A) - (B * conj B))) := by
  have hne := sqrt6C_ne
  have hq := sqrt6C_sq
  simp [docD, ichoose, Finset.sum_range_succ, Nat.factorial, Nat.choose]
  simp only [s4, s24]
  push_cast
  field_simp
  grind

theorem docD_two_p1_p1 (A B : ℂ) : docD 2 A B 1 1 =
    A ^ 2 * ((A * conj A) - 3 * (B * conj B)) := by
  have hne := sqrt6C_ne
  have hq := sqrt6C_sq
  simp [docD, ichoose, Finset.sum_range_succ, Nat.factorial, Nat.choose]
  field_simp
  grind

theorem docD_two_p1_p2 (A B : ℂ) : docD 2 A B 1 2 =
    2 * A ^ 3 * B := by
  have hne := sqrt6C_ne
  have hq := sqrt6C_sq
  simp [docD, ichoose, Finset.sum_range_succ, Nat.factorial, Nat.choose]
  simp only [s4, s24]
  push_cast
  field_simp

theorem docD_two_p2_m2 (A B : ℂ) : docD 2 A B 2 (-2) =
    conj B ^ 4 := by
  have hne := sqrt6C_ne
  have hq := sqrt6C_sq
  simp [docD, ichoose, Finset.sum_range_succ, Nat.factorial, Nat.choose]
  field_simp

theorem docD_two_p2_m1 (A B : ℂ) : docD 2 A B 2 (-1) =
    -(2 * A * conj B ^ 3) := by
  have hne := sqrt6C_ne
  have hq := sqrt6C_sq
  simp [docD, ichoose, Finset.sum_range_succ, Nat.factorial, Nat.choose]
  simp only [s4, s24]
  push_cast
  field_simp
  grind

theorem docD_two_p2_z (A B : ℂ) : docD 2 A B 2 0 =
    (Real.sqrt 6 : ℂ) * A ^ 2 * conj B ^ 2 := by
  have hne := sqrt6C_ne
  have hq := sqrt6C_sq
  simp [docD, ichoose, Finset.sum_range_succ, Nat.factorial, Nat.choose]
  simp only [s4, s24]
  push_cast
  field_simp
  grind

theorem docD_two_p2_p1 (A B : ℂ) : docD 2 A B 2 1 =
    -(2 * A ^ 3 * conj B) := by
  have hne := sqrt6C_ne
  have hq := sqrt6C_sq
  simp [docD, ichoose, Finset.sum_range_succ, Nat.factorial, Nat.choose]
  simp only [s4, s24]
  push_cast
  field_simp
  grind

theorem docD_two_p2_p2 (A B : ℂ) : docD 2 A B 2 2 =
    A ^ 4 := by
  simp [docD, ichoose, Finset.sum_range_succ, Nat.factorial, Nat.choose]

/-! ### the two tables -/

/-- the 25 entries of the documented D²(R) (rows m' = −2, …, 2; columns m = −2, …, 2), A = R_a, B = R_b -/
def D2doc (A B : ℂ) (mp m : ℤ) : ℂ :=
  if mp = -2 then
    (if m = -2 then conj A ^ 4
     else if m = -1 then 2 * conj A ^ 3 * B
     else if m = 0 then (Real.sqrt 6 : ℂ) * conj A ^ 2 * B ^ 2
     else if m = 1 then 2 * conj A * B ^ 3
     else B ^ 4)
  else if mp = -1 then
    (if m = -2 then -(2 * conj A ^ 3 * conj B)
     else if m = -1 then conj A ^ 2 * ((A * conj A) - 3 * (B * conj B))
     else if m = 0 then (Real.sqrt 6 : ℂ) * conj A * B * ((A * conj A) - (B * conj B))
     else if m = 1 then B ^ 2 * (3 * (A * conj A) - (B * conj B))
     else 2 * A * B ^ 3)
  else if mp = 0 then
    (if m = -2 then (Real.sqrt 6 : ℂ) * conj A ^ 2 * conj B ^ 2
     else if m = -1 then -((Real.sqrt 6 : ℂ) * conj A * conj B * ((A * conj A) - (B * conj B)))
     else if m = 0 then (A * conj A) ^ 2 - 4 * (A * conj A) * (B * conj B) + (B * conj B) ^ 2
     else if m = 1 then (Real.sqrt 6 : ℂ) * A * B * ((A * conj A) - (B * conj B))
     else (Real.sqrt 6 : ℂ) * A ^ 2 * B ^ 2)
  else if mp = 1 then
    (if m = -2 then -(2 * conj A * conj B ^ 3)
     else if m = -1 then conj B ^ 2 * (3 * (A * conj A) - (B * conj B))
     else if m = 0 then -((Real.sqrt 6 : ℂ) * A * conj B * ((A * conj A) - (B * conj B)))
     else if m = 1 then A ^ 2 * ((A * conj A) - 3 * (B * conj B))
     else 2 * A ^ 3 * B)
  else
    (if m = -2 then conj B ^ 4
     else if m = -1 then -(2 * A * conj B ^ 3)
     else if m = 0 then (Real.sqrt 6 : ℂ) * A ^ 2 * conj B ^ 2
     else if m = 1 then -(2 * A ^ 3 * conj B)
     else A ^ 4)

/-- the real d²(β) in the library's convention (rows m' = −2, …, 2; columns m = −2, …, 2), c = cos β, s = sin β -/
def d2doc (c s : ℝ) (mp m : ℤ) : ℝ :=
  if mp = -2 then
    (if m = -2 then (1 + c) ^ 2 / 4
     else if m = -1 then (1 + c) * s / 2
     else if m = 0 then s ^ 2 * Real.sqrt 6 / 4
     else if m = 1 then (1 - c) * s / 2
     else (1 - c) ^ 2 / 4)
  else if mp = -1 then
    (if m = -2 then -((1 + c) * s / 2)
     else if m = -1 then (2 * c ^ 2 + c - 1) / 2
     else if m = 0 then c * s * Real.sqrt 6 / 2
     else if m = 1 then (1 + c - 2 * c ^ 2) / 2
     else (1 - c) * s / 2)
  else if mp = 0 then
    (if m = -2 then s ^ 2 * Real.sqrt 6 / 4
     else if m = -1 then -(c * s * Real.sqrt 6 / 2)
     else if m = 0 then (3 * c ^ 2 - 1) / 2
     else if m = 1 then c * s * Real.sqrt 6 / 2
     else s ^ 2 * Real.sqrt 6 / 4)
  else if mp = 1 then
    (if m = -2 then -((1 - c) * s / 2)
     else if m = -1 then (1 + c - 2 * c ^ 2) / 2
     else if m = 0 then -(c * s * Real.sqrt 6 / 2)
     else if m = 1 then (2 * c ^ 2 + c - 1) / 2
     else (1 + c) * s / 2)
  else
    (if m = -2 then (1 - c) ^ 2 / 4
     else if m = -1 then -((1 - c) * s / 2)
     else if m = 0 then s ^ 2 * Real.sqrt 6 / 4
     else if m = 1 then -((1 + c) * s / 2)
     else (1 + c) ^ 2 / 4)

/-- for ℓ = 2 the documented sum is the table `D2doc` -/
theorem docD_two (A B : ℂ) (mp m : ℤ) (hmp : mp.natAbs ≤ 2) (hm : m.natAbs ≤ 2) :
    docD 2 A B mp m = D2doc A B mp m := by
  have h1 : mp = -2 ∨ mp = -1 ∨ mp = 0 ∨ mp = 1 ∨ mp = 2 := by omega
  have h2 : m = -2 ∨ m = -1 ∨ m = 0 ∨ m = 1 ∨ m = 2 := by omega
  rcases h1 with rfl | rfl | rfl | rfl | rfl <;> rcases h2 with rfl | rfl | rfl | rfl | rfl
  · exact docD_two_m2_m2 A B
  · exact docD_two_m2_m1 A B
  · exact docD_two_m2_z A B
  · exact docD_two_m2_p1 A B
  · exact docD_two_m2_p2 A B
  · exact docD_two_m1_m2 A B
  · exact docD_two_m1_m1 A B
  · exact docD_two_m1_z A B
  · exact docD_two_m1_p1 A B
  · exact docD_two_m1_p2 A B
  · exact docD_two_z_m2 A B
  · exact docD_two_z_m1 A B
  · exact docD_two_z_z A B
  · exact docD_two_z_p1 A B
  · exact docD_two_z_p2 A B
  · exact docD_two_p1_m2 A B
  · exact docD_two_p1_m1 A B
  · exact docD_two_p1_z A B
  · exact docD_two_p1_p1 A B
  · exact docD_two_p1_p2 A B
  · exact docD_two_p2_m2 A B
  · exact docD_two_p2_m1 A B
  · exact docD_two_p2_z A B
  · exact docD_two_p2_p1 A B
  · exact docD_two_p2_p2 A B

section
variable {μ : Type} [Mem μ ℝ] [LawfulMem μ ℝ]

/-- ℓ = 2: the model's entry is the documented table entry, all 25 (m', m) -/
theorem objD_two_eq_table (L : ℕ) (st : μ) (R0 R1 R2 R3 : ℝ) (hR : R0 ^ 2 + R1 ^ 2 + R2 ^ 2 + R3 ^ 2 = 1)
    (imsqrt : Cx ℝ → ℝ)
    (hs : ∀ w : Cx ℝ, w.re ^ 2 + w.im ^ 2 = 1 → 2 * (imsqrt w) ^ 2 = 1 - w.re) (hl : 2 ≤ L)
    (mp m : ℤ) (hmp : mp.natAbs ≤ 2) (hm : m.natAbs ≤ 2) :
    toC (objD L st R0 R1 R2 R3 imsqrt 2 mp m) = D2doc (Ra R0 R3) (Rb R1 R2) mp m := by
  have h1 : mp = -2 ∨ mp = -1 ∨ mp = 0 ∨ mp = 1 ∨ mp = 2 := by omega
  have h2 : m = -2 ∨ m = -1 ∨ m = 0 ∨ m = 1 ∨ m = 2 := by omega
  rcases h1 with rfl | rfl | rfl | rfl | rfl <;> rcases h2 with rfl | rfl | rfl | rfl | rfl
  · exact D2_m2_m2 L st R0 R1 R2 R3 hR imsqrt hs hl
  · exact D2_m2_m1 L st R0 R1 R2 R3 hR imsqrt hs hl
  · exact D2_m2_z L st R0 R1 R2 R3 hR imsqrt hs hl
  · exact D2_m2_p1 L st R0 R1 R2 R3 hR imsqrt hs hl
  · exact D2_m2_p2 L st R0 R1 R2 R3 hR imsqrt hs hl
  · exact D2_m1_m2 L st R0 R1 R2 R3 hR imsqrt hs hl
  · exact D2_m1_m1 L st R0 R1 R2 R3 hR imsqrt hs hl
  · exact D2_m1_z L st R0 R1 R2 R3 hR imsqrt hs hl
  · exact D2_m1_p1 L st R0 R1 R2 R3 hR imsqrt hs hl
  · exact D2_m1_p2 L st R0 R1 R2 R3 hR imsqrt hs hl
  · exact D2_z_m2 L st R0 R1 R2 R3 hR imsqrt hs hl
  · exact D2_z_m1 L st R0 R1 R2 R3 hR imsqrt hs hl
  · exact D2_z_z L st R0 R1 R2 R3 hR imsqrt hs hl
  · exact D2_z_p1 L st R0 R1 R2 R3 hR imsqrt hs hl
  · exact D2_z_p2 L st R0 R1 R2 R3 hR imsqrt hs hl
  · exact D2_p1_m2 L st R0 R1 R2 R3 hR imsqrt hs hl
  · exact D2_p1_m1 L st R0 R1 R2 R3 hR imsqrt hs hl
  · exact D2_p1_z L st R0 R1 R2 R3 hR imsqrt hs hl
  · exact D2_p1_p1 L st R0 R1 R2 R3 hR imsqrt hs hl
  · exact D2_p1_p2 L st R0 R1 R2 R3 hR imsqrt hs hl
  · exact D2_p2_m2 L st R0 R1 R2 R3 hR imsqrt hs hl
  · exact D2_p2_m1 L st R0 R1 R2 R3 hR imsqrt hs hl
  · exact D2_p2_z L st R0 R1 R2 R3 hR imsqrt hs hl
  · exact D2_p2_p1 L st R0 R1 R2 R3 hR imsqrt hs hl
  · exact D2_p2_p2 L st R0 R1 R2 R3 hR imsqrt hs hl

/-- ℓ = 2: the model's `Wigner.d` entry is the d² table entry, all 25 (m', m) -/
theorem objd_two_eq_table (L : ℕ) (st : μ) (c s : ℝ) (hcs : c ^ 2 + s ^ 2 = 1) (hl : 2 ≤ L)
    (mp m : ℤ) (hmp : mp.natAbs ≤ 2) (hm : m.natAbs ≤ 2) :
    objd L st c s 2 mp m = d2doc c s mp m := by
  have h1 : mp = -2 ∨ mp = -1 ∨ mp = 0 ∨ mp = 1 ∨ mp = 2 := by omega
  have h2 : m = -2 ∨ m = -1 ∨ m = 0 ∨ m = 1 ∨ m = 2 := by omega
  rcases h1 with rfl | rfl | rfl | rfl | rfl <;> rcases h2 with rfl | rfl | rfl | rfl | rfl
  · exact d2_m2_m2 L st c s hcs hl
  · exact d2_m2_m1 L st c s hcs hl
  · exact d2_m2_z L st c s hl
  · exact d2_m2_p1 L st c s hcs hl
  · exact d2_m2_p2 L st c s hcs hl
  · exact d2_m1_m2 L st c s hcs hl
  · exact d2_m1_m1 L st c s hcs hl
  · exact d2_m1_z L st c s hl
  · exact d2_m1_p1 L st c s hcs hl
  · exact d2_m1_p2 L st c s hcs hl
  · exact d2_z_m2 L st c s hl
  · exact d2_z_m1 L st c s hl
  · exact d2_z_z L st c s hcs hl
  · exact d2_z_p1 L st c s hl
  · exact d2_z_p2 L st c s hl
  · exact d2_p1_m2 L st c s hcs hl
  · exact d2_p1_m1 L st c s hcs hl
  · exact d2_p1_z L st c s hl
  · exact d2_p1_p1 L st c s hcs hl
  · exact d2_p1_p2 L st c s hcs hl
  · exact d2_p2_m2 L st c s hcs hl
  · exact d2_p2_m1 L st c s hcs hl
  · exact d2_p2_z L st c s hl
  · exact d2_p2_p1 L st c s hcs hl
  · exact d2_p2_p2 L st c s hcs hl
end

/-- the d² table is the D² table on the rotors (cos β/2, 0, sin β/2, 0): R_a = x, R_b = y real -/
theorem d2doc_eq_D2doc (x y : ℝ) (h : x ^ 2 + y ^ 2 = 1) (mp m : ℤ) (hmp : mp.natAbs ≤ 2) (hm : m.natAbs ≤ 2) :
    ((d2doc (x ^ 2 - y ^ 2) (2 * x * y) mp m : ℝ) : ℂ) = D2doc (x : ℂ) (y : ℂ) mp m := by
  have hC : (x : ℂ) ^ 2 + (y : ℂ) ^ 2 = 1 := by
    rw [← Complex.ofReal_pow, ← Complex.ofReal_pow, ← Complex.ofReal_add, h]; simp
  have cx : conj (x : ℂ) = x := Complex.conj_ofReal x
  have cy : conj (y : ℂ) = y := Complex.conj_ofReal y
  have h1 : mp = -2 ∨ mp = -1 ∨ mp = 0 ∨ mp = 1 ∨ mp = 2 := by omega
  have h2 : m = -2 ∨ m = -1 ∨ m = 0 ∨ m = 1 ∨ m = 2 := by omega
  rcases h1 with rfl | rfl | rfl | rfl | rfl <;> rcases h2 with rfl | rfl | rfl | rfl | rfl
  · show (((1 + (x ^ 2 - y ^ 2)) ^ 2 / 4 : ℝ) : ℂ) =
      conj (x : ℂ) ^ 4
    push_cast; grind
  · show (((1 + (x ^ 2 - y ^ 2)) * (2 * x * y) / 2 : ℝ) : ℂ) =
      2 * conj (x : ℂ) ^ 3 * (y : ℂ)
    push_cast; grind
  · show (((2 * x * y) ^ 2 * Real.sqrt 6 / 4 : ℝ) : ℂ) =
      (Real.sqrt 6 : ℂ) * conj (x : ℂ) ^ 2 * (y : ℂ) ^ 2
    push_cast; grind
  · show (((1 - (x ^ 2 - y ^ 2)) * (2 * x * y) / 2 : ℝ) : ℂ) =
      2 * conj (x : ℂ) * (y : ℂ) ^ 3
    push_cast; grind
  · show (((1 - (x ^ 2 - y ^ 2)) ^ 2 / 4 : ℝ) : ℂ) =
      (y : ℂ) ^ 4
    push_cast; grind
  · show ((-((1 + (x ^ 2 - y ^ 2)) * (2 * x * y) / 2) : ℝ) : ℂ) =
      -(2 * conj (x : ℂ) ^ 3 * conj (y : ℂ))
    push_cast; grind
  · show (((2 * (x ^ 2 - y ^ 2) ^ 2 + (x ^ 2 - y ^ 2) - 1) / 2 : ℝ) : ℂ) =
      conj (x : ℂ) ^ 2 * (((x : ℂ) * conj (x : ℂ)) - 3 * ((y : ℂ) * conj (y : ℂ)))
    push_cast; grind
  · show (((x ^ 2 - y ^ 2) * (2 * x * y) * Real.sqrt 6 / 2 : ℝ) : ℂ) =
      (Real.sqrt 6 : ℂ) * conj (x : ℂ) * (y : ℂ) * (((x : ℂ) * conj (x : ℂ)) - ((y : ℂ) * conj (y : ℂ)))
    push_cast; grind
  · show (((1 + (x ^ 2 - y ^ 2) - 2 * (x ^ 2 - y ^ 2) ^ 2) / 2 : ℝ) : ℂ) =
      (y : ℂ) ^ 2 * (3 * ((x : ℂ) * conj (x : ℂ)) - ((y : ℂ) * conj (y : ℂ)))
    push_cast; grind
  · show (((1 - (x ^ 2 - y ^ 2)) * (2 * x * y) / 2 : ℝ) : ℂ) =
      2 * (x : ℂ) * (y : ℂ) ^ 3
    push_cast; grind
  · show (((2 * x * y) ^ 2 * Real.sqrt 6 / 4 : ℝ) : ℂ) =
      (Real.sqrt 6 : ℂ) * conj (x : ℂ) ^ 2 * conj (y : ℂ) ^ 2
    push_cast; grind
  · show ((-((x ^ 2 - y ^ 2) * (2 * x * y) * Real.sqrt 6 / 2) : ℝ) : ℂ) =
      -((Real.sqrt 6 : ℂ) * conj (x : ℂ) * conj (y : ℂ) * (((x : ℂ) * conj (x : ℂ)) - ((y : ℂ) * conj (y : ℂ))))
    push_cast; grind
  · show (((3 * (x ^ 2 - y ^ 2) ^ 2 - 1) / 2 : ℝ) : ℂ) =
      ((x : ℂ) * conj (x : ℂ)) ^ 2 - 4 * ((x : ℂ) * conj (x : ℂ)) * ((y : ℂ) * conj (y : ℂ)) + ((y : ℂ) * conj (y : ℂ)) ^ 2
    push_cast; grind
  · show (((x ^ 2 - y ^ 2) * (2 * x * y) * Real.sqrt 6 / 2 : ℝ) : ℂ) =
      (Real.sqrt 6 : ℂ) * (x : ℂ) * (y : ℂ) * (((x : ℂ) * conj (x : ℂ)) - ((y : ℂ) * conj (y : ℂ)))
    push_cast; grind
  · show (((2 * x * y) ^ 2 * Real.sqrt 6 / 4 : ℝ) : ℂ) =
      (Real.sqrt 6 : ℂ) * (x : ℂ) ^ 2 * (y : ℂ) ^ 2
    push_cast; grind
  · show ((-((1 - (x ^ 2 - y ^ 2)) * (2 * x * y) / 2) : ℝ) : ℂ) =
      -(2 * conj (x : ℂ) * conj (y : ℂ) ^ 3)
    push_cast; grind
  · show (((1 + (x ^ 2 - y ^ 2) - 2 * (x ^ 2 - y ^ 2) ^ 2) / 2 : ℝ) : ℂ) =
      conj (y : ℂ) ^ 2 * (3 * ((x : ℂ) * conj (x : ℂ)) - ((y : ℂ) * conj (y : ℂ)))
    push_cast; grind
  · show ((-((x ^ 2 - y ^ 2) * (2 * x * y) * Real.sqrt 6 / 2) : ℝ) : ℂ) =
      -((Real.sqrt 6 : ℂ) * (x : ℂ) * conj (y : ℂ) * (((x : ℂ) * conj (x : ℂ)) - ((y : ℂ) * conj (y : ℂ))))
    push_cast; grind
  · show (((2 * (x ^ 2 - y ^ 2) ^ 2 + (x ^ 2 - y ^ 2) - 1) / 2 : ℝ) : ℂ) =
      (x : ℂ) ^ 2 * (((x : ℂ) * conj (x : ℂ)) - 3 * ((y : ℂ) * conj (y : ℂ)))
    push_cast; grind
  · show (((1 + (x ^ 2 - y ^ 2)) * (2 * x * y) / 2 : ℝ) : ℂ) =
      2 * (x : ℂ) ^ 3 * (y : ℂ)
    push_cast; grind
  · show (((1 - (x ^ 2 - y ^ 2)) ^ 2 / 4 : ℝ) : ℂ) =
      conj (y : ℂ) ^ 4
    push_cast; grind
  · show ((-((1 - (x ^ 2 - y ^ 2)) * (2 * x * y) / 2) : ℝ) : ℂ) =
      -(2 * (x : ℂ) * conj (y : ℂ) ^ 3)
    push_cast; grind
  · show (((2 * x * y) ^ 2 * Real.sqrt 6 / 4 : ℝ) : ℂ) =
      (Real.sqrt 6 : ℂ) * (x : ℂ) ^ 2 * conj (y : ℂ) ^ 2
    push_cast; grind
  · show ((-((1 + (x ^ 2 - y ^ 2)) * (2 * x * y) / 2) : ℝ) : ℂ) =
      -(2 * (x : ℂ) ^ 3 * conj (y : ℂ))
    push_cast; grind
  · show (((1 + (x ^ 2 - y ^ 2)) ^ 2 / 4 : ℝ) : ℂ) =
      (x : ℂ) ^ 4
    push_cast; grind

end DDef2
