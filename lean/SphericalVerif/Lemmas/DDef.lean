import SphericalVerif.Model.Object
import SphericalVerif.Spec.ValH
import SphericalVerif.Lemmas.HRefine6
import SphericalVerif.Lemmas.Object
import SphericalVerif.Lemmas.RealScalar
import SphericalVerif.Lemmas.CPow
import SphericalVerif.Lemmas.Horner
import Mathlib.Analysis.Real.Sqrt
import Mathlib.Data.Complex.Basic
import Mathlib.Tactic.Ring
import Mathlib.Tactic.Linarith
import Mathlib.Tactic.NormNum
import Mathlib.Tactic.FieldSimp
import Mathlib.Tactic.LinearCombination
import Mathlib.Data.Nat.Factorial.Basic
import Mathlib.Data.Nat.Choose.Basic
/-! Helper lemmas for `Props/DDef.lean`: at `α := ℝ` the object-level model `Model.objD` of `Wigner.D`
    computes, for ℓ = 0 and ℓ = 1, the polynomial in R_a = w + i z, R_b = y + i x that
    docs/WignerDMatrices.md of the library documents. -/
noncomputable section
namespace DDef
open Model Spec Horner
open scoped ComplexConjugate Nat
set_option linter.unusedSimpArgs false

/-! ### square roots of small numerals -/

theorem sqrt_of_sq {x y : ℝ} (hy : 0 ≤ y) (h : y * y = x) : Real.sqrt x = y := by
  rw [← h]; exact Real.sqrt_mul_self hy

theorem s4 : Real.sqrt 4 = 2 := sqrt_of_sq (by norm_num) (by norm_num)
theorem s6 : Real.sqrt 6 = Real.sqrt 2 * Real.sqrt 3 := by
  rw [← Real.sqrt_mul (by norm_num)]; norm_num
theorem s10 : Real.sqrt 10 = Real.sqrt 2 * Real.sqrt 5 := by
  rw [← Real.sqrt_mul (by norm_num)]; norm_num
theorem s15 : Real.sqrt 15 = Real.sqrt 3 * Real.sqrt 5 := by
  rw [← Real.sqrt_mul (by norm_num)]; norm_num

theorem r2 : Real.sqrt 2 ^ 2 = 2 := Real.sq_sqrt (by norm_num)
theorem r3 : Real.sqrt 3 ^ 2 = 3 := Real.sq_sqrt (by norm_num)
theorem r5 : Real.sqrt 5 ^ 2 = 5 := Real.sq_sqrt (by norm_num)
theorem p2 : 0 < Real.sqrt 2 := Real.sqrt_pos.mpr (by norm_num)
theorem p3 : 0 < Real.sqrt 3 := Real.sqrt_pos.mpr (by norm_num)
theorem p5 : 0 < Real.sqrt 5 := Real.sqrt_pos.mpr (by norm_num)

section
variable {α : Type} [Scalar α]
theorem rawD_0 (c s : α) (n : Nat) : rawD c s n 0 = topU n := rfl
theorem rawD_1 (c s : α) (n : Nat) :
    rawD c s n 1 = Scalar.mul (Scalar.mul (gC (n : Int) ((n : Int) - 1)) c) (topU n) := rfl
theorem rawD_succ2 (c s : α) (n j : Nat) :
    rawD c s n (j+2) =
      Scalar.sub (Scalar.mul (Scalar.mul (gC (n : Int) ((n : Int) - ((j+2 : Nat) : Int))) c) (rawD c s n (j+1)))
        (Scalar.mul (Scalar.mul (hC (n : Int) ((n : Int) - ((j+2 : Nat) : Int))) (Scalar.mul s s)) (rawD c s n j)) := rfl
end

/-! ### the values of the H recursion for n ≤ 1 (and row 2 of the m' = 0 column, which step 3 reads) -/

section valH
variable (c s : ℝ)

theorem valW_0_0_0 : valW c s 0 0 0 = 1 := by
  simp [valW, valPos, col0]

/-- H¹(0,0) = cos β -/
theorem valW_1_0_0 : valW c s 1 0 0 = c := by
  simp only [valW, valPos, col0, gC, le_refl, if_true, Int.toNat_zero, RealScalar.mul_def, RealScalar.div_def,
    RealScalar.sqrt_def, RealScalar.ofInt_def, RealScalar.one_def]
  have h0 := p2.ne'
  norm_num
  field_simp

/-- H¹(0,1) = sin β / √2 -/
theorem valW_1_0_1 : valW c s 1 0 1 = s / Real.sqrt 2 := by
  simp only [valW, valPos, col0, topN, topU, preS, le_refl, if_true, Int.toNat_zero, RealScalar.mul_def,
    RealScalar.div_def, RealScalar.sqrt_def, RealScalar.ofInt_def, RealScalar.one_def]
  norm_num
  rw [s6]
  have := p2.ne'; have := p3.ne'
  field_simp

theorem col0_2_2 : col0 c s 2 2 = s^2 * Real.sqrt 6 / 4 := by
  simp only [col0, topN, topU, preS, RealScalar.mul_def, RealScalar.div_def,
    RealScalar.sqrt_def, RealScalar.ofInt_def, RealScalar.one_def, RealScalar.add_def, RealScalar.half_def]
  norm_num
  rw [s4, s6, s10]
  have h2 := r2
  have := p2.ne'; have := p3.ne'; have := p5.ne'
  field_simp
  linear_combination (-2 * s^2) * h2

theorem col0_2_1 : col0 c s 2 1 = c * s * Real.sqrt 6 / 2 := by
  simp only [col0, preS, cnorm, RealScalar.mul_def, RealScalar.div_def,
    RealScalar.sqrt_def, RealScalar.ofInt_def, RealScalar.one_def]
  norm_num [rawD_1, topU, gC]
  rw [s4, s6, s10]
  have h2 := r2
  have := p2.ne'; have := p3.ne'; have := p5.ne'
  field_simp
  linear_combination (-c * s) * h2

/-- H²(0,0) = (3cos²β − 1)/2 when sin² + cos² = 1; as computed: cos²β − sin²β/2 -/
theorem col0_2_0 : col0 c s 2 0 = c^2 - s^2/2 := by
  simp only [col0, cnorm, bot0, RealScalar.mul_def, RealScalar.div_def,
    RealScalar.sqrt_def, RealScalar.ofInt_def, RealScalar.one_def, RealScalar.sub_def]
  norm_num [rawD_0, rawD_1, topU, gC, hC]
  rw [s4, s6, s10]
  have h2 := r2
  have := p2.ne'; have := p3.ne'; have := p5.ne'
  field_simp
  linear_combination (-2 * c^2) * h2

/-- H¹(1,1) = −(1 + cos β)/2 -/
theorem valW_1_1_1 (h : c^2 + s^2 = 1) : valW c s 1 1 1 = -(1 + c) / 2 := by
  have e : valW c s 1 1 1 = f3 c s 1 0 (col0 c s 2 2) (col0 c s 2 0) (col0 c s 2 1) := by
    simp [valW, valPos]
  rw [e, col0_2_2, col0_2_1, col0_2_0]
  simp only [f3, aC, bC, RealScalar.mul_def, RealScalar.div_def, RealScalar.sqrt_def, RealScalar.ofInt_def,
    RealScalar.one_def, RealScalar.add_def, RealScalar.sub_def, RealScalar.half_def]
  norm_num
  rw [s4, s6, s15]
  have h3 := r3
  have := p2.ne'; have := p3.ne'; have := p5.ne'
  field_simp
  rw [h3]
  linear_combination (-8 * (1 + c)) * h

/-- H¹(−1,1) = (1 − cos β)/2 -/
theorem valW_1_m1_1 (h : c^2 + s^2 = 1) : valW c s 1 (-1) 1 = (1 - c) / 2 := by
  have e : valW c s 1 (-1) 1 = f5top 1 0 (valW c s 1 1 1) (valW c s 1 0 0) := by
    simp [valW, valNeg, valPos]
  rw [e, valW_1_1_1 c s h, valW_1_0_0]
  simp only [f5top, dC, RealScalar.mul_def, RealScalar.div_def, RealScalar.sqrt_def, RealScalar.ofInt_def,
    RealScalar.one_def, RealScalar.add_def, RealScalar.half_def]
  have := p2.ne'
  norm_num
  field_simp
  ring

end valH

/-! ### `to_euler_phases` at ℝ -/

theorem div_ofRe (a : Cx ℝ) (x : ℝ) : Cx.div a (Cx.ofRe x) = ⟨a.re / x, a.im / x⟩ := by
  unfold Cx.div Cx.ofRe
  simp

/-- `zp` of `to_euler_phases` at ℝ -/
def zpR (R0 R3 : ℝ) : Cx ℝ :=
  if 0 < Real.sqrt (R0 * R0 + R3 * R3) then
    ⟨R0 / Real.sqrt (R0 * R0 + R3 * R3), R3 / Real.sqrt (R0 * R0 + R3 * R3)⟩ else ⟨1, 0⟩

/-- `zm` of `to_euler_phases` at ℝ -/
def zmR (R1 R2 : ℝ) : Cx ℝ :=
  if 0 < Real.sqrt (R1 * R1 + R2 * R2) then
    ⟨R2 / Real.sqrt (R1 * R1 + R2 * R2), -R1 / Real.sqrt (R1 * R1 + R2 * R2)⟩ else ⟨1, 0⟩

theorem eulerPhases_eq (R0 R1 R2 R3 : ℝ) :
    eulerPhases R0 R1 R2 R3 =
      (Cx.mul (zpR R0 R3) (zmR R1 R2),
       ⟨((R0 * R0 + R3 * R3) - (R1 * R1 + R2 * R2)) / ((R0 * R0 + R3 * R3) + (R1 * R1 + R2 * R2)),
        2 * Real.sqrt (R0 * R0 + R3 * R3) * Real.sqrt (R1 * R1 + R2 * R2)
          / ((R0 * R0 + R3 * R3) + (R1 * R1 + R2 * R2))⟩,
       Cx.mul (zpR R0 R3) (Cx.conj (zmR R1 R2))) := by
  unfold eulerPhases zpR zmR
  simp only [div_ofRe, RealScalar.mul_def, RealScalar.add_def, RealScalar.sub_def, RealScalar.sqrt_def,
    RealScalar.lt_def, RealScalar.abs_def, RealScalar.zero_def, abs_of_nonneg (Real.sqrt_nonneg _), decide_eq_true_eq]
  simp only [Cx.ofRe, Cx.add, Cx.sub, Cx.mulr, Cx.mul, Cx.I, Cx.oneC, RealScalar.mul_def, RealScalar.add_def,
    RealScalar.sub_def, RealScalar.zero_def, RealScalar.one_def, RealScalar.ofInt_def]
  norm_num

theorem toC_eq (w : Cx ℝ) : toC w = CPow.toC w := rfl

/-- every entry of the `_complex_powers` array of a unit-modulus z, read the way the fill kernels read it -/
theorem cpowers_cget (z : Cx ℝ) (hz : z.re ^ 2 + z.im ^ 2 = 1) (M : Nat) (imsqrt : Cx ℝ → ℝ)
    (hs : ∀ w : Cx ℝ, w.re ^ 2 + w.im ^ 2 = 1 → 2 * (imsqrt w) ^ 2 = 1 - w.re) :
    ∀ k ≤ M, toC (cget (cpowers z M imsqrt) k) = toC z ^ k := by
  intro k hk
  obtain ⟨hsz, h⟩ := CPow.cpowers_exact z hz M imsqrt
    (hs _ (by rw [(CPow.quadrant_spec z).2.2.2.2.1, hz]))
  obtain ⟨e, he, hp⟩ := h k hk
  rw [CPow.getElem?_eq_cget _ _ (by omega)] at he
  cases he
  exact hp

theorem zpR_spec (R0 R3 : ℝ) :
    ((Real.sqrt (R0 * R0 + R3 * R3) : ℝ) : ℂ) * toC (zpR R0 R3) = ⟨R0, R3⟩
    ∧ (zpR R0 R3).re ^ 2 + (zpR R0 R3).im ^ 2 = 1 := by
  unfold zpR
  by_cases h : 0 < Real.sqrt (R0 * R0 + R3 * R3)
  · rw [if_pos h]
    have hsq : Real.sqrt (R0 * R0 + R3 * R3) ^ 2 = R0 * R0 + R3 * R3 :=
      Real.sq_sqrt (by nlinarith [sq_nonneg R0, sq_nonneg R3])
    generalize Real.sqrt (R0 * R0 + R3 * R3) = r at *
    have hr : r ≠ 0 := h.ne'
    constructor
    · apply Complex.ext <;> simp <;> field_simp
    · simp only []
      field_simp
      linarith
  · rw [if_neg h]
    have h0 : Real.sqrt (R0 * R0 + R3 * R3) = 0 := le_antisymm (not_lt.mp h) (Real.sqrt_nonneg _)
    have ha : R0 * R0 + R3 * R3 ≤ 0 := Real.sqrt_eq_zero'.mp h0
    have e0 : R0 = 0 := by nlinarith [sq_nonneg R0, sq_nonneg R3]
    have e3 : R3 = 0 := by nlinarith [sq_nonneg R0, sq_nonneg R3]
    rw [h0]
    constructor
    · apply Complex.ext <;> simp [e0, e3]
    · norm_num

theorem zmR_spec (R1 R2 : ℝ) :
    ((Real.sqrt (R1 * R1 + R2 * R2) : ℝ) : ℂ) * toC (zmR R1 R2) = ⟨R2, -R1⟩
    ∧ (zmR R1 R2).re ^ 2 + (zmR R1 R2).im ^ 2 = 1 := by
  unfold zmR
  by_cases h : 0 < Real.sqrt (R1 * R1 + R2 * R2)
  · rw [if_pos h]
    have hsq : Real.sqrt (R1 * R1 + R2 * R2) ^ 2 = R1 * R1 + R2 * R2 :=
      Real.sq_sqrt (by nlinarith [sq_nonneg R1, sq_nonneg R2])
    generalize Real.sqrt (R1 * R1 + R2 * R2) = r at *
    have hr : r ≠ 0 := h.ne'
    constructor
    · apply Complex.ext <;> simp <;> field_simp
    · simp only []
      field_simp
      linarith
  · rw [if_neg h]
    have h0 : Real.sqrt (R1 * R1 + R2 * R2) = 0 := le_antisymm (not_lt.mp h) (Real.sqrt_nonneg _)
    have ha : R1 * R1 + R2 * R2 ≤ 0 := Real.sqrt_eq_zero'.mp h0
    have e1 : R1 = 0 := by nlinarith [sq_nonneg R1, sq_nonneg R2]
    have e2 : R2 = 0 := by nlinarith [sq_nonneg R1, sq_nonneg R2]
    rw [h0]
    constructor
    · apply Complex.ext <;> simp [e1, e2]
    · norm_num

theorem mul_unit (a b : Cx ℝ) (ha : a.re ^ 2 + a.im ^ 2 = 1) (hb : b.re ^ 2 + b.im ^ 2 = 1) :
    (Cx.mul a b).re ^ 2 + (Cx.mul a b).im ^ 2 = 1 := by
  simp only [Cx.mul, RealScalar.mul_def, RealScalar.add_def, RealScalar.sub_def]
  have : (a.re * b.re - a.im * b.im) ^ 2 + (a.re * b.im + a.im * b.re) ^ 2
      = (a.re ^ 2 + a.im ^ 2) * (b.re ^ 2 + b.im ^ 2) := by ring
  rw [this, ha, hb]; norm_num

theorem conj_unit (a : Cx ℝ) (ha : a.re ^ 2 + a.im ^ 2 = 1) :
    (Cx.conj a).re ^ 2 + (Cx.conj a).im ^ 2 = 1 := by
  simp only [Cx.conj, RealScalar.neg_def]
  rw [neg_sq]; exact ha

/-- cos β and sin β as `to_euler_phases` computes them for a unit quaternion -/
def cosB (R0 R1 R2 R3 : ℝ) : ℝ := (R0 * R0 + R3 * R3) - (R1 * R1 + R2 * R2)
def sinB (R0 R1 R2 R3 : ℝ) : ℝ := 2 * Real.sqrt (R0 * R0 + R3 * R3) * Real.sqrt (R1 * R1 + R2 * R2)

theorem eulerPhases_unit (R0 R1 R2 R3 : ℝ) (hR : R0 ^ 2 + R1 ^ 2 + R2 ^ 2 + R3 ^ 2 = 1) :
    eulerPhases R0 R1 R2 R3 =
      (Cx.mul (zpR R0 R3) (zmR R1 R2), ⟨cosB R0 R1 R2 R3, sinB R0 R1 R2 R3⟩,
       Cx.mul (zpR R0 R3) (Cx.conj (zmR R1 R2))) := by
  rw [eulerPhases_eq]
  have h1 : (R0 * R0 + R3 * R3) + (R1 * R1 + R2 * R2) = 1 := by linarith
  rw [h1, div_one, div_one]
  rfl

theorem cos_sin_unit (R0 R1 R2 R3 : ℝ) (hR : R0 ^ 2 + R1 ^ 2 + R2 ^ 2 + R3 ^ 2 = 1) :
    cosB R0 R1 R2 R3 ^ 2 + sinB R0 R1 R2 R3 ^ 2 = 1 := by
  unfold cosB sinB
  have ha : 0 ≤ R0 * R0 + R3 * R3 := by nlinarith [sq_nonneg R0, sq_nonneg R3]
  have hb : 0 ≤ R1 * R1 + R2 * R2 := by nlinarith [sq_nonneg R1, sq_nonneg R2]
  have h1 : (R0 * R0 + R3 * R3) + (R1 * R1 + R2 * R2) = 1 := by linarith
  have e : (2 * Real.sqrt (R0 * R0 + R3 * R3) * Real.sqrt (R1 * R1 + R2 * R2)) ^ 2
      = 4 * (R0 * R0 + R3 * R3) * (R1 * R1 + R2 * R2) := by
    rw [mul_pow, mul_pow, Real.sq_sqrt ha, Real.sq_sqrt hb]; ring
  rw [e]
  generalize R0 * R0 + R3 * R3 = a at *
  generalize R1 * R1 + R2 * R2 = b at *
  have : (a - b) ^ 2 + 4 * a * b = (a + b) ^ 2 := by ring
  rw [this, h1]; norm_num

section master
variable {μ : Type} [Mem μ ℝ] [LawfulMem μ ℝ]

/-- the entry of `Wigner.D` in closed product form, for every ℓ: sign · H-recursion value · phase powers -/
theorem objD_eq (L : ℕ) (st : μ) (R0 R1 R2 R3 : ℝ) (hR : R0 ^ 2 + R1 ^ 2 + R2 ^ 2 + R3 ^ 2 = 1)
    (imsqrt : Cx ℝ → ℝ)
    (hs : ∀ w : Cx ℝ, w.re ^ 2 + w.im ^ 2 = 1 → 2 * (imsqrt w) ^ 2 = 1 - w.re)
    (ell : ℕ) (hl : ell ≤ L) (mp m : ℤ) (hmp : mp.natAbs ≤ ell) (hm : m.natAbs ≤ ell) :
    toC (objD L st R0 R1 R2 R3 imsqrt ell mp m) =
      ((eps mp * eps (-m) : ℤ) : ℂ)
        * ((valW (cosB R0 R1 R2 R3) (sinB R0 R1 R2 R3) ell (wedgeRep mp m).1 (wedgeRep mp m).2.toNat : ℝ) : ℂ)
        * pw (toC (Cx.mul (zpR R0 R3) (Cx.conj (zmR R1 R2)))) m
        * pw (toC (Cx.mul (zpR R0 R3) (zmR R1 R2))) mp := by
  unfold objD
  rw [eulerPhases_unit R0 R1 R2 R3 hR]
  simp only []
  have up := (zpR_spec R0 R3).2
  have um := (zmR_spec R1 R2).2
  rw [toC_DEntry,
    apw_eq_pw (cpowers_cget _ (mul_unit _ _ up (conj_unit _ um)) L imsqrt hs) (by omega),
    apw_eq_pw (cpowers_cget _ (mul_unit _ _ up um) L imsqrt hs) (by omega)]
  unfold Hat
  simp only []
  have h1 := Lemmas.Object.wedgeRep_fst_le mp m
  have h2 := Lemmas.Object.wedgeRep_fst_le_snd mp m
  have h3 := Lemmas.Object.wedgeRep_snd_le mp m ell hmp hm
  rw [HRefine.runH_refines L L _ _ st ell _ _ hl (by omega) h2 h3]
end master

/-! ### ℓ = 1: the nine entries -/

theorem unit_mul_conj (z : Cx ℝ) (h : z.re ^ 2 + z.im ^ 2 = 1) : toC z * conj (toC z) = 1 := by
  rw [Complex.mul_conj]
  have : Complex.normSq (toC z) = 1 := by
    rw [Complex.normSq_apply]; simp only [toC_re, toC_im]; linarith
  rw [this]; simp

/-- R_a = w + i z and R_b = y + i x of docs/WignerDMatrices.md -/
def Ra (R0 R3 : ℝ) : ℂ := ⟨R0, R3⟩
def Rb (R1 R2 : ℝ) : ℂ := ⟨R2, R1⟩

/-- everything the ℓ = 1 computation needs to know about the phases, in one package -/
theorem phase_facts (R0 R1 R2 R3 : ℝ) (hR : R0 ^ 2 + R1 ^ 2 + R2 ^ 2 + R3 ^ 2 = 1) :
    ∃ (sa sb : ℝ) (P M : ℂ), toC (zpR R0 R3) = P ∧ toC (zmR R1 R2) = M ∧
      (sa : ℂ) ^ 2 + (sb : ℂ) ^ 2 = 1 ∧ P * conj P = 1 ∧ M * conj M = 1 ∧
      Ra R0 R3 = sa * P ∧ Rb R1 R2 = sb * conj M ∧
      (1 + cosB R0 R1 R2 R3) / 2 = sa ^ 2 ∧ (1 - cosB R0 R1 R2 R3) / 2 = sb ^ 2 ∧
      cosB R0 R1 R2 R3 = sa ^ 2 - sb ^ 2 ∧ sinB R0 R1 R2 R3 = 2 * sa * sb := by
  have ha : 0 ≤ R0 * R0 + R3 * R3 := by nlinarith [sq_nonneg R0, sq_nonneg R3]
  have hb : 0 ≤ R1 * R1 + R2 * R2 := by nlinarith [sq_nonneg R1, sq_nonneg R2]
  have h1 : (R0 * R0 + R3 * R3) + (R1 * R1 + R2 * R2) = 1 := by linarith
  have qa := Real.sq_sqrt ha
  have qb := Real.sq_sqrt hb
  refine ⟨Real.sqrt (R0 * R0 + R3 * R3), Real.sqrt (R1 * R1 + R2 * R2), _, _, rfl, rfl, ?_,
    unit_mul_conj _ (zpR_spec R0 R3).2, unit_mul_conj _ (zmR_spec R1 R2).2, (zpR_spec R0 R3).1.symm, ?_, ?_, ?_, ?_, rfl⟩
  · rw [← Complex.ofReal_pow, ← Complex.ofReal_pow, ← Complex.ofReal_add, qa, qb, h1]; simp
  · have := congrArg conj (zmR_spec R1 R2).1
    rw [map_mul, Complex.conj_ofReal] at this
    rw [this]
    apply Complex.ext <;> simp [Rb]
  · rw [qa]; unfold cosB; linarith
  · rw [qb]; unfold cosB; linarith
  · rw [qa, qb]; rfl

theorem pw_one (z : ℂ) : pw z 1 = z := by unfold pw; simp
theorem pw_neg_one (z : ℂ) : pw z (-1) = conj z := by unfold pw; simp

theorem sqrt2C_sq : ((Real.sqrt 2 : ℝ) : ℂ) ^ 2 = 2 := by
  rw [← Complex.ofReal_pow, r2]; simp
theorem sqrt2C_ne : ((Real.sqrt 2 : ℝ) : ℂ) ≠ 0 := by
  rw [Ne, Complex.ofReal_eq_zero]; exact p2.ne'

section entries
set_option linter.unusedSimpArgs false
variable {μ : Type} [Mem μ ℝ] [LawfulMem μ ℝ]
variable (L : ℕ) (st : μ) (R0 R1 R2 R3 : ℝ) (hR : R0 ^ 2 + R1 ^ 2 + R2 ^ 2 + R3 ^ 2 = 1)
    (imsqrt : Cx ℝ → ℝ)
    (hs : ∀ w : Cx ℝ, w.re ^ 2 + w.im ^ 2 = 1 → 2 * (imsqrt w) ^ 2 = 1 - w.re) (hl : 1 ≤ L)
include hR hs hl


theorem D1_m1_m1 : toC (objD L st R0 R1 R2 R3 imsqrt 1 (-1) (-1)) = conj (Ra R0 R3) ^ 2 := by
  rw [objD_eq L st R0 R1 R2 R3 hR imsqrt hs 1 hl (-1) (-1) (by decide) (by decide)]
  obtain ⟨sa, sb, P, M, eP, eM, h1, hP, hM, hA, hB, hca, hcb, hc, hsn⟩ := phase_facts R0 R1 R2 R3 hR
  have w : wedgeRep (-1) (-1) = (1, 1) := by decide
  have e : eps (-1) * eps (-(-1)) = -1 := by decide
  rw [w, e]
  simp only [Int.toNat_one, Int.toNat_zero]
  rw [valW_1_1_1 _ _ (cos_sin_unit R0 R1 R2 R3 hR)]
  simp only [pw_one, pw_neg_one, pw_zero, toC_mul, toC_conj, eP, eM, hA, hB, hc, hsn, map_mul, Complex.conj_ofReal,
    Complex.conj_conj]
  push_cast
  linear_combination ((1 + (sa:ℂ)^2 - (sb:ℂ)^2) / 2 * (conj P)^2) * hM - ((conj P)^2 / 2) * h1

theorem D1_m1_z : toC (objD L st R0 R1 R2 R3 imsqrt 1 (-1) (0)) = (Real.sqrt 2 : ℂ) * conj (Ra R0 R3) * Rb R1 R2 := by
  rw [objD_eq L st R0 R1 R2 R3 hR imsqrt hs 1 hl (-1) (0) (by decide) (by decide)]
  obtain ⟨sa, sb, P, M, eP, eM, h1, hP, hM, hA, hB, hca, hcb, hc, hsn⟩ := phase_facts R0 R1 R2 R3 hR
  have w : wedgeRep (-1) (0) = (0, 1) := by decide
  have e : eps (-1) * eps (-(0)) = 1 := by decide
  rw [w, e]
  simp only [Int.toNat_one, Int.toNat_zero]
  rw [valW_1_0_1]
  simp only [pw_one, pw_neg_one, pw_zero, toC_mul, toC_conj, eP, eM, hA, hB, hc, hsn, map_mul, Complex.conj_ofReal,
    Complex.conj_conj]
  push_cast
  have hne := sqrt2C_ne
  field_simp
  rw [sqrt2C_sq]; ring

theorem D1_m1_p1 : toC (objD L st R0 R1 R2 R3 imsqrt 1 (-1) (1)) = Rb R1 R2 ^ 2 := by
  rw [objD_eq L st R0 R1 R2 R3 hR imsqrt hs 1 hl (-1) (1) (by decide) (by decide)]
  obtain ⟨sa, sb, P, M, eP, eM, h1, hP, hM, hA, hB, hca, hcb, hc, hsn⟩ := phase_facts R0 R1 R2 R3 hR
  have w : wedgeRep (-1) (1) = (-1, 1) := by decide
  have e : eps (-1) * eps (-(1)) = 1 := by decide
  rw [w, e]
  simp only [Int.toNat_one, Int.toNat_zero]
  rw [valW_1_m1_1 _ _ (cos_sin_unit R0 R1 R2 R3 hR)]
  simp only [pw_one, pw_neg_one, pw_zero, toC_mul, toC_conj, eP, eM, hA, hB, hc, hsn, map_mul, Complex.conj_ofReal,
    Complex.conj_conj]
  push_cast
  linear_combination ((1 - (sa:ℂ)^2 + (sb:ℂ)^2) / 2 * (conj M)^2) * hP - ((conj M)^2 / 2) * h1

theorem D1_z_m1 : toC (objD L st R0 R1 R2 R3 imsqrt 1 (0) (-1)) = -(Real.sqrt 2 : ℂ) * conj (Ra R0 R3) * conj (Rb R1 R2) := by
  rw [objD_eq L st R0 R1 R2 R3 hR imsqrt hs 1 hl (0) (-1) (by decide) (by decide)]
  obtain ⟨sa, sb, P, M, eP, eM, h1, hP, hM, hA, hB, hca, hcb, hc, hsn⟩ := phase_facts R0 R1 R2 R3 hR
  have w : wedgeRep (0) (-1) = (0, 1) := by decide
  have e : eps (0) * eps (-(-1)) = -1 := by decide
  rw [w, e]
  simp only [Int.toNat_one, Int.toNat_zero]
  rw [valW_1_0_1]
  simp only [pw_one, pw_neg_one, pw_zero, toC_mul, toC_conj, eP, eM, hA, hB, hc, hsn, map_mul, Complex.conj_ofReal,
    Complex.conj_conj]
  push_cast
  have hne := sqrt2C_ne
  field_simp
  rw [sqrt2C_sq]; ring

theorem D1_z_z : toC (objD L st R0 R1 R2 R3 imsqrt 1 (0) (0)) = Ra R0 R3 * conj (Ra R0 R3) - Rb R1 R2 * conj (Rb R1 R2) := by
  rw [objD_eq L st R0 R1 R2 R3 hR imsqrt hs 1 hl (0) (0) (by decide) (by decide)]
  obtain ⟨sa, sb, P, M, eP, eM, h1, hP, hM, hA, hB, hca, hcb, hc, hsn⟩ := phase_facts R0 R1 R2 R3 hR
  have w : wedgeRep (0) (0) = (0, 0) := by decide
  have e : eps (0) * eps (-(0)) = 1 := by decide
  rw [w, e]
  simp only [Int.toNat_one, Int.toNat_zero]
  rw [valW_1_0_0]
  simp only [pw_one, pw_neg_one, pw_zero, toC_mul, toC_conj, eP, eM, hA, hB, hc, hsn, map_mul, Complex.conj_ofReal,
    Complex.conj_conj]
  push_cast
  linear_combination (-(sa:ℂ)^2) * hP + ((sb:ℂ)^2) * hM

theorem D1_z_p1 : toC (objD L st R0 R1 R2 R3 imsqrt 1 (0) (1)) = (Real.sqrt 2 : ℂ) * Ra R0 R3 * Rb R1 R2 := by
  rw [objD_eq L st R0 R1 R2 R3 hR imsqrt hs 1 hl (0) (1) (by decide) (by decide)]
  obtain ⟨sa, sb, P, M, eP, eM, h1, hP, hM, hA, hB, hca, hcb, hc, hsn⟩ := phase_facts R0 R1 R2 R3 hR
  have w : wedgeRep (0) (1) = (0, 1) := by decide
  have e : eps (0) * eps (-(1)) = 1 := by decide
  rw [w, e]
  simp only [Int.toNat_one, Int.toNat_zero]
  rw [valW_1_0_1]
  simp only [pw_one, pw_neg_one, pw_zero, toC_mul, toC_conj, eP, eM, hA, hB, hc, hsn, map_mul, Complex.conj_ofReal,
    Complex.conj_conj]
  push_cast
  have hne := sqrt2C_ne
  field_simp
  rw [sqrt2C_sq]; ring

theorem D1_p1_m1 : toC (objD L st R0 R1 R2 R3 imsqrt 1 (1) (-1)) = conj (Rb R1 R2) ^ 2 := by
  rw [objD_eq L st R0 R1 R2 R3 hR imsqrt hs 1 hl (1) (-1) (by decide) (by decide)]
  obtain ⟨sa, sb, P, M, eP, eM, h1, hP, hM, hA, hB, hca, hcb, hc, hsn⟩ := phase_facts R0 R1 R2 R3 hR
  have w : wedgeRep (1) (-1) = (-1, 1) := by decide
  have e : eps (1) * eps (-(-1)) = 1 := by decide
  rw [w, e]
  simp only [Int.toNat_one, Int.toNat_zero]
  rw [valW_1_m1_1 _ _ (cos_sin_unit R0 R1 R2 R3 hR)]
  simp only [pw_one, pw_neg_one, pw_zero, toC_mul, toC_conj, eP, eM, hA, hB, hc, hsn, map_mul, Complex.conj_ofReal,
    Complex.conj_conj]
  push_cast
  linear_combination ((1 - (sa:ℂ)^2 + (sb:ℂ)^2) / 2 * M^2) * hP - (M^2 / 2) * h1

theorem D1_p1_z : toC (objD L st R0 R1 R2 R3 imsqrt 1 (1) (0)) = -(Real.sqrt 2 : ℂ) * Ra R0 R3 * conj (Rb R1 R2) := by
  rw [objD_eq L st R0 R1 R2 R3 hR imsqrt hs 1 hl (1) (0) (by decide) (by decide)]
  obtain ⟨sa, sb, P, M, eP, eM, h1, hP, hM, hA, hB, hca, hcb, hc, hsn⟩ := phase_facts R0 R1 R2 R3 hR
  have w : wedgeRep (1) (0) = (0, 1) := by decide
  have e : eps (1) * eps (-(0)) = -1 := by decide
  rw [w, e]
  simp only [Int.toNat_one, Int.toNat_zero]
  rw [valW_1_0_1]
  simp only [pw_one, pw_neg_one, pw_zero, toC_mul, toC_conj, eP, eM, hA, hB, hc, hsn, map_mul, Complex.conj_ofReal,
    Complex.conj_conj]
  push_cast
  have hne := sqrt2C_ne
  field_simp
  rw [sqrt2C_sq]; ring

theorem D1_p1_p1 : toC (objD L st R0 R1 R2 R3 imsqrt 1 (1) (1)) = Ra R0 R3 ^ 2 := by
  rw [objD_eq L st R0 R1 R2 R3 hR imsqrt hs 1 hl (1) (1) (by decide) (by decide)]
  obtain ⟨sa, sb, P, M, eP, eM, h1, hP, hM, hA, hB, hca, hcb, hc, hsn⟩ := phase_facts R0 R1 R2 R3 hR
  have w : wedgeRep (1) (1) = (1, 1) := by decide
  have e : eps (1) * eps (-(1)) = -1 := by decide
  rw [w, e]
  simp only [Int.toNat_one, Int.toNat_zero]
  rw [valW_1_1_1 _ _ (cos_sin_unit R0 R1 R2 R3 hR)]
  simp only [pw_one, pw_neg_one, pw_zero, toC_mul, toC_conj, eP, eM, hA, hB, hc, hsn, map_mul, Complex.conj_ofReal,
    Complex.conj_conj]
  push_cast
  linear_combination ((1 + (sa:ℂ)^2 - (sb:ℂ)^2) / 2 * P^2) * hM - (P^2 / 2) * h1
end entries
/-! ### the documented definition -/

/-- binomial coefficient with integer arguments: 0 unless 0 ≤ k (and, by `Nat.choose`, k ≤ n) -/
def ichoose (n k : ℤ) : ℕ := if 0 ≤ k then Nat.choose n.toNat k.toNat else 0

/-- the definition of docs/WignerDMatrices.md, verbatim:
    D^ℓ_{m',m}(R) = √[(ℓ+m)!(ℓ−m)!/((ℓ+m')!(ℓ−m')!)] Σ_ρ C(ℓ+m',ρ) C(ℓ−m',ℓ−ρ−m) (−1)^ρ
                     R_a^{ℓ+m'−ρ} conj(R_a)^{ℓ−ρ−m} R_b^{ρ−m'+m} conj(R_b)^ρ
    (the sum over all ρ for which the binomials do not vanish: 0 ≤ ρ ≤ ℓ+m' ≤ 2ℓ). -/
def docD (ℓ : ℕ) (Ra Rb : ℂ) (mp m : ℤ) : ℂ :=
  ((Real.sqrt (((((ℓ : ℤ) + m).toNat ! * ((ℓ : ℤ) - m).toNat ! : ℕ) : ℝ)
      / ((((ℓ : ℤ) + mp).toNat ! * ((ℓ : ℤ) - mp).toNat ! : ℕ) : ℝ)) : ℝ) : ℂ) *
  ∑ ρ ∈ Finset.range (2 * ℓ + 1),
    ((ichoose ((ℓ : ℤ) + mp) ρ * ichoose ((ℓ : ℤ) - mp) ((ℓ : ℤ) - ρ - m) : ℕ) : ℂ) * (-1) ^ ρ
      * Ra ^ ((ℓ : ℤ) + mp - ρ).toNat * conj Ra ^ ((ℓ : ℤ) - ρ - m).toNat
      * Rb ^ ((ρ : ℤ) - mp + m).toNat * conj Rb ^ ρ

/-- the nine entries for ℓ = 1, rows m' = −1, 0, 1 and columns m = −1, 0, 1 -/
def D1doc (Ra Rb : ℂ) (mp m : ℤ) : ℂ :=
  if mp = -1 then
    (if m = -1 then conj Ra ^ 2 else if m = 0 then (Real.sqrt 2 : ℂ) * conj Ra * Rb else Rb ^ 2)
  else if mp = 0 then
    (if m = -1 then -(Real.sqrt 2 : ℂ) * conj Ra * conj Rb
     else if m = 0 then Ra * conj Ra - Rb * conj Rb else (Real.sqrt 2 : ℂ) * Ra * Rb)
  else
    (if m = -1 then conj Rb ^ 2 else if m = 0 then -(Real.sqrt 2 : ℂ) * Ra * conj Rb else Ra ^ 2)

theorem docD_zero (Ra Rb : ℂ) : docD 0 Ra Rb 0 0 = 1 := by
  simp [docD, ichoose]

theorem docD_one_m1_m1 (Ra Rb : ℂ) : docD 1 Ra Rb (-1) (-1) = D1doc Ra Rb (-1) (-1) := by
  simp [docD, D1doc, ichoose, Finset.sum_range_succ]
theorem docD_one_m1_z (Ra Rb : ℂ) : docD 1 Ra Rb (-1) (0) = D1doc Ra Rb (-1) (0) := by
  simp [docD, D1doc, ichoose, Finset.sum_range_succ]
  have hne := sqrt2C_ne
  field_simp
  rw [sqrt2C_sq]
theorem docD_one_m1_p1 (Ra Rb : ℂ) : docD 1 Ra Rb (-1) (1) = D1doc Ra Rb (-1) (1) := by
  simp [docD, D1doc, ichoose, Finset.sum_range_succ]
theorem docD_one_z_m1 (Ra Rb : ℂ) : docD 1 Ra Rb (0) (-1) = D1doc Ra Rb (0) (-1) := by
  simp [docD, D1doc, ichoose, Finset.sum_range_succ]
  ring1
theorem docD_one_z_z (Ra Rb : ℂ) : docD 1 Ra Rb (0) (0) = D1doc Ra Rb (0) (0) := by
  simp [docD, D1doc, ichoose, Finset.sum_range_succ]
  ring1
theorem docD_one_z_p1 (Ra Rb : ℂ) : docD 1 Ra Rb (0) (1) = D1doc Ra Rb (0) (1) := by
  simp [docD, D1doc, ichoose, Finset.sum_range_succ]
  ring1
theorem docD_one_p1_m1 (Ra Rb : ℂ) : docD 1 Ra Rb (1) (-1) = D1doc Ra Rb (1) (-1) := by
  simp [docD, D1doc, ichoose, Finset.sum_range_succ]
theorem docD_one_p1_z (Ra Rb : ℂ) : docD 1 Ra Rb (1) (0) = D1doc Ra Rb (1) (0) := by
  simp [docD, D1doc, ichoose, Finset.sum_range_succ]
  have hne := sqrt2C_ne
  field_simp
  rw [sqrt2C_sq]
theorem docD_one_p1_p1 (Ra Rb : ℂ) : docD 1 Ra Rb (1) (1) = D1doc Ra Rb (1) (1) := by
  simp [docD, D1doc, ichoose, Finset.sum_range_succ]

/-- for ℓ = 1 the documented sum is the table `D1doc` -/
theorem docD_one (Ra Rb : ℂ) (mp m : ℤ) (hmp : mp.natAbs ≤ 1) (hm : m.natAbs ≤ 1) :
    docD 1 Ra Rb mp m = D1doc Ra Rb mp m := by
  have h1 : mp = -1 ∨ mp = 0 ∨ mp = 1 := by omega
  have h2 : m = -1 ∨ m = 0 ∨ m = 1 := by omega
  rcases h1 with rfl | rfl | rfl <;> rcases h2 with rfl | rfl | rfl
  · exact docD_one_m1_m1 Ra Rb
  · exact docD_one_m1_z Ra Rb
  · exact docD_one_m1_p1 Ra Rb
  · exact docD_one_z_m1 Ra Rb
  · exact docD_one_z_z Ra Rb
  · exact docD_one_z_p1 Ra Rb
  · exact docD_one_p1_m1 Ra Rb
  · exact docD_one_p1_z Ra Rb
  · exact docD_one_p1_p1 Ra Rb

section
variable {μ : Type} [Mem μ ℝ] [LawfulMem μ ℝ]

/-- ℓ = 1: the model's entry is the documented table entry, all nine (m', m) -/
theorem objD_one_eq_table (L : ℕ) (st : μ) (R0 R1 R2 R3 : ℝ) (hR : R0 ^ 2 + R1 ^ 2 + R2 ^ 2 + R3 ^ 2 = 1)
    (imsqrt : Cx ℝ → ℝ)
    (hs : ∀ w : Cx ℝ, w.re ^ 2 + w.im ^ 2 = 1 → 2 * (imsqrt w) ^ 2 = 1 - w.re) (hl : 1 ≤ L)
    (mp m : ℤ) (hmp : mp.natAbs ≤ 1) (hm : m.natAbs ≤ 1) :
    toC (objD L st R0 R1 R2 R3 imsqrt 1 mp m) = D1doc (Ra R0 R3) (Rb R1 R2) mp m := by
  have h1 : mp = -1 ∨ mp = 0 ∨ mp = 1 := by omega
  have h2 : m = -1 ∨ m = 0 ∨ m = 1 := by omega
  rcases h1 with rfl | rfl | rfl <;> rcases h2 with rfl | rfl | rfl
  · rw [D1_m1_m1 L st R0 R1 R2 R3 hR imsqrt hs hl]; simp [D1doc]
  · rw [D1_m1_z L st R0 R1 R2 R3 hR imsqrt hs hl]; simp [D1doc]
  · rw [D1_m1_p1 L st R0 R1 R2 R3 hR imsqrt hs hl]; simp [D1doc]
  · rw [D1_z_m1 L st R0 R1 R2 R3 hR imsqrt hs hl]; simp [D1doc]
  · rw [D1_z_z L st R0 R1 R2 R3 hR imsqrt hs hl]; simp [D1doc]
  · rw [D1_z_p1 L st R0 R1 R2 R3 hR imsqrt hs hl]; simp [D1doc]
  · rw [D1_p1_m1 L st R0 R1 R2 R3 hR imsqrt hs hl]; simp [D1doc]
  · rw [D1_p1_z L st R0 R1 R2 R3 hR imsqrt hs hl]; simp [D1doc]
  · rw [D1_p1_p1 L st R0 R1 R2 R3 hR imsqrt hs hl]; simp [D1doc]

/-- ℓ = 0 -/
theorem objD_zero (L : ℕ) (st : μ) (R0 R1 R2 R3 : ℝ) (hR : R0 ^ 2 + R1 ^ 2 + R2 ^ 2 + R3 ^ 2 = 1)
    (imsqrt : Cx ℝ → ℝ)
    (hs : ∀ w : Cx ℝ, w.re ^ 2 + w.im ^ 2 = 1 → 2 * (imsqrt w) ^ 2 = 1 - w.re) :
    toC (objD L st R0 R1 R2 R3 imsqrt 0 0 0) = 1 := by
  rw [objD_eq L st R0 R1 R2 R3 hR imsqrt hs 0 (Nat.zero_le _) 0 0 (by decide) (by decide)]
  have w : wedgeRep 0 0 = (0, 0) := by decide
  have e : eps 0 * eps (-0) = 1 := by decide
  rw [w, e]
  simp only [Int.toNat_zero]
  rw [valW_0_0_0, pw_zero, pw_zero]
  simp
end
/-! ### `Wigner.d` -/

section
variable {μ : Type} [Mem μ ℝ] [LawfulMem μ ℝ]

/-- the entry of `Wigner.d` in closed form, for every ℓ: sign · H-recursion value -/
theorem objd_eq (L : ℕ) (st : μ) (c s : ℝ) (ell : ℕ) (hl : ell ≤ L) (mp m : ℤ)
    (hmp : mp.natAbs ≤ ell) (hm : m.natAbs ≤ ell) :
    objd L st c s ell mp m =
      ((eps mp * eps (-m) : ℤ) : ℝ) * valW c s ell (wedgeRep mp m).1 (wedgeRep mp m).2.toNat := by
  unfold objd dEntry Hat
  simp only [RealScalar.mul_def, RealScalar.ofInt_def]
  have h1 := Lemmas.Object.wedgeRep_fst_le mp m
  have h2 := Lemmas.Object.wedgeRep_fst_le_snd mp m
  have h3 := Lemmas.Object.wedgeRep_snd_le mp m ell hmp hm
  rw [HRefine.runH_refines L L _ _ st ell _ _ hl (by omega) h2 h3]

/-- the real d¹(β) in the library's convention (rows m' = −1, 0, 1; columns m = −1, 0, 1), c = cos β, s = sin β -/
def d1doc (c s : ℝ) (mp m : ℤ) : ℝ :=
  if mp = -1 then (if m = -1 then (1 + c) / 2 else if m = 0 then s / Real.sqrt 2 else (1 - c) / 2)
  else if mp = 0 then (if m = -1 then -(s / Real.sqrt 2) else if m = 0 then c else s / Real.sqrt 2)
  else (if m = -1 then (1 - c) / 2 else if m = 0 then -(s / Real.sqrt 2) else (1 + c) / 2)

theorem objd_one_eq_table (L : ℕ) (st : μ) (c s : ℝ) (hcs : c ^ 2 + s ^ 2 = 1) (hl : 1 ≤ L)
    (mp m : ℤ) (hmp : mp.natAbs ≤ 1) (hm : m.natAbs ≤ 1) :
    objd L st c s 1 mp m = d1doc c s mp m := by
  rw [objd_eq L st c s 1 hl mp m hmp hm]
  have h1 : mp = -1 ∨ mp = 0 ∨ mp = 1 := by omega
  have h2 : m = -1 ∨ m = 0 ∨ m = 1 := by omega
  have v11 := valW_1_1_1 c s hcs
  have vm11 := valW_1_m1_1 c s hcs
  have v01 := valW_1_0_1 c s
  have v00 := valW_1_0_0 c s
  rcases h1 with rfl | rfl | rfl <;> rcases h2 with rfl | rfl | rfl
  · have w : wedgeRep (-1) (-1) = (1, 1) := by decide
    have e : eps (-1) * eps (-(-1)) = -1 := by decide
    rw [w, e]; simp only [Int.toNat_one]; rw [v11]; simp [d1doc]; ring
  · have w : wedgeRep (-1) 0 = (0, 1) := by decide
    have e : eps (-1) * eps (-0) = 1 := by decide
    rw [w, e]; simp only [Int.toNat_one]; rw [v01]; simp [d1doc]
  · have w : wedgeRep (-1) 1 = (-1, 1) := by decide
    have e : eps (-1) * eps (-1) = 1 := by decide
    rw [w, e]; simp only [Int.toNat_one]; rw [vm11]; simp [d1doc]
  · have w : wedgeRep 0 (-1) = (0, 1) := by decide
    have e : eps 0 * eps (-(-1)) = -1 := by decide
    rw [w, e]; simp only [Int.toNat_one]; rw [v01]; simp [d1doc]
  · have w : wedgeRep 0 0 = (0, 0) := by decide
    have e : eps 0 * eps (-0) = 1 := by decide
    rw [w, e]; simp only [Int.toNat_zero]; rw [v00]; simp [d1doc]
  · have w : wedgeRep 0 1 = (0, 1) := by decide
    have e : eps 0 * eps (-1) = 1 := by decide
    rw [w, e]; simp only [Int.toNat_one]; rw [v01]; simp [d1doc]
  · have w : wedgeRep 1 (-1) = (-1, 1) := by decide
    have e : eps 1 * eps (-(-1)) = 1 := by decide
    rw [w, e]; simp only [Int.toNat_one]; rw [vm11]; simp [d1doc]
  · have w : wedgeRep 1 0 = (0, 1) := by decide
    have e : eps 1 * eps (-0) = -1 := by decide
    rw [w, e]; simp only [Int.toNat_one]; rw [v01]; simp [d1doc]
  · have w : wedgeRep 1 1 = (1, 1) := by decide
    have e : eps 1 * eps (-1) = -1 := by decide
    rw [w, e]; simp only [Int.toNat_one]; rw [v11]; simp [d1doc]; ring
end

/-- the d table is the D table on the rotors (cos β/2, 0, sin β/2, 0): R_a = x, R_b = y real -/
theorem d1doc_eq_D1doc (x y : ℝ) (h : x ^ 2 + y ^ 2 = 1) (mp m : ℤ) (hmp : mp.natAbs ≤ 1) (hm : m.natAbs ≤ 1) :
    ((d1doc (x ^ 2 - y ^ 2) (2 * x * y) mp m : ℝ) : ℂ) = D1doc (x : ℂ) (y : ℂ) mp m := by
  have h1 : mp = -1 ∨ mp = 0 ∨ mp = 1 := by omega
  have h2 : m = -1 ∨ m = 0 ∨ m = 1 := by omega
  have hne := sqrt2C_ne
  have hq := sqrt2C_sq
  have hC : (x : ℂ) ^ 2 + (y : ℂ) ^ 2 = 1 := by
    rw [← Complex.ofReal_pow, ← Complex.ofReal_pow, ← Complex.ofReal_add, h]; simp
  rcases h1 with rfl | rfl | rfl <;> rcases h2 with rfl | rfl | rfl <;>
    simp [d1doc, D1doc, Complex.conj_ofReal]
  all_goals first
    | (linear_combination (1 / 2 : ℂ) * hC)
    | (linear_combination (-1 / 2 : ℂ) * hC)
    | ring1
    | (field_simp; rw [hq]; ring1)

/-! ### the identity rotation: c = 1, s = 0, every ℓ -/

theorem preS_zero_succ (p : ℝ) (i : ℕ) : preS (0 : ℝ) p (i + 1) = 0 := by
  simp [preS]

theorem topU_succ2 (k : ℕ) :
    (topU (k + 2) : ℝ) = Real.sqrt (1 + (1 / 2) / ((k : ℝ) + 2)) * topU (k + 1) := by
  rw [topU]
  simp only [RealScalar.mul_def, RealScalar.div_def, RealScalar.sqrt_def, RealScalar.ofInt_def,
    RealScalar.add_def, RealScalar.half_def]
  push_cast
  rfl

theorem topU_one : (topU 1 : ℝ) = Real.sqrt 3 := by
  simp [topU]

theorem topU_pos : ∀ n : ℕ, 0 < (topU n : ℝ)
  | 0 => by simp [topU]
  | 1 => by rw [topU_one]; exact p3
  | k + 2 => by
    rw [topU_succ2]
    have hk : (0 : ℝ) ≤ k := Nat.cast_nonneg k
    exact mul_pos (Real.sqrt_pos.mpr (by positivity)) (topU_pos (k + 1))

/-- topU n² = 2 (2n+1)! / (4ⁿ n!²), n ≥ 1 -/
theorem topU_sq : ∀ n : ℕ, (topU (n + 1) : ℝ) ^ 2 * (4 ^ (n + 1) * ((n + 1)! : ℝ) ^ 2) = 2 * ((2 * (n + 1) + 1)! : ℝ)
  | 0 => by
    rw [topU_one, r3]; norm_num [Nat.factorial]
  | k + 1 => by
    have ih := topU_sq k
    have hk : (0 : ℝ) ≤ k := Nat.cast_nonneg k
    rw [topU_succ2, mul_pow, Real.sq_sqrt (by positivity)]
    have f1 : ((k + 1 + 1)! : ℝ) = ((k : ℝ) + 2) * ((k + 1)! : ℝ) := by
      rw [Nat.factorial_succ (k + 1)]; push_cast; ring
    have f2 : ((2 * (k + 1 + 1) + 1)! : ℝ) = (2 * (k : ℝ) + 5) * (2 * (k : ℝ) + 4) * ((2 * (k + 1) + 1)! : ℝ) := by
      have : 2 * (k + 1 + 1) + 1 = (2 * (k + 1) + 1) + 1 + 1 := by ring
      rw [this, Nat.factorial_succ, Nat.factorial_succ]; push_cast; ring
    rw [f1, f2]
    have e : 2 * ((2 * (k : ℝ) + 5) * (2 * (k : ℝ) + 4) * ((2 * (k + 1) + 1)! : ℝ))
        = (2 * (k : ℝ) + 5) * (2 * (k : ℝ) + 4) * (2 * ((2 * (k + 1) + 1)! : ℝ)) := by ring
    rw [e, ← ih]
    field_simp
    ring

/-- at (c, s) = (1, 0) the three-term recursion of step 2 collapses to a two-term one -/
theorem rawD_id_succ (n j : ℕ) :
    rawD (1 : ℝ) 0 n (j + 1) = gC (n : ℤ) ((n : ℤ) - ((j + 1 : ℕ) : ℤ)) * rawD (1 : ℝ) 0 n j := by
  cases j with
  | zero => rw [rawD_1, rawD_0]; simp
  | succ i =>
    rw [rawD_succ2]; simp
    left; congr 1

theorem gC_val (n j : ℕ) :
    (gC (n : ℤ) ((n : ℤ) - ((j + 1 : ℕ) : ℤ)) : ℝ)
      = 2 * ((n : ℝ) - j) / Real.sqrt (((j : ℝ) + 1) * (2 * (n : ℝ) - j)) := by
  unfold gC
  simp only [RealScalar.div_def, RealScalar.sqrt_def, RealScalar.ofInt_def]
  push_cast
  congr 2 <;> ring

theorem rawD_id_pos (n : ℕ) : ∀ j, j ≤ n → 0 < rawD (1 : ℝ) 0 n j
  | 0, _ => by rw [rawD_0]; exact topU_pos n
  | j + 1, h => by
    rw [rawD_id_succ, gC_val n j]
    have hjn : (j : ℝ) + 1 ≤ n := by exact_mod_cast h
    have hj0 : (0 : ℝ) ≤ j := Nat.cast_nonneg j
    have : 0 < ((j : ℝ) + 1) * (2 * (n : ℝ) - j) := by
      apply mul_pos <;> linarith
    exact mul_pos (div_pos (by linarith) (Real.sqrt_pos.mpr this)) (rawD_id_pos n j (by omega))

theorem rawD_id_sq (n : ℕ) : ∀ j, j ≤ n →
    rawD (1 : ℝ) 0 n j ^ 2 * ((j ! : ℝ) * ((2 * n).descFactorial j : ℝ))
      = topU n ^ 2 * 4 ^ j * ((n.descFactorial j : ℝ)) ^ 2
  | 0, _ => by rw [rawD_0]; simp
  | j + 1, h => by
    have ih := rawD_id_sq n j (by omega)
    rw [rawD_id_succ, gC_val n j]
    have hjn : (j : ℝ) + 1 ≤ n := by exact_mod_cast h
    have hj0 : (0 : ℝ) ≤ j := Nat.cast_nonneg j
    have hpos : 0 < ((j : ℝ) + 1) * (2 * (n : ℝ) - j) := by
      apply mul_pos <;> linarith
    have e1 : ((j + 1)! : ℝ) = ((j : ℝ) + 1) * (j ! : ℝ) := by
      rw [Nat.factorial_succ]; push_cast; ring
    have e2 : ((2 * n).descFactorial (j + 1) : ℝ) = (2 * (n : ℝ) - j) * ((2 * n).descFactorial j : ℝ) := by
      rw [Nat.descFactorial_succ, Nat.cast_mul, Nat.cast_sub (by omega)]; push_cast; ring
    have e3 : (n.descFactorial (j + 1) : ℝ) = ((n : ℝ) - j) * (n.descFactorial j : ℝ) := by
      rw [Nat.descFactorial_succ, Nat.cast_mul, Nat.cast_sub (by omega)]
    rw [e1, e2, e3, mul_pow, div_pow, Real.sq_sqrt hpos.le]
    have hn1 : (j : ℝ) + 1 ≠ 0 := by linarith
    have hn2 : 2 * (n : ℝ) - j ≠ 0 := by linarith
    field_simp
    linear_combination (4 * ((n : ℝ) - j) ^ 2) * ih

/-- the top-of-recursion value: rawD(n, n) = √(4n+2) at the identity -/
theorem rawD_id_top (n : ℕ) (hn : 1 ≤ n) : rawD (1 : ℝ) 0 n n = Real.sqrt (4 * (n : ℝ) + 2) := by
  have hsq := rawD_id_sq n n le_rfl
  have hpos := rawD_id_pos n n le_rfl
  obtain ⟨k, rfl⟩ : ∃ k, n = k + 1 := ⟨n - 1, by omega⟩
  have ht := topU_sq k
  rw [Nat.descFactorial_self] at hsq
  have hd : ((k + 1)! : ℝ) * ((2 * (k + 1)).descFactorial (k + 1) : ℝ) = ((2 * (k + 1))! : ℝ) := by
    have := Nat.factorial_mul_descFactorial (n := 2 * (k + 1)) (k := k + 1) (by omega)
    rw [show 2 * (k + 1) - (k + 1) = k + 1 by omega] at this
    exact_mod_cast this
  have hf : ((2 * (k + 1) + 1)! : ℝ) = (2 * ((k : ℝ) + 1) + 1) * ((2 * (k + 1))! : ℝ) := by
    rw [Nat.factorial_succ]; push_cast; ring
  have hfpos : (0 : ℝ) < ((2 * (k + 1))! : ℝ) := by exact_mod_cast Nat.factorial_pos _
  rw [hd] at hsq
  have h2 : rawD (1 : ℝ) 0 (k + 1) (k + 1) ^ 2 = 4 * ((k + 1 : ℕ) : ℝ) + 2 := by
    have : rawD (1 : ℝ) 0 (k + 1) (k + 1) ^ 2 * ((2 * (k + 1))! : ℝ)
        = (4 * ((k + 1 : ℕ) : ℝ) + 2) * ((2 * (k + 1))! : ℝ) := by
      rw [hsq]
      have e : topU (k + 1) ^ 2 * 4 ^ (k + 1) * ((k + 1)! : ℝ) ^ 2
          = (topU (k + 1) : ℝ) ^ 2 * (4 ^ (k + 1) * ((k + 1)! : ℝ) ^ 2) := by ring
      rw [e, ht, hf]; push_cast; ring
    exact mul_right_cancel₀ hfpos.ne' this
  rw [← h2, Real.sqrt_sq hpos.le]

theorem bot0_id (k : ℕ) : bot0 (1 : ℝ) 0 (k + 2) = 1 := by
  have ht := rawD_id_top (k + 2) (by omega)
  rw [rawD_id_succ (k + 2) (k + 1)] at ht
  unfold bot0 cnorm
  simp only [RealScalar.mul_def, RealScalar.div_def, RealScalar.sqrt_def, RealScalar.ofInt_def,
    RealScalar.sub_def, RealScalar.one_def]
  have e : k + 2 - 1 = k + 1 := by omega
  rw [e]
  have g0 : ((k + 2 : ℕ) : ℤ) - ((k + 1 + 1 : ℕ) : ℤ) = 0 := by push_cast; ring
  rw [g0] at ht
  have hk : (0 : ℝ) ≤ k := Nat.cast_nonneg k
  have hp : 0 < Real.sqrt (4 * ((k + 2 : ℕ) : ℝ) + 2) := Real.sqrt_pos.mpr (by positivity)
  simp only [mul_one, mul_zero, zero_mul, sub_zero]
  rw [ht]
  push_cast
  push_cast at hp
  field_simp

/-- the m' = 0 column of H at the identity: δ_{m,0} -/
theorem col0_id : ∀ n m : ℕ, m ≤ n → col0 (1 : ℝ) 0 n m = if m = 0 then 1 else 0
  | 0, m, h => by
    have : m = 0 := by omega
    subst this; simp [col0]
  | 1, 0, _ => by
    have := valW_1_0_0 1 0
    simpa [valW, valPos] using this
  | 1, m + 1, _ => by
    simp [col0, topN, preS]
  | k + 2, m, h => by
    rw [col0]
    by_cases h0 : m = 0
    · rw [if_pos h0, if_pos h0]; exact bot0_id k
    · rw [if_neg h0, if_neg h0]
      obtain ⟨i, rfl⟩ : ∃ i, m = i + 1 := ⟨m - 1, by omega⟩
      split
      · rw [preS_zero_succ]; simp
      · simp [topN, preS]

theorem dC_ne (n j : ℕ) (h : j < n) : (dC (n : ℤ) (j : ℤ) : ℝ) ≠ 0 := by
  unfold dC
  have hj : ¬ ((j : ℤ) < 0) := by omega
  simp only [if_neg hj, RealScalar.mul_def, RealScalar.sqrt_def, RealScalar.ofInt_def, RealScalar.half_def]
  have hjn : (j : ℝ) + 1 ≤ n := by exact_mod_cast h
  have hj0 : (0 : ℝ) ≤ j := Nat.cast_nonneg j
  have : (0 : ℝ) < (((n : ℤ) - (j : ℤ)) * ((n : ℤ) + (j : ℤ) + 1) : ℤ) := by
    push_cast; apply mul_pos <;> linarith
  exact (mul_pos (by norm_num) (Real.sqrt_pos.mpr this)).ne'

theorem bC_ne (n : ℕ) (h : 1 ≤ n) : (bC ((n : ℤ) + 1) 0 : ℝ) ≠ 0 := by
  unfold bC
  simp only [lt_irrefl, if_false, RealScalar.div_def, RealScalar.sqrt_def, RealScalar.ofInt_def]
  have hn : (1 : ℝ) ≤ n := by exact_mod_cast h
  apply (Real.sqrt_pos.mpr _).ne'
  push_cast
  apply div_pos <;> apply mul_pos <;> linarith

theorem f3_id (n i : ℕ) (x2 x0 x1 : ℝ) :
    f3 (1 : ℝ) 0 n i x2 x0 x1 = -(bC ((n : ℤ) + 1) (i : ℤ) / bC ((n : ℤ) + 1) 0) * x0 := by
  unfold f3
  simp only [RealScalar.mul_def, RealScalar.div_def, RealScalar.sub_def, RealScalar.add_def,
    RealScalar.one_def, RealScalar.half_def]
  ring

theorem f4mid_id (n mp i : ℕ) (y : ℝ) :
    f4mid n mp i (0 : ℝ) y 0 = -(dC (n : ℤ) ((mp : ℤ) - 1 + (i : ℤ)) / dC (n : ℤ) (mp : ℤ)) * y := by
  unfold f4mid
  simp only [RealScalar.mul_def, RealScalar.div_def, RealScalar.sub_def, RealScalar.add_def, RealScalar.one_def]
  ring

theorem f4top_id (n mp : ℕ) (y : ℝ) :
    f4top n mp (0 : ℝ) y = -(dC (n : ℤ) ((n : ℤ) - 1) / dC (n : ℤ) (mp : ℤ)) * y := by
  unfold f4top
  simp only [RealScalar.mul_def, RealScalar.div_def, RealScalar.sub_def, RealScalar.one_def]
  ring

/-- the columns m' = k ≥ 0 of H at the identity: (−1)^k δ_{m,k} -/
theorem valPos_id : ∀ k n m : ℕ, k ≤ m → m ≤ n →
    valPos (1 : ℝ) 0 k n m = if m = k then (-1) ^ k else 0
  | 0, n, m, _, h2 => by
    rw [valPos, col0_id n m h2]; simp
  | 1, n, 0, h1, _ => by omega
  | 1, n, i + 1, _, h2 => by
    rw [valPos, f3_id, col0_id (n + 1) i (by omega)]
    by_cases hi : i = 0
    · subst hi
      have := bC_ne n (by omega)
      simp only [Nat.cast_zero, if_true]
      field_simp
    · rw [if_neg hi, if_neg (by omega)]; simp
  | k + 2, n, m, h1, h2 => by
    rw [valPos]
    by_cases hmn : m < n
    · rw [if_pos hmn, valPos_id k n m (by omega) h2, if_neg (by omega),
        valPos_id (k + 1) n (m + 1) (by omega) (by omega), if_neg (by omega), f4mid_id,
        valPos_id (k + 1) n (m - 1) (by omega) (by omega)]
      by_cases hm : m = k + 2
      · subst hm
        have hd := dC_ne n (k + 1) (by omega)
        have e : (((k + 1 : ℕ) : ℤ) - 1 + ((k + 2 - (k + 1) : ℕ) : ℤ)) = ((k + 1 : ℕ) : ℤ) := by
          rw [show k + 2 - (k + 1) = 1 by omega]; push_cast; ring
        rw [e, if_pos (by omega), if_pos rfl, div_self hd]
        ring
      · rw [if_neg (by omega), if_neg hm]; simp
    · have hm : m = n := by omega
      subst hm
      rw [if_neg hmn, valPos_id k m m (by omega) le_rfl, if_neg (by omega), f4top_id,
        valPos_id (k + 1) m (m - 1) (by omega) (by omega)]
      by_cases hm : m = k + 2
      · subst hm
        have hd := dC_ne (k + 2) (k + 1) (by omega)
        have e : (((k + 2 : ℕ) : ℤ) - 1) = ((k + 1 : ℕ) : ℤ) := by push_cast; ring
        rw [e, if_pos (by omega), if_pos rfl, div_self hd]
        ring
      · rw [if_neg (by omega), if_neg hm]; simp

theorem f5mid_zero (n q i : ℕ) : f5mid n q i (0 : ℝ) 0 0 = 0 := by
  unfold f5mid
  simp only [RealScalar.mul_def, RealScalar.div_def, RealScalar.sub_def, RealScalar.add_def, RealScalar.one_def]
  ring

theorem f5top_zero (n q : ℕ) : f5top n q (0 : ℝ) 0 = 0 := by
  unfold f5top
  simp only [RealScalar.mul_def, RealScalar.div_def, RealScalar.add_def, RealScalar.one_def]
  ring

theorem f5mid_cancel (n : ℕ) : f5mid n 0 1 (-1 : ℝ) 1 0 = 0 := by
  unfold f5mid
  simp only [RealScalar.mul_def, RealScalar.div_def, RealScalar.sub_def, RealScalar.add_def, RealScalar.one_def]
  norm_num

theorem f5top_cancel : f5top 1 0 (-1 : ℝ) 1 = 0 := by
  unfold f5top
  simp only [RealScalar.mul_def, RealScalar.div_def, RealScalar.add_def, RealScalar.one_def]
  norm_num

/-- the columns m' = −q ≤ 0 of H at the identity: δ_{m,0} (so 0 for q ≥ 1) -/
theorem valNeg_id : ∀ q n m : ℕ, q ≤ m → m ≤ n →
    valNeg (1 : ℝ) 0 q n m = if m = 0 then 1 else 0
  | 0, n, m, _, h2 => by
    rw [valNeg, col0_id n m h2]
  | 1, n, m, h1, h2 => by
    rw [valNeg, if_neg (show ¬ m = 0 by omega)]
    have hx : valPos (1 : ℝ) 0 1 n m = if m = 1 then -1 else 0 := by
      rw [valPos_id 1 n m h1 h2]; simp
    by_cases hmn : m < n
    · rw [if_pos hmn, hx, col0_id n (m - 1) (by omega), col0_id n (m + 1) (by omega),
        if_neg (show ¬ m + 1 = 0 by omega)]
      by_cases hm : m = 1
      · subst hm; simp only [if_true, Nat.sub_self]; exact f5mid_cancel n
      · rw [if_neg hm, if_neg (show ¬ m - 1 = 0 by omega)]; exact f5mid_zero n 0 m
    · have hm : m = n := by omega
      subst hm
      rw [if_neg hmn, hx, col0_id m (m - 1) (by omega)]
      by_cases hm : m = 1
      · subst hm; simp only [if_true, Nat.sub_self]; exact f5top_cancel
      · rw [if_neg hm, if_neg (show ¬ m - 1 = 0 by omega)]; exact f5top_zero m 0
  | q + 2, n, m, h1, h2 => by
    rw [valNeg, if_neg (show ¬ m = 0 by omega)]
    by_cases hmn : m < n
    · rw [if_pos hmn, valNeg_id q n m (by omega) h2, valNeg_id (q + 1) n (m - 1) (by omega) (by omega),
        valNeg_id (q + 1) n (m + 1) (by omega) (by omega), if_neg (show ¬ m = 0 by omega),
        if_neg (show ¬ m - 1 = 0 by omega), if_neg (show ¬ m + 1 = 0 by omega)]
      exact f5mid_zero _ _ _
    · have hm : m = n := by omega
      subst hm
      rw [if_neg hmn, valNeg_id q m m (by omega) le_rfl, valNeg_id (q + 1) m (m - 1) (by omega) (by omega),
        if_neg (show ¬ m = 0 by omega), if_neg (show ¬ m - 1 = 0 by omega)]
      exact f5top_zero _ _

/-- the whole H wedge at the identity rotation (β = 0): H(n, m', m) = (−1)^m δ_{m',m} -/
theorem valW_id (n : ℕ) (mp : ℤ) (m : ℕ) (h1 : mp.natAbs ≤ m) (h2 : m ≤ n) :
    valW (1 : ℝ) 0 n mp m = if mp = (m : ℤ) then (-1) ^ m else 0 := by
  unfold valW
  by_cases hp : 0 ≤ mp
  · rw [if_pos hp, valPos_id mp.toNat n m (by omega) h2]
    by_cases hm : m = mp.toNat
    · rw [if_pos hm, if_pos (by omega), hm]
    · rw [if_neg hm, if_neg (by omega)]
  · rw [if_neg hp, valNeg_id mp.natAbs n m h1 h2, if_neg (by omega), if_neg (by omega)]

theorem wedgeRep_diag (m : ℤ) : wedgeRep m m = ((m.natAbs : ℤ), (m.natAbs : ℤ)) := by
  unfold wedgeRep
  split <;> split <;> (simp only [Prod.mk.injEq]; omega)

theorem wedgeRep_offdiag (mp m : ℤ) (h : mp ≠ m) :
    (wedgeRep mp m).1 ≠ (((wedgeRep mp m).2.toNat : ℕ) : ℤ) := by
  unfold wedgeRep
  split <;> split <;> (simp only []; omega)

theorem pw_base_one (k : ℤ) : pw 1 k = 1 := by
  unfold pw; simp

theorem identity_phases :
    cosB 1 0 0 0 = 1 ∧ sinB 1 0 0 0 = 0 ∧ zpR 1 0 = ⟨1, 0⟩ ∧ zmR 0 0 = ⟨1, 0⟩ := by
  refine ⟨by unfold cosB; norm_num, by unfold sinB; norm_num, ?_, ?_⟩
  · unfold zpR; norm_num
  · unfold zmR; norm_num

section
variable {μ : Type} [Mem μ ℝ] [LawfulMem μ ℝ]

/-- `Wigner.D` of the identity rotor (1, 0, 0, 0) is the identity matrix, for EVERY ℓ ≤ ell_max -/
theorem objD_identity (L : ℕ) (st : μ) (imsqrt : Cx ℝ → ℝ)
    (hs : ∀ w : Cx ℝ, w.re ^ 2 + w.im ^ 2 = 1 → 2 * (imsqrt w) ^ 2 = 1 - w.re)
    (ell : ℕ) (hl : ell ≤ L) (mp m : ℤ) (hmp : mp.natAbs ≤ ell) (hm : m.natAbs ≤ ell) :
    toC (objD L st 1 0 0 0 imsqrt ell mp m) = if mp = m then 1 else 0 := by
  rw [objD_eq L st 1 0 0 0 (by norm_num) imsqrt hs ell hl mp m hmp hm]
  obtain ⟨hc, hsn, hp, hmm⟩ := identity_phases
  rw [hc, hsn, hp, hmm]
  have one : toC (Cx.mul (⟨1, 0⟩ : Cx ℝ) ⟨1, 0⟩) = 1 := by
    apply Complex.ext <;> simp [Cx.mul]
  have one' : toC (Cx.mul (⟨1, 0⟩ : Cx ℝ) (Cx.conj ⟨1, 0⟩)) = 1 := by
    apply Complex.ext <;> simp [Cx.mul, Cx.conj]
  rw [one, one', pw_base_one, pw_base_one, mul_one, mul_one]
  have h1 := Lemmas.Object.wedgeRep_fst_le mp m
  have h2 := Lemmas.Object.wedgeRep_fst_le_snd mp m
  have h3 := Lemmas.Object.wedgeRep_snd_le mp m ell hmp hm
  rw [valW_id ell _ _ h2 h3]
  by_cases h : mp = m
  · subst h
    rw [if_pos rfl, wedgeRep_diag]
    simp only [Int.toNat_natCast, if_true]
    rw [eps_mul_eps_neg]
    push_cast
    rw [← mul_pow]; norm_num
  · rw [if_neg h, if_neg (wedgeRep_offdiag mp m h)]
    simp
end

/-! ### rotations about z, every ℓ; degenerate branches; a concrete `imsqrt` -/

theorem zpR_degenerate (R0 R3 : ℝ) (h : R0 * R0 + R3 * R3 = 0) : zpR R0 R3 = ⟨1, 0⟩ := by
  unfold zpR; rw [h]; simp

theorem zmR_degenerate (R1 R2 : ℝ) (h : R1 * R1 + R2 * R2 = 0) : zmR R1 R2 = ⟨1, 0⟩ := by
  unfold zmR; rw [h]; simp

/-- a function with the property required of `np.sqrt(z).imag` on the unit circle -/
def imsqrtR (w : Cx ℝ) : ℝ := Real.sqrt ((1 - w.re) / 2)

theorem imsqrtR_spec (w : Cx ℝ) (hw : w.re ^ 2 + w.im ^ 2 = 1) : 2 * (imsqrtR w) ^ 2 = 1 - w.re := by
  have h1 : 0 ≤ (1 - w.re) / 2 := by nlinarith [sq_nonneg w.im, sq_nonneg (w.re - 1)]
  unfold imsqrtR
  rw [Real.sq_sqrt h1]; ring

section
variable {μ : Type} [Mem μ ℝ] [LawfulMem μ ℝ]

/-- `Wigner.D` of a rotation about z, rotor (R0, 0, 0, R3): diagonal with entries R_a^{2m}
    (`pw z m` is z^m for m ≥ 0 and conj(z)^{−m} for m < 0), for EVERY ℓ ≤ ell_max -/
theorem objD_zrot (L : ℕ) (st : μ) (R0 R3 : ℝ) (hR : R0 ^ 2 + R3 ^ 2 = 1) (imsqrt : Cx ℝ → ℝ)
    (hs : ∀ w : Cx ℝ, w.re ^ 2 + w.im ^ 2 = 1 → 2 * (imsqrt w) ^ 2 = 1 - w.re)
    (ell : ℕ) (hl : ell ≤ L) (mp m : ℤ) (hmp : mp.natAbs ≤ ell) (hm : m.natAbs ≤ ell) :
    toC (objD L st R0 0 0 R3 imsqrt ell mp m) =
      if mp = m then pw (Ra R0 R3) m * pw (Ra R0 R3) m else 0 := by
  rw [objD_eq L st R0 0 0 R3 (by linarith) imsqrt hs ell hl mp m hmp hm]
  have ha : R0 * R0 + R3 * R3 = 1 := by linarith
  have hc : cosB R0 0 0 R3 = 1 := by unfold cosB; linarith
  have hsn : sinB R0 0 0 R3 = 0 := by unfold sinB; norm_num
  have hzm : zmR 0 0 = ⟨1, 0⟩ := zmR_degenerate 0 0 (by norm_num)
  have hzp : toC (zpR R0 R3) = Ra R0 R3 := by
    have := (zpR_spec R0 R3).1
    rw [ha, Real.sqrt_one] at this
    simpa [Ra] using this
  have one : ∀ z : Cx ℝ, toC (Cx.mul z (⟨1, 0⟩ : Cx ℝ)) = toC z := by
    intro z; apply Complex.ext <;> simp [Cx.mul]
  have one' : ∀ z : Cx ℝ, toC (Cx.mul z (Cx.conj (⟨1, 0⟩ : Cx ℝ))) = toC z := by
    intro z; apply Complex.ext <;> simp [Cx.mul, Cx.conj]
  rw [hc, hsn, hzm, one, one', hzp]
  have h1 := Lemmas.Object.wedgeRep_fst_le mp m
  have h2 := Lemmas.Object.wedgeRep_fst_le_snd mp m
  have h3 := Lemmas.Object.wedgeRep_snd_le mp m ell hmp hm
  rw [valW_id ell _ _ h2 h3]
  by_cases h : mp = m
  · subst h
    rw [if_pos rfl, wedgeRep_diag]
    simp only [Int.toNat_natCast, if_true]
    rw [eps_mul_eps_neg]
    push_cast
    rw [← mul_pow]; norm_num
  · rw [if_neg h, if_neg (wedgeRep_offdiag mp m h)]
    simp

/-- `Wigner.d` at β = 0 is the identity matrix, for EVERY ℓ ≤ ell_max -/
theorem objd_identity (L : ℕ) (st : μ) (ell : ℕ) (hl : ell ≤ L) (mp m : ℤ)
    (hmp : mp.natAbs ≤ ell) (hm : m.natAbs ≤ ell) :
    objd L st (1 : ℝ) 0 ell mp m = if mp = m then 1 else 0 := by
  rw [objd_eq L st 1 0 ell hl mp m hmp hm]
  have h1 := Lemmas.Object.wedgeRep_fst_le mp m
  have h2 := Lemmas.Object.wedgeRep_fst_le_snd mp m
  have h3 := Lemmas.Object.wedgeRep_snd_le mp m ell hmp hm
  rw [valW_id ell _ _ h2 h3]
  by_cases h : mp = m
  · subst h
    rw [if_pos rfl, wedgeRep_diag]
    simp only [Int.toNat_natCast, if_true]
    rw [eps_mul_eps_neg]
    push_cast
    rw [← mul_pow]; norm_num
  · rw [if_neg h, if_neg (wedgeRep_offdiag mp m h)]
    simp
end

/-! ### β = π (c = −1, s = 0): the `sqrta = 0` branch, every ℓ -/

theorem rawD_pi : ∀ (n j : ℕ), rawD (-1 : ℝ) 0 n j = (-1) ^ j * rawD (1 : ℝ) 0 n j
  | n, 0 => by rw [rawD_0, rawD_0]; simp
  | n, 1 => by rw [rawD_1, rawD_1]; simp
  | n, j + 2 => by
    rw [rawD_succ2, rawD_succ2, rawD_pi n (j + 1), rawD_pi n j]
    simp only [RealScalar.mul_def, RealScalar.sub_def]
    ring

theorem bot0_pi (k : ℕ) : bot0 (-1 : ℝ) 0 (k + 2) = (-1) ^ (k + 2) := by
  have h := bot0_id k
  unfold bot0 at h ⊢
  rw [rawD_pi, rawD_pi]
  simp only [RealScalar.mul_def, RealScalar.sub_def] at h ⊢
  have e : k + 2 - 1 = k + 1 := by omega
  rw [e] at h ⊢
  have : (gC ((k + 2 : ℕ) : ℤ) 0 * (-1 : ℝ) * ((-1) ^ (k + 1) * rawD 1 0 (k + 2) (k + 1))
        - hC ((k + 2 : ℕ) : ℤ) 0 * ((0 : ℝ) * 0) * ((-1) ^ (k + 2 - 2) * rawD 1 0 (k + 2) (k + 2 - 2))) * cnorm (k + 2)
      = (-1) ^ (k + 2) * ((gC ((k + 2 : ℕ) : ℤ) 0 * (1 : ℝ) * rawD 1 0 (k + 2) (k + 1)
        - hC ((k + 2 : ℕ) : ℤ) 0 * ((0 : ℝ) * 0) * rawD 1 0 (k + 2) (k + 2 - 2)) * cnorm (k + 2)) := by
    ring
  rw [this, h, mul_one]

/-- the m' = 0 column at β = π: (−1)ⁿ δ_{m,0} -/
theorem col0_pi : ∀ n m : ℕ, m ≤ n → col0 (-1 : ℝ) 0 n m = if m = 0 then (-1) ^ n else 0
  | 0, m, h => by
    have : m = 0 := by omega
    subst this; simp [col0]
  | 1, 0, _ => by
    have := valW_1_0_0 (-1) 0
    simpa [valW, valPos] using this
  | 1, m + 1, _ => by
    simp [col0, topN, preS]
  | k + 2, m, h => by
    rw [col0]
    by_cases h0 : m = 0
    · rw [if_pos h0, if_pos h0]; exact bot0_pi k
    · rw [if_neg h0, if_neg h0]
      obtain ⟨i, rfl⟩ : ∃ i, m = i + 1 := ⟨m - 1, by omega⟩
      split
      · rw [preS_zero_succ]; simp
      · simp [topN, preS]

theorem f3_pi (n i : ℕ) (x0 : ℝ) : f3 (-1 : ℝ) 0 n i 0 x0 0 = 0 := by
  unfold f3
  simp only [RealScalar.mul_def, RealScalar.div_def, RealScalar.sub_def, RealScalar.add_def,
    RealScalar.one_def, RealScalar.half_def]
  ring

theorem f4mid_zero (n mp i : ℕ) : f4mid n mp i (0 : ℝ) 0 0 = 0 := by
  unfold f4mid
  simp only [RealScalar.mul_def, RealScalar.div_def, RealScalar.sub_def, RealScalar.add_def, RealScalar.one_def]
  ring

theorem f4top_zero (n mp : ℕ) : f4top n mp (0 : ℝ) 0 = 0 := by
  unfold f4top
  simp only [RealScalar.mul_def, RealScalar.div_def, RealScalar.sub_def, RealScalar.one_def]
  ring

/-- the columns m' = k ≥ 1 at β = π vanish on the wedge -/
theorem valPos_pi : ∀ k n m : ℕ, 1 ≤ k → k ≤ m → m ≤ n → valPos (-1 : ℝ) 0 k n m = 0
  | 0, _, _, h, _, _ => by omega
  | 1, n, 0, _, h1, _ => by omega
  | 1, n, i + 1, _, _, h2 => by
    rw [valPos, col0_pi (n + 1) (i + 2) (by omega), col0_pi (n + 1) (i + 1) (by omega),
      if_neg (show ¬ i + 2 = 0 by omega), if_neg (show ¬ i + 1 = 0 by omega)]
    exact f3_pi n i _
  | k + 2, n, m, _, h1, h2 => by
    have hx : ∀ m', k + 2 ≤ m' → m' ≤ n → valPos (-1 : ℝ) 0 k n m' = 0 := by
      intro m' a b
      by_cases hk : k = 0
      · subst hk; rw [valPos, col0_pi n m' b, if_neg (show ¬ m' = 0 by omega)]
      · exact valPos_pi k n m' (by omega) (by omega) b
    rw [valPos]
    by_cases hmn : m < n
    · rw [if_pos hmn, hx m h1 h2, valPos_pi (k + 1) n (m - 1) (by omega) (by omega) (by omega),
        valPos_pi (k + 1) n (m + 1) (by omega) (by omega) (by omega)]
      exact f4mid_zero _ _ _
    · have hm : m = n := by omega
      subst hm
      rw [if_neg hmn, hx m h1 le_rfl, valPos_pi (k + 1) m (m - 1) (by omega) (by omega) (by omega)]
      exact f4top_zero _ _

theorem dC_neg (n j : ℕ) : (dC (n : ℤ) (-((j : ℤ) + 1)) : ℝ) = -dC (n : ℤ) (j : ℤ) := by
  unfold dC
  have h1 : (-((j : ℤ) + 1)) < 0 := by omega
  have h2 : ¬ ((j : ℤ) < 0) := by omega
  simp only [if_pos h1, if_neg h2, RealScalar.mul_def, RealScalar.sqrt_def, RealScalar.ofInt_def,
    RealScalar.half_def]
  have e : (((n : ℤ) - -((j : ℤ) + 1)) * ((n : ℤ) + -((j : ℤ) + 1) + 1) : ℤ)
      = ((n : ℤ) - (j : ℤ)) * ((n : ℤ) + (j : ℤ) + 1) := by ring
  rw [e]; push_cast; ring

theorem f5mid_pi (n q i : ℕ) (y : ℝ) :
    f5mid n q i (0 : ℝ) y 0
      = (dC (n : ℤ) ((q : ℤ) - 1 + (i : ℤ)) / dC (n : ℤ) (-((q : ℤ) + 1))) * y := by
  unfold f5mid
  simp only [RealScalar.mul_def, RealScalar.div_def, RealScalar.sub_def, RealScalar.add_def, RealScalar.one_def]
  have e1 : (-(q : ℤ) - 1) = -((q : ℤ) + 1) := by ring
  have e2 : (-(-(q : ℤ)) - 1 + (i : ℤ)) = (q : ℤ) - 1 + (i : ℤ) := by ring
  rw [e1, e2]
  ring

theorem f5top_pi (n q : ℕ) (y : ℝ) :
    f5top n q (0 : ℝ) y = (dC (n : ℤ) ((n : ℤ) - 1) / dC (n : ℤ) (-((q : ℤ) + 1))) * y := by
  unfold f5top
  simp only [RealScalar.mul_def, RealScalar.div_def, RealScalar.add_def, RealScalar.one_def]
  have e1 : (-(q : ℤ) - 1) = -((q : ℤ) + 1) := by ring
  rw [e1]
  ring

/-- ratio of the two step-5 coefficients that survive at β = π -/
theorem dC_ratio (n j : ℕ) (h : j < n) : (dC (n : ℤ) (j : ℤ) : ℝ) / dC (n : ℤ) (-((j : ℤ) + 1)) = -1 := by
  rw [dC_neg, div_neg, div_self (dC_ne n j h)]

/-- the columns m' = −q ≤ 0 at β = π: (−1)^{n+q} δ_{m,q} -/
theorem valNeg_pi : ∀ q n m : ℕ, q ≤ m → m ≤ n →
    valNeg (-1 : ℝ) 0 q n m = if m = q then (-1) ^ (n + q) else 0
  | 0, n, m, _, h2 => by
    rw [valNeg, col0_pi n m h2]; rfl
  | 1, n, m, h1, h2 => by
    rw [valNeg]
    by_cases hmn : m < n
    · rw [if_pos hmn, valPos_pi 1 n m le_rfl h1 h2, col0_pi n (m - 1) (by omega), col0_pi n (m + 1) (by omega),
        if_neg (show ¬ m + 1 = 0 by omega), f5mid_pi]
      by_cases hm : m = 1
      · subst hm
        have e : (((0 : ℕ) : ℤ) - 1 + ((1 : ℕ) : ℤ)) = ((0 : ℕ) : ℤ) := by norm_num
        rw [e, dC_ratio n 0 (by omega), if_pos rfl, if_pos rfl]
        ring
      · rw [if_neg (show ¬ m - 1 = 0 by omega), if_neg hm]; simp
    · have hm : m = n := by omega
      subst hm
      rw [if_neg hmn, valPos_pi 1 m m le_rfl h1 le_rfl, col0_pi m (m - 1) (by omega), f5top_pi]
      by_cases hm : m = 1
      · subst hm
        have e : (((1 : ℕ) : ℤ) - 1) = ((0 : ℕ) : ℤ) := by norm_num
        rw [e, dC_ratio 1 0 (by omega), if_pos rfl, if_pos rfl]
        norm_num
      · rw [if_neg (show ¬ m - 1 = 0 by omega), if_neg hm]; simp
  | q + 2, n, m, h1, h2 => by
    rw [valNeg]
    by_cases hmn : m < n
    · rw [if_pos hmn, valNeg_pi q n m (by omega) h2, if_neg (show ¬ m = q by omega),
        valNeg_pi (q + 1) n (m + 1) (by omega) (by omega), if_neg (show ¬ m + 1 = q + 1 by omega),
        valNeg_pi (q + 1) n (m - 1) (by omega) (by omega), f5mid_pi]
      by_cases hm : m = q + 2
      · subst hm
        have e : (((q + 1 : ℕ) : ℤ) - 1 + ((q + 2 - (q + 1) : ℕ) : ℤ)) = ((q + 1 : ℕ) : ℤ) := by
          rw [show q + 2 - (q + 1) = 1 by omega]; push_cast; ring
        rw [e, dC_ratio n (q + 1) (by omega), if_pos (show q + 2 - 1 = q + 1 by omega), if_pos rfl]
        ring
      · rw [if_neg (show ¬ m - 1 = q + 1 by omega), if_neg hm]; simp
    · have hm : m = n := by omega
      subst hm
      rw [if_neg hmn, valNeg_pi q m m (by omega) le_rfl, if_neg (show ¬ m = q by omega),
        valNeg_pi (q + 1) m (m - 1) (by omega) (by omega), f5top_pi]
      by_cases hm : m = q + 2
      · subst hm
        have e : (((q + 2 : ℕ) : ℤ) - 1) = ((q + 1 : ℕ) : ℤ) := by push_cast; ring
        rw [e, dC_ratio (q + 2) (q + 1) (by omega), if_pos (show q + 2 - 1 = q + 1 by omega), if_pos rfl]
        ring
      · rw [if_neg (show ¬ m - 1 = q + 1 by omega), if_neg hm]; simp

/-- the whole H wedge at β = π: H(n, m', m) = (−1)^{n+m} δ_{m',−m} -/
theorem valW_pi (n : ℕ) (mp : ℤ) (m : ℕ) (h1 : mp.natAbs ≤ m) (h2 : m ≤ n) :
    valW (-1 : ℝ) 0 n mp m = if mp = -(m : ℤ) then (-1) ^ (n + m) else 0 := by
  unfold valW
  by_cases hp : 0 ≤ mp
  · rw [if_pos hp]
    by_cases h0 : mp = 0
    · subst h0
      rw [Int.toNat_zero, valPos, col0_pi n m h2]
      by_cases hm : m = 0
      · subst hm; simp
      · rw [if_neg hm, if_neg (by omega)]
    · rw [valPos_pi mp.toNat n m (by omega) (by omega) h2, if_neg (by omega)]
  · rw [if_neg hp, valNeg_pi mp.natAbs n m h1 h2]
    by_cases hm : m = mp.natAbs
    · rw [if_pos hm, if_pos (by omega), hm]
    · rw [if_neg hm, if_neg (by omega)]

theorem wedgeRep_anti (m : ℤ) : wedgeRep (-m) m = (-(m.natAbs : ℤ), (m.natAbs : ℤ)) := by
  unfold wedgeRep
  split <;> split <;> (simp only [Prod.mk.injEq]; omega)

theorem wedgeRep_offanti (mp m : ℤ) (h : mp ≠ -m) :
    (wedgeRep mp m).1 ≠ -(((wedgeRep mp m).2.toNat : ℕ) : ℤ) := by
  unfold wedgeRep
  split <;> split <;> (simp only []; omega)

theorem pw_conj_neg (z : ℂ) (k : ℤ) : pw (conj z) (-k) = pw z k := by
  unfold pw
  rcases lt_trichotomy k 0 with h | h | h
  · rw [if_neg (by omega), if_pos h]
  · subst h; simp
  · rw [if_pos (by omega), if_neg (by omega)]; simp

section
variable {μ : Type} [Mem μ ℝ] [LawfulMem μ ℝ]

/-- `Wigner.D` of a rotation by π about an axis in the x-y plane, rotor (0, R1, R2, 0) — the `sqrta = 0` branch of
    `to_euler_phases` — is anti-diagonal with entries (−1)^{ℓ+m} R_b^{2m}, for EVERY ℓ ≤ ell_max -/
theorem objD_pi (L : ℕ) (st : μ) (R1 R2 : ℝ) (hR : R1 ^ 2 + R2 ^ 2 = 1) (imsqrt : Cx ℝ → ℝ)
    (hs : ∀ w : Cx ℝ, w.re ^ 2 + w.im ^ 2 = 1 → 2 * (imsqrt w) ^ 2 = 1 - w.re)
    (ell : ℕ) (hl : ell ≤ L) (mp m : ℤ) (hmp : mp.natAbs ≤ ell) (hm : m.natAbs ≤ ell) :
    toC (objD L st 0 R1 R2 0 imsqrt ell mp m) =
      if mp = -m then (-1) ^ (ell + m.natAbs) * (pw (Rb R1 R2) m * pw (Rb R1 R2) m) else 0 := by
  rw [objD_eq L st 0 R1 R2 0 (by linarith) imsqrt hs ell hl mp m hmp hm]
  have hb : R1 * R1 + R2 * R2 = 1 := by linarith
  have hc : cosB 0 R1 R2 0 = -1 := by unfold cosB; linarith
  have hsn : sinB 0 R1 R2 0 = 0 := by unfold sinB; norm_num
  have hzp : zpR 0 0 = ⟨1, 0⟩ := zpR_degenerate 0 0 (by norm_num)
  have hzm : toC (zmR R1 R2) = conj (Rb R1 R2) := by
    have := (zmR_spec R1 R2).1
    rw [hb, Real.sqrt_one] at this
    rw [Complex.ofReal_one, one_mul] at this
    rw [this]
    apply Complex.ext <;> simp [Rb]
  have one : toC (⟨1, 0⟩ : Cx ℝ) = 1 := by apply Complex.ext <;> simp
  rw [hc, hsn, hzp, toC_mul, toC_mul, toC_conj, one, one_mul, one_mul, hzm, Complex.conj_conj]
  have h1 := Lemmas.Object.wedgeRep_fst_le mp m
  have h2 := Lemmas.Object.wedgeRep_fst_le_snd mp m
  have h3 := Lemmas.Object.wedgeRep_snd_le mp m ell hmp hm
  rw [valW_pi ell _ _ h2 h3]
  by_cases h : mp = -m
  · subst h
    rw [if_pos rfl, wedgeRep_anti]
    simp only [Int.toNat_natCast, if_true]
    rw [eps_sq, pw_conj_neg]
    push_cast
    ring
  · rw [if_neg h, if_neg (wedgeRep_offanti mp m h)]
    simp

/-- `Wigner.d` at β = π is anti-diagonal with entries (−1)^{ℓ+m}, for EVERY ℓ ≤ ell_max -/
theorem objd_pi (L : ℕ) (st : μ) (ell : ℕ) (hl : ell ≤ L) (mp m : ℤ)
    (hmp : mp.natAbs ≤ ell) (hm : m.natAbs ≤ ell) :
    objd L st (-1 : ℝ) 0 ell mp m = if mp = -m then (-1) ^ (ell + m.natAbs) else 0 := by
  rw [objd_eq L st (-1) 0 ell hl mp m hmp hm]
  have h1 := Lemmas.Object.wedgeRep_fst_le mp m
  have h2 := Lemmas.Object.wedgeRep_fst_le_snd mp m
  have h3 := Lemmas.Object.wedgeRep_snd_le mp m ell hmp hm
  rw [valW_pi ell _ _ h2 h3]
  by_cases h : mp = -m
  · subst h
    rw [if_pos rfl, wedgeRep_anti]
    simp only [Int.toNat_natCast, if_true]
    rw [eps_sq]
    push_cast
    ring
  · rw [if_neg h, if_neg (wedgeRep_offanti mp m h)]
    simp
end

end DDef
end
