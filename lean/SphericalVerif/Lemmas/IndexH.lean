import SphericalVerif.Gen.Indexing
import SphericalVerif.Lemmas.Ranges
import SphericalVerif.Lemmas.IndexY
import Mathlib.Tactic.LinearCombination

/-! `WignerHsize`, `_WignerHindex`, `WignerHindex` against the documented wedge ordering `Spec.hRange`. -/
namespace Lemmas
open Gen Spec

/-! ### divisibility by 6 -/

theorem six_dvd_a (n : Int) : ((n + 1) * (n + 2) * (2 * n + 3)) % 6 = 0 := by
  obtain ⟨q, r, hr0, hr3, rfl⟩ : ∃ q r : Int, 0 ≤ r ∧ r < 6 ∧ n = 6 * q + r :=
    ⟨n / 6, n % 6, by omega, by omega, by omega⟩
  have : r = 0 ∨ r = 1 ∨ r = 2 ∨ r = 3 ∨ r = 4 ∨ r = 5 := by omega
  rcases this with rfl | rfl | rfl | rfl | rfl | rfl <;> ring_nf <;> omega

theorem six_dvd_b (d : Int) : (2 * d * (d + 1) * (d + 2)) % 6 = 0 := by
  obtain ⟨q, r, hr0, hr3, rfl⟩ : ∃ q r : Int, 0 ≤ r ∧ r < 3 ∧ d = 3 * q + r :=
    ⟨d / 3, d % 3, by omega, by omega, by omega⟩
  have : r = 0 ∨ r = 1 ∨ r = 2 := by omega
  rcases this with rfl | rfl | rfl <;> ring_nf <;> omega

/-! ### closed form of `WignerHsize` (times 6) -/

/-- For `ell_max ≥ -1` (i.e. not the `-2` sentinel) and `mp_max ≥ 0`. -/
theorem hsize6 (P L : Int) (hP : 0 ≤ P) (hL : -1 ≤ L) :
    6 * WignerHsize P L
      = (L + 1) * (L + 2) * (2 * L + 3) - 2 * (max (L - P) 0) * (max (L - P) 0 + 1) * (max (L - P) 0 + 2) := by
  unfold WignerHsize
  have c0 : ¬ (L = -2) := by omega
  simp only [c0, if_false, false_or]
  by_cases c1 : L < 0
  · have : L = -1 := by omega
    subst this
    have : max (-1 - P) 0 = 0 := by omega
    simp [this]
  · simp only [c1, if_false]
    by_cases c2 : P ≥ L
    · have hm : max (L - P) 0 = 0 := by omega
      simp only [c2, if_true, hm]
      have := six_dvd_a L
      omega
    · have hm : max (L - P) 0 = L - P := by omega
      simp only [c2, if_false, hm]
      have ha := six_dvd_a L
      have hb := six_dvd_b (L - P)
      omega

theorem hsize_neg_one (P : Int) : WignerHsize P (-1) = 0 := by
  unfold WignerHsize; simp

/-- The default `ell_max = -2` means `ell_max := mp_max`; as an identity between values of
    `WignerHsize` it holds exactly for `mp_max ≥ -2` (for `mp_max ≤ -3` the left side is a nonzero
    polynomial value while the right side is 0, see `hsize_default_fails`). -/
theorem hsize_default (P : Int) (hP : -2 ≤ P) : WignerHsize P (-2) = WignerHsize P P := by
  have h : P = -2 ∨ P = -1 ∨ 0 ≤ P := by omega
  rcases h with rfl | rfl | h
  · rfl
  · decide
  · unfold WignerHsize
    have c0 : ¬ (P = -2) := by omega
    have c1 : ¬ (P < 0) := by omega
    simp [c0, c1]

theorem hsize_default_fails : WignerHsize (-3) (-2) ≠ WignerHsize (-3) (-3) := by decide

theorem hsize_min (P ell : Int) (hP : 0 ≤ P) (hl : 0 ≤ ell) :
    WignerHsize (min P ell) (ell - 1) = WignerHsize P (ell - 1) := by
  have h1 := hsize6 (min P ell) (ell - 1) (by omega) (by omega)
  have h2 := hsize6 P (ell - 1) hP (by omega)
  by_cases c : P ≤ ell
  · have : min P ell = P := by omega
    rw [this]
  · have e1 : max (ell - 1 - min P ell) 0 = 0 := by omega
    have e2 : max (ell - 1 - P) 0 = 0 := by omega
    rw [e1] at h1; rw [e2] at h2
    omega

/-! ### column offsets inside one `ell` block -/

/-- half product -/
def T (a b : Int) : Int := a * b / 2

theorem two_T (a b : Int) (h : (a + b) % 2 = 1) : 2 * T a b = a * b := half_mul_of_odd_sum a b h

/-- offset of column `mp` inside the block of `ell` (with `mpm = min mp_max ell`). -/
def colOff (ell mpm mp : Int) : Int :=
  if mp < 1 then T (mpm + mp) (2 * ell - mpm + mp + 1)
  else T (mpm + 1) (2 * ell - mpm + 2) + T (mp - 1) (2 * ell - mp + 2)

theorem u_hindex_eq (ell mp m P : Int) :
    u_WignerHindex ell mp m P
      = WignerHsize (min P ell) (ell - 1) + colOff ell (min P ell) mp + (m - (mp.natAbs : Int)) := by
  unfold u_WignerHindex colOff T
  split <;> ring

theorem colOff_start (ell mpm : Int) (h : 0 ≤ mpm) : colOff ell mpm (-mpm) = 0 := by
  unfold colOff T
  have : -mpm < 1 := by omega
  simp [this]

theorem colOff_step (ell mpm mp : Int) (h1 : -mpm ≤ mp) (h2 : mp ≤ mpm) :
    colOff ell mpm (mp + 1) = colOff ell mpm mp + (ell - (mp.natAbs : Int) + 1) := by
  unfold colOff
  rcases lt_trichotomy mp 0 with h | h | h
  · have c1 : mp + 1 < 1 := by omega
    have c2 : mp < 1 := by omega
    simp only [c1, c2, if_true]
    have e1 := two_T (mpm + (mp + 1)) (2 * ell - mpm + (mp + 1) + 1) (by omega)
    have e0 := two_T (mpm + mp) (2 * ell - mpm + mp + 1) (by omega)
    have : 2 * T (mpm + (mp + 1)) (2 * ell - mpm + (mp + 1) + 1)
        = 2 * (T (mpm + mp) (2 * ell - mpm + mp + 1) + (ell + mp + 1)) := by
      linear_combination e1 - e0
    omega
  · subst h
    have c1 : ¬ ((0 : Int) + 1 < 1) := by omega
    have c2 : (0 : Int) < 1 := by omega
    simp only [c1, c2, if_true, if_false]
    have e1 := two_T (mpm + 1) (2 * ell - mpm + 2) (by omega)
    have e0 := two_T (mpm + 0) (2 * ell - mpm + 0 + 1) (by omega)
    have e2 : T ((0 : Int) + 1 - 1) (2 * ell - (0 + 1) + 2) = 0 := by unfold T; simp
    rw [e2]
    have : 2 * T (mpm + 1) (2 * ell - mpm + 2)
        = 2 * (T (mpm + 0) (2 * ell - mpm + 0 + 1) + (ell + 1)) := by
      linear_combination e1 - e0
    simp only [Int.natAbs_zero, Nat.cast_zero]
    omega
  · have c1 : ¬ (mp + 1 < 1) := by omega
    have c2 : ¬ (mp < 1) := by omega
    simp only [c1, c2, if_false]
    have e1 := two_T (mp + 1 - 1) (2 * ell - (mp + 1) + 2) (by omega)
    have e0 := two_T (mp - 1) (2 * ell - mp + 2) (by omega)
    have : 2 * T (mp + 1 - 1) (2 * ell - (mp + 1) + 2)
        = 2 * (T (mp - 1) (2 * ell - mp + 2) + (ell - mp + 1)) := by
      linear_combination e1 - e0
    omega

/-- twice the total block size -/
theorem colOff_end2 (ell mpm : Int) (h : 0 ≤ mpm) :
    2 * colOff ell mpm (mpm + 1) = (mpm + 1) * (2 * ell - mpm + 2) + mpm * (2 * ell - mpm + 1) := by
  unfold colOff
  have c1 : ¬ (mpm + 1 < 1) := by omega
  simp only [c1, if_false]
  have e1 := two_T (mpm + 1) (2 * ell - mpm + 2) (by omega)
  have e0 := two_T (mpm + 1 - 1) (2 * ell - (mpm + 1) + 2) (by omega)
  linear_combination e1 + e0

/-! ### the `ell` block of `hRange` -/

/-- the block of `hRange` belonging to `ell` -/
def hBlock (P ell : Int) : List (Int × Int × Int) :=
  (irange (-(min ell P)) (min ell P)).flatMap fun mp =>
    (irange (mp.natAbs : Int) ell).map fun m => (ell, mp, m)

theorem hRange_eq (P L : Int) : hRange P L = (irange 0 L).flatMap (hBlock P) := rfl

theorem length_hCol (ell mp : Int) (h : (mp.natAbs : Int) ≤ ell + 1) :
    (((irange (mp.natAbs : Int) ell).map fun m => (ell, mp, m)).length : Int)
      = ell - (mp.natAbs : Int) + 1 := by
  rw [List.length_map, length_irange_int _ _ h]; ring

theorem length_hBlock (P ell : Int) (hP : 0 ≤ P) (hl : 0 ≤ ell) :
    ((hBlock P ell).length : Int) = colOff ell (min ell P) (min ell P + 1) := by
  unfold hBlock
  rw [flatMap_irange_length _ (colOff ell (min ell P)) (-(min ell P)) (min ell P) (by omega)
    (colOff_start ell _ (by omega))
    (by
      intro k h1 h2
      rw [length_hCol ell k (by omega)]
      exact colOff_step ell _ k h1 h2)]

theorem hBlock_get (P ell mp m : Int) (hP : 0 ≤ P) (hl : 0 ≤ ell)
    (h1 : -(min ell P) ≤ mp) (h2 : mp ≤ min ell P) (h3 : (mp.natAbs : Int) ≤ m) (h4 : m ≤ ell) :
    0 ≤ colOff ell (min ell P) mp + (m - (mp.natAbs : Int)) ∧
    colOff ell (min ell P) mp + (m - (mp.natAbs : Int)) < ((hBlock P ell).length : Int) ∧
    (hBlock P ell)[(colOff ell (min ell P) mp + (m - (mp.natAbs : Int))).toNat]? = some (ell, mp, m) := by
  have key := flatMap_irange_get
    (fun mp => (irange (mp.natAbs : Int) ell).map fun m => (ell, mp, m))
    (colOff ell (min ell P)) (-(min ell P)) (min ell P)
    (colOff_start ell _ (by omega))
    (by
      intro k h1 h2
      rw [length_hCol ell k (by omega)]
      exact colOff_step ell _ k h1 h2)
    mp h1 h2 (m - (mp.natAbs : Int)) (by omega)
    (by rw [length_hCol ell mp (by omega)]; omega)
  obtain ⟨a, b, c⟩ := key
  rw [length_hBlock P ell hP hl]
  refine ⟨by omega, b, ?_⟩
  unfold hBlock
  rw [c]
  exact getElem?_map_irange (fun m => (ell, mp, m)) (mp.natAbs : Int) ell m h3 h4

/-! ### outer level -/

theorem hsize_step (P k : Int) (hP : 0 ≤ P) (hk : 0 ≤ k) :
    WignerHsize P k = WignerHsize P (k - 1) + colOff k (min k P) (min k P + 1) := by
  have h1 := hsize6 P k hP (by omega)
  have h0 := hsize6 P (k - 1) hP (by omega)
  have hc := colOff_end2 k (min k P) (by omega)
  by_cases c : P ≥ k
  · have m1 : max (k - P) 0 = 0 := by omega
    have m0 : max (k - 1 - P) 0 = 0 := by omega
    have mm : min k P = k := by omega
    rw [m1] at h1; rw [m0] at h0; rw [mm] at hc ⊢
    have : 6 * WignerHsize P k = 6 * (WignerHsize P (k - 1)) + 3 * (2 * colOff k k (k + 1)) := by
      rw [h1, h0, hc]; ring
    omega
  · have m1 : max (k - P) 0 = k - P := by omega
    have m0 : max (k - 1 - P) 0 = k - 1 - P := by omega
    have mm : min k P = P := by omega
    rw [m1] at h1; rw [m0] at h0; rw [mm] at hc ⊢
    have : 6 * WignerHsize P k = 6 * (WignerHsize P (k - 1)) + 3 * (2 * colOff k P (P + 1)) := by
      rw [h1, h0, hc]; ring
    omega

theorem hsize_stepS (P k : Int) (hP : 0 ≤ P) (hk : 0 ≤ k) :
    WignerHsize P (k + 1 - 1) = WignerHsize P (k - 1) + ((hBlock P k).length : Int) := by
  rw [length_hBlock P k hP hk, show k + 1 - 1 = k by ring]
  exact hsize_step P k hP hk

theorem hsize_eq_length (P L : Int) (hP : 0 ≤ P) (hL : -1 ≤ L) :
    WignerHsize P L = ((hRange P L).length : Int) := by
  rw [hRange_eq, flatMap_irange_length (hBlock P) (fun k => WignerHsize P (k - 1)) 0 L (by omega)
    (by simp [hsize_neg_one])
    (fun k hk _ => hsize_stepS P k hP hk)]
  rw [show L + 1 - 1 = L by ring]

/-- `_WignerHindex` is the position in `hRange`. -/
theorem u_hindex_get (P L ell mp m : Int) (hP : 0 ≤ P) (hl : 0 ≤ ell) (hL : ell ≤ L)
    (h1 : -(min ell P) ≤ mp) (h2 : mp ≤ min ell P) (h3 : (mp.natAbs : Int) ≤ m) (h4 : m ≤ ell) :
    0 ≤ u_WignerHindex ell mp m P ∧ u_WignerHindex ell mp m P < WignerHsize P L ∧
      (hRange P L)[(u_WignerHindex ell mp m P).toNat]? = some (ell, mp, m) := by
  obtain ⟨ba, bb, bc⟩ := hBlock_get P ell mp m hP hl h1 h2 h3 h4
  have key := flatMap_irange_get (hBlock P) (fun k => WignerHsize P (k - 1)) 0 L
    (by simp [hsize_neg_one])
    (fun k hk _ => hsize_stepS P k hP hk)
    ell hl hL _ ba bb
  obtain ⟨a, b, c⟩ := key
  rw [show L + 1 - 1 = L by ring] at b
  have e : u_WignerHindex ell mp m P
      = WignerHsize P (ell - 1) + (colOff ell (min ell P) mp + (m - (mp.natAbs : Int))) := by
    rw [u_hindex_eq, hsize_min P ell hP hl, min_comm P ell]; ring
  rw [e, hRange_eq]
  exact ⟨by omega, b, by rw [c, bc]⟩

/-! ### `WignerHindex`: folding into the wedge -/

theorem min_min_self (P ell : Int) : min (min P ell) ell = min P ell := by omega

theorem u_hindex_min (ell mp m P : Int) :
    u_WignerHindex ell mp m (min P ell) = u_WignerHindex ell mp m P := by
  rw [u_hindex_eq, u_hindex_eq, min_min_self]

theorem hindex_fold_eq (ell mp m P : Int) (hl : ell ≠ 0) :
    WignerHindex ell mp m (some P)
      = u_WignerHindex ell (wedgeRep mp m).1 (wedgeRep mp m).2 (min P ell) := by
  unfold WignerHindex wedgeRep
  simp only [hl, if_false]
  split_ifs <;> rfl

theorem hindex_none (ell mp m : Int) :
    WignerHindex ell mp m none = WignerHindex ell mp m (some ell) := by
  unfold WignerHindex
  by_cases hl : ell = 0
  · simp [hl]
  · simp only [hl, if_false, min_self]

theorem wedgeRep_abs (mp m : Int) : ((wedgeRep mp m).1.natAbs : Int) ≤ (wedgeRep mp m).2 := by
  unfold wedgeRep
  split_ifs <;> simp only <;> omega

theorem wedgeRep_mem (mp m : Int) :
    wedgeRep mp m ∈ [(mp, m), (m, mp), (-mp, -m), (-m, -mp)] := by
  unfold wedgeRep
  split_ifs <;> simp

theorem wedgeRep_bound (mp m ell : Int) (h1 : -ell ≤ mp) (h2 : mp ≤ ell) (h3 : -ell ≤ m) (h4 : m ≤ ell) :
    (wedgeRep mp m).2 ≤ ell := by
  unfold wedgeRep
  split_ifs <;> simp only <;> omega

/-- in the wedge nothing is folded -/
theorem wedgeRep_id (mp m : Int) (h : (mp.natAbs : Int) ≤ m) : wedgeRep mp m = (mp, m) := by
  unfold wedgeRep
  have c1 : ¬ (m < -mp) := by omega
  have c2 : ¬ (m < mp) := by omega
  simp [c1, c2]

theorem hindex_wedge (ell mp m P : Int) (hl : 0 ≤ ell) (hP : 0 ≤ P)
    (h1 : -(min ell P) ≤ mp) (h2 : mp ≤ min ell P) (h3 : (mp.natAbs : Int) ≤ m) (h4 : m ≤ ell) :
    WignerHindex ell mp m (some P) = u_WignerHindex ell mp m P := by
  by_cases h0 : ell = 0
  · subst h0
    have hmp : mp = 0 := by omega
    have hm : m = 0 := by omega
    subst hmp hm
    have : WignerHindex 0 0 0 (some P) = 0 := by unfold WignerHindex; simp
    rw [this, u_hindex_eq]
    have e : min P 0 = 0 := by omega
    rw [e]
    unfold colOff T
    simp [hsize_neg_one]
  · rw [hindex_fold_eq ell mp m P h0, wedgeRep_id mp m h3, u_hindex_min]

theorem hindex_get (P L ell mp m : Int) (hP : 0 ≤ P) (hl : 0 ≤ ell) (hL : ell ≤ L)
    (h1 : -(min ell P) ≤ mp) (h2 : mp ≤ min ell P) (h3 : (mp.natAbs : Int) ≤ m) (h4 : m ≤ ell) :
    0 ≤ WignerHindex ell mp m (some P) ∧ WignerHindex ell mp m (some P) < WignerHsize P L ∧
      (hRange P L)[(WignerHindex ell mp m (some P)).toNat]? = some (ell, mp, m) := by
  rw [hindex_wedge ell mp m P hl hP h1 h2 h3 h4]
  exact u_hindex_get P L ell mp m hP hl hL h1 h2 h3 h4

/-- position of an arbitrary `(mp, m)`, `|mp|, |m| ≤ ell`: that of its wedge representative -/
theorem hindex_fold_get (P L ell mp m : Int) (hP : 0 ≤ P) (hl : 0 < ell) (hL : ell ≤ L)
    (h1 : -ell ≤ mp) (h2 : mp ≤ ell) (h3 : -ell ≤ m) (h4 : m ≤ ell)
    (h5 : ((wedgeRep mp m).1.natAbs : Int) ≤ P) :
    0 ≤ WignerHindex ell mp m (some P) ∧ WignerHindex ell mp m (some P) < WignerHsize P L ∧
      (hRange P L)[(WignerHindex ell mp m (some P)).toNat]? = some (ell, (wedgeRep mp m).1, (wedgeRep mp m).2) := by
  rw [hindex_fold_eq ell mp m P (by omega), u_hindex_min]
  have ha := wedgeRep_abs mp m
  have hb := wedgeRep_bound mp m ell h1 h2 h3 h4
  exact u_hindex_get P L ell _ _ hP (by omega) hL (by omega) (by omega) ha hb

-- closes one case of the if-ladder comparison
set_option hygiene false in
local macro "hsymm_close" : tactic =>
  `(tactic| first
    | rfl
    | (simp only [neg_neg]; done)
    | (exfalso; omega)
    | (have hh : m = mp := by omega
       subst hh; simp only [neg_neg]; done)
    | (have hh : m = -mp := by omega
       subst hh; simp only [neg_neg]; done)
    | (have hh : mp = 0 := by omega
       have hh2 : m = 0 := by omega
       subst hh hh2; rfl))

theorem hindex_symm (ell mp m : Int) (P : Option Int) :
    WignerHindex ell mp m P = WignerHindex ell m mp P ∧
    WignerHindex ell mp m P = WignerHindex ell (-mp) (-m) P := by
  unfold WignerHindex
  by_cases hl : ell = 0
  · simp [hl]
  · simp only [hl, if_false]
    cases P with
    | none =>
      constructor
      · split_ifs <;> hsymm_close
      · split_ifs <;> hsymm_close
    | some P =>
      constructor
      · split_ifs <;> hsymm_close
      · split_ifs <;> hsymm_close

end Lemmas
