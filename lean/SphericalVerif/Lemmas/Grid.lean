import SphericalVerif.Model.Grid
/-! Helper lemmas about the Grid decision model (`Model/Grid.lean`): shape broadcasting, the constructor,
    the common tail `build`, and the tiny copy/pickle heap.  Property theorems are in `Props/C16.lean`
    and `Props/C18.lean`.  Core Lean only. -/
namespace Model.Grid

/-! ### broadcasting -/

theorem bdim_self (a : Nat) : bdim a a = some a := by simp [bdim]

theorem bdim_one_right (a : Nat) : bdim a 1 = some a := by
  unfold bdim
  by_cases h : a = 1 <;> simp [h]

theorem bdim_one_left (a : Nat) : bdim 1 a = some a := by
  unfold bdim
  by_cases h : a = 1
  · simp [h]
  · have h' : ¬ (1 = a) := fun e => h e.symm
    simp [h']

theorem bdim_comm (a b : Nat) : bdim a b = bdim b a := by
  unfold bdim
  by_cases h : a = b
  · subst h; rfl
  · have h' : ¬ b = a := fun e => h e.symm
    by_cases ha : a = 1 <;> by_cases hb : b = 1 <;> simp_all

theorem broadcastRev_nil_right (a : List Nat) : broadcastRev a [] = some a := by
  cases a <;> simp [broadcastRev]

theorem broadcastRev_self (a : List Nat) : broadcastRev a a = some a := by
  induction a with
  | nil => simp [broadcastRev]
  | cons x xs ih => simp [broadcastRev, bdim_self, ih]

theorem broadcastRev_comm (a b : List Nat) : broadcastRev a b = broadcastRev b a := by
  induction a generalizing b with
  | nil => cases b <;> simp [broadcastRev]
  | cons x xs ih =>
    cases b with
    | nil => simp [broadcastRev]
    | cons y ys => simp [broadcastRev, bdim_comm x y, ih ys]

theorem broadcast_self (a : List Nat) : broadcast a a = some a := by
  simp [broadcast, broadcastRev_self]

theorem broadcast_comm (a b : List Nat) : broadcast a b = broadcast b a := by
  simp [broadcast, broadcastRev_comm a.reverse b.reverse]

theorem broadcast_nil_right (a : List Nat) : broadcast a [] = some a := by
  simp [broadcast, broadcastRev_nil_right]

theorem broadcast_nil_left (a : List Nat) : broadcast [] a = some a := by
  rw [broadcast_comm, broadcast_nil_right]

/-- two Grids with the same `(n_theta, n_phi)`: only the leading shapes matter -/
theorem broadcast_append_two (l1 l2 : List Nat) (a b : Nat) :
    broadcast (l1 ++ [a, b]) (l2 ++ [a, b]) = (broadcast l1 l2).map (· ++ [a, b]) := by
  simp only [broadcast, List.reverse_append, List.reverse_cons, List.reverse_nil, List.nil_append,
    List.cons_append, broadcastRev, bdim_self]
  cases broadcastRev l1.reverse l2.reverse <;> simp

/-- a Grid against `scalars[..., newaxis, newaxis]` -/
theorem broadcast_append_ones (l sh : List Nat) (a b : Nat) :
    broadcast (l ++ [a, b]) (sh ++ [1, 1]) = (broadcast l sh).map (· ++ [a, b]) := by
  simp only [broadcast, List.reverse_append, List.reverse_cons, List.reverse_nil, List.nil_append,
    List.cons_append, broadcastRev, bdim_one_right]
  cases broadcastRev l.reverse sh.reverse <;> simp

theorem broadcast_ones_append (l sh : List Nat) (a b : Nat) :
    broadcast (sh ++ [1, 1]) (l ++ [a, b]) = (broadcast l sh).map (· ++ [a, b]) := by
  rw [broadcast_comm, broadcast_append_ones]

theorem lastTwo_append (l : List Nat) (a b : Nat) : lastTwo (l ++ [a, b]) = some (l, a, b) := by
  simp [lastTwo]

theorem lastTwo_eq {sh l : List Nat} {a b : Nat} (h : lastTwo sh = some (l, a, b)) : sh = l ++ [a, b] := by
  unfold lastTwo at h
  split at h
  · rename_i p t rest hr
    simp only [Option.some.injEq, Prod.mk.injEq] at h
    obtain ⟨h1, h2, h3⟩ := h
    have : sh = (p :: t :: rest).reverse := by rw [← hr, List.reverse_reverse]
    rw [this, ← h1, ← h2, ← h3]; simp
  · cases h

theorem G.shape_eq (g : G) : g.shape = g.lead ++ [g.nTheta, g.nPhi] := rfl

/-! ### the constructor -/

theorem enough_neg {s : Int} {nt np : Nat} : enough (-s) nt np ↔ enough s nt np := by
  simp [enough, Int.natAbs_neg]

theorem enough_zero {nt np : Nat} : enough 0 nt np ↔ 1 ≤ nt ∧ 1 ≤ np := by
  simp [enough]

theorem not_enough_iff {s : Int} {nt np : Nat} :
    ¬ enough s nt np ↔ (nt < 2 * s.natAbs + 1 ∨ np < 2 * s.natAbs + 1) := by
  unfold enough; omega

/-- `type(self)(array, **md)` on an array of shape `l ++ [nt, np]` -/
theorem construct_eq (nid : MId) (l : List Nat) (nt np : Nat) (md : Meta) (s : Int) (hs : md.spin = some s) :
    construct nid (l ++ [nt, np]) md =
      if enough s nt np then .ok { spin := s, nTheta := nt, nPhi := np, lead := l, extra := md.extra, metaId := nid }
      else .error .tooSmall := by
  by_cases he : enough s nt np
  · have h' : ¬ (nt < 2 * s.natAbs + 1 ∨ np < 2 * s.natAbs + 1) := by unfold enough at he; omega
    simp [construct, new, lastTwo_append, hs, he, h']
  · have h' : (nt < 2 * s.natAbs + 1 ∨ np < 2 * s.natAbs + 1) := not_enough_iff.mp he
    simp [construct, new, lastTwo_append, hs, he, h']

theorem construct_ok {nid : MId} {l : List Nat} {nt np : Nat} {md : Meta} {s : Int}
    (hs : md.spin = some s) (he : enough s nt np) :
    construct nid (l ++ [nt, np]) md =
      .ok { spin := s, nTheta := nt, nPhi := np, lead := l, extra := md.extra, metaId := nid } := by
  rw [construct_eq nid l nt np md s hs, if_pos he]

theorem construct_tooSmall {nid : MId} {l : List Nat} {nt np : Nat} {md : Meta} {s : Int}
    (hs : md.spin = some s) (he : ¬ enough s nt np) :
    construct nid (l ++ [nt, np]) md = .error .tooSmall := by
  rw [construct_eq nid l nt np md s hs, if_neg he]

/-- whatever `construct` returns satisfies the constructor's invariant, is a new object, carries the
    new dict, the spin weight of `md` and lives on the shape it was given -/
theorem construct_spec {nid : MId} {sh : List Nat} {md : Meta} {r : RGrid} (h : construct nid sh md = .ok r) :
    enough r.spin r.nTheta r.nPhi ∧ r.metaId = nid ∧ r.obj = .new ∧ md.spin = some r.spin ∧
    sh = r.lead ++ [r.nTheta, r.nPhi] ∧ r.extra = md.extra := by
  unfold construct new at h
  simp only [List.length_nil, gt_iff_lt, Nat.not_lt_zero, ↓reduceIte] at h
  split at h
  · cases h
  · rename_i lead nt np hl
    split at h
    · cases h
    · rename_i s hs
      split at h
      · cases h
      · rename_i hne
        injection h with h
        subst h
        refine ⟨by unfold enough; simp only; omega, rfl, rfl, ?_, lastTwo_eq hl, by simp⟩
        simpa using hs

theorem construct_err {nid : MId} {sh : List Nat} {md : Meta} {e : Err} (h : construct nid sh md = .error e) :
    e = .ndimLt2 ∨ e = .noSpin ∨ e = .tooSmall := by
  unfold construct new at h
  simp only [List.length_nil, gt_iff_lt, Nat.not_lt_zero, ↓reduceIte] at h
  split at h
  · injection h with h; exact Or.inl h.symm
  · split at h
    · injection h with h; exact Or.inr (Or.inl h.symm)
    · split at h
      · injection h with h; exact Or.inr (Or.inr h.symm)
      · cases h

/-! ### `build` -/

theorem ufuncShape_none (ins : List (List Nat)) : ufuncShape ins none = broadcastAll ins := by
  unfold ufuncShape; cases broadcastAll ins <;> rfl

theorem broadcastAll_one (a : List Nat) : broadcastAll [a] = some a := rfl
theorem broadcastAll_two (a b : List Nat) : broadcastAll [a, b] = broadcast a b := rfl

/-- `build` without `out`, inputs broadcasting to `l ++ [nt, np]` -/
theorem build_noout {ins : List (List Nat)} {l : List Nat} {nt np : Nat} {md omd : Meta} {nid : MId} {s : Int}
    (hb : broadcastAll ins = some (l ++ [nt, np])) (hs : md.spin = some s) :
    build ins none md nid omd =
      if enough s nt np then
        (.grid { spin := s, nTheta := nt, nPhi := np, lead := l, extra := md.extra, metaId := nid }, none)
      else (.raises .tooSmall, none) := by
  unfold build
  simp only [Option.map_none, ufuncShape_none, hb, construct_eq nid l nt np md s hs]
  by_cases he : enough s nt np <;> simp [he]

/-- every Grid that `build` returns went through the constructor -/
theorem build_grid_spec {ins : List (List Nat)} {out : Option OutArg} {md omd : Meta} {nid : MId} {r : RGrid}
    (h : (build ins out md nid omd).1 = .grid r) :
    enough r.spin r.nTheta r.nPhi ∧ r.metaId = nid ∧ r.obj = .new ∧ md.spin = some r.spin ∧ r.extra = md.extra ∧
    ufuncShape ins (out.map OutArg.shape) = some (r.lead ++ [r.nTheta, r.nPhi]) := by
  unfold build at h
  split at h
  · cases h
  · rename_i sh hsh
    split at h
    · cases h
    · rename_i r' hr
      simp only [Res.grid.injEq] at h
      subst h
      obtain ⟨h1, h2, h3, h4, h5, h6⟩ := construct_spec hr
      exact ⟨h1, h2, h3, h4, h6, by rw [hsh, h5]⟩

/-- the possible first components of `build` -/
theorem build_fst_cases (ins : List (List Nat)) (out : Option OutArg) (md omd : Meta) (nid : MId) :
    (∃ r, (build ins out md nid omd).1 = .grid r) ∨
    (build ins out md nid omd).1 = .raises .numpyBroadcast ∨ (build ins out md nid omd).1 = .raises .ndimLt2 ∨
    (build ins out md nid omd).1 = .raises .noSpin ∨ (build ins out md nid omd).1 = .raises .tooSmall := by
  unfold build
  split
  · exact Or.inr (Or.inl rfl)
  · split
    · rename_i e he
      rcases construct_err he with h | h | h <;> subst h <;> simp
    · exact Or.inl ⟨_, rfl⟩

/-- supplying an `out` array that has exactly the shape of the result does not change the result -/
theorem build_out_same {ins : List (List Nat)} {md omd omd' : Meta} {nid : MId} {r : RGrid} (o : OutArg)
    (h : (build ins none md nid omd).1 = .grid r) (ho : o.shape = r.lead ++ [r.nTheta, r.nPhi]) :
    (build ins (some o) md nid omd').1 = .grid r := by
  have hsp := (build_grid_spec h).2.2.2.2.2
  simp only [Option.map_none, ufuncShape_none] at hsp
  unfold build at h ⊢
  simp only [Option.map_none, ufuncShape_none, hsp] at h
  simp only [Option.map_some, ufuncShape, hsp, ho, broadcast_self, ↓reduceIte]
  split at h
  · cases h
  · rename_i r' hr
    exact h

/-- the new `_metadata` of `out[0]`, when `build` rebinds it, is `omd` -/
theorem build_snd {ins : List (List Nat)} {out : Option OutArg} {md omd : Meta} {nid : MId} {m : Meta}
    (h : (build ins out md nid omd).2 = some m) : m = omd ∧ ∃ r, (build ins out md nid omd).1 = .grid r := by
  unfold build at h ⊢
  split at h
  · cases h
  · split at h
    · cases h
    · rename_i r hr
      split at h
      · simp only [Option.some.injEq] at h
        rename_i hsh _ _ _
        exact ⟨h.symm, r, rfl⟩
      · cases h

theorem finish_fst_grid {m : Meth} {x : Res × Option Meta} {r : RGrid} :
    (finish m x).1 = .grid r ↔ m ≠ .at ∧ x.1 = .grid r := by
  obtain ⟨x1, x2⟩ := x
  cases m <;> cases x1 <;> simp [finish]

theorem finish_snd (m : Meth) (x : Res × Option Meta) : (finish m x).2 = x.2 := by
  obtain ⟨x1, x2⟩ := x
  cases m <;> cases x1 <;> simp [finish]

theorem finish_call (x : Res × Option Meta) : finish .call x = x := by
  obtain ⟨x1, x2⟩ := x
  cases x1 <;> rfl

/-- `finish` only ever turns a returned Grid into `None` -/
theorem finish_fst_of_not_grid {m : Meth} {x : Res × Option Meta} (h : ∀ r, x.1 ≠ .grid r) : (finish m x).1 = x.1 := by
  obtain ⟨x1, x2⟩ := x
  cases m <;> cases x1 <;> simp_all [finish]

/-! ### `_check_broadcasting` -/

theorem checkBroadcasting_yes {g : G} {sh l : List Nat} (hd : sh.length ≤ g.lead.length)
    (hb : broadcast g.lead sh = some l) : checkBroadcasting g sh = .yes := by
  unfold checkBroadcasting
  have : ¬ sh.length > g.lead.length := by omega
  simp [this, hb]

theorem checkBroadcasting_scalar0 (g : G) : checkBroadcasting g [] = .yes :=
  checkBroadcasting_yes (l := g.lead) (by simp) (broadcast_nil_right _)

/-! ### shapes fed to numpy by the branches -/

theorem bshape_gg {g1 g2 : G} {l : List Nat} (hnt : g1.nTheta = g2.nTheta) (hnp : g1.nPhi = g2.nPhi)
    (hl : broadcast g1.lead g2.lead = some l) :
    broadcastAll [g1.shape, g2.shape] = some (l ++ [g1.nTheta, g1.nPhi]) := by
  rw [broadcastAll_two, G.shape_eq, G.shape_eq, ← hnt, ← hnp, broadcast_append_two, hl]; rfl

theorem bshape_gs {g : G} {sh l : List Nat} (hl : broadcast g.lead sh = some l) :
    broadcastAll [g.shape, sh ++ [1, 1]] = some (l ++ [g.nTheta, g.nPhi]) := by
  rw [broadcastAll_two, G.shape_eq, broadcast_append_ones, hl]; rfl

theorem bshape_sg {g : G} {sh l : List Nat} (hl : broadcast g.lead sh = some l) :
    broadcastAll [sh ++ [1, 1], g.shape] = some (l ++ [g.nTheta, g.nPhi]) := by
  rw [broadcastAll_two, G.shape_eq, broadcast_ones_append, hl]; rfl

theorem bshape_g (g : G) : broadcastAll [g.shape] = some (g.lead ++ [g.nTheta, g.nPhi]) := rfl

/-! ### evaluation of the branches without `out` -/

/-- result of a supported branch: a Grid if the grid has enough points for the new spin weight, else the
    constructor raises -/
def outcome (s : Int) (nt np : Nat) (l : List Nat) (extra : List String) (k : Nat) : Res × Option Meta :=
  if enough s nt np then
    (.grid { spin := s, nTheta := nt, nPhi := np, lead := l, extra := extra, metaId := .fresh k }, none)
  else (.raises .tooSmall, none)

theorem outcome_enough {s : Int} {nt np : Nat} {l : List Nat} {extra : List String} {k : Nat} (h : enough s nt np) :
    outcome s nt np l extra k =
      (.grid { spin := s, nTheta := nt, nPhi := np, lead := l, extra := extra, metaId := .fresh k }, none) := by
  simp [outcome, h]

theorem outcome_tooSmall {s : Int} {nt np : Nat} {l : List Nat} {extra : List String} {k : Nat} (h : ¬ enough s nt np) :
    outcome s nt np l extra k = (.raises .tooSmall, none) := by
  simp [outcome, h]

theorem mulDiv_gg (isMul : Bool) {g1 g2 : G} {l : List Nat} (t : List Arg) (hnt : g1.nTheta = g2.nTheta)
    (hnp : g1.nPhi = g2.nPhi) (hl : broadcast g1.lead g2.lead = some l) :
    mulDiv isMul (.grid g1 :: .grid g2 :: t) none =
      outcome (if isMul then g1.spin + g2.spin else g1.spin - g2.spin) g1.nTheta g1.nPhi l g1.extra 1 := by
  simp only [mulDiv]
  rw [if_neg (by simp [hnt, hnp])]
  exact build_noout (bshape_gg hnt hnp hl) rfl

theorem mulDiv_gg_shape (isMul : Bool) {g1 g2 : G} (t : List Arg) (out : Option OutArg)
    (h : g1.nTheta ≠ g2.nTheta ∨ g1.nPhi ≠ g2.nPhi) :
    mulDiv isMul (.grid g1 :: .grid g2 :: t) out = (.raises .shapeMismatch, none) := by
  simp only [mulDiv]; rw [if_pos h]

theorem mulDiv_gs (isMul : Bool) {g : G} {sh l : List Nat} (nz : Bool) (iv : Option Int) (t : List Arg)
    (hd : sh.length ≤ g.lead.length) (hl : broadcast g.lead sh = some l) :
    mulDiv isMul (.grid g :: .scalar nz sh iv :: t) none = outcome g.spin g.nTheta g.nPhi l g.extra 1 := by
  simp only [mulDiv, checkBroadcasting_yes hd hl]
  exact build_noout (bshape_gs hl) rfl

theorem mulDiv_sg (isMul : Bool) {g : G} {sh l : List Nat} (nz : Bool) (iv : Option Int) (t : List Arg)
    (hd : sh.length ≤ g.lead.length) (hl : broadcast g.lead sh = some l) :
    mulDiv isMul (.scalar nz sh iv :: .grid g :: t) none =
      outcome (if isMul then g.spin else -g.spin) g.nTheta g.nPhi l g.extra 1 := by
  simp only [mulDiv, checkBroadcasting_yes hd hl]
  exact build_noout (bshape_sg hl) rfl

theorem addSub_gg {self g1 g2 : G} {l : List Nat} (t : List Arg) (hs : g1.spin = g2.spin) (hnt : g1.nTheta = g2.nTheta)
    (hnp : g1.nPhi = g2.nPhi) (hl : broadcast g1.lead g2.lead = some l) :
    addSub self (.grid g1 :: .grid g2 :: t) none = outcome self.spin g1.nTheta g1.nPhi l self.extra 0 := by
  simp only [addSub]
  rw [if_neg (by simp [hs]), if_neg (by simp [hnt, hnp])]
  exact build_noout (bshape_gg hnt hnp hl) rfl

theorem addSub_gg_spin {self g1 g2 : G} (t : List Arg) (out : Option OutArg) (hs : g1.spin ≠ g2.spin) :
    addSub self (.grid g1 :: .grid g2 :: t) out = (.raises .spinMismatch, none) := by
  simp only [addSub]; rw [if_pos hs]

theorem addSub_gg_shape {self g1 g2 : G} (t : List Arg) (out : Option OutArg) (hs : g1.spin = g2.spin)
    (h : g1.nTheta ≠ g2.nTheta ∨ g1.nPhi ≠ g2.nPhi) :
    addSub self (.grid g1 :: .grid g2 :: t) out = (.raises .shapeMismatch, none) := by
  simp only [addSub]; rw [if_neg (by simp [hs]), if_pos h]

theorem addSub_gs {self g : G} {sh l : List Nat} {nz : Bool} (iv : Option Int) (t : List Arg)
    (hz : g.spin = 0 ∨ nz = false) (hd : sh.length ≤ g.lead.length) (hl : broadcast g.lead sh = some l) :
    addSub self (.grid g :: .scalar nz sh iv :: t) none = outcome self.spin g.nTheta g.nPhi l self.extra 0 := by
  simp only [addSub, checkBroadcasting_yes hd hl]
  rw [if_neg (by rcases hz with h | h <;> simp [h])]
  exact build_noout (bshape_gs hl) rfl

theorem addSub_sg {self g : G} {sh l : List Nat} {nz : Bool} (iv : Option Int) (t : List Arg)
    (hz : g.spin = 0 ∨ nz = false) (hd : sh.length ≤ g.lead.length) (hl : broadcast g.lead sh = some l) :
    addSub self (.scalar nz sh iv :: .grid g :: t) none = outcome self.spin g.nTheta g.nPhi l self.extra 0 := by
  simp only [addSub, checkBroadcasting_yes hd hl]
  rw [if_neg (by rcases hz with h | h <;> simp [h])]
  exact build_noout (bshape_sg hl) rfl

theorem addSub_nonzero {self g : G} {sh : List Nat} (iv : Option Int) (t : List Arg) (out : Option OutArg)
    (hs : g.spin ≠ 0) :
    addSub self (.grid g :: .scalar true sh iv :: t) out = (.notImplemented, none) ∧
    addSub self (.scalar true sh iv :: .grid g :: t) out = (.notImplemented, none) := by
  simp [addSub, hs]

theorem unary_g {g : G} (f : Int → Option Int) {s : Int} (t : List Arg) (hf : f g.spin = some s) :
    unary (.grid g :: t) none f = outcome s g.nTheta g.nPhi g.lead g.extra 1 := by
  simp only [unary, hf]
  exact build_noout (bshape_g g) rfl

theorem unary_g_none {g : G} (f : Int → Option Int) (t : List Arg) (out : Option OutArg) (hf : f g.spin = none) :
    unary (.grid g :: t) out f = (.notImplemented, none) := by
  simp only [unary, hf]

theorem power_g {g : G} (nz : Bool) (sh : List Nat) (k : Int) (t : List Arg) :
    power (.grid g :: .scalar nz sh (some k) :: t) none = outcome (k * g.spin) g.nTheta g.nPhi g.lead g.extra 1 := by
  simp only [power]
  exact build_noout (bshape_g g) rfl

theorem posneg_self (self : G) :
    build [self.shape] none self.meta (.fresh 0) { self.meta with id := .fresh 1 } =
      outcome self.spin self.nTheta self.nPhi self.lead self.extra 0 :=
  build_noout (bshape_g self) rfl

theorem selfOf_first_grid (uf : UF) (m : Meth) (g : G) (t : List Arg) (out : Option OutArg) (kw : Bool) :
    selfOf { uf := uf, meth := m, args := .grid g :: t, out := out, kwargs := kw } = some g := by
  simp [selfOf, List.findSome?, Arg.grid?]

theorem selfOf_second_grid (uf : UF) (m : Meth) (nz : Bool) (sh : List Nat) (iv : Option Int) (g : G) (t : List Arg)
    (out : Option OutArg) (kw : Bool) :
    selfOf { uf := uf, meth := m, args := .scalar nz sh iv :: .grid g :: t, out := out, kwargs := kw } = some g := by
  simp [selfOf, List.findSome?, Arg.grid?]

/-! ### structure of the branches: what a returned Grid / a rebound `out[0]._metadata` looks like -/

/-- facts about a returned Grid `r` whose dict is the `k`-th fresh one -/
def GoodGrid (k : Nat) (r : RGrid) : Prop := r.metaId = .fresh k ∧ r.obj = .new ∧ enough r.spin r.nTheta r.nPhi

theorem build_good {ins : List (List Nat)} {out : Option OutArg} {md omd : Meta} {k : Nat} {r : RGrid}
    (h : (build ins out md (.fresh k) omd).1 = .grid r) : GoodGrid k r :=
  let ⟨h1, h2, h3, _⟩ := build_grid_spec h
  ⟨h2, h3, h1⟩

theorem addSub_good {self : G} {args : List Arg} {out : Option OutArg} {r : RGrid}
    (h : (addSub self args out).1 = .grid r) : GoodGrid 0 r := by
  unfold addSub at h
  repeat' split at h
  all_goals first | exact build_good h | simp at h

theorem mulDiv_good {isMul : Bool} {args : List Arg} {out : Option OutArg} {r : RGrid}
    (h : (mulDiv isMul args out).1 = .grid r) : GoodGrid 1 r := by
  unfold mulDiv at h
  repeat' split at h
  all_goals first | exact build_good h | simp at h

theorem unary_good {f : Int → Option Int} {args : List Arg} {out : Option OutArg} {r : RGrid}
    (h : (unary args out f).1 = .grid r) : GoodGrid 1 r := by
  unfold unary at h
  repeat' split at h
  all_goals first | exact build_good h | simp at h

theorem power_good {args : List Arg} {out : Option OutArg} {r : RGrid}
    (h : (power args out).1 = .grid r) : GoodGrid 1 r := by
  unfold power at h
  repeat' split at h
  all_goals first | exact build_good h | simp at h

theorem addSub_snd {self : G} {args : List Arg} {out : Option OutArg} {m : Meta}
    (h : (addSub self args out).2 = some m) : m = { self.meta with id := .fresh 1 } := by
  unfold addSub at h
  repeat' split at h
  all_goals first | exact (build_snd h).1 | simp at h

theorem mulDiv_snd {isMul : Bool} {args : List Arg} {out : Option OutArg} {m : Meta}
    (h : (mulDiv isMul args out).2 = some m) : m.id = .fresh 0 := by
  unfold mulDiv at h
  repeat' split at h
  all_goals first | (rw [(build_snd h).1]; rfl) | simp at h

theorem unary_snd {f : Int → Option Int} {args : List Arg} {out : Option OutArg} {m : Meta}
    (h : (unary args out f).2 = some m) : m.id = .fresh 0 := by
  unfold unary at h
  repeat' split at h
  all_goals first | (rw [(build_snd h).1]; rfl) | simp at h

theorem power_snd {args : List Arg} {out : Option OutArg} {m : Meta}
    (h : (power args out).2 = some m) : m.id = .fresh 0 := by
  unfold power at h
  repeat' split at h
  all_goals first | (rw [(build_snd h).1]; rfl) | simp at h

/-! ### the `out=` argument only enters through `build` -/

/-- `x` and `y` are the same branch run with `out` and without -/
def OutRel (out : Option OutArg) (x y : Res × Option Meta) : Prop :=
  (x = y ∧ (∀ r, y.1 ≠ .grid r) ∧ y.1 ≠ .raises .tooSmall ∧ y.1 ≠ .raises .numpyBroadcast ∧
     y.1 ≠ .raises .ndimLt2 ∧ y.1 ≠ .raises .noSpin) ∨
  ∃ ins md nid omd omd', x = build ins out md nid omd ∧ y = build ins none md nid omd'

theorem OutRel.build (ins : List (List Nat)) (out : Option OutArg) (md : Meta) (nid : MId) (omd omd' : Meta) :
    OutRel out (build ins out md nid omd) (Model.Grid.build ins none md nid omd') :=
  Or.inr ⟨ins, md, nid, omd, omd', rfl, rfl⟩

theorem addSub_outRel (self : G) (args : List Arg) (out : Option OutArg) :
    OutRel out (addSub self args out) (addSub self args none) := by
  rcases args with _ | ⟨a, _ | ⟨b, t⟩⟩
  · exact Or.inl (by simp [addSub])
  · cases a <;> exact Or.inl (by simp [addSub])
  · cases a <;> cases b <;> simp only [addSub]
    all_goals repeat' split
    all_goals first | exact OutRel.build .. | exact Or.inl (by simp)

theorem mulDiv_outRel (isMul : Bool) (args : List Arg) (out : Option OutArg) :
    OutRel out (mulDiv isMul args out) (mulDiv isMul args none) := by
  rcases args with _ | ⟨a, _ | ⟨b, t⟩⟩
  · exact Or.inl (by simp [mulDiv])
  · cases a <;> exact Or.inl (by simp [mulDiv])
  · cases a <;> cases b <;> simp only [mulDiv]
    all_goals repeat' split
    all_goals first | exact OutRel.build .. | exact Or.inl (by simp)

theorem unary_outRel (f : Int → Option Int) (args : List Arg) (out : Option OutArg) :
    OutRel out (unary args out f) (unary args none f) := by
  rcases args with _ | ⟨a, t⟩
  · exact Or.inl (by simp [unary])
  · cases a <;> simp only [unary]
    all_goals repeat' split
    all_goals first | exact OutRel.build .. | exact Or.inl (by simp)

theorem power_outRel (args : List Arg) (out : Option OutArg) :
    OutRel out (power args out) (power args none) := by
  unfold power
  repeat' split
  all_goals first | exact OutRel.build .. | exact Or.inl (by simp)

/-- rejections decided by the class's own logic (not by numpy's shape check or the constructor) -/
def Res.isDecisionReject : Res → Bool
  | .notImplemented => true
  | .raises .kwargs | .raises .spinMismatch | .raises .shapeMismatch | .raises .scalarDims
  | .raises .indexError => true
  | _ => false

theorem OutRel.grid {out : Option OutArg} {x y : Res × Option Meta} (h : OutRel out x y) (o : OutArg)
    (ho : out = some o) {r : RGrid} (hy : y.1 = .grid r) (hsh : o.shape = r.lead ++ [r.nTheta, r.nPhi]) :
    x.1 = .grid r := by
  rcases h with ⟨_, hn, _⟩ | ⟨ins, md, nid, omd, omd', hx, hy'⟩
  · exact absurd hy (hn r)
  · subst ho
    rw [hx]; rw [hy'] at hy
    exact build_out_same o hy hsh

theorem OutRel.reject {out : Option OutArg} {x y : Res × Option Meta} (h : OutRel out x y)
    (hy : y.1.isDecisionReject = true) : x.1 = y.1 := by
  rcases h with ⟨he, _⟩ | ⟨ins, md, nid, omd, omd', _, hy'⟩
  · rw [he]
  · rw [hy'] at hy
    rcases build_fst_cases ins none md omd' nid with ⟨r, h⟩ | h | h | h | h <;> rw [h] at hy <;> simp [Res.isDecisionReject] at hy

theorem OutRel.finish {out : Option OutArg} {x y : Res × Option Meta} (m : Meth) (h : OutRel out x y) :
    (∀ o r, out = some o → (Model.Grid.finish m y).1 = .grid r → o.shape = r.lead ++ [r.nTheta, r.nPhi] →
      (Model.Grid.finish m x).1 = .grid r) ∧
    ((Model.Grid.finish m y).1.isDecisionReject = true → (Model.Grid.finish m x).1 = (Model.Grid.finish m y).1) := by
  constructor
  · intro o r ho hy hsh
    rw [finish_fst_grid] at hy ⊢
    exact ⟨hy.1, h.grid o ho hy.2 hsh⟩
  · intro hy
    by_cases hg : ∃ r, y.1 = .grid r
    · obtain ⟨r, hr⟩ := hg
      obtain ⟨y1, y2⟩ := y
      simp only at hr
      subst hr
      cases m <;> simp [Model.Grid.finish, Res.isDecisionReject] at hy
    · have hyn : ∀ r, y.1 ≠ .grid r := fun r hr => hg ⟨r, hr⟩
      rw [finish_fst_of_not_grid hyn] at hy ⊢
      have hxy := h.reject hy
      have hxn : ∀ r, x.1 ≠ .grid r := fun r hr => hyn r (hxy ▸ hr)
      rw [finish_fst_of_not_grid hxn, hxy]

/-! ### vocabulary for the property statements -/

/-- `ufunc(a)` : method `'__call__'`, no `out`, no keyword arguments -/
def call1 (uf : UF) (a : Arg) : Call := { uf := uf, args := [a] }
/-- `ufunc(a, b)` -/
def call2 (uf : UF) (a b : Arg) : Call := { uf := uf, args := [a, b] }
/-- a returned Grid, new object, `k`-th fresh dict -/
def freshGrid (s : Int) (nt np : Nat) (l : List Nat) (extra : List String) (k : Nat) : Res :=
  .grid { spin := s, nTheta := nt, nPhi := np, lead := l, extra := extra, metaId := .fresh k, obj := .new }

theorem outcome_enough' {s : Int} {nt np : Nat} {l : List Nat} {extra : List String} {k : Nat} (h : enough s nt np) :
    outcome s nt np l extra k = (freshGrid s nt np l extra k, none) := outcome_enough h

/-- the spin-weight rule of the unary ufuncs (`none` = NotImplemented) -/
def unaryRule : UF → Option (Int → Option Int)
  | .conj | .conjugate | .reciprocal => some (fun s => some (-s))
  | .absolute => some (fun _ => some 0)
  | .sqrt => some (fun s => if s % 2 ≠ 0 then none else some (s / 2))
  | .square => some (fun s => some (s * 2))
  | _ => none

theorem arrayUfunc_unary {uf : UF} {f : Int → Option Int} (hf : unaryRule uf = some f) (self : G) (c : Call)
    (hu : c.uf = uf) (hk : c.kwargs = false) :
    arrayUfunc self c = finish c.meth (unary c.args c.out f) := by
  obtain ⟨u, m, a, o, k⟩ := c
  simp only at hu hk
  subst hu hk
  cases u <;> simp [unaryRule] at hf <;> subst hf <;> simp [arrayUfunc, UF.isPassthrough, UF.isAllowed]

theorem arrayUfunc_mulDiv (self : G) (c : Call) (hk : c.kwargs = false)
    (hu : c.uf = .multiply ∨ c.uf = .divide ∨ c.uf = .true_divide) :
    arrayUfunc self c = finish c.meth (mulDiv (c.uf == .multiply) c.args c.out) := by
  obtain ⟨u, m, a, o, k⟩ := c
  simp only at hu hk
  subst hk
  rcases hu with h | h | h <;> subst h <;> simp [arrayUfunc, UF.isPassthrough, UF.isAllowed] <;> rfl

theorem arrayUfunc_addSub (self : G) (c : Call) (hk : c.kwargs = false) (hu : c.uf = .add ∨ c.uf = .subtract) :
    arrayUfunc self c = finish c.meth (addSub self c.args c.out) := by
  obtain ⟨u, m, a, o, k⟩ := c
  simp only at hu hk
  subst hk
  rcases hu with h | h <;> subst h <;> simp [arrayUfunc, UF.isPassthrough, UF.isAllowed]

theorem arrayUfunc_power (self : G) (c : Call) (hk : c.kwargs = false) (hu : c.uf = .power) :
    arrayUfunc self c = finish c.meth (power c.args c.out) := by
  obtain ⟨u, m, a, o, k⟩ := c
  simp only at hu hk
  subst hk hu
  simp [arrayUfunc, UF.isPassthrough, UF.isAllowed]

theorem arrayUfunc_posneg (self : G) (c : Call) (hk : c.kwargs = false) (hu : c.uf = .positive ∨ c.uf = .negative) :
    arrayUfunc self c =
      finish c.meth (build [self.shape] c.out self.meta (.fresh 0) { self.meta with id := .fresh 1 }) := by
  obtain ⟨u, m, a, o, k⟩ := c
  simp only at hu hk
  subst hk
  rcases hu with h | h <;> subst h <;> simp [arrayUfunc, UF.isPassthrough, UF.isAllowed]

/-- every way `arrayUfunc` can produce its answer -/
theorem arrayUfunc_cases (self : G) (c : Call) :
    (c.uf.isPassthrough = true ∧ ((arrayUfunc self c) = (.plain, none) ∨ (arrayUfunc self c) = (.raises .numpyBroadcast, none))) ∨
    (c.uf.isPassthrough = false ∧ c.uf.isAllowed = false ∧ arrayUfunc self c = (.notImplemented, none)) ∨
    (c.uf.isAllowed = true ∧ c.kwargs = true ∧ arrayUfunc self c = (.raises .kwargs, none)) ∨
    (c.kwargs = false ∧ (c.uf = .positive ∨ c.uf = .negative) ∧ arrayUfunc self c =
      finish c.meth (build [self.shape] c.out self.meta (.fresh 0) { self.meta with id := .fresh 1 })) ∨
    (c.kwargs = false ∧ (c.uf = .add ∨ c.uf = .subtract) ∧ arrayUfunc self c = finish c.meth (addSub self c.args c.out)) ∨
    (c.kwargs = false ∧ (c.uf = .multiply ∨ c.uf = .divide ∨ c.uf = .true_divide) ∧
      arrayUfunc self c = finish c.meth (mulDiv (c.uf == .multiply) c.args c.out)) ∨
    (c.kwargs = false ∧ c.uf = .power ∧ arrayUfunc self c = finish c.meth (power c.args c.out)) ∨
    (c.kwargs = false ∧ ∃ f, unaryRule c.uf = some f ∧ arrayUfunc self c = finish c.meth (unary c.args c.out f)) := by
  by_cases hk : c.kwargs = true
  · by_cases hp : c.uf.isPassthrough = true
    · left
      refine ⟨hp, ?_⟩
      unfold arrayUfunc
      simp only [hp, ↓reduceIte]
      repeat' split
      all_goals simp
    · by_cases ha : c.uf.isAllowed = true
      · right; right; left
        exact ⟨ha, hk, by simp [arrayUfunc, hp, ha, hk]⟩
      · right; left
        exact ⟨by simpa using hp, by simpa using ha, by simp [arrayUfunc, hp, ha]⟩
  · have hk : c.kwargs = false := by simpa using hk
    obtain ⟨u, m, a, o, k⟩ := c
    simp only at hk
    subst hk
    cases u
    case positive => right; right; right; left; exact ⟨rfl, Or.inl rfl, arrayUfunc_posneg _ _ rfl (Or.inl rfl)⟩
    case negative => right; right; right; left; exact ⟨rfl, Or.inr rfl, arrayUfunc_posneg _ _ rfl (Or.inr rfl)⟩
    case add => right; right; right; right; left; exact ⟨rfl, Or.inl rfl, arrayUfunc_addSub _ _ rfl (Or.inl rfl)⟩
    case subtract => right; right; right; right; left; exact ⟨rfl, Or.inr rfl, arrayUfunc_addSub _ _ rfl (Or.inr rfl)⟩
    case multiply =>
      right; right; right; right; right; left
      exact ⟨rfl, Or.inl rfl, arrayUfunc_mulDiv _ _ rfl (Or.inl rfl)⟩
    case divide =>
      right; right; right; right; right; left
      exact ⟨rfl, Or.inr (Or.inl rfl), arrayUfunc_mulDiv _ _ rfl (Or.inr (Or.inl rfl))⟩
    case true_divide =>
      right; right; right; right; right; left
      exact ⟨rfl, Or.inr (Or.inr rfl), arrayUfunc_mulDiv _ _ rfl (Or.inr (Or.inr rfl))⟩
    case power => right; right; right; right; right; right; left; exact ⟨rfl, rfl, arrayUfunc_power _ _ rfl rfl⟩
    case conj => right; right; right; right; right; right; right; exact ⟨rfl, _, rfl, arrayUfunc_unary rfl _ _ rfl rfl⟩
    case conjugate => right; right; right; right; right; right; right; exact ⟨rfl, _, rfl, arrayUfunc_unary rfl _ _ rfl rfl⟩
    case absolute => right; right; right; right; right; right; right; exact ⟨rfl, _, rfl, arrayUfunc_unary rfl _ _ rfl rfl⟩
    case sqrt => right; right; right; right; right; right; right; exact ⟨rfl, _, rfl, arrayUfunc_unary rfl _ _ rfl rfl⟩
    case square => right; right; right; right; right; right; right; exact ⟨rfl, _, rfl, arrayUfunc_unary rfl _ _ rfl rfl⟩
    case reciprocal => right; right; right; right; right; right; right; exact ⟨rfl, _, rfl, arrayUfunc_unary rfl _ _ rfl rfl⟩
    case other => right; left; exact ⟨rfl, rfl, by simp [arrayUfunc, UF.isPassthrough, UF.isAllowed]⟩
    all_goals
      left
      refine ⟨rfl, ?_⟩
      unfold arrayUfunc
      simp only [UF.isPassthrough, ↓reduceIte]
      repeat' split
      all_goals simp

theorem arrayUfunc_multiply (self : G) (c : Call) (hk : c.kwargs = false) (hu : c.uf = .multiply) :
    arrayUfunc self c = finish c.meth (mulDiv true c.args c.out) := by
  rw [arrayUfunc_mulDiv self c hk (Or.inl hu), hu]; rfl

theorem arrayUfunc_divide (self : G) (c : Call) (hk : c.kwargs = false) (hu : c.uf = .divide ∨ c.uf = .true_divide) :
    arrayUfunc self c = finish c.meth (mulDiv false c.args c.out) := by
  rcases hu with h | h
  · rw [arrayUfunc_mulDiv self c hk (Or.inr (Or.inl h)), h]; rfl
  · rw [arrayUfunc_mulDiv self c hk (Or.inr (Or.inr h)), h]; rfl

theorem dispatch_first_grid (uf : UF) (m : Meth) (g : G) (t : List Arg) (out : Option OutArg) (kw : Bool) :
    dispatch { uf := uf, meth := m, args := .grid g :: t, out := out, kwargs := kw } =
      some (arrayUfunc g { uf := uf, meth := m, args := .grid g :: t, out := out, kwargs := kw }) := by
  simp only [dispatch, selfOf_first_grid, Option.map_some]

theorem dispatch_second_grid (uf : UF) (m : Meth) (nz : Bool) (sh : List Nat) (iv : Option Int) (g : G) (t : List Arg)
    (out : Option OutArg) (kw : Bool) :
    dispatch { uf := uf, meth := m, args := .scalar nz sh iv :: .grid g :: t, out := out, kwargs := kw } =
      some (arrayUfunc g { uf := uf, meth := m, args := .scalar nz sh iv :: .grid g :: t, out := out, kwargs := kw }) := by
  simp only [dispatch, selfOf_second_grid, Option.map_some]

theorem finish_reject (m : Meth) (e : Err) : finish m (.raises e, none) = (.raises e, none) := by cases m <;> rfl
theorem finish_notImplemented (m : Meth) : finish m (.notImplemented, none) = (.notImplemented, none) := by cases m <;> rfl

/-! ### the copy / pickle heap -/

/-- the entry lists carry the same keys, and pairwise equal value contents -/
def sameEntries (h h' : Heap) : List (String × Nat) → List (String × Nat) → Prop
  | [], [] => True
  | (k, v) :: r, (k', v') :: r' => k = k' ∧ h'.val v' = some ((h.val v).getD "") ∧ sameEntries h h' r r'
  | _, _ => False

theorem deepVals_spec (h : Heap) (es : List (String × Nat)) (hv : ∀ e ∈ es, e.2 < h.next) :
    let r := h.deepVals es
    r.2.next = h.next + es.length ∧ r.2.dict = h.dict ∧ r.2.buf = h.buf ∧
    (∀ i, i < h.next → r.2.val i = h.val i) ∧
    (∀ e ∈ r.1, h.next ≤ e.2 ∧ e.2 < r.2.next) ∧
    r.1.map (·.1) = es.map (·.1) ∧
    sameEntries h r.2 es r.1 := by
  induction es generalizing h with
  | nil => simp [Heap.deepVals, sameEntries]
  | cons e rest ih =>
    obtain ⟨k, v⟩ := e
    have hv0 : v < h.next := hv (k, v) (by simp)
    let h1 : Heap := { (h.setVal h.next ((h.val v).getD "")) with next := h.next + 1 }
    have hrest : ∀ e ∈ rest, e.2 < h1.next := fun e he => Nat.lt_succ_of_lt (hv e (by simp [he]))
    obtain ⟨i1, i2, i3, i4, i5, i6, i7⟩ := ih h1 hrest
    have hh1 : ∀ i, i < h.next → h1.val i = h.val i := by
      intro i hi
      have : i ≠ h.next := by omega
      simp [h1, Heap.setVal, this]
    have hnew : (h1.deepVals rest).2.val h.next = some ((h.val v).getD "") := by
      rw [i4 h.next (by simp [h1])]
      simp [h1, Heap.setVal]
    refine ⟨?_, ?_, ?_, ?_, ?_, ?_, ?_⟩
    · simp only [Heap.deepVals, List.length_cons]; rw [i1]; simp [h1]; omega
    · simp only [Heap.deepVals]; rw [i2]; simp [h1, Heap.setVal]
    · simp only [Heap.deepVals]; rw [i3]; simp [h1, Heap.setVal]
    · intro i hi
      simp only [Heap.deepVals]
      rw [i4 i (by simp [h1]; omega), hh1 i hi]
    · intro e he
      simp only [Heap.deepVals, List.mem_cons] at he
      rcases he with he | he
      · subst he
        simp only [Heap.deepVals]
        rw [i1]; simp [h1]; omega
      · have := i5 e he
        simp only [Heap.deepVals]
        simp [h1] at this ⊢
        omega
    · simp only [Heap.deepVals, List.map_cons]; rw [i6]
    · simp only [Heap.deepVals, sameEntries]
      refine ⟨trivial, hnew, ?_⟩
      -- entries of the tail: contents were read from `h1`, which agrees with `h` below `h.next`
      have key : ∀ (es rs : List (String × Nat)) (h' : Heap), (∀ e ∈ es, e.2 < h.next) →
          sameEntries h1 h' es rs → sameEntries h h' es rs := by
        intro es
        induction es with
        | nil => intro rs h' _ hs; cases rs <;> simp_all [sameEntries]
        | cons e es ihh =>
          intro rs h' hlt hs
          obtain ⟨k, v⟩ := e
          cases rs with
          | nil => simp [sameEntries] at hs
          | cons r rs =>
            obtain ⟨k', v'⟩ := r
            simp only [sameEntries] at hs ⊢
            refine ⟨hs.1, ?_, ihh rs h' (fun e he => hlt e (by simp [he])) hs.2.2⟩
            rw [← hh1 v (hlt (k, v) (by simp))]; exact hs.2.1
      exact key rest _ _ (fun e he => hv e (by simp [he])) i7

/-- `o` is a live Grid-like object of heap `h`: it has a `_metadata` dict `d` with contents `c`, and the dict, the
    data buffer and the value objects all exist (identities below `h.next`) -/
structure Live (h : Heap) (o : AObj) (d : Nat) (c : DictC) : Prop where
  md : o.md = some d
  dict : h.dict d = some c
  dlt : d < h.next
  blt : o.buf < h.next
  vlt : ∀ e ∈ c.extra, e.2 < h.next
  vsome : ∀ e ∈ c.extra, (h.val e.2).isSome = true
  bsome : (h.buf o.buf).isSome = true

theorem sameEntries_congr {h g h' g' : Heap} (e1 : h.val = g.val) (e2 : h'.val = g'.val) :
    ∀ (a b : List (String × Nat)), sameEntries h h' a b → sameEntries g g' a b := by
  intro a
  induction a with
  | nil => intro b hs; cases b <;> simp_all [sameEntries]
  | cons x xs ih =>
    intro b hs
    obtain ⟨k, v⟩ := x
    cases b with
    | nil => simp [sameEntries] at hs
    | cons y ys =>
      obtain ⟨k', v'⟩ := y
      simp only [sameEntries] at hs ⊢
      exact ⟨hs.1, by rw [← e1, ← e2]; exact hs.2.1, ih ys hs.2.2⟩

theorem sameEntries_refl (h : Heap) : ∀ (a : List (String × Nat)), (∀ e ∈ a, (h.val e.2).isSome = true) →
    sameEntries h h a a := by
  intro a
  induction a with
  | nil => intro _; simp [sameEntries]
  | cons x xs ih =>
    intro hv
    obtain ⟨k, v⟩ := x
    simp only [sameEntries]
    refine ⟨trivial, ?_, ih (fun e he => hv e (by simp [he]))⟩
    have := hv (k, v) (by simp)
    cases hx : h.val v <;> simp_all

theorem sameEntries_trans {h h' h'' : Heap} : ∀ (a b c : List (String × Nat)),
    sameEntries h h' a b → sameEntries h' h'' b c → sameEntries h h'' a c := by
  intro a
  induction a with
  | nil => intro b c h1 h2; cases b <;> cases c <;> simp_all [sameEntries]
  | cons x xs ih =>
    intro b c h1 h2
    obtain ⟨k, v⟩ := x
    cases b with
    | nil => simp [sameEntries] at h1
    | cons y ys =>
      obtain ⟨k', v'⟩ := y
      cases c with
      | nil => simp [sameEntries] at h2
      | cons z zs =>
        obtain ⟨k'', v''⟩ := z
        simp only [sameEntries] at h1 h2 ⊢
        refine ⟨h1.1.trans h2.1, ?_, ih ys zs h1.2.2 h2.2.2⟩
        rw [h2.2.1, h1.2.1]; rfl

/-- value contents of a list of entries read in heap `h` -/
def entryVals (h : Heap) (es : List (String × Nat)) : List (String × Option String) := es.map (fun e => (e.1, h.val e.2))

theorem sameEntries_vals {h h' : Heap} : ∀ (a b : List (String × Nat)), (∀ e ∈ a, (h.val e.2).isSome = true) →
    sameEntries h h' a b → entryVals h' b = entryVals h a := by
  intro a
  induction a with
  | nil => intro b _ hs; cases b <;> simp_all [sameEntries, entryVals]
  | cons x xs ih =>
    intro b hv hs
    obtain ⟨k, v⟩ := x
    cases b with
    | nil => simp [sameEntries] at hs
    | cons y ys =>
      obtain ⟨k', v'⟩ := y
      simp only [sameEntries] at hs
      have hrest := ih ys (fun e he => hv e (by simp [he])) hs.2.2
      have hsome := hv (k, v) (by simp)
      simp only [entryVals, List.map_cons] at hrest ⊢
      rw [hrest, hs.2.1, hs.1]
      cases hx : h.val v <;> simp_all

theorem deepCopy_spec (h : Heap) (d : Nat) (c : DictC) (hd : h.dict d = some c)
    (hv : ∀ e ∈ c.extra, e.2 < h.next) :
    let r := h.deepCopy d
    r.1 = h.next + c.extra.length ∧ r.2.next = r.1 + 1 ∧
    (∃ ex, r.2.dict r.1 = some ⟨c.spin, ex⟩ ∧ sameEntries h r.2 c.extra ex ∧
      (∀ e ∈ ex, h.next ≤ e.2 ∧ e.2 < r.1)) ∧
    (∀ i, i < h.next → r.2.dict i = h.dict i) ∧ (∀ i, i < h.next → r.2.val i = h.val i) ∧ r.2.buf = h.buf := by
  obtain ⟨i1, i2, i3, i4, i5, _, i7⟩ := deepVals_spec h c.extra hv
  simp only [Heap.deepCopy, hd]
  refine ⟨i1, by first | trivial | rfl, ⟨(h.deepVals c.extra).1, ?_, ?_, ?_⟩, ?_, ?_, ?_⟩
  · simp [Heap.setDict]
  · refine sameEntries_congr (h := h) (g := h) (h' := (h.deepVals c.extra).2) rfl ?_ _ _ i7
    rfl
  · intro e he
    have := i5 e he
    rw [i1] at this ⊢
    exact this
  · intro i hi
    have : i ≠ (h.deepVals c.extra).2.next := by rw [i1]; omega
    simp [Heap.setDict, this, i2]
  · intro i hi
    simp only [Heap.setDict]
    exact i4 i hi
  · simp only [Heap.setDict]; exact i3

/-- what a copy route must deliver (property C18): same class; a metadata dict that is a DIFFERENT object with the
    same spin weight, the same keys and equal values; a DIFFERENT data buffer with equal contents; the original left
    untouched; and no later mutation of either side's dict or buffer visible on the other side -/
structure IndependentCopy (h : Heap) (o : AObj) (d : Nat) (c : DictC) (o' : AObj) (h' : Heap) (d' : Nat) (c' : DictC) : Prop where
  cls : o'.cls = o.cls
  md : o'.md = some d'
  dict : h'.dict d' = some c'
  spin : c'.spin = c.spin
  keys : c'.extra.map (·.1) = c.extra.map (·.1)
  values : entryVals h' c'.extra = entryVals h c.extra
  data : h'.buf o'.buf = h.buf o.buf
  dict_ne : d' ≠ d
  buf_ne : o'.buf ≠ o.buf
  orig_dict : h'.dict d = h.dict d
  orig_buf : h'.buf o.buf = h.buf o.buf
  orig_vals : entryVals h' c.extra = entryVals h c.extra

theorem sameEntries_keys {h h' : Heap} : ∀ (a b : List (String × Nat)), sameEntries h h' a b →
    b.map (·.1) = a.map (·.1) := by
  intro a
  induction a with
  | nil => intro b hs; cases b <;> simp_all [sameEntries]
  | cons x xs ih =>
    intro b hs
    obtain ⟨k, v⟩ := x
    cases b with
    | nil => simp [sameEntries] at hs
    | cons y ys =>
      obtain ⟨k', v'⟩ := y
      simp only [sameEntries] at hs
      simp [ih ys hs.2.2, hs.1]

theorem entryVals_congr {h h' : Heap} (es : List (String × Nat)) (hv : ∀ e ∈ es, h'.val e.2 = h.val e.2) :
    entryVals h' es = entryVals h es := by
  induction es with
  | nil => rfl
  | cons x xs ih =>
    simp only [entryVals, List.map_cons] at ih ⊢
    rw [ih (fun e he => hv e (by simp [he])), hv x (by simp)]

/-- the routes through `__array_finalize__` : a shallow copy of the dict (same value objects) -/
theorem finalize_route_spec (r : Route) (hr : r.deep = false) {h : Heap} {o : AObj} {d : Nat} {c : DictC}
    (hl : Live h o d c) :
    IndependentCopy h o d c (copyVia r h o).1 (copyVia r h o).2 (h.next + 1) c ∧ (copyVia r h o).1.buf = h.next := by
  have hcv : copyVia r h o = arrayFinalize (h.copyBuf o.buf).2 { cls := o.cls, buf := (h.copyBuf o.buf).1, md := none } (some o) := by
    cases r <;> first | rfl | (simp [Route.deep] at hr)
  rw [hcv]
  have hb := hl.blt
  have hdl := hl.dlt
  have hbuf := hl.bsome
  have hd1 : (h.copyBuf o.buf).2.dict d = some c := by simp [Heap.copyBuf, Heap.setBuf, hl.dict]
  simp only [arrayFinalize, Heap.shallowCopy, hl.md, Option.bind_some, hd1]
  refine ⟨⟨rfl, ?_, ?_, rfl, rfl, ?_, ?_, ?_, ?_, ?_, ?_, ?_⟩, rfl⟩
  · simp [Heap.copyBuf]
  · simp [Heap.copyBuf, Heap.setDict, Heap.setBuf]
  · exact entryVals_congr _ (fun e _ => rfl)
  · simp only [Heap.copyBuf, Heap.setDict, Heap.setBuf, ↓reduceIte]
    cases hx : h.buf o.buf <;> simp_all
  · omega
  · simp only [Heap.copyBuf]; omega
  · have : d ≠ h.next + 1 := by omega
    simp [Heap.copyBuf, Heap.setDict, Heap.setBuf, this]
  · have : o.buf ≠ h.next := by omega
    simp [Heap.copyBuf, Heap.setDict, Heap.setBuf, this]
  · exact entryVals_congr _ (fun e _ => rfl)

theorem sameEntries_length {h h' : Heap} : ∀ (a b : List (String × Nat)), sameEntries h h' a b → b.length = a.length := by
  intro a b hs
  have := congrArg List.length (sameEntries_keys a b hs)
  simpa using this

/-- the pickle routes (`__reduce__`, serialisation, `_reconstruct`, `__setstate__` with its `deepcopy`): a deep copy —
    in addition to `IndependentCopy`, every value object of the new dict is new -/
theorem pickle_route_spec (p : Nat) {h : Heap} {o : AObj} {d : Nat} {c : DictC} (hl : Live h o d c) :
    ∃ d' c', IndependentCopy h o d c (copyVia (.pickle p) h o).1 (copyVia (.pickle p) h o).2 d' c' ∧
      (∀ e ∈ c'.extra, h.next ≤ e.2) := by
  have hb := hl.blt
  have hdl := hl.dlt
  -- step 1: the data bytes
  let h1 := (h.copyBuf o.buf).2
  have h1next : h1.next = h.next + 1 := rfl
  have h1dict : h1.dict = h.dict := rfl
  have h1val : h1.val = h.val := rfl
  have h1bufnew : h1.buf h.next = h.buf o.buf := by
    have := hl.bsome
    simp only [h1, Heap.copyBuf, Heap.setBuf, ↓reduceIte]
    cases hx : h.buf o.buf <;> simp_all
  have h1bufold : h1.buf o.buf = h.buf o.buf := by
    have : o.buf ≠ h.next := by omega
    simp [h1, Heap.copyBuf, Heap.setBuf, this]
  -- step 2: the pickled dict
  have hd1 : h1.dict d = some c := by rw [h1dict]; exact hl.dict
  obtain ⟨a1, a2, ⟨ex, a3, a4, a5⟩, a6, a7, a8⟩ :=
    deepCopy_spec h1 d c hd1 (fun e he => by rw [h1next]; exact Nat.lt_succ_of_lt (hl.vlt e he))
  -- step 3: `__setstate__` deep-copies it again
  let md' := (h1.deepCopy d).1
  let h2 := (h1.deepCopy d).2
  obtain ⟨b1, b2, ⟨ex2, b3, b4, b5⟩, b6, b7, b8⟩ :=
    deepCopy_spec h2 md' ⟨c.spin, ex⟩ a3 (fun e he => by
      have := a5 e he
      show e.2 < h2.next
      rw [a2]; omega)
  have hcv : copyVia (.pickle p) h o =
      ({ cls := o.cls, buf := h.next, md := some (h2.deepCopy md').1 }, (h2.deepCopy md').2) := by
    simp only [copyVia, reduce, hl.md, Option.getD_some, arrayFinalize, setstate]
    rfl
  rw [hcv]
  let d'' := (h2.deepCopy md').1
  let h4 := (h2.deepCopy md').2
  have hmd' : md' = h.next + 1 + c.extra.length := by rw [← h1next]; exact a1
  have hh2 : h2.next = h.next + 1 + c.extra.length + 1 := by rw [← hmd']; exact a2
  have hd'' : d'' = h2.next + ex.length := b1
  have hse : sameEntries h h4 c.extra ex2 :=
    sameEntries_congr (h := h1) (g := h) (h' := h4) (g' := h4) h1val rfl _ _ (sameEntries_trans _ _ _ a4 b4)
  refine ⟨d'', ⟨c.spin, ex2⟩, ⟨rfl, rfl, b3, rfl, sameEntries_keys _ _ hse, sameEntries_vals _ _ hl.vsome hse, ?_, ?_, ?_, ?_, ?_, ?_⟩, ?_⟩
  · show h4.buf h.next = h.buf o.buf
    rw [b8, a8, h1bufnew]
  · show d'' ≠ d
    omega
  · show h.next ≠ o.buf
    omega
  · show h4.dict d = h.dict d
    rw [b6 d (by omega), a6 d (by omega), h1dict]
  · show h4.buf o.buf = h.buf o.buf
    rw [b8, a8, h1bufold]
  · refine entryVals_congr _ (fun e he => ?_)
    have := hl.vlt e he
    show h4.val e.2 = h.val e.2
    rw [b7 e.2 (by omega), a7 e.2 (by omega), h1val]
  · intro e he
    have := (b5 e he).1
    show h.next ≤ e.2
    omega

/-- `copy.deepcopy` (`Grid.__deepcopy__`: new data and `__array_finalize__`, then `copy.deepcopy` of the original's
    dict): a deep copy — in addition to `IndependentCopy`, every value object of the new dict is new -/
theorem deepcopy_route_spec {h : Heap} {o : AObj} {d : Nat} {c : DictC} (hl : Live h o d c) :
    ∃ d' c', IndependentCopy h o d c (copyVia .copyDeepcopy h o).1 (copyVia .copyDeepcopy h o).2 d' c' ∧
      (∀ e ∈ c'.extra, h.next ≤ e.2) := by
  have hb := hl.blt
  have hdl := hl.dlt
  -- step 1: the data bytes
  let h1 := (h.copyBuf o.buf).2
  have h1bufnew : h1.buf h.next = h.buf o.buf := by
    have := hl.bsome
    simp only [h1, Heap.copyBuf, Heap.setBuf, ↓reduceIte]
    cases hx : h.buf o.buf <;> simp_all
  have h1bufold : h1.buf o.buf = h.buf o.buf := by
    have : o.buf ≠ h.next := by omega
    simp [h1, Heap.copyBuf, Heap.setBuf, this]
  -- step 2: `__array_finalize__(result, self)`: a shallow copy of the dict at identity `h.next + 1`
  let h2 := (arrayFinalize h1 { cls := o.cls, buf := h.next, md := none } (some o)).2
  have h2next : h2.next = h.next + 2 := by
    simp [h2, h1, arrayFinalize, Heap.shallowCopy, Heap.copyBuf]
  have h2dict : ∀ i, i < h.next → h2.dict i = h.dict i := by
    intro i hi
    have : i ≠ h.next + 1 := by omega
    simp [h2, h1, arrayFinalize, Heap.shallowCopy, Heap.copyBuf, Heap.setDict, Heap.setBuf, this]
  have h2val : h2.val = h.val := by
    simp [h2, h1, arrayFinalize, Heap.shallowCopy, Heap.copyBuf, Heap.setDict, Heap.setBuf]
  have h2buf : h2.buf = h1.buf := by
    simp [h2, h1, arrayFinalize, Heap.shallowCopy, Heap.copyBuf, Heap.setDict, Heap.setBuf]
  have hd2 : h2.dict d = some c := by rw [h2dict d hdl]; exact hl.dict
  -- step 3: `copy.deepcopy(self._metadata, memo)`
  obtain ⟨a1, a2, ⟨ex, a3, a4, a5⟩, a6, a7, a8⟩ :=
    deepCopy_spec h2 d c hd2 (fun e he => by rw [h2next]; have := hl.vlt e he; omega)
  have hcv : copyVia .copyDeepcopy h o =
      ({ cls := o.cls, buf := h.next, md := some (h2.deepCopy d).1 }, (h2.deepCopy d).2) := by
    have hcv0 : copyVia .copyDeepcopy h o =
        ({ cls := o.cls, buf := h.next, md := some (h2.deepCopy (o.md.getD h2.next)).1 },
          (h2.deepCopy (o.md.getD h2.next)).2) := rfl
    have e : o.md.getD h2.next = d := by rw [hl.md]; rfl
    rw [e] at hcv0
    exact hcv0
  rw [hcv]
  let d' := (h2.deepCopy d).1
  let h3 := (h2.deepCopy d).2
  have hd' : d' = h.next + 2 + c.extra.length := by rw [← h2next]; exact a1
  have hse : sameEntries h h3 c.extra ex :=
    sameEntries_congr (h := h2) (g := h) (h' := h3) (g' := h3) h2val rfl _ _ a4
  refine ⟨d', ⟨c.spin, ex⟩, ⟨rfl, rfl, a3, rfl, sameEntries_keys _ _ hse, sameEntries_vals _ _ hl.vsome hse,
    ?_, ?_, ?_, ?_, ?_, ?_⟩, ?_⟩
  · show h3.buf h.next = h.buf o.buf
    rw [a8, h2buf, h1bufnew]
  · show d' ≠ d
    omega
  · show h.next ≠ o.buf
    omega
  · show h3.dict d = h.dict d
    rw [a6 d (by omega), h2dict d hdl]
  · show h3.buf o.buf = h.buf o.buf
    rw [a8, h2buf, h1bufold]
  · refine entryVals_congr _ (fun e he => ?_)
    have := hl.vlt e he
    show h3.val e.2 = h.val e.2
    rw [a7 e.2 (by omega), h2val]
  · intro e he
    have := (a5 e he).1
    show h.next ≤ e.2
    omega

/-- every route: an independent copy; the deep routes (`copy.deepcopy`, pickle) with all-new value objects, the others
    with the original's dict contents (the same value objects) -/
theorem route_spec (r : Route) {h : Heap} {o : AObj} {d : Nat} {c : DictC} (hl : Live h o d c) :
    ∃ d' c', IndependentCopy h o d c (copyVia r h o).1 (copyVia r h o).2 d' c' ∧
      (r.deep = true → ∀ e ∈ c'.extra, h.next ≤ e.2) ∧ (r.deep = false → c' = c) := by
  cases r with
  | pickle p =>
    obtain ⟨d', c', ic, hf⟩ := pickle_route_spec p hl
    exact ⟨d', c', ic, fun _ => hf, fun hd => by simp [Route.deep] at hd⟩
  | copyDeepcopy =>
    obtain ⟨d', c', ic, hf⟩ := deepcopy_route_spec hl
    exact ⟨d', c', ic, fun _ => hf, fun hd => by simp [Route.deep] at hd⟩
  | objCopy => exact ⟨_, c, (finalize_route_spec .objCopy rfl hl).1, fun hd => by simp [Route.deep] at hd, fun _ => rfl⟩
  | copyCopy => exact ⟨_, c, (finalize_route_spec .copyCopy rfl hl).1, fun hd => by simp [Route.deep] at hd, fun _ => rfl⟩
  | npArraySubok =>
    exact ⟨_, c, (finalize_route_spec .npArraySubok rfl hl).1, fun hd => by simp [Route.deep] at hd, fun _ => rfl⟩

/-- consequences of `IndependentCopy` for later mutations: rebinding / updating either side's dict entry or writing
    either side's data leaves the other side exactly as it was -/
theorem IndependentCopy.mutations {h : Heap} {o : AObj} {d : Nat} {c : DictC} {o' : AObj} {h' : Heap} {d' : Nat} {c' : DictC}
    (ic : IndependentCopy h o d c o' h' d' c') (hd : h.dict d = some c) :
    (∀ x, (h'.setDict d' x).dict d = some c) ∧ (∀ x, (h'.setDict d x).dict d' = some c') ∧
    (∀ v, (h'.setBuf o'.buf v).buf o.buf = h.buf o.buf) ∧ (∀ v, (h'.setBuf o.buf v).buf o'.buf = h.buf o.buf) := by
  refine ⟨fun x => ?_, fun x => ?_, fun v => ?_, fun v => ?_⟩
  · have : d ≠ d' := fun e => ic.dict_ne e.symm
    simp [Heap.setDict, this, ic.orig_dict, hd]
  · simp [Heap.setDict, ic.dict_ne, ic.dict]
  · have : o.buf ≠ o'.buf := fun e => ic.buf_ne e.symm
    simp [Heap.setBuf, this, ic.orig_buf]
  · simp [Heap.setBuf, ic.buf_ne, ic.data]

end Model.Grid
