import SphericalVerif.Gen.AlgKern
import SphericalVerif.Lemmas.GenDiff
/-! The GENERATED loops of `Modes.conjugate` (`Gen/AlgKern.lean`, from spherical/modes/algebra.py), cell by cell: block `ell` writes
    `(ell, 0)` and then, for `m = 1 … ell`, the pair `(ell, m)`, `(ell, -m)` from the values read *before* either is written (the
    tuple assignment).  Both forms — fresh output and in place — are instances of one block over a reader `R` of the source. -/
set_option linter.unusedSectionVars false
namespace GenAlg
open Gen GenFill GenDiff

theorem yidx0 (n m : Int) (h : 0 ≤ n) : Yindex n m 0 = n * (n + 1) + m := by
  unfold Yindex
  split_ifs with c
  · ring
  · have : n = 0 := by omega
    subst this; ring

section
variable {α : Type} [Scalar α] {φ : Type} [FMem φ α] [LawfulFMem φ α]

/-- the sign `(-1)^k` as the code applies it: `if k % 2 == 0: z else: -z` -/
def sgnC (k : Int) (z : Cx α) : Cx α := if k % 2 = 0 then z else Cx.neg z

/-- one turn of the `for m` loop: centre `c = ell(ell+1)`, source read through `R` -/
def pairStep (A : Nat) (R : φ → Int → Cx α) (sw c : Int) (k : Nat) (st : φ) : φ :=
  if (sw + ((1 : Int) + (k : Int))) % 2 = 0 then
    fwrC (α := α) (fwrC (α := α) st A (c + ((1 : Int) + (k : Int))) (Cx.conj (R st (c + -((1 : Int) + (k : Int)))))) A (c + -((1 : Int) + (k : Int)))
      (Cx.conj (R st (c + ((1 : Int) + (k : Int)))))
  else
    fwrC (α := α) (fwrC (α := α) st A (c + ((1 : Int) + (k : Int))) (Cx.neg (Cx.conj (R st (c + -((1 : Int) + (k : Int))))))) A (c + -((1 : Int) + (k : Int)))
      (Cx.neg (Cx.conj (R st (c + ((1 : Int) + (k : Int))))))

theorem pairStep_eq (A : Nat) (R : φ → Int → Cx α) (sw c : Int) (k : Nat) (st : φ) :
    pairStep A R sw c k st
      = fwrC (α := α) (fwrC (α := α) st A (c + ((1 : Int) + (k : Int))) (sgnC (sw + ((1 : Int) + (k : Int))) (Cx.conj (R st (c + -((1 : Int) + (k : Int)))))))
          A (c + -((1 : Int) + (k : Int))) (sgnC (sw + ((1 : Int) + (k : Int))) (Cx.conj (R st (c + ((1 : Int) + (k : Int)))))) := by
  unfold pairStep sgnC
  split <;> rfl

/-- block `ell`: the centre, then the pairs -/
def conjBlock (A : Nat) (R : φ → Int → Cx α) (sw : Int) (e : Int) (st : φ) : φ :=
  loopN e.toNat (pairStep A R sw (e * (e + 1)))
    (fwrC (α := α) st A (e * (e + 1)) (sgnC sw (Cx.conj (R st (e * (e + 1))))))

/-- a reader that a store elsewhere does not disturb: a constant input, or the array being written itself -/
def StableR (A : Nat) (R : φ → Int → Cx α) : Prop := ∀ (st : φ) (j : Int) (v : Cx α) (i : Int), i ≠ j → R (fwrC (α := α) st A j v) i = R st i

theorem stable_const (A : Nat) (sin : Int → Cx α) : StableR (φ := φ) A (fun _ i => sin i) := fun _ _ _ _ _ => rfl
theorem stable_self (A : Nat) : StableR (α := α) (φ := φ) A (fun st i => frdC (α := α) st A i) :=
  fun st j v i h => frdC_fwrC_other st A j i v h

/-- the pairs loop leaves the reader alone on every cell it has not written yet -/
theorem pairs_R (A : Nat) (R : φ → Int → Cx α) (hR : StableR A R) (sw c : Int) (cnt : Nat) (st : φ) (i : Int)
    (h : ∀ k : Nat, k < cnt → i ≠ c + ((1 : Int) + (k : Int)) ∧ i ≠ c + -((1 : Int) + (k : Int))) :
    R (loopN cnt (pairStep A R sw c) st) i = R st i := by
  induction cnt with
  | zero => rfl
  | succ n ih =>
    simp only [loopN]
    rw [pairStep_eq, hR _ _ _ _ (h n (by omega)).2, hR _ _ _ _ (h n (by omega)).1]
    exact ih (fun k hk => h k (by omega))

theorem pairs_untouched (A : Nat) (R : φ → Int → Cx α) (sw c : Int) (cnt : Nat) (st : φ) (i : Int)
    (h : ∀ k : Nat, k < cnt → i ≠ c + ((1 : Int) + (k : Int)) ∧ i ≠ c + -((1 : Int) + (k : Int))) :
    frdC (α := α) (loopN cnt (pairStep A R sw c) st) A i = frdC (α := α) st A i :=
  loop_untouched _ A i cnt st (fun k s hk => by
    rw [pairStep_eq, frdC_fwrC_other _ _ _ _ _ (h k hk).2, frdC_fwrC_other _ _ _ _ _ (h k hk).1])

/-- the two cells of turn `k0` -/
theorem pairs_cells (A : Nat) (R : φ → Int → Cx α) (hR : StableR A R) (sw c : Int) (cnt k0 : Nat) (hk : k0 < cnt) (st : φ) :
    frdC (α := α) (loopN cnt (pairStep A R sw c) st) A (c + ((1 : Int) + (k0 : Int)))
        = sgnC (sw + ((1 : Int) + (k0 : Int))) (Cx.conj (R st (c + -((1 : Int) + (k0 : Int)))))
    ∧ frdC (α := α) (loopN cnt (pairStep A R sw c) st) A (c + -((1 : Int) + (k0 : Int)))
        = sgnC (sw + ((1 : Int) + (k0 : Int))) (Cx.conj (R st (c + ((1 : Int) + (k0 : Int))))) := by
  have r1 := pairs_R A R hR sw c k0 st (c + -((1 : Int) + (k0 : Int))) (fun k hk' => ⟨by omega, by omega⟩)
  have r2 := pairs_R A R hR sw c k0 st (c + ((1 : Int) + (k0 : Int))) (fun k hk' => ⟨by omega, by omega⟩)
  refine ⟨?_, ?_⟩
  · rw [(loop_at (pairStep A R sw c) A _ cnt k0 hk st (fun k s _ hne => by
      rw [pairStep_eq, frdC_fwrC_other _ _ _ _ _ (by omega), frdC_fwrC_other _ _ _ _ _ (by omega)])).1]
    rw [pairStep_eq, frdC_fwrC_other _ _ _ _ _ (by omega), frdC_fwrC_same, r1]
  · rw [(loop_at (pairStep A R sw c) A _ cnt k0 hk st (fun k s _ hne => by
      rw [pairStep_eq, frdC_fwrC_other _ _ _ _ _ (by omega), frdC_fwrC_other _ _ _ _ _ (by omega)])).1]
    rw [pairStep_eq, frdC_fwrC_same, r2]

/-- every cell of block `e`, in terms of the reader on the memory the block starts from -/
theorem conjBlock_cell (A : Nat) (R : φ → Int → Cx α) (hR : StableR A R) (sw : Int) (e : Int) (he : 0 ≤ e) (st : φ) (m : Int)
    (hm1 : -e ≤ m) (hm2 : m ≤ e) :
    frdC (α := α) (conjBlock A R sw e st) A (e * (e + 1) + m) = sgnC (sw + m) (Cx.conj (R st (e * (e + 1) + -m))) := by
  unfold conjBlock
  rcases lt_trichotomy m 0 with h | h | h
  · -- m < 0: the second cell of turn k0 = -m - 1
    have e1 : e * (e + 1) + m = e * (e + 1) + -((1 : Int) + (((-m - 1).toNat : Nat) : Int)) := by omega
    have e2 : -m = (1 : Int) + (((-m - 1).toNat : Nat) : Int) := by omega
    rw [e1, (pairs_cells A R hR sw (e * (e + 1)) e.toNat (-m - 1).toNat (by omega) _).2]
    rw [hR _ _ _ _ (by omega), ← e2]
    unfold sgnC
    have : (sw + -m) % 2 = (sw + m) % 2 := by omega
    rw [this]
  · subst h
    rw [pairs_untouched A R sw _ _ _ _ (fun k hk => ⟨by omega, by omega⟩)]
    simp only [Int.add_zero, Int.neg_zero, frdC_fwrC_same]
  · have e1 : e * (e + 1) + m = e * (e + 1) + ((1 : Int) + (((m - 1).toNat : Nat) : Int)) := by omega
    have e2 : m = (1 : Int) + (((m - 1).toNat : Nat) : Int) := by omega
    rw [e1, (pairs_cells A R hR sw (e * (e + 1)) e.toNat (m - 1).toNat (by omega) _).1]
    rw [hR _ _ _ _ (by omega), ← e2]

/-- … and nothing outside block `e` -/
theorem conjBlock_out (A : Nat) (R : φ → Int → Cx α) (sw : Int) (e : Int) (he : 0 ≤ e) (st : φ) (i : Int)
    (hni : ¬ (e * (e + 1) - e ≤ i ∧ i ≤ e * (e + 1) + e)) :
    frdC (α := α) (conjBlock A R sw e st) A i = frdC (α := α) st A i := by
  unfold conjBlock
  rw [pairs_untouched A R sw _ _ _ _ (fun k hk => ⟨by omega, by omega⟩), frdC_fwrC_other _ _ _ _ _ (by omega)]

/-- the reader on the cells of block `e` is undisturbed by the other blocks -/
theorem conjBlock_R_out (A : Nat) (R : φ → Int → Cx α) (hR : StableR A R) (sw : Int) (e : Int) (he : 0 ≤ e) (st : φ) (i : Int)
    (hni : ¬ (e * (e + 1) - e ≤ i ∧ i ≤ e * (e + 1) + e)) :
    R (conjBlock A R sw e st) i = R st i := by
  unfold conjBlock
  rw [pairs_R A R hR sw _ _ _ _ (fun k hk => ⟨by omega, by omega⟩), hR _ _ _ _ (by omega)]

/-! ### the same block shape with arbitrary pair functions: `_real_func`, `_imag_func`

    Turn `m` writes `c[i_p] = P m s[i_p] s[i_n]` and then `c[i_n] = N m s[i_p] s[i_n]` (in the text `N` is a function of the value just
    stored in `c[i_p]`, i.e. of `P m …`); the centre gets `Z s[i]`. -/

def pairStepG (A : Nat) (R : φ → Int → Cx α) (P N : Int → Cx α → Cx α → Cx α) (c : Int) (k : Nat) (st : φ) : φ :=
  fwrC (α := α) (fwrC (α := α) st A (c + ((1 : Int) + (k : Int))) (P ((1 : Int) + (k : Int)) (R st (c + ((1 : Int) + (k : Int)))) (R st (c + -((1 : Int) + (k : Int))))))
    A (c + -((1 : Int) + (k : Int))) (N ((1 : Int) + (k : Int)) (R st (c + ((1 : Int) + (k : Int)))) (R st (c + -((1 : Int) + (k : Int)))))

def blockG (A : Nat) (R : φ → Int → Cx α) (P N : Int → Cx α → Cx α → Cx α) (Z : Cx α → Cx α) (e : Int) (st : φ) : φ :=
  loopN e.toNat (pairStepG A R P N (e * (e + 1))) (fwrC (α := α) st A (e * (e + 1)) (Z (R st (e * (e + 1)))))

theorem pairsG_R (A : Nat) (R : φ → Int → Cx α) (hR : StableR A R) (P N : Int → Cx α → Cx α → Cx α) (c : Int) (cnt : Nat) (st : φ) (i : Int)
    (h : ∀ k : Nat, k < cnt → i ≠ c + ((1 : Int) + (k : Int)) ∧ i ≠ c + -((1 : Int) + (k : Int))) :
    R (loopN cnt (pairStepG A R P N c) st) i = R st i := by
  induction cnt with
  | zero => rfl
  | succ n ih =>
    simp only [loopN]
    unfold pairStepG
    rw [hR _ _ _ _ (h n (by omega)).2, hR _ _ _ _ (h n (by omega)).1]
    exact ih (fun k hk => h k (by omega))

theorem pairsG_untouched (A : Nat) (R : φ → Int → Cx α) (P N : Int → Cx α → Cx α → Cx α) (c : Int) (cnt : Nat) (st : φ) (i : Int)
    (h : ∀ k : Nat, k < cnt → i ≠ c + ((1 : Int) + (k : Int)) ∧ i ≠ c + -((1 : Int) + (k : Int))) :
    frdC (α := α) (loopN cnt (pairStepG A R P N c) st) A i = frdC (α := α) st A i :=
  loop_untouched _ A i cnt st (fun k s hk => by
    unfold pairStepG
    rw [frdC_fwrC_other _ _ _ _ _ (h k hk).2, frdC_fwrC_other _ _ _ _ _ (h k hk).1])

theorem pairsG_cells (A : Nat) (R : φ → Int → Cx α) (hR : StableR A R) (P N : Int → Cx α → Cx α → Cx α) (c : Int) (cnt k0 : Nat) (hk : k0 < cnt) (st : φ) :
    frdC (α := α) (loopN cnt (pairStepG A R P N c) st) A (c + ((1 : Int) + (k0 : Int)))
        = P ((1 : Int) + (k0 : Int)) (R st (c + ((1 : Int) + (k0 : Int)))) (R st (c + -((1 : Int) + (k0 : Int))))
    ∧ frdC (α := α) (loopN cnt (pairStepG A R P N c) st) A (c + -((1 : Int) + (k0 : Int)))
        = N ((1 : Int) + (k0 : Int)) (R st (c + ((1 : Int) + (k0 : Int)))) (R st (c + -((1 : Int) + (k0 : Int)))) := by
  have r1 := pairsG_R A R hR P N c k0 st (c + -((1 : Int) + (k0 : Int))) (fun k hk' => ⟨by omega, by omega⟩)
  have r2 := pairsG_R A R hR P N c k0 st (c + ((1 : Int) + (k0 : Int))) (fun k hk' => ⟨by omega, by omega⟩)
  refine ⟨?_, ?_⟩
  · rw [(loop_at (pairStepG A R P N c) A _ cnt k0 hk st (fun k s _ hne => by
      unfold pairStepG
      rw [frdC_fwrC_other _ _ _ _ _ (by omega), frdC_fwrC_other _ _ _ _ _ (by omega)])).1]
    unfold pairStepG at r1 r2 ⊢
    rw [frdC_fwrC_other _ _ _ _ _ (by omega), frdC_fwrC_same, r1, r2]
  · rw [(loop_at (pairStepG A R P N c) A _ cnt k0 hk st (fun k s _ hne => by
      unfold pairStepG
      rw [frdC_fwrC_other _ _ _ _ _ (by omega), frdC_fwrC_other _ _ _ _ _ (by omega)])).1]
    unfold pairStepG at r1 r2 ⊢
    rw [frdC_fwrC_same, r1, r2]

/-- every cell of block `e` -/
theorem blockG_cell (A : Nat) (R : φ → Int → Cx α) (hR : StableR A R) (P N : Int → Cx α → Cx α → Cx α) (Z : Cx α → Cx α)
    (e : Int) (he : 0 ≤ e) (st : φ) (m : Int) (hm1 : -e ≤ m) (hm2 : m ≤ e) :
    frdC (α := α) (blockG A R P N Z e st) A (e * (e + 1) + m)
      = if 0 < m then P m (R st (e * (e + 1) + m)) (R st (e * (e + 1) + -m))
        else if m < 0 then N (-m) (R st (e * (e + 1) + -m)) (R st (e * (e + 1) + m))
        else Z (R st (e * (e + 1))) := by
  unfold blockG
  rcases lt_trichotomy m 0 with h | h | h
  · rw [if_neg (by omega), if_pos h]
    have e1 : e * (e + 1) + m = e * (e + 1) + -((1 : Int) + (((-m - 1).toNat : Nat) : Int)) := by omega
    have e2 : -m = (1 : Int) + (((-m - 1).toNat : Nat) : Int) := by omega
    have e3 : e * (e + 1) + m = e * (e + 1) + - -m := by omega
    rw [e1, (pairsG_cells A R hR P N (e * (e + 1)) e.toNat (-m - 1).toNat (by omega) _).2]
    rw [hR _ _ _ _ (by omega), hR _ _ _ _ (by omega), ← e2, ← e3]
  · subst h
    rw [if_neg (by omega), if_neg (by omega)]
    rw [pairsG_untouched A R P N _ _ _ _ (fun k hk => ⟨by omega, by omega⟩)]
    simp only [Int.add_zero, frdC_fwrC_same]
  · rw [if_pos h]
    have e1 : e * (e + 1) + m = e * (e + 1) + ((1 : Int) + (((m - 1).toNat : Nat) : Int)) := by omega
    have e2 : m = (1 : Int) + (((m - 1).toNat : Nat) : Int) := by omega
    have e4 : e * (e + 1) + -m = e * (e + 1) + -((1 : Int) + (((m - 1).toNat : Nat) : Int)) := by omega
    rw [e1, (pairsG_cells A R hR P N (e * (e + 1)) e.toNat (m - 1).toNat (by omega) _).1]
    rw [hR _ _ _ _ (by omega), hR _ _ _ _ (by omega), ← e2]

theorem blockG_out (A : Nat) (R : φ → Int → Cx α) (P N : Int → Cx α → Cx α → Cx α) (Z : Cx α → Cx α) (e : Int) (he : 0 ≤ e) (st : φ) (i : Int)
    (hni : ¬ (e * (e + 1) - e ≤ i ∧ i ≤ e * (e + 1) + e)) :
    frdC (α := α) (blockG A R P N Z e st) A i = frdC (α := α) st A i := by
  unfold blockG
  rw [pairsG_untouched A R P N _ _ _ _ (fun k hk => ⟨by omega, by omega⟩), frdC_fwrC_other _ _ _ _ _ (by omega)]
end
end GenAlg
