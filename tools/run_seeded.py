#!/venv/bin/python
"""Run checks against a kept seeded change:  tools/run_seeded.py <seed-id> [check ids ...]
Applies seeded/<seed-id>/patch.diff to /repo, runs the quick checks (default: the property it targets), records
VIOLATION lines in seeded/<seed-id>/detection.json, and ALWAYS restores /repo (git checkout -- .)."""
import json
import os
import subprocess
import sys
import time

VERIF = os.path.dirname(os.path.dirname(os.path.abspath(__file__)))
sid = sys.argv[1]
d = os.path.join(VERIF, "seeded", sid)
meta = json.load(open(os.path.join(d, "meta.json")))
checks = sys.argv[2:] or [meta["property"]]
st = subprocess.run(["git", "-C", "/repo", "status", "--porcelain", "--untracked-files=no"], capture_output=True, text=True).stdout.strip()
if st:
    print("refusing: /repo has uncommitted changes:\n" + st)
    sys.exit(2)
out = {"seed": sid, "property": meta["property"], "results": {}}
import shutil
saved = {}
for c in checks:   # evidence files must keep describing the UNCHANGED tree: save and restore them around the mutated run
    ev = os.path.join(VERIF, "evidence", f"{c}.json")
    if os.path.exists(ev):
        saved[ev] = open(ev, "rb").read()
try:
    subprocess.run(["git", "-C", "/repo", "apply", os.path.join(d, "patch.diff")], check=True)
    for c in checks:
        t0 = time.time()
        p = subprocess.run([os.path.join(VERIF, "check"), c, "--tier", "quick"], capture_output=True, text=True, cwd=VERIF)
        lines = [l for l in p.stdout.split("\n") if l.startswith("VIOLATION") or l.startswith("KNOWN-FINDING")]
        replays = []
        for l in lines:
            if l.startswith("VIOLATION") and "replay=" in l:
                rp = l.split("replay=")[1].split()[0]
                try:
                    b = json.load(open(os.path.join(VERIF, rp)))
                    replays.append({"cause": b.get("cause"), "site": b.get("site"), "found_failing_input": b.get("found_failing_input"), "broken": b.get("broken")})
                except Exception:
                    pass
        out["results"][c] = {"exit": p.returncode, "violations": [l for l in lines if l.startswith("VIOLATION")], "replays": replays, "summary": p.stdout.strip().split("\n")[-1][:300], "wall_s": round(time.time() - t0, 1)}
        print(c, "exit", p.returncode, len(out["results"][c]["violations"]), "violation line(s)", [r["cause"] for r in replays])
finally:
    subprocess.run(["git", "-C", "/repo", "checkout", "--", "."], check=True)
    # restore generated files / evidence to the clean-tree state
    subprocess.run(["/venv/bin/python", os.path.join(VERIF, "vlib", "py2lean.py")], capture_output=True)
    for ev, data in saved.items():
        open(ev, "wb").write(data)
json.dump(out, open(os.path.join(d, os.environ.get("SEEDED_OUT", "detection.json")), "w"), indent=1)
