"""C06 — multiplying Modes objects gives the mode weights of the pointwise product.

Obligations: Props/C06.lean (metadata rules, truncation = cut, spellings reach the helper with the same arguments).
Gap/search: evaluate(f*g, Q) = evaluate(f,Q) evaluate(g,Q) for every spelling; truncators; scalar mult/div."""
import numpy as np

from .. import helpers
from . import common
from .C13 import ev

EPS = 2.0 ** -52


def check(run):
    import spherical
    quick = run.tier == "quick"
    run.regenerate()
    run.lean_props(common.modules_for("C06"))
    from .. import glue_modes
    run.attempt("corr:glue_modes.corr", glue_modes.corr, run, quick)   # Lean model of Modes (constructor, layout, dispatch, conj pairing, product terms, copies) vs the real class
    rng = run.rng
    # ---- correspondence (bitwise): the helper's loop nest as generated from spherical/multiplication.py ----
    from .. import kern, glue_diff
    mcases = []
    for (L1, L2) in ([(0, 0), (1, 0), (1, 1), (2, 1), (2, 3), (3, 3)] if quick else [(a, b) for a in range(0, 5) for b in range(0, 5)] + [(6, 4), (5, 7)]):
        for (sf, sg) in ([(0, 0), (-1, 2), (2, -2), (1, 1)] if quick else [(a, b) for a in (-2, -1, 0, 1, 3) for b in (-3, 0, 1, 2)]):
            for Lfg, tl in ((L1 + L2, "full"), (max(L1, L2), "truncated-max"), (max(L1 + L2 - 1, 0), "truncated-1")):
                for kind in (["random", "special"] if quick else ["random", "special", "single", "nonfinite"]):
                    fw = glue_diff.rand_weights(rng, (L1 + 1) ** 2, kind)
                    gw = glue_diff.rand_weights(rng, (L2 + 1) ** 2, "random" if kind == "nonfinite" else kind)
                    mcases.append((L1, L2, Lfg, sf, sg, fw, gw, f"{tl}|{kind}"))
    run.attempt("corr:corr_mul", kern.corr_mul, run, mcases)
    Rs = [helpers.random_rotor(rng) for _ in range(3)] + [(1.0, 0.0, 0.0, 0.0), (0.0, 0.6, 0.8, 0.0)]
    combos = [(0, 0, 0, 0), (0, 2, 1, 3), (-1, 2, 2, 2), (2, 3, -2, 4), (1, 1, -3, 3), (-2, 5, 0, 0)] if quick else \
        [(sf, Lf, sg, Lg) for sf in (-4, -2, -1, 0, 1, 3) for sg in (-3, 0, 2, 4) for Lf in (abs(sf), 6, 12) for Lg in (abs(sg), 5)]
    leads = [((), ()), ((2,), (2,)), ((2, 1), (3,))]
    kcount = 0
    for (sf, Lf, sg, Lg) in combos:
        Lf, Lg = max(Lf, abs(sf)), max(Lg, abs(sg))
        for la, lb in leads[: (2 if quick else 3)]:
            kf, kg = helpers.KINDS[kcount % 10], helpers.KINDS[(3 * kcount + 1) % 10]     # value patterns (tiny/huge units, real, axisymmetric, sparse, decaying ...)
            kcount += 1
            f = helpers.make_modes(rng, sf, Lf, la, kf)
            g = helpers.make_modes(rng, sg, Lg, lb, kg)
            inp = {"s_f": sf, "ell_max_f": Lf, "s_g": sg, "ell_max_g": Lg, "lead_f": list(la), "lead_g": list(lb), "weights_f": kf, "weights_g": kg}
            fe, ge = ev(f, Rs), ev(g, Rs)
            n = fe.shape[-1]
            sh = np.broadcast_shapes(la, lb)
            prod = np.broadcast_to(fe.reshape(la + (n,)), sh + (n,)) * np.broadcast_to(ge.reshape(lb + (n,)), sh + (n,))
            tol = 4096 * (Lf + Lg + 2) ** 2 * EPS * max(float(np.max(np.sum(np.abs(f.ndarray), axis=-1))) * float(np.max(np.sum(np.abs(g.ndarray), axis=-1))), 1e-300)
            full = None
            for name, op in (("f*g", lambda: f * g), ("np.multiply(f,g)", lambda: np.multiply(f, g)), ("f.multiply(g)", lambda: f.multiply(g)),
                             ("spherical.multiply", lambda: spherical.multiply(f.ndarray, 0, Lf, sf, g.ndarray, 0, Lg, sg))):
                try:
                    r = op()
                except Exception as e:
                    run.violation("multiply-raised", name, inp, "product", repr(e))
                    continue
                run.gap_case("product", (sf, Lf, sg, Lg, la, lb, name), name, {**inp, "op": name})
                if name == "spherical.multiply":
                    arr, emin, emax, s3 = r
                    ok_meta = (emin, emax, s3) == (0, Lf + Lg, sf + sg)
                    rm = spherical.Modes(np.array(arr), spin_weight=s3, ell_min=0, ell_max=emax) if ok_meta else None
                else:
                    ok_meta = isinstance(r, spherical.Modes) and r.spin_weight == sf + sg and r.ell_max == Lf + Lg
                    rm = r
                if not ok_meta:
                    run.violation("product-metadata", name, inp, f"spin {sf + sg}, ell_max {Lf + Lg}", "differs")
                    continue
                if rm.shape[:-1] != sh:
                    run.violation("product-shape", name, inp, list(sh), list(rm.shape[:-1]))
                    continue
                if abs(sf + sg) <= Lf + Lg and not (float(np.max(np.abs(ev(rm, Rs) - prod))) <= tol):
                    run.violation("product-not-pointwise", name, inp, "(fg)(Q) = f(Q) g(Q)", f"max err {float(np.max(np.abs(ev(rm, Rs) - prod)))} > {tol}")
                if full is None:
                    full = rm.ndarray.copy()
                elif not np.array_equal(full, rm.ndarray):
                    run.violation("spellings-disagree", name, inp, "same weights as f*g", "differs")
            if full is None:
                continue
            # out= and in-place spellings of the Modes x Modes product
            try:
                o = spherical.Modes(np.full(full.shape, 100.0 + 7.0j), spin_weight=0, ell_min=0, ell_max=Lf + Lg)
                r = np.multiply(f, g, out=o)
                run.gap_case("product-out", (sf, Lf, sg, Lg, la, lb), "out=")
                if not np.allclose(np.asarray(r.view(np.ndarray)), full, rtol=1e-13, atol=1e-13 * max(float(np.max(np.abs(full))), 1e-300)) or not np.shares_memory(r, o):
                    run.violation("product-out-wrong", "np.multiply(f,g,out=)", {**inp, "out_prefilled": True}, "same weights as f*g written into out", f"max diff {float(np.max(np.abs(np.asarray(r.view(np.ndarray)) - full)))}")
                elif r.spin_weight != sf + sg or o.spin_weight != sf + sg:
                    run.violation("product-metadata", "np.multiply(f,g,out=)", inp, sf + sg, [r.spin_weight, o.spin_weight])
            except Exception as e:
                run.violation("multiply-raised", "np.multiply(f,g,out=)", inp, "product", repr(e))
            if Lg == 0 and lb == () or (Lg == 0 and la == lb):
                try:
                    h = f.copy()
                    h *= g
                    run.gap_case("product-out", (sf, Lf, sg, Lg, la, lb, "in-place"), "in-place")
                    if h.shape != full.shape or not np.allclose(h.ndarray, full, rtol=1e-13, atol=1e-13 * max(float(np.max(np.abs(full))), 1e-300)) or h.spin_weight != sf + sg:
                        run.violation("product-out-wrong", "f *= g", inp, "same as f*g", "differs")
                except Exception as e:
                    run.violation("multiply-raised", "f *= g", inp, "product", repr(e))
            # function form with inputs stored from their own (different) ell_min, as its docstring permits
            for (ef, eg) in [(abs(sf), abs(sg)), (min(abs(sf), Lf), 0), (0, min(abs(sg), Lg)), (min(1, Lf), min(2, Lg))]:
                if ef > Lf or eg > Lg or (ef, eg) == (0, 0):
                    continue
                fa, ga = f.ndarray[..., ef ** 2:].copy(), g.ndarray[..., eg ** 2:].copy()
                zf, zg = f.ndarray.copy(), g.ndarray.copy()
                zf[..., :ef ** 2] = 0
                zg[..., :eg ** 2] = 0
                try:
                    arr, emin, emax, s3 = spherical.multiply(fa, ef, Lf, sf, ga, eg, Lg, sg)
                    ref, _, _, _ = spherical.multiply(zf, 0, Lf, sf, zg, 0, Lg, sg)
                except Exception as e:
                    run.violation("multiply-raised", "spherical.multiply[ell_min]", {**inp, "ellmin_f": ef, "ellmin_g": eg}, "product", repr(e))
                    continue
                run.gap_case("function-form-ell_min", (sf, Lf, sg, Lg, la, lb, ef, eg), f"ellmin_f={'=' if ef == eg else '!='}ellmin_g")
                if (emin, emax, s3) != (0, Lf + Lg, sf + sg) or arr.shape != ref.shape or not np.allclose(arr, ref, rtol=1e-12, atol=1e-12 * max(float(np.max(np.abs(ref))), 1e-300)):
                    run.violation("function-form-depends-on-ell_min", "spherical.multiply[ell_min]", {**inp, "ellmin_f": ef, "ellmin_g": eg}, "same weights as with zero-padded inputs from ell=0", "differs")
            # truncators: result = full product cut at the requested ell_max
            for tname, trunc, Lt in (("max", max, max(Lf, Lg)), ("min", min, min(Lf, Lg)), ("const", (lambda t: 3), 3), ("sum", sum, Lf + Lg)):
                if Lt < abs(sf + sg) and False:
                    continue
                try:
                    r = f.multiply(g, truncator=trunc)
                except Exception as e:
                    run.violation("multiply-raised", f"f.multiply(g, truncator={tname})", inp, "product", repr(e))
                    continue
                run.gap_case("truncation", (sf, Lf, sg, Lg, la, lb, tname), tname)
                cut = np.zeros(full.shape[:-1] + ((Lt + 1) ** 2,), dtype=complex)
                k = min(cut.shape[-1], full.shape[-1])
                cut[..., :k] = full[..., :k]
                cut[..., :min((sf + sg) ** 2, cut.shape[-1])] = 0
                if r.ell_max != Lt or r.spin_weight != sf + sg or r.shape[-1] != (Lt + 1) ** 2:
                    run.violation("truncated-product-metadata", f"truncator={tname}", inp, f"ell_max {Lt}", f"ell_max {r.ell_max}")
                elif not np.array_equal(r.ndarray, cut):
                    run.violation("truncated-product-differs-from-cut", f"truncator={tname}", inp, "full product cut at ell_max", f"max diff {float(np.max(np.abs(r.ndarray - cut)))}")
            # metadata truncator
            ft = spherical.Modes(f.ndarray.copy(), spin_weight=sf, ell_min=0, ell_max=Lf, multiplication_truncator=max)
            try:
                r = ft * g
                want = max(max(Lf, Lg), Lf + Lg)   # the greater of what the two operands' truncators return (g defaults to sum)
                if r.ell_max != want:
                    run.violation("metadata-truncator", "f(truncator=max)*g", inp, want, r.ell_max)
            except Exception as e:
                run.violation("multiply-raised", "f(truncator=max)*g", inp, "product", repr(e))
            # scalars and arrays broadcasting over leading dims
            for name, op, expect in (("f*2.5", lambda: f * 2.5, fe * 2.5), ("(1-2j)*f", lambda: (1 - 2j) * f, (1 - 2j) * fe), ("f/4", lambda: f / 4, fe / 4),
                                     ("f.multiply(3)", lambda: f.multiply(3), fe * 3), ("f.divide(2j)", lambda: f.divide(2j), fe / 2j), ("np.multiply(f, 0.5)", lambda: np.multiply(f, 0.5), fe * 0.5)):
                try:
                    r = op()
                except Exception as e:
                    run.violation("scalar-op-raised", name, inp, "scaled function", repr(e))
                    continue
                run.gap_case("scalar", (sf, Lf, la, name), name)
                tol_f = 4096 * (Lf + 2) ** 2 * EPS * 4 * max(float(np.max(np.sum(np.abs(f.ndarray), axis=-1))), 1e-300)    # relative to f alone (scalars here have modulus <= 4)
                if not isinstance(r, spherical.Modes) or r.spin_weight != sf or r.ell_max != Lf or not (float(np.max(np.abs(ev(r, Rs) - expect))) <= tol_f):
                    run.violation("scalar-op-not-pointwise", name, inp, "scaled function", "differs")
            if not la and f.shape[-1] > 1:
                try:
                    f * np.ones(f.shape[-1])
                    run.violation("per-mode-multiplication-allowed", "f*array(n_modes)", inp, "raise", "returned")
                except Exception:
                    pass
            if la:
                a = np.array([rng.gauss(0, 1) for _ in range(int(np.prod(la)))]).reshape(la)
                try:
                    r = f * a
                    if not np.allclose(r.ndarray, f.ndarray * a[..., None]):
                        run.violation("array-broadcast-mult", "f*array", inp, "scales each leading element", "differs")
                except Exception as e:
                    run.violation("scalar-op-raised", "f*array(leading shape)", inp, "scaled", repr(e))
    # an `out` too small for the product must be rejected, not written past its end (run in a subprocess: the defect is memory corruption)
    import subprocess, sys, os
    code = ("import numpy as np, spherical\n"
            "f = spherical.Modes(np.arange(4)+1j, spin_weight=0, ell_min=0, ell_max=1)\n"
            "g = spherical.Modes(np.arange(9)+2j, spin_weight=0, ell_min=0, ell_max=2)\n"
            "guard = np.full(4096, 5.0)\n"
            "try:\n    f *= g\n    print('RETURNED')\nexcept Exception as e:\n    print('RAISED', type(e).__name__)\n"
            "print('F-UNCHANGED' if np.array_equal(f.view(np.ndarray), np.arange(4)+1j) else 'F-CLOBBERED')\n")
    pr = subprocess.run([sys.executable, "-c", code], capture_output=True, text=True, timeout=600, env=dict(os.environ))
    run.gap_case("product-out", "too-small-out", "too-small-out", {"stdout": pr.stdout.strip(), "rc": pr.returncode})
    if pr.returncode != 0 or "RAISED" not in pr.stdout:
        run.violation("product-out-too-small-not-rejected", "f *= g (product larger than f)", {"ell_max_f": 1, "ell_max_g": 2, "returncode": pr.returncode}, "raise without writing past the end of f", (pr.stdout + pr.stderr)[-300:])
    from .. import layouts
    g_ = {s_: helpers.make_modes(run.rng, s_, 2, (3,)) for s_ in (-1, 0, 2)}
    layouts.sweep_modes(run, "multiply", [("f*g", lambda f: f * g_[0]), ("g*f", lambda f: g_[2] * f), ("f.multiply(g,truncator=max)", lambda f: f.multiply(g_[-1], truncator=max)),
                                          ("np.multiply(f,g)", lambda f: np.multiply(f, g_[-1])), ("2.5*f", lambda f: 2.5 * f), ("f/4", lambda f: f / 4), ("f*f", lambda f: f * f)],
                        [-2, 0, 1] if quick else range(-3, 4))
    run.assumptions += ["the Clebsch-Gordan series (product of the functions) is checked by evaluation on rotors only; truncation = cut is bitwise"]


def replay(body):
    print(body["input"], body["expected"], body["got"])
    return 0
