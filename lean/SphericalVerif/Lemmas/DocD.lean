import SphericalVerif.Lemmas.DocD0
import SphericalVerif.Lemmas.DocD1
import SphericalVerif.Lemmas.DocD2
import SphericalVerif.Lemmas.DocD3
import SphericalVerif.Lemmas.DocD4
import SphericalVerif.Lemmas.DocD5
import SphericalVerif.Lemmas.DocD6
import SphericalVerif.Lemmas.DocD7
/-! Helper lemmas for `Props/DocD.lean` (the documented Wigner d is a Gumerov–Duraiswami family), split by topic:
      DocD1  coefficients `T a b j` of (ch − sh t)^a (sh + ch t)^b: Pascal, degree, lowering relations (derivative)
      DocD2  the two symmetries of `T`
      DocD3  √-factorial normalisation `nrm`, natural-number form `dN` of `docd`, signs ε / sign, (S) for `Hdoc`
      DocD4  relation (50)
      DocD5  relation (41)
      DocD6  column m' = 0: three-term recurrence, seed, downward induction against `rawD` (s ≠ 0)
      DocD7  column m' = 0: `col0` in one formula, the poles s = 0, n = 0, 1, conclusion
      DocD0  sanity: ℓ = 0, 1 against `DDef.d1doc` -/
