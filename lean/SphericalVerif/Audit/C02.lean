import SphericalVerif.Props.C02
import SphericalVerif.Props.HKernel
import SphericalVerif.Props.Routes
import SphericalVerif.Props.Finite
#print axioms C02.sYlm_low_exact_zero
#print axioms C02.sYlm_reads_in_narrow_wedge
#print axioms HKernel.runH_pure
#print axioms HKernel.runH_size_indep
#print axioms Routes.eps_eq_ite
#print axioms Routes.evaluateHorner_eq_sum
#print axioms Routes.evaluate_eq_sum_sYlm_init
#print axioms Routes.evaluate_eq_sum_sYlm
#print axioms Routes.rotateHorner_eq_sum
#print axioms Routes.rotateHorner_eq_matrix
#print axioms Routes.sYlm_eq_D_column'
#print axioms Routes.sYlm_eq_D_column
#print axioms Routes.sYlm_low_exact_zero
#print axioms Routes.wedgeRep_neg_neg
#print axioms Routes.eps_mul_eps_neg
#print axioms Routes.D_conj_symm'
#print axioms Routes.D_conj_symm
#print axioms Finite.valW_checked_eq_real
#print axioms Finite.valW_defined
#print axioms Finite.valW_col0_defined
#print axioms Finite.valV_checked_eq_real
#print axioms Finite.valV_defined
#print axioms Finite.runH_checked_eq_real
#print axioms Finite.runH_defined
#print axioms Finite.runH_ne_none
#print axioms Finite.runH_checked_eq_runH_real
#print axioms Finite.tables_read_defined
#print axioms Finite.eq_none_of
#print axioms Finite.tables_faulty_entries
#print axioms Finite.valW_fault_outside_wedge
