import SphericalVerif.Spec.DocD
import SphericalVerif.Lemmas.DocD
import SphericalVerif.Props.GDFamily
/-! DocD — the DOCUMENTED Wigner d matrix satisfies the Gumerov–Duraiswami relations, hence the model computes it,
    for EVERY degree ℓ.

    `DocD.docd ch sh ℓ m' m` (`Spec/DocD.lean`) is the formula of docs/WignerDMatrices.md, Eq. "DAnalytically", at the
    rotor R_a = ch = cos(β/2), R_b = sh = sin(β/2) (rotation by β about y): a √-of-factorials prefactor times a finite
    ρ-sum of products of two binomial coefficients and powers of ch, sh.  Then cos β = ch² − sh², sin β = 2 ch sh.

    `Props/GDFamily.lean` proved: IF ε(m') ε(−m) d^ℓ_{m',m} is a Gumerov–Duraiswami family (`GDFamily.IsGDFamily`:
    symmetries (S), column (0), relation (41), relation (50)) THEN the validated model `Model.objd` of `Wigner.d`
    computes d, for every ℓ.  This file discharges the hypothesis for the documented d — a statement of pure
    mathematics about special functions — and concludes unconditionally (`objd_eq_docd`).

    Method: the ρ-sum is the coefficient of t^{ℓ−m} of P_{m'}(t) = u^{ℓ+m'} v^{ℓ−m'}, u = ch − sh t, v = sh + ch t
    (`docd_generating`).  With ch u + sh v = 1 and t = −sh u + ch v (this is where ch² + sh² = 1 enters),
      * u P' + 2ℓ sh P and 2ℓ ch P − v P' lower the exponent of v resp. u by one (the "lowering relations"),
      * hence (1 + t²) P_{m'}' − 2ℓ t P_{m'} = (ℓ−m') P_{m'+1} − (ℓ+m') P_{m'−1}  — relation (50),
      * two lowerings of (uv)^{n+1} give n(n+1) u^{n+1} v^{n−1}                     — relation (41),
      * (uv) R' = n (uv)' R for R = (uv)^n gives the three-term recursion in m       — column (0),
    coefficientwise; the √-factorial normalisation turns the integer coefficients into the √-coefficients of the
    paper.  The symmetries come from t ↦ −1/t (reflection of the coefficient list) and from the symmetry of
    C(a,ρ) C(b,j−ρ) / (a! b!).

    All theorems require only ch² + sh² = 1 (i.e. a unit rotor); no trigonometric function occurs. -/
noncomputable section
namespace DocD
open Model Spec GDFamily Polynomial Nat

variable (ch sh : ℝ)

/-! ### 1. the generating polynomial; ℓ = 0, 1 -/

/-- (D-1) the ρ-sum of the documented formula is a coefficient of (ch − sh t)^{ℓ+m'} (sh + ch t)^{ℓ−m'} -/
theorem docd_generating (n : ℕ) (mp m : ℤ) (hm : m.natAbs ≤ n) :
    docd ch sh n mp m =
      Real.sqrt (((((n : ℤ) + m).toNat ! * ((n : ℤ) - m).toNat ! : ℕ) : ℝ)
          / (((((n : ℤ) + mp).toNat ! * ((n : ℤ) - mp).toNat ! : ℕ) : ℝ))) *
        (genPoly ch sh ((n : ℤ) + mp).toNat ((n : ℤ) - mp).toNat).coeff ((n : ℤ) - m).toNat :=
  docd_eq_coeff ch sh n mp m hm

/-- ℓ = 0 -/
theorem docd_ell0 : docd ch sh 0 0 0 = 1 := docd_zero ch sh

/-- ℓ = 1, all nine (m', m): the documented formula is the table `DDef.d1doc` at c = ch² − sh², s = 2 ch sh -/
theorem docd_ell1 (hcs : ch ^ 2 + sh ^ 2 = 1) (mp m : ℤ) (hmp : mp.natAbs ≤ 1) (hm : m.natAbs ≤ 1) :
    docd ch sh 1 mp m = DDef.d1doc (ch ^ 2 - sh ^ 2) (2 * ch * sh) mp m :=
  docd_one ch sh hcs mp m hmp hm

/-! ### 2. (S) the symmetries -/

/-- (D-2a) H^{m',m} = H^{m,m'}; for d: d_{m',m} = (−1)^{m'−m} d_{m,m'}.  No relation between ch and sh is used. -/
theorem symm_swap_doc (n : ℕ) (mp m : ℤ) (hmp : mp.natAbs ≤ n) (hm : m.natAbs ≤ n) :
    Hdoc ch sh n mp m = Hdoc ch sh n m mp :=
  Hdoc_symm_swap ch sh n mp m hmp hm

/-- (D-2b) H^{m',m} = H^{−m',−m}; for d: d_{m',m} = (−1)^{m'−m} d_{−m',−m}.  No relation between ch and sh is used. -/
theorem symm_neg_doc (n : ℕ) (mp m : ℤ) (hmp : mp.natAbs ≤ n) (hm : m.natAbs ≤ n) :
    Hdoc ch sh n mp m = Hdoc ch sh n (-mp) (-m) :=
  Hdoc_symm_neg ch sh n mp m hmp hm

/-! ### 3. relation (50) -/

/-- (D-3) relation (50) of Gumerov–Duraiswami on the stored wedge |m'| < n, |m'| ≤ m ≤ n -/
theorem rel50_doc (hcs : ch ^ 2 + sh ^ 2 = 1) (n : ℕ) (mp m : ℤ)
    (h1 : mp.natAbs < n) (h2 : (mp.natAbs : ℤ) ≤ m) (h3 : m ≤ n) : Rel50 (Hdoc ch sh) n mp m :=
  Hdoc_rel50 ch sh hcs n mp m h1 h2 h3

/-! ### 4. relation (41) -/

/-- (D-4) relation (41) of Gumerov–Duraiswami, 1 ≤ m ≤ n, with cos β = ch² − sh², sin β = 2 ch sh -/
theorem rel41_doc (hcs : ch ^ 2 + sh ^ 2 = 1) (n : ℕ) (m : ℤ) (h1 : 1 ≤ m) (h2 : m ≤ n) :
    gdB ((n : ℤ) + 1) 0 * Hdoc ch sh n 1 m =
      gdB ((n : ℤ) + 1) (-m - 1) * (1 - (ch ^ 2 - sh ^ 2)) / 2 * Hdoc ch sh (n + 1) 0 (m + 1)
        - gdB ((n : ℤ) + 1) (m - 1) * (1 + (ch ^ 2 - sh ^ 2)) / 2 * Hdoc ch sh (n + 1) 0 (m - 1)
        - gdA n m * (2 * ch * sh) * Hdoc ch sh (n + 1) 0 m :=
  Hdoc_rel41 ch sh hcs n m h1 h2

/-! ### 5. column m' = 0 -/

/-- (D-5) the m' = 0 column of the documented d is the Holmes–Featherstone column `Spec.col0` of step 2 -/
theorem col0_doc (hcs : ch ^ 2 + sh ^ 2 = 1) (n m : ℕ) (h : m ≤ n) :
    Hdoc ch sh n 0 (m : ℤ) = col0 (ch ^ 2 - sh ^ 2) (2 * ch * sh) n m :=
  Hdoc_col0 ch sh hcs n m h

/-! ### 6. the documented d is a Gumerov–Duraiswami family; the model computes it -/

/-- (D-6) ε(m') ε(−m) d^n_{m',m}(β), d the documented Wigner d, is a Gumerov–Duraiswami family for
    (cos β, sin β) = (ch² − sh², 2 ch sh) -/
theorem isGDFamily_doc (hcs : ch ^ 2 + sh ^ 2 = 1) :
    IsGDFamily (ch ^ 2 - sh ^ 2) (2 * ch * sh) (Hdoc ch sh) where
  symm_swap := symm_swap_doc ch sh
  symm_neg := symm_neg_doc ch sh
  col0 := col0_doc ch sh hcs
  rel41 := rel41_doc ch sh hcs
  rel50 := rel50_doc ch sh hcs

section
variable {μ : Type} [Mem μ ℝ] [LawfulMem μ ℝ]

/-- (D-7) UNCONDITIONAL: the validated model of `Wigner.d` computes the documented d^ℓ_{m',m}, for every lawful
    memory and initial content, every ell_max = L, every ℓ ≤ L and all |m'|, |m| ≤ ℓ, at every unit rotor
    (ch, sh) = (cos β/2, sin β/2) -/
theorem objd_eq_docd (hcs : ch ^ 2 + sh ^ 2 = 1) (L : ℕ) (st : μ) (ell : ℕ) (hl : ell ≤ L)
    (mp m : ℤ) (hmp : mp.natAbs ≤ ell) (hm : m.natAbs ≤ ell) :
    objd L st (ch ^ 2 - sh ^ 2) (2 * ch * sh) ell mp m = docd ch sh ell mp m :=
  objd_eq_doc_of_IsGDFamily (docd ch sh) (isGDFamily_doc ch sh hcs) L st ell hl mp m hmp hm

/-- (D-7') every wedge cell of the workspace after `Model.runH`: `Hwedge[WignerHindex(n, m', m)]` is
    ε(m') ε(−m) d^n_{m',m} with d the documented Wigner d -/
theorem model_eq_Hdoc (hcs : ch ^ 2 + sh ^ 2 = 1) (L P : ℕ) (st : μ) (n : ℕ) (mp : ℤ) (m : ℕ)
    (hn : n ≤ L) (hmp : mp.natAbs ≤ min n P) (hm1 : mp.natAbs ≤ m) (hm2 : m ≤ n) :
    rd (runH L P (ch ^ 2 - sh ^ 2) (2 * ch * sh) st) (.hw n mp m) = Hdoc ch sh n mp m :=
  model_eq_of_IsGDFamily (isGDFamily_doc ch sh hcs) L P st n mp m hn hmp hm1 hm2

end

/-- ℓ = 2, all twenty-five (m', m), as a corollary of (D-7) and `DDef2.objd_two_eq_table`: the documented formula is
    the table `DDef2.d2doc` — an independent cross-check of `docd` against the hand-written ℓ = 2 table -/
theorem docd_ell2 (hcs : ch ^ 2 + sh ^ 2 = 1) (mp m : ℤ) (hmp : mp.natAbs ≤ 2) (hm : m.natAbs ≤ 2) :
    docd ch sh 2 mp m = DDef2.d2doc (ch ^ 2 - sh ^ 2) (2 * ch * sh) mp m := by
  have hcs' : (ch ^ 2 - sh ^ 2) ^ 2 + (2 * ch * sh) ^ 2 = 1 := by
    linear_combination (ch ^ 2 + sh ^ 2 + 1) * hcs
  rw [← objd_eq_docd ch sh hcs 2 (fun _ : Loc => (0 : ℝ)) 2 le_rfl mp m hmp hm]
  exact DDef2.objd_two_eq_table 2 _ _ _ hcs' le_rfl mp m hmp hm

/-- (D-8) the coordinate recursion `valExt` IS ε ε d for the documented d on the whole square |m'|, |m| ≤ n -/
theorem valExt_eq_Hdoc (hcs : ch ^ 2 + sh ^ 2 = 1) (n : ℕ) (mp m : ℤ) (h1 : mp.natAbs ≤ n) (h2 : m.natAbs ≤ n) :
    valExt (ch ^ 2 - sh ^ 2) (2 * ch * sh) n mp m = Hdoc ch sh n mp m :=
  ((isGDFamily_doc ch sh hcs).eq_valExt n mp m h1 h2).symm

/-- (D-9) relation (50) for the documented d at EVERY |m'|, |m| ≤ n (not only on the stored wedge) -/
theorem rel50_doc_full (hcs : ch ^ 2 + sh ^ 2 = 1) (n : ℕ) (mp m : ℤ) (h1 : mp.natAbs ≤ n) (h2 : m.natAbs ≤ n) :
    Rel50 (Hdoc ch sh) n mp m :=
  (isGDFamily_doc ch sh hcs).rel50_full n mp m h1 h2

/-- the theorems are about an actual rotation: with ch = cos(β/2), sh = sin(β/2) the arguments of the model are
    cos β and sin β -/
theorem objd_eq_docd_angle {μ : Type} [Mem μ ℝ] [LawfulMem μ ℝ] (β : ℝ) (L : ℕ) (st : μ) (ell : ℕ) (hl : ell ≤ L)
    (mp m : ℤ) (hmp : mp.natAbs ≤ ell) (hm : m.natAbs ≤ ell) :
    objd L st (Real.cos β) (Real.sin β) ell mp m = docd (Real.cos (β / 2)) (Real.sin (β / 2)) ell mp m := by
  have hcs : Real.cos (β / 2) ^ 2 + Real.sin (β / 2) ^ 2 = 1 := Real.cos_sq_add_sin_sq (β / 2)
  have hc : Real.cos β = Real.cos (β / 2) ^ 2 - Real.sin (β / 2) ^ 2 := by
    have h := Real.cos_two_mul (β / 2)
    rw [show 2 * (β / 2) = β by ring] at h
    rw [h]; linear_combination hcs
  have hsn : Real.sin β = 2 * Real.cos (β / 2) * Real.sin (β / 2) := by
    have h := Real.sin_two_mul (β / 2)
    rw [show 2 * (β / 2) = β by ring] at h
    rw [h]; ring
  rw [hc, hsn]
  exact objd_eq_docd _ _ hcs L st ell hl mp m hmp hm

end DocD
end
