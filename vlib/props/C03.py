"""C03 — evaluating mode weights returns sum f_lm sYlm at every rotor, by every route.

Obligations: Props/C03.lean + Routes (evaluateHorner_eq_sum ...).  Correspondence: _evaluate_Horner bitwise vs
Model.evaluateHorner (incl. |s|>=3 multi-iteration index walk, mp_max-limited / larger calculators).
Gap monitor: implementation vs plain sum f_lm * sYlm; Horner vs matrix; larger calculator; Modes.evaluate;
Modes.grid with and without spinsfast; shapes; inputs untouched."""
import math

import numpy as np

from .. import corr, kern, helpers
from . import common

EPS = 2.0 ** -52


def tol_for(modes_arr, ell_max):
    # |sum f Y| error: (ell+1)eps per sYlm, times sum |f| sqrt((2l+1)/4pi) ; generous fixed multiple
    scale = float(np.max(np.sum(np.abs(modes_arr), axis=-1))) if modes_arr.size else 0.0
    return 64 * (ell_max + 2) ** 1.5 * EPS * max(scale, 1e-300)


def gap(run, quick):
    import spherical
    import quaternionic
    rng = run.rng
    rot_all = [r for r in corr.rotor_strata(rng, 4) if "subnormal" not in r[0] and "1e-160" not in r[0]]
    cases = []
    spins = [0, -2, 3, -5, 6] if quick else list(range(-6, 7))
    for s in spins:
        for L in ([abs(s), abs(s) + 1, 8, 19] if quick else [abs(s), abs(s) + 1, 8, 19, 40, 64]):
            if L < abs(s):
                continue
            for lead, kind in [((), "random"), ((2,), "single"), ((2, 3), "dynamic"), ((1,), "zero")][: (2 if quick and L > 8 else 4)]:
                cases.append((s, L, lead, kind))
    for s, L, lead, kind in cases:
        modes = helpers.make_modes(rng, s, L, lead, kind)
        arr0 = modes.ndarray.copy()
        Rs = [R for _, R in rng.sample(rot_all, 3)] + [helpers.random_rotor(rng)]
        Rarr = np.array(Rs)
        Rshape = rng.choice([(4,), (1, 4), (2, 2)]) if not quick else (4,)
        Rq = quaternionic.array(Rarr.reshape((-1, 4) if Rshape == (4,) else Rshape + (4,))) if Rshape != (4,) else quaternionic.array(Rarr)
        Rcopy = np.array(Rq.ndarray, copy=True)
        wref = spherical.Wigner(L + 3, mp_max=abs(s) + 2)
        ref = np.stack([np.tensordot(arr0, wref.sYlm(s, quaternionic.array(R))[: (L + 1) ** 2], axes=([-1], [0])) for R in Rs], axis=-1)
        ref = ref.reshape(modes.shape[:-1] + Rq.shape[:-1])
        tol = tol_for(arr0, L)
        calcs = [("exact", spherical.Wigner(L, mp_max=abs(s))), ("larger", spherical.Wigner(L + 2, mp_max=abs(s) + 1)), ("full", spherical.Wigner(L))]
        if abs(s) >= 1:   # calculators whose own ell_min is above 0 (allowed up to |s|)
            calcs += [("ell_min=|s|", spherical.Wigner(L + 1, ell_min=abs(s), mp_max=abs(s))), ("ell_min=1", spherical.Wigner(L, ell_min=1))]
        for cname, w in calcs:
            for horner in (True, False):
                inp = {"s": s, "ell_max_modes": L, "lead": list(lead), "kind": kind, "calc": [w.ell_min, w.ell_max, w.mp_max], "horner": horner, "R": [list(R) for R in Rs]}
                try:
                    v = w.evaluate(modes, Rq, horner=horner)
                except Exception as e:
                    run.violation("evaluate-raised-on-valid-request", f"Wigner.evaluate[horner={horner}]", {**inp, "calc_equals_modes_range": w.ell_max == L}, "values", repr(e))
                    continue
                run.gap_case("evaluate-vs-sum", (s, L, lead, kind, cname, horner), f"{cname}|horner={horner}", {k: inp[k] for k in ("s", "ell_max_modes", "calc", "horner")})
                if v.shape != modes.shape[:-1] + Rq.shape[:-1]:
                    run.violation("evaluate-shape", f"Wigner.evaluate[horner={horner}]", inp, list(modes.shape[:-1] + Rq.shape[:-1]), list(v.shape))
                    continue
                err = float(np.max(np.abs(v - ref))) if v.size else 0.0
                if not (err <= tol):
                    run.violation("evaluate-differs-from-sum", f"Wigner.evaluate[horner={horner}]", {**inp, "calc_equals_modes_range": w.ell_max == L}, "sum f_lm sYlm", f"max abs err {err} > {tol}")
                if not np.array_equal(modes.ndarray, arr0) or not np.array_equal(Rq.ndarray, Rcopy):
                    run.violation("evaluate-modified-input", f"Wigner.evaluate[horner={horner}]", inp, "inputs unchanged", "changed")
        # Modes.evaluate front end
        try:
            v = modes.evaluate(Rq)
            if v.shape != ref.shape or not (float(np.max(np.abs(v - ref))) <= tol if v.size else True):
                run.violation("Modes.evaluate-differs", "Modes.evaluate", {"s": s, "ell_max_modes": L, "lead": list(lead)}, "sum f_lm sYlm", "differs")
        except Exception as e:
            run.violation("Modes.evaluate-raised", "Modes.evaluate", {"s": s, "ell_max_modes": L, "lead": list(lead)}, "values", repr(e))
    # theta_phi itself: documented as theta uniformly on [0, pi] (closed), phi uniformly on [0, 2pi) (open), shape (n_theta, n_phi, 2)
    for nt, nph in [(1, 1), (2, 3), (5, 4), (7, 7), (9, 16)]:
        tp = spherical.theta_phi(nt, nph)
        want = np.array([[[th, ph] for ph in np.linspace(0.0, 2 * np.pi, num=nph, endpoint=False)] for th in np.linspace(0.0, np.pi, num=nt, endpoint=True)])
        run.gap_case("theta_phi", (nt, nph), "theta_phi")
        if tp.shape != (nt, nph, 2) or not np.array_equal(tp, want):
            run.violation("theta_phi-grid", "theta_phi", {"n_theta": nt, "n_phi": nph}, "documented equiangular grid", "differs")
    # Modes.grid with and without spinsfast, at the points of theta_phi
    for s, L, lead in ([(0, 4, ()), (-2, 6, (2,)), (3, 5, ())] if quick else [(0, 4, ()), (-2, 6, (2,)), (3, 5, ()), (1, 12, (2, 2)), (-4, 9, ())]):
        modes = helpers.make_modes(rng, s, L, lead)
        nt, nph = 2 * L + 1, 2 * L + 3
        pts = quaternionic.array.from_spherical_coordinates(spherical.theta_phi(nt, nph))
        wref = spherical.Wigner(L, mp_max=abs(s))
        ref = wref.evaluate(modes, pts, horner=True)
        tol = tol_for(modes.ndarray, L)
        for use in (True, False):
            try:
                g = modes.grid(nt, nph, use_spinsfast=use)
            except Exception as e:
                run.violation("grid-raised", f"Modes.grid[spinsfast={use}]", {"s": s, "ell_max": L, "lead": list(lead)}, "values", repr(e))
                continue
            run.gap_case("grid-routes", (s, L, lead, use), f"spinsfast={use}")
            ga = np.asarray(g)
            if ga.shape != ref.shape or not (float(np.max(np.abs(ga - ref))) <= 50 * tol):
                run.violation("grid-differs", f"Modes.grid[spinsfast={use}]", {"s": s, "ell_max": L, "lead": list(lead)}, "evaluate at theta_phi", f"max err {float(np.max(np.abs(ga - ref))) if ga.shape == ref.shape else 'shape'}")
            if getattr(g, "spin_weight", None) != s:
                run.violation("grid-spin", f"Modes.grid[spinsfast={use}]", {"s": s}, s, getattr(g, "spin_weight", None))


def check(run):
    quick = run.tier == "quick"
    run.regenerate()
    run.lean_props(common.modules_for("C03"))
    rng = run.rng
    rotors = [r for r in corr.rotor_strata(rng, 4 if quick else 12)]
    preps = run.attempt("corr:euler", kern.prep_rotors, run, rotors, default={})
    cases = []
    for (L, P, s, eM) in ([(4, 4, 0, 4), (4, 2, -2, 3), (6, 3, 3, 6), (6, 6, 1, 2), (8, 4, -4, 8), (7, 5, 5, 7), (9, 6, -6, 8), (3, 0, 0, 3), (5, 1, -1, 0)] if quick else
                          [(4, 4, 0, 4), (4, 2, -2, 3), (6, 3, 3, 6), (6, 6, 1, 2), (8, 4, -4, 8), (7, 5, 5, 7), (9, 6, -6, 8), (3, 0, 0, 3), (5, 1, -1, 0),
                           (12, 12, 3, 12), (16, 4, -3, 14), (20, 6, 6, 20), (10, 5, -5, 5), (24, 2, 2, 24)]):
        if eM < abs(s):
            f = helpers.random_weights(rng, s, eM)
        else:
            f = helpers.random_weights(rng, s, eM)
        cases.append((L, P, s, eM, f))
    run.attempt("corr:corr_evalH", kern.corr_evalH, run, cases, rotors if not quick else rotors[:14] + rotors[-3:], preps, poison=float("nan"))
    # the default (matrix) route from the source: generated Wigner.sYlm body + generated slice bounds / contraction, numerically; calculators
    # whose ell_min is 0, 1 or |s| (evaluate accepts ell_min <= |s|) — the slices start at different places in each
    mcases = []
    for (L, P, s, eM, f) in cases:
        for emin in sorted({0, min(1, abs(s)), abs(s)}):
            if emin <= L and abs(s) <= P:
                mcases.append((L, P, emin, s, eM, f))
    run.attempt("corr:corr_evalM", kern.corr_evalM, run, mcases, rotors if not quick else rotors[:8] + rotors[-2:], preps)
    gap(run, quick)
    # memory layouts of the weights and of the rotor array
    from .. import layouts
    import quaternionic as _q
    import spherical
    wl_ = spherical.Wigner(7)
    Rs_ = _q.array(np.array([helpers.random_rotor(run.rng) for _ in range(3)]))
    RF_ = _q.array(np.asfortranarray(np.array([helpers.random_rotor(run.rng) for _ in range(6)]).reshape(2, 3, 4)))
    RC_ = _q.array(np.ascontiguousarray(RF_.ndarray))
    layouts.sweep_modes(run, "evaluate", [("evaluate[horner=True]", lambda f: wl_.evaluate(f, Rs_, horner=True)), ("evaluate[horner=False]", lambda f: wl_.evaluate(f, Rs_, horner=False)),
                                          ("Modes.evaluate", lambda f: f.evaluate(Rs_)), ("evaluate[horner=True,F-rotors]", lambda f: wl_.evaluate(f, RF_, horner=True))],
                        [-2, 0, 1] if quick else range(-3, 4), exact=lambda nm: "True" in nm)
    for s_ in (0, -1):
        f_ = helpers.make_modes(run.rng, s_, 4, (2,))
        for h_ in (True, False):
            a_, b_ = np.asarray(wl_.evaluate(f_, RF_, horner=h_)), np.asarray(wl_.evaluate(f_, RC_, horner=h_))
            run.gap_case("memory-layouts", ("rotors", s_, h_), "layout|F-rotors")
            if not layouts.same(a_, b_, exact=h_):
                run.violation("result-depends-on-memory-layout", f"Wigner.evaluate[horner={h_}]", {"s": s_, "rotor_array": "Fortran-ordered (2,3,4)", "ell_max": 4}, "same as for C-ordered rotors", "differs")
    run.assumptions += ["BLAS matmul and spinsfast are external: compared numerically only", "rounding tolerance 64 (ell+2)^1.5 eps * max row 1-norm of the weights (fixed multiple)"]


def replay(body):
    print(body["input"], body["expected"], body["got"])
    return 0
