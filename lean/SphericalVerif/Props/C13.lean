import SphericalVerif.Model.Modes
import SphericalVerif.Lemmas.Modes
/-! C13 — Modes algebra acts on the function, not on the coefficients: the dispatch rules.

    Property theorems only (helpers in `Lemmas/Modes.lean`), about the executable model `Model.Modes` of
    `Modes.__array_ufunc__` and of the method spellings in spherical/modes/algebra.py (validated against the real
    class by `vlib/glue_modes.py`).  All statements hold for every spin weight and every size.  `WellFormed o`
    says that the last axis of `o` has the `Ysize 0 ell_max` entries its metadata promises. -/
namespace C13
open Gen Spec Model.Modes

/-- `a ∘ b` (also reflected) is `ufunc(a, b)`, `a ∘= b` is `ufunc(a, b, out=(a,))`. -/
theorem operator_is_ufunc (op : BinOp) (a b : Operand) :
    binop op a b = arrayUfunc { uf := op.uf, args := [a, b] }
    ∧ inplaceOp op a b = arrayUfunc { uf := op.uf, args := [a, b], out := some a } := ⟨rfl, rfl⟩

/-! ### addition and subtraction -/

/-- Two Modes with broadcastable leading shapes: equal spins give a Modes of that spin with the larger `ell_max`
    (ufunc, operator and method spellings alike; the result keeps the first operand's truncator); unequal spins
    give NotImplemented (TypeError) from the ufunc / operator and ValueError from the methods. -/
theorem add_spin_rule (uf : UFunc) (hu : uf = .add ∨ uf = .subtract) (sub : Bool) (m1 m2 : Obj) (ld : List Nat)
    (w1 : WellFormed m1) (w2 : WellFormed m2) (hb : bcast m1.lead m2.lead = some ld) :
    let good : Outcome :=
      .modes ⟨⟨m1.md.spin, max m1.md.ellMax m2.md.ellMax, m1.md.trunc⟩, ld,
        (Ysize 0 (max m1.md.ellMax m2.md.ellMax)).toNat⟩ none
    (m1.md.spin = m2.md.spin →
      arrayUfunc { uf := uf, args := [.modes m1, .modes m2] } = good
      ∧ methodAdd m1 (.modes m2) sub = good)
    ∧ (m1.md.spin ≠ m2.md.spin →
      arrayUfunc { uf := uf, args := [.modes m1, .modes m2] } = .err .notImplemented
      ∧ methodAdd m1 (.modes m2) sub = .err .valueError) := by
  intro good
  have hc : addCore m1 m1 m2 none = good := Lemmas.Modes.addCore_ok m1 m1 m2 ld none hb w1 w2 rfl
  have hm : methodAdd m1 (.modes m2) sub
      = if m1.md.spin ≠ m2.md.spin then .err .valueError else addCore m1 m1 m2 none := rfl
  constructor
  · intro hs
    constructor
    · rw [Lemmas.Modes.ufunc_addsub_modes uf hu, if_neg (by simpa using hs), hc]
    · rw [hm, if_neg (by simpa using hs), hc]
  · intro hs
    constructor
    · rw [Lemmas.Modes.ufunc_addsub_modes uf hu, if_pos hs]
    · rw [hm, if_pos hs]

example : ∃ m1 m2 : Obj, ∃ ld, WellFormed m1 ∧ WellFormed m2 ∧ bcast m1.lead m2.lead = some ld ∧ m1.md.spin = m2.md.spin :=
  ⟨⟨⟨-2, 2, none⟩, [2, 1], 9⟩, ⟨⟨-2, 3, some .max⟩, [3], 16⟩, [2, 3], by decide⟩
example : ∃ m1 m2 : Obj, ∃ ld, WellFormed m1 ∧ WellFormed m2 ∧ bcast m1.lead m2.lead = some ld ∧ m1.md.spin ≠ m2.md.spin :=
  ⟨⟨⟨-2, 2, none⟩, [], 9⟩, ⟨⟨1, 3, none⟩, [], 16⟩, [], by decide⟩

/-- Leading shapes that do not broadcast raise ValueError (equal spins). -/
theorem add_shape_mismatch (uf : UFunc) (hu : uf = .add ∨ uf = .subtract) (sub : Bool) (m1 m2 : Obj)
    (out : Option Operand) (hs : m1.md.spin = m2.md.spin) (hb : bcast m1.lead m2.lead = none) :
    arrayUfunc { uf := uf, args := [.modes m1, .modes m2], out := out } = .err .valueError
    ∧ methodAdd m1 (.modes m2) sub = .err .valueError := by
  constructor
  · rw [Lemmas.Modes.ufunc_addsub_modes uf hu, if_neg (by simpa using hs), Lemmas.Modes.addCore_nobcast _ _ _ _ hb]
  · have hm : methodAdd m1 (.modes m2) sub
        = if m1.md.spin ≠ m2.md.spin then .err .valueError else addCore m1 m1 m2 none := rfl
    rw [hm, if_neg (by simpa using hs), Lemmas.Modes.addCore_nobcast _ _ _ _ hb]

example : ∃ m1 m2 : Obj, m1.md.spin = m2.md.spin ∧ bcast m1.lead m2.lead = none :=
  ⟨⟨⟨0, 1, none⟩, [2], 4⟩, ⟨⟨0, 1, none⟩, [3], 4⟩, by decide⟩

/-- `np.add(f, g, out=o)` / `np.subtract` / `f += g` / `f -= g` for equal spins: the output must have exactly the
    result's shape (ValueError otherwise, e.g. `f += g` with `g.ell_max > f.ell_max`); then the call returns the same
    Modes (a view of `o`) as the call without `out`, and a Modes held in `out` receives the result's metadata. -/
theorem add_out_outcome (uf : UFunc) (hu : uf = .add ∨ uf = .subtract) (m1 m2 : Obj) (ld : List Nat) (out : Operand)
    (w1 : WellFormed m1) (w2 : WellFormed m2) (hs : m1.md.spin = m2.md.spin) (hb : bcast m1.lead m2.lead = some ld) :
    let L := max m1.md.ellMax m2.md.ellMax
    let mt : Meta := ⟨m1.md.spin, L, m1.md.trunc⟩
    (out.shape = ld ++ [(Ysize 0 L).toNat] →
      arrayUfunc { uf := uf, args := [.modes m1, .modes m2], out := some out }
        = .modes ⟨mt, ld, (Ysize 0 L).toNat⟩ (if out.isModes then some mt else none))
    ∧ (out.shape ≠ ld ++ [(Ysize 0 L).toNat] →
      arrayUfunc { uf := uf, args := [.modes m1, .modes m2], out := some out } = .err .valueError) := by
  intro L mt
  constructor
  · intro ho
    have ho' : outShapeOk (ld ++ [(Ysize 0 L).toNat]) (some out) = true := by simp [outShapeOk, ho]
    rw [Lemmas.Modes.ufunc_addsub_modes uf hu, if_neg (by simpa using hs),
      Lemmas.Modes.addCore_ok m1 m1 m2 ld (some out) hb w1 w2 ho']
    cases out <;> rfl
  · intro ho
    have ho' : outShapeOk (ld ++ [(Ysize 0 L).toNat]) (some out) = false := by simp [outShapeOk, ho]
    rw [Lemmas.Modes.ufunc_addsub_modes uf hu, if_neg (by simpa using hs),
      Lemmas.Modes.addCore_badout m1 m1 m2 ld (some out) hb ho']

example : ∃ (m1 m2 : Obj) (ld : List Nat) (out : Operand), WellFormed m1 ∧ WellFormed m2 ∧ m1.md.spin = m2.md.spin
    ∧ bcast m1.lead m2.lead = some ld ∧ out.shape = ld ++ [(Ysize 0 (max m1.md.ellMax m2.md.ellMax)).toNat] :=
  ⟨⟨⟨1, 2, none⟩, [], 9⟩, ⟨⟨1, 1, none⟩, [], 4⟩, [], .modes ⟨⟨1, 2, none⟩, [], 9⟩, by decide⟩
example : ∃ (m1 m2 : Obj) (ld : List Nat) (out : Operand), WellFormed m1 ∧ WellFormed m2 ∧ m1.md.spin = m2.md.spin
    ∧ bcast m1.lead m2.lead = some ld ∧ out.shape ≠ ld ++ [(Ysize 0 (max m1.md.ellMax m2.md.ellMax)).toNat] :=
  ⟨⟨⟨1, 1, none⟩, [], 4⟩, ⟨⟨1, 2, none⟩, [], 9⟩, [], .modes ⟨⟨1, 1, none⟩, [], 4⟩, by decide⟩

/-- The entries: with `out=` (any buffer `bo`, whatever it held before, also when it is the buffer `b1` or `b2` of
    an operand) the output row is exactly the row the call without `out` builds in a fresh array from the
    operands' content before the call; no other buffer is changed.  (`comb` is `+` or `−`; `k1`, `k2` the operands'
    lengths.) -/
theorem add_out_overwrites {β : Type} (comb : β → β → β) (zero : β) (k1 k2 : Nat) (mem : Nat → Row β)
    (b1 b2 fresh bo : Nat) :
    (addEntries comb zero k1 k2 mem b1 b2 fresh (some bo)).1 bo
      = (addEntries comb zero k1 k2 mem b1 b2 fresh none).1 fresh
    ∧ (addEntries comb zero k1 k2 mem b1 b2 fresh (some bo)).2 = bo
    ∧ (∀ i, i ≠ bo → (addEntries comb zero k1 k2 mem b1 b2 fresh (some bo)).1 i = mem i)
    ∧ (∀ p, ((addEntries comb zero k1 k2 mem b1 b2 fresh none).1 fresh).get p
        = if p < k2 then comb (if p < k1 then (mem b1).get p else zero) ((mem b2).get p)
          else if p < k1 then (mem b1).get p else zero) := by
  obtain ⟨a, b, c⟩ := Lemmas.Modes.addEntries_out comb zero k1 k2 mem b1 b2 fresh bo
  refine ⟨a, b, c, ?_⟩
  intro p
  simp [addEntries, Row.sliceSet, Row.sliceAcc]

/-- Adding or subtracting anything with a non-zero entry (scalar or array, either side, any `out`) is rejected:
    NotImplemented (TypeError) from the ufunc / operators, ValueError from the methods. -/
theorem nonzero_scalar_rejected (uf : UFunc) (hu : uf = .add ∨ uf = .subtract) (sub : Bool) (m : Obj)
    (sh : List Nat) (out : Option Operand) :
    arrayUfunc { uf := uf, args := [.modes m, .arr sh true], out := out } = .err .notImplemented
    ∧ arrayUfunc { uf := uf, args := [.arr sh true, .modes m], out := out } = .err .notImplemented
    ∧ methodAdd m (.arr sh true) sub = .err .valueError :=
  ⟨(Lemmas.Modes.ufunc_addsub_nonzero uf hu m sh out).1, (Lemmas.Modes.ufunc_addsub_nonzero uf hu m sh out).2, rfl⟩

/-! ### division -/

/-- Dividing anything by a Modes is rejected: NotImplemented (TypeError) from `np.divide` / `np.true_divide` /
    the operator, ValueError from `Modes.divide`. -/
theorem div_by_modes_rejected (uf : UFunc) (hu : uf = .divide ∨ uf = .trueDivide) (a : Operand) (self m : Obj)
    (out : Option Operand) :
    arrayUfunc { uf := uf, args := [a, .modes m], out := out } = .err .notImplemented
    ∧ binop .div a (.modes m) = .err .notImplemented
    ∧ methodDivide self (.modes m) = .err .valueError :=
  ⟨Lemmas.Modes.ufunc_div_by_modes uf hu a m out, Lemmas.Modes.ufunc_div_by_modes .trueDivide (Or.inr rfl) a m none, rfl⟩

/-! ### the allow-list -/

/-- The ufuncs handled at all: seven pass-through comparisons / tests, and ten function-level operations. -/
theorem ufunc_lists (uf : UFunc) :
    (uf.passthrough = true ↔ uf ∈ [UFunc.notEqual, .equal, .logicalAnd, .logicalOr, .isfinite, .isinf, .isnan])
    ∧ (uf.allowed = true ↔ uf ∈ [UFunc.positive, .negative, .add, .subtract, .multiply, .divide, .trueDivide,
        .conj, .conjugate, .absolute]) := by
  cases uf <;> simp [UFunc.passthrough, UFunc.allowed]

/-- Every other ufunc reaching a Modes returns NotImplemented (TypeError), with or without keywords or `out`;
    an allow-listed one called with any extra keyword raises NotImplementedError; a pass-through one never
    returns a Modes. -/
theorem ufunc_allowlist (c : Call) (o : Obj) (hs : selfOf c = some o) :
    (c.uf.passthrough = false → c.uf.allowed = false → arrayUfunc c = .err .notImplemented)
    ∧ (c.uf.allowed = true → c.kwargs = true → arrayUfunc c = .err .notImplementedError)
    ∧ (c.uf.passthrough = true → ∀ r md, arrayUfunc c ≠ .modes r md) := by
  refine ⟨Lemmas.Modes.ufunc_not_allowed c o hs, Lemmas.Modes.ufunc_kwargs c o hs, ?_⟩
  intro hp r md
  unfold arrayUfunc
  simp only [hs, hp, if_true]
  split
  · simp
  · split
    · simp
    · split <;> simp

/-- in particular every ufunc the model does not know by name -/
theorem ufunc_other (name : String) : (UFunc.other name).passthrough = false ∧ (UFunc.other name).allowed = false :=
  ⟨rfl, rfl⟩

example : ∃ (c : Call) (o : Obj), selfOf c = some o ∧ c.uf.passthrough = false ∧ c.uf.allowed = false :=
  ⟨{ uf := .other "exp", args := [.modes ⟨⟨0, 1, none⟩, [], 4⟩] }, _, rfl, rfl, rfl⟩
example : ∃ (c : Call) (o : Obj), selfOf c = some o ∧ c.uf.allowed = true ∧ c.kwargs = true :=
  ⟨{ uf := .add, args := [.modes ⟨⟨0, 1, none⟩, [], 4⟩, .arr [] false], kwargs := true }, _, rfl, rfl, rfl⟩
example : ∃ (c : Call) (o : Obj), selfOf c = some o ∧ c.uf.passthrough = true :=
  ⟨{ uf := .equal, args := [.modes ⟨⟨0, 1, none⟩, [], 4⟩, .arr [] false] }, _, rfl, rfl⟩

/-! ### conjugation -/

/-- Every spelling (`np.conj`, `np.conjugate`, `Modes.conjugate()` = `.conj()` = `.bar`, `conjugate(inplace=True)`)
    returns spin `-s` with the same `ell_max`, truncator and shape; only the in-place one returns the receiver. -/
theorem conj_rule (uf : UFunc) (hu : uf = .conj ∨ uf = .conjugate) (m : Obj) (w : WellFormed m) :
    let good : Outcome := .modes ⟨{ m.md with spin := -m.md.spin }, m.lead, m.n⟩ none
    arrayUfunc { uf := uf, args := [.modes m] } = good
    ∧ methodConjugate m false = (good, false)
    ∧ methodConjugate m true = (good, true) :=
  ⟨Lemmas.Modes.ufunc_conj uf hu m w, (Lemmas.Modes.method_conj m w).1, (Lemmas.Modes.method_conj m w).2⟩

example : ∃ m : Obj, WellFormed m := ⟨⟨⟨3, 4, some .min⟩, [2], 25⟩, by decide⟩

/-- The loops of the method and of the ufunc branch write the same row. -/
theorem conj_method_eq_ufunc {α : Type} (neg conj : α → α) (s L : Int) (src : Nat → α) (c0 : Row α) :
    conjLoopMethod neg conj s L false src c0 = conjLoopUfunc neg conj s L src c0 := by
  unfold conjLoopMethod conjLoopUfunc
  congr 1
  funext c ell
  exact Lemmas.Modes.conjStepMethod_eq neg conj s src c ell

/-- Conjugating in place (the loop reads the array it is overwriting) writes the same row as conjugating into a
    fresh array. -/
theorem conj_inplace_eq {α : Type} (neg conj : α → α) (s L : Int) (src : Nat → α) :
    conjLoopMethod neg conj s L true src ⟨src⟩ = conjLoopMethod neg conj s L false src ⟨src⟩ :=
  Lemmas.Modes.conjLoopMethod_inplace neg conj s L src

/-- The pairing: for `|s| ≤ ell ≤ ell_max`, `|m| ≤ ell` the entry written at `(ell, m)` is
    `(-1)^(s+m) · conj(f[ell, -m])`; entries with `ell < |s|` or `ell > ell_max` are not written. -/
theorem conj_pairing {α : Type} (neg conj : α → α) (s L ell m : Int) (src : Nat → α) (c0 : Row α)
    (h0 : 0 ≤ ell) (hm1 : -ell ≤ m) (hm2 : m ≤ ell) :
    ((s.natAbs : Int) ≤ ell → ell ≤ L →
      (conjLoopUfunc neg conj s L src c0).get (pos ell m) = sgn neg (s + m) (conj (src (pos ell (-m)))))
    ∧ (ell < (s.natAbs : Int) ∨ L < ell →
      (conjLoopUfunc neg conj s L src c0).get (pos ell m) = c0.get (pos ell m)) := by
  have hs := Lemmas.Modes.sqrt_pos ell m h0 hm1 hm2
  have hm := Lemmas.Modes.mOf_pos ell m h0 hm1 hm2
  constructor
  · intro h1 h2
    rw [Lemmas.Modes.conjLoopUfunc_get, hs, if_pos ⟨h1, h2⟩]
    unfold Lemmas.Modes.conjF
    rw [hs, hm]
  · intro h
    rw [Lemmas.Modes.conjLoopUfunc_get, hs, if_neg (by omega)]

example : ∃ s L ell m : Int, 0 ≤ ell ∧ -ell ≤ m ∧ m ≤ ell ∧ (s.natAbs : Int) ≤ ell ∧ ell ≤ L := ⟨-2, 4, 3, -1, by decide⟩
example : ∃ s L ell m : Int, 0 ≤ ell ∧ -ell ≤ m ∧ m ≤ ell ∧ (ell < (s.natAbs : Int) ∨ L < ell) := ⟨-2, 4, 1, -1, by decide⟩

/-- Conjugation is an involution on the stored rows: for any negation and conjugation of the entries with
    `conj (conj x) = x`, `neg (neg x) = x`, `conj (neg x) = neg (conj x)`, conjugating (spin `s`) and then
    conjugating the result (spin `-s`), each followed by the constructor's zeroing, gives back every entry with
    `|s| ≤ ell ≤ ell_max` and zero below `|s|` — i.e. the original row of any Modes of spin `s`. -/
theorem conj_involution {α : Type} (neg conj : α → α) (hc : ∀ x, conj (conj x) = x) (hn : ∀ x, neg (neg x) = x)
    (hcn : ∀ x, conj (neg x) = neg (conj x)) (s L ell m : Int) (src : Nat → α) (c0 c0' : Row α) (zero : α)
    (h0 : 0 ≤ ell) (h1 : ell ≤ L) (hm1 : -ell ≤ m) (hm2 : m ≤ ell) :
    conjRow neg conj (-s) L (conjRow neg conj s L src c0 zero) c0' zero (pos ell m)
      = if ell < (s.natAbs : Int) then zero else src (pos ell m) := by
  have hs := Lemmas.Modes.sqrt_pos ell m h0 hm1 hm2
  have := Lemmas.Modes.conj_involution_row neg conj hc hn hcn s L src c0 c0' zero (pos ell m) (by rw [hs]; exact h1)
  rw [hs] at this
  exact this

example : ∃ (neg conj : Int × Int → Int × Int), (∀ x, conj (conj x) = x) ∧ (∀ x, neg (neg x) = x)
    ∧ (∀ x, conj (neg x) = neg (conj x)) :=
  ⟨fun x => (-x.1, -x.2), fun x => (x.1, -x.2), by intro x; simp, by intro x; simp, by intro x; simp⟩
example : ∃ L ell m : Int, 0 ≤ ell ∧ ell ≤ L ∧ -ell ≤ m ∧ m ≤ ell := ⟨4, 3, -1, by decide⟩

/-! ### real / imag -/

/-- `Modes.real` / `Modes.imag` raise ValueError unless the spin weight is 0, in which case they return a Modes
    with unchanged metadata and shape. -/
theorem real_imag_require_spin0 (m : Obj) (w : WellFormed m) :
    (m.md.spin ≠ 0 → methodRealImag m = .err .valueError)
    ∧ (m.md.spin = 0 → methodRealImag m = .modes m none) := by
  have h := Lemmas.Modes.method_realimag m w
  constructor
  · intro hs; rw [h, if_pos hs]
  · intro hs; rw [h, if_neg (by simpa using hs)]

example : ∃ m : Obj, WellFormed m ∧ m.md.spin ≠ 0 := ⟨⟨⟨3, 4, none⟩, [2], 25⟩, by decide⟩
example : ∃ m : Obj, WellFormed m ∧ m.md.spin = 0 := ⟨⟨⟨0, 4, none⟩, [2], 25⟩, by decide⟩

/-- `np.absolute` / `abs` / `Modes.norm` return a plain float array over the leading shape, not a Modes. -/
theorem absolute_is_norm (m : Obj) (out : Option Operand) :
    arrayUfunc { uf := .absolute, args := [.modes m], out := out } = .plain .float m.lead
    ∧ methodNorm m = .plain .float m.lead := by
  constructor
  · simp [arrayUfunc, Lemmas.Modes.selfOf_first, UFunc.passthrough, UFunc.allowed]
  · rfl

end C13
