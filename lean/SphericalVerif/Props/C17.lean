import SphericalVerif.Props.C09
/-! C17 — vectorised calls equal the loop of scalar calls.

    `Wigner.D(R)` / `Wigner.sYlm(s, R)` on an array of rotors run `for i_R in range(…)` over ONE workspace:
    iteration `i` starts on the memory iteration `i-1` left (`Model.objDloop`, `Model.objYloop`).  Each rotor's
    slice of the output is nevertheless exactly what the single-rotor call returns — on any workspace whatsoever.
    For every arithmetic `Scalar α`, every library `imsqrt` / complex power, every lawful memory. -/
namespace C17
open Model Lemmas.Object
section
variable {α : Type} [Scalar α] {μ : Type} [Mem μ α] [LawfulMem μ α]

/-- entry (ℓ, m', m) of slice `i` of `D(Rs)` = entry (ℓ, m', m) of `D(Rs[i])` computed on any workspace `st'` -/
theorem objDvec_eq_map (L : Nat) (st st' : μ) (Rs : List (Quat α)) (imsqrt : Cx α → α) (ell : Nat) (mp m : Int)
    (hl : ell ≤ L) (hmp : mp.natAbs ≤ ell) (hm : m.natAbs ≤ ell) :
    objDvec L st Rs imsqrt ell mp m = Rs.map (fun R => objD L st' R.w R.x R.y R.z imsqrt ell mp m) := by
  unfold objDvec objDloop
  rw [foldl_thread (fun (a : μ) (R : Quat α) => memAfterR L L a R)
    (fun (a : μ) (R : Quat α) => objD L a R.w R.x R.y R.z imsqrt ell mp m) Rs st [], List.nil_append]
  exact threadOut_eq_map _ _ st st' Rs
    (fun R _ a b => C09.objD_pure L a b R.w R.x R.y R.z imsqrt ell mp m hl hmp hm)

/-- the same for `sYlm(s, Rs)` (object with `|s| ≤ mp_max = P ≤ ell_max = L`) -/
theorem objYvec_eq_map (L P : Nat) (hPL : P ≤ L) (st st' : μ) (Rs : List (Quat α)) (imsqrt : Cx α → α)
    (cpow : Cx α → Int → Cx α) (s : Int) (ell : Nat) (m : Int)
    (hs : s.natAbs ≤ P) (hl : ell ≤ L) (hm : m.natAbs ≤ ell) :
    objYvec L P st Rs imsqrt cpow s ell m
      = Rs.map (fun R => objY L P st' R.w R.x R.y R.z imsqrt (cpow R.phases.2.2 (s.natAbs : Int)) s ell m) := by
  unfold objYvec objYloop
  rw [foldl_thread (fun (a : μ) (R : Quat α) => memAfterR L P a R)
    (fun (a : μ) (R : Quat α) =>
      objY L P a R.w R.x R.y R.z imsqrt (cpow R.phases.2.2 (s.natAbs : Int)) s ell m) Rs st [], List.nil_append]
  exact threadOut_eq_map _ _ st st' Rs
    (fun R _ a b => C09.objY_pure L P hPL a b R.w R.x R.y R.z imsqrt _ s ell m hs hl hm)

/-- pointwise form: slice `i` -/
theorem objDvec_getElem (L : Nat) (st st' : μ) (Rs : List (Quat α)) (imsqrt : Cx α → α) (ell : Nat) (mp m : Int)
    (hl : ell ≤ L) (hmp : mp.natAbs ≤ ell) (hm : m.natAbs ≤ ell) (i : Nat) (hi : i < Rs.length) :
    (objDvec L st Rs imsqrt ell mp m)[i]?
      = some (objD L st' (Rs[i]).w (Rs[i]).x (Rs[i]).y (Rs[i]).z imsqrt ell mp m) := by
  rw [objDvec_eq_map L st st' Rs imsqrt ell mp m hl hmp hm]
  simp [hi]

omit [LawfulMem μ α] in
/-- the loop does thread the memory: the workspace after the vectorised call is the one left by the last rotor's
    H recursion started on the memory of the one before (so the statement above is not vacuous) -/
theorem objDloop_mem (L : Nat) (imsqrt : Cx α → α) (ell : Nat) (mp m : Int) (Rs : List (Quat α)) (R : Quat α)
    (st : μ) :
    (objDloop L imsqrt ell mp m (Rs ++ [R]) st).1 = memAfterR L L (objDloop L imsqrt ell mp m Rs st).1 R := by
  unfold objDloop
  rw [List.foldl_append]
  rfl

/-- `_evaluate_Horner` zeroes its output cell first: the result does not depend on what a caller-supplied `out`
    held (`prev`) -/
theorem evaluateHornerK_out_indep {ν : Type} [Mem ν α] (st : ν) (f : Array (Cx α)) (za zgpow : Cx α) (s : Int)
    (ellMax : Nat) (prev₁ prev₂ : Cx α) :
    evaluateHornerK (α := α) st f za zgpow s ellMax prev₁ = evaluateHornerK (α := α) st f za zgpow s ellMax prev₂ :=
  rfl

/-- … whereas the un-zeroed accumulation `evaluateHorner` is the kernel minus its first statement: the shipped
    kernel is that accumulation started from 0 -/
theorem evaluateHornerK_eq {ν : Type} [Mem ν α] (st : ν) (f : Array (Cx α)) (za zgpow : Cx α) (s : Int)
    (ellMax : Nat) (prev : Cx α) :
    evaluateHornerK (α := α) st f za zgpow s ellMax prev
      = evaluateHorner (α := α) st f za zgpow s ellMax ⟨zero, zero⟩ := rfl

end

example (st st' : HMem Float) (R₁ R₂ R₃ : Quat Float) (imsqrt : Cx Float → Float) :
    objDvec 4 st [R₁, R₂, R₃] imsqrt 3 (-2) 3
      = [objD 4 st' R₁.w R₁.x R₁.y R₁.z imsqrt 3 (-2) 3, objD 4 st' R₂.w R₂.x R₂.y R₂.z imsqrt 3 (-2) 3,
         objD 4 st' R₃.w R₃.x R₃.y R₃.z imsqrt 3 (-2) 3] :=
  objDvec_eq_map 4 st st' [R₁, R₂, R₃] imsqrt 3 (-2) 3 (by decide) (by decide) (by decide)

example (st st' : HMem Float) (R₁ R₂ : Quat Float) (imsqrt : Cx Float → Float) (cpow : Cx Float → Int → Cx Float) :
    objYvec 6 2 st [R₁, R₂] imsqrt cpow (-2) 5 (-4)
      = [objY 6 2 st' R₁.w R₁.x R₁.y R₁.z imsqrt (cpow R₁.phases.2.2 2) (-2) 5 (-4),
         objY 6 2 st' R₂.w R₂.x R₂.y R₂.z imsqrt (cpow R₂.phases.2.2 2) (-2) 5 (-4)] :=
  objYvec_eq_map 6 2 (by decide) st st' [R₁, R₂] imsqrt cpow (-2) 5 (-4) (by decide) (by decide) (by decide)

end C17
