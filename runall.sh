#!/bin/sh
# run every check (quick by default) and summarise
tier=${1:-quick}
for i in 01 02 03 04 05 06 07 08 09 10 11 12 13 14 15 16 17 18 19 20; do
  ./check C$i --tier $tier > /tmp/runall_C$i.log 2>&1; rc=$?
  echo "C$i rc=$rc $(grep -c '^VIOLATION' /tmp/runall_C$i.log) viol; $(tail -1 /tmp/runall_C$i.log | cut -c1-150)"
done
