"""C07 — D is a unitary representation of the rotation group on every ell block.

Obligations: Props/C07.lean + Routes (D_conj_symm: the conjugation symmetry is a theorem of the assembly).
Gap monitor: homomorphism, inverse = dagger, D(-R) = D(R), D(1) = identity, conjugation symmetry on full blocks
(every entry) for stratified pairs of rotors, ell up to 48 (quick) / 128 (thorough)."""
import math

import numpy as np

from .. import corr
from . import common

EPS = 2.0 ** -52
# bounds in units of (ell+1) eps on every entry; calibrated >= 8x the worst seen on the pinned tree
K = {"homomorphism": 40.0, "inverse-dagger": 32.0, "unitary": 32.0, "negation": 16.0, "identity": 8.0, "conj-symmetry": 8.0}


def qmul(a, b):
    w1, x1, y1, z1 = a
    w2, x2, y2, z2 = b
    return (w1 * w2 - x1 * x2 - y1 * y2 - z1 * z2, w1 * x2 + x1 * w2 + y1 * z2 - z1 * y2,
            w1 * y2 - x1 * z2 + y1 * w2 + z1 * x2, w1 * z2 + x1 * y2 - y1 * x2 + z1 * w2)


def blocks(w, D):
    out = []
    for ell in range(w.ell_max + 1):
        i1 = w.Dindex(ell, -ell, -ell)
        out.append(D[i1:i1 + (2 * ell + 1) ** 2].reshape(2 * ell + 1, 2 * ell + 1))
    return out


def check(run):
    import spherical
    import quaternionic
    quick = run.tier == "quick"
    run.regenerate()
    run.lean_props(common.modules_for("C07"))
    rng = run.rng
    L = 48 if quick else 128
    w = spherical.Wigner(L)
    rot = [r for r in corr.rotor_strata(rng, 6 if quick else 14) if "subnormal" not in r[0] and "1e-160" not in r[0]]
    Ds = {}
    worst = {k: 0.0 for k in K}

    def Dof(R):
        if R not in Ds:
            Ds[R] = blocks(w, w.D(quaternionic.array(R)))
        return Ds[R]

    def report(law, ell, err, inp, stratum):
        rel = err / ((ell + 1) * EPS)
        worst[law] = max(worst[law], rel)
        if not (rel <= K[law]):   # NaN fails too
            run.violation(f"law-fails:{law}", "Wigner.D", {**inp, "ell": ell, "law": law}, f"<= {K[law]} (ell+1) eps", f"{rel} (ell+1) eps", detail={"stratum": stratum})
            return True
        return False

    ident = (1.0, 0.0, 0.0, 0.0)
    for ell, B in enumerate(Dof(ident)):
        run.gap_case("identity", ell, "identity")
        if report("identity", ell, float(np.max(np.abs(B - np.eye(2 * ell + 1)))), {"R": list(ident)}, "identity"):
            break
    for lab, R in rot:
        B = Dof(R)
        Rn = tuple(-x for x in R)
        Bn = Dof(Rn)
        Ri = (R[0], -R[1], -R[2], -R[3])
        Bi = Dof(Ri)
        for ell in range(L + 1):
            n = 2 * ell + 1
            run.gap_case("single-rotor-laws", (R, ell), lab, {"R": list(R), "ell": ell} if ell == 3 else None)
            inp = {"R": list(R)}
            if report("negation", ell, float(np.max(np.abs(B[ell] - Bn[ell]))), inp, lab):
                break
            if report("inverse-dagger", ell, float(np.max(np.abs(Bi[ell] - B[ell].conj().T))), inp, lab):
                break
            if report("unitary", ell, float(np.max(np.abs(B[ell] @ B[ell].conj().T - np.eye(n)))), inp, lab):
                break
            sgn = (-1.0) ** (np.add.outer(np.arange(-ell, ell + 1), np.arange(-ell, ell + 1)) % 2)
            if report("conj-symmetry", ell, float(np.max(np.abs(B[ell] - sgn * np.conj(B[ell][::-1, ::-1])))), inp, lab):
                break
    # the laws must not depend on how calls are interleaved or on which workspace served them
    ws = w.new_workspace()
    for (la, Ra), (lb, Rb) in zip(rot[:-1:2], rot[1::2]):
        w.D(quaternionic.array(Ra))
        Bb = blocks(w, w.D(quaternionic.array(Rb), workspace=ws))
        Bi = blocks(w, w.D(quaternionic.array((Rb[0], -Rb[1], -Rb[2], -Rb[3]))))
        for ell in range(0, L + 1, max(1, L // 12)):
            run.gap_case("mixed-workspace-inverse", (Ra, Rb, ell), f"{la}->{lb}" if ell == 0 else None)
            if report("inverse-dagger", ell, float(np.max(np.abs(Bi[ell] - Bb[ell].conj().T))), {"R": list(Rb), "previous_default_call": list(Ra), "workspace": "explicit then default"}, f"{la}->{lb}"):
                break
    pairs = [(a, b) for a in rot for b in rot]
    rng.shuffle(pairs)
    pairs = pairs[:40 if quick else 400]
    # systematically: every special rotor on either side of a generic one (a rotor snapped to the pole, or any other
    # per-rotor error, shows up in the product law with an unrelated partner)
    generic = [r for r in rot if r[0] == "generic"][:2]
    extra_np = [("near-pole-1e-9", (1.0, 0.6e-9, 0.8e-9, 0.0)), ("near-pole-1e-12", (math.cos(0.4), 1e-12, 0.0, math.sin(0.4))),
                ("near-antipole-1e-9", (1e-9, 0.6, 0.8, 0.0)), ("near-pole-1e-6", (1.0, 0.0, 1e-6, 0.0)), ("near-pole-1e-3", (1.0, 1e-3, 0.0, 0.0))]
    extra_np = [(l, tuple(x / math.sqrt(sum(y * y for y in R)) for x in R)) for l, R in extra_np]
    for sp in [r for r in rot if r[0] != "generic"] + extra_np:
        for g in generic[:1 if quick else 2]:
            pairs.append((sp, g))
            pairs.append((g, sp))
    # mutually inverse, commuting (same axis) pairs always included
    pairs += [(r, (r[0], (r[1][0], -r[1][1], -r[1][2], -r[1][3]))) for r in rot[:6]]
    pairs += [(("z-rot", (math.cos(0.3), 0, 0, math.sin(0.3))), ("z-rot2", (math.cos(1.1), 0, 0, math.sin(1.1))))]
    for (la, Ra), (lb, Rb) in pairs:
        R12 = qmul(Ra, Rb)
        A, B, C = Dof(Ra), Dof(Rb), blocks(w, w.D(quaternionic.array(R12)))
        for ell in range(L + 1):
            run.gap_case("homomorphism", (Ra, Rb, ell), f"{la}*{lb}" if ell == 0 else None)
            if report("homomorphism", ell, float(np.max(np.abs(A[ell] @ B[ell] - C[ell]))), {"R1": list(Ra), "R2": list(Rb)}, f"{la}*{lb}"):
                break
    # the largest blocks the property names (ell up to 128; thorough: 200) on a few rotors: every law, every entry
    LB = 128 if quick else 200
    wB = spherical.Wigner(LB)
    bigR = [("identity", ident), ("generic", generic[0][1] if generic else (0.5, 0.5, 0.5, 0.5)), ("near-pole-1e-9", extra_np[0][1]), ("rational2", (0.6, 0.0, 0.8, 0.0))]
    bigells = sorted(set([0, 1, 2, 49, 83, 84, 85, 86, 100, 127, LB] + [rng.randint(49, LB) for _ in range(4)]) & set(range(LB + 1))) if quick else list(range(0, LB + 1))
    BD = {lab: blocks(wB, wB.D(quaternionic.array(R))) for lab, R in bigR}
    for lab, R in bigR:
        Bi = blocks(wB, wB.D(quaternionic.array((R[0], -R[1], -R[2], -R[3]))))
        Bn = blocks(wB, wB.D(quaternionic.array(tuple(-x for x in R))))
        for ell in bigells:
            n = 2 * ell + 1
            B = BD[lab][ell]
            run.gap_case("large-ell-laws", (lab, ell), f"large|{lab}")
            inp = {"R": list(R), "ell_max": LB}
            sgn = (-1.0) ** (np.add.outer(np.arange(-ell, ell + 1), np.arange(-ell, ell + 1)) % 2)
            if (lab == "identity" and report("identity", ell, float(np.max(np.abs(B - np.eye(n)))), inp, lab)) or \
               report("unitary", ell, float(np.max(np.abs(B @ B.conj().T - np.eye(n)))), inp, lab) or \
               report("inverse-dagger", ell, float(np.max(np.abs(Bi[ell] - B.conj().T))), inp, lab) or \
               report("negation", ell, float(np.max(np.abs(Bn[ell] - B))), inp, lab) or \
               report("conj-symmetry", ell, float(np.max(np.abs(B - sgn * np.conj(B[::-1, ::-1])))), inp, lab):
                break
    for (la, Ra), (lb, Rb) in [(bigR[1], bigR[3]), (bigR[2], bigR[1])]:
        C = blocks(wB, wB.D(quaternionic.array(qmul(Ra, Rb))))
        for ell in bigells:
            run.gap_case("large-ell-laws", (la, lb, ell), f"large|{la}*{lb}")
            if report("homomorphism", ell, float(np.max(np.abs(BD[la][ell] @ BD[lb][ell] - C[ell]))), {"R1": list(Ra), "R2": list(Rb), "ell_max": LB}, f"{la}*{lb}"):
                break
    # calculators whose range starts at ell_min > 0, and the module-level wrapper: every law on every stored block
    smallR = [("generic", generic[0][1] if generic else (0.5, 0.5, 0.5, 0.5)), ("rational2", (0.6, 0.0, 0.8, 0.0)), ("near-pole-1e-9", extra_np[0][1])]
    for emin in ((1, 2, 3, 5) if quick else range(1, 9)):
        wm = spherical.Wigner(8, ell_min=emin)

        def blk(R, wm=wm, emin=emin):
            D = wm.D(quaternionic.array(R))
            return {ell: D[wm.Dindex(ell, -ell, -ell):wm.Dindex(ell, -ell, -ell) + (2 * ell + 1) ** 2].reshape(2 * ell + 1, 2 * ell + 1) for ell in range(emin, 9)}
        Bs = {lab: blk(R) for lab, R in smallR}
        I0 = blk(ident)
        Dw = spherical.wigner_D(quaternionic.array(smallR[0][1]), emin, 8)
        if not np.array_equal(Dw, wm.D(quaternionic.array(smallR[0][1]))):
            run.violation("law-fails:wrapper", "wigner_D", {"ell_min": emin, "ell_max": 8, "R": list(smallR[0][1])}, "Wigner(8, ell_min).D", "differs")
        for ell in range(emin, 9):
            n = 2 * ell + 1
            run.gap_case("ell_min-calculators", (emin, ell), f"ell_min={emin}")
            inp0 = {"calculator": {"ell_min": emin, "ell_max": 8}}
            if report("identity", ell, float(np.max(np.abs(I0[ell] - np.eye(n)))), {**inp0, "R": list(ident)}, "identity"):
                break
            bad = False
            for lab, R in smallR:
                B = Bs[lab][ell]
                Bi = blk((R[0], -R[1], -R[2], -R[3]))[ell]
                if report("unitary", ell, float(np.max(np.abs(B @ B.conj().T - np.eye(n)))), {**inp0, "R": list(R)}, lab) or \
                   report("inverse-dagger", ell, float(np.max(np.abs(Bi - B.conj().T))), {**inp0, "R": list(R)}, lab):
                    bad = True
                    break
            if bad:
                break
            (la, Ra), (lb, Rb) = smallR[0], smallR[1]
            C = blk(qmul(Ra, Rb))[ell]
            if report("homomorphism", ell, float(np.max(np.abs(Bs[la][ell] @ Bs[lb][ell] - C))), {**inp0, "R1": list(Ra), "R2": list(Rb)}, f"{la}*{lb}"):
                break
    run.notes["worst_over_(ell+1)eps"] = {k: round(v, 4) for k, v in worst.items()}
    run.assumptions += ["homomorphism, unitarity, inverse, negation, identity and conjugation symmetry are proved in exact arithmetic for every ell (HomAll.D_*_all); the (ell+1) eps deviation bounds are swept, not proved",
                        "bounds are fixed multiples of (ell+1) eps, >= 8x the worst deviation measured on the pinned tree"]


def replay(body):
    print(body["input"], body["expected"], body["got"])
    return 0
