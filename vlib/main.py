"""Entry point:  python -m vlib.main Cxx --tier quick|thorough [--replay file]"""
import argparse
import importlib
import json
import os
import sys
import traceback


def main():
    ap = argparse.ArgumentParser()
    ap.add_argument("pid")
    ap.add_argument("--tier", default=os.environ.get("VERIF_TIER", "quick"), choices=["quick", "thorough"])
    ap.add_argument("--replay")
    ap.add_argument("--seed", type=int, default=int(os.environ.get("VERIF_SEED", "0") or 0))
    a = ap.parse_args()
    from . import runner
    try:
        mod = importlib.import_module(f"vlib.props.{a.pid}")
    except ModuleNotFoundError:
        print(f"no check for {a.pid}", file=sys.stderr)
        sys.exit(2)
    if a.replay:
        body = json.load(open(a.replay, encoding="utf-8"))
        if not hasattr(mod, "replay"):
            print("replay not supported for this property; input was:", json.dumps(body.get("input")))
            sys.exit(2)
        sys.exit(mod.replay(body))
    run = runner.Run(a.pid, a.tier, a.seed)
    try:
        mod.check(run)
    except Exception:
        traceback.print_exc()
        print(f"[{a.pid}] infrastructure error", file=sys.stderr)
        sys.exit(2)
    sys.exit(run.finish())


if __name__ == "__main__":
    main()
