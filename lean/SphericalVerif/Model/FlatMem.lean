import SphericalVerif.Model.Basic
/-! Flat memory for the *generated* kernels (`Gen/HKern.lean`, produced by vlib/py2lean_kern.py from the numba
    kernels' Python text).  An array is named by a `Nat` id (the kernel receives the id where the Python function
    receives the array object, so `H = Hwedge` is an ordinary assignment of an id), a cell by an `Int` index exactly as
    the Python text computes it.  Arrays that a kernel only reads and never aliases (the coefficient tables) are passed
    as functions `Int → α` instead.

    Hand-written; core Lean + Std only (the compiled driver imports it). -/

class FMem (φ : Type) (α : Type) where
  get : φ → Nat → Int → α
  set : φ → Nat → Int → α → φ

/-- `set` changes exactly the addressed cell -/
class LawfulFMem (φ : Type) (α : Type) [FMem φ α] : Prop where
  get_set : ∀ (st : φ) (a a' : Nat) (i i' : Int) (v : α),
    FMem.get (FMem.set st a i v) a' i' = if a' = a ∧ i' = i then v else FMem.get st a' i'

/-- reference flat memory: plain functions -/
instance {α : Type} : FMem (Nat → Int → α) α where
  get st a i := st a i
  set st a i v := fun a' i' => if a' = a ∧ i' = i then v else st a' i'

instance {α : Type} : LawfulFMem (Nat → Int → α) α where
  get_set _ _ _ _ _ _ := rfl

/-- executable flat memory: hash map with a default for never-written cells -/
structure HFMem (α : Type) where
  map : Std.HashMap (Nat × Int) α
  dflt : α

instance {α : Type} : FMem (HFMem α) α where
  get st a i := st.map.getD (a, i) st.dflt
  set st a i v := { st with map := st.map.insert (a, i) v }

instance {α : Type} : LawfulFMem (HFMem α) α where
  get_set st a a' i i' v := by
    show (st.map.insert (a, i) v).getD (a', i') st.dflt = if a' = a ∧ i' = i then v else st.map.getD (a', i') st.dflt
    rw [Std.HashMap.getD_insert]
    by_cases h : a' = a ∧ i' = i
    · obtain ⟨h1, h2⟩ := h; subst h1; subst h2; simp
    · have : ((a, i) == (a', i')) = false := by
        simp only [beq_eq_false_iff_ne, ne_eq, Prod.mk.injEq]
        intro ⟨e1, e2⟩; exact h ⟨e1.symm, e2.symm⟩
      simp [this, h]

section
variable {α : Type} {φ : Type} [FMem φ α]
def frd (st : φ) (a : Nat) (i : Int) : α := FMem.get st a i
def fwr (st : φ) (a : Nat) (i : Int) (v : α) : φ := FMem.set st a i v
/-- cell `i` of a complex array: the doubles `2i` (real part) and `2i+1` (imaginary part) -/
def frdC (st : φ) (a : Nat) (i : Int) : Cx α := ⟨frd st a (2 * i), frd st a (2 * i + 1)⟩
def fwrC (st : φ) (a : Nat) (i : Int) (z : Cx α) : φ := fwr (fwr st a (2 * i) z.re) a (2 * i + 1) z.im
end
