import SphericalVerif.Gen.Indexing
import SphericalVerif.Lemmas.Ranges
import Mathlib.Tactic.LinearCombination

/-! `Ysize`, `Yindex`, `nm_index`, `nabsm_index`, `nmpm_index`, `ε` against the documented orderings. -/
namespace Lemmas
open Gen Spec

/-! ### small arithmetic helpers -/

/-- `a*b` is even when `a+b` is odd. -/
theorem half_mul_of_odd_sum (a b : Int) (h : (a + b) % 2 = 1) : 2 * (a * b / 2) = a * b := by
  have hm : (a * b) % 2 = 0 := by
    rcases Int.emod_two_eq_zero_or_one a with ha | ha
    · rw [Int.mul_emod, ha]; simp
    · have hb : b % 2 = 0 := by omega
      rw [Int.mul_emod, hb]; simp
  omega

theorem half_mul_succ (n : Int) : 2 * (n * (n + 1) / 2) = n * (n + 1) :=
  half_mul_of_odd_sum n (n + 1) (by omega)

/-- `4n³ - n` is a multiple of 3. -/
theorem three_dvd_cube (n : Int) : (4 * n ^ 3 - n) % 3 = 0 := by
  obtain ⟨q, r, hr0, hr3, rfl⟩ : ∃ q r : Int, 0 ≤ r ∧ r < 3 ∧ n = 3 * q + r :=
    ⟨n / 3, n % 3, by omega, by omega, by omega⟩
  have : r = 0 ∨ r = 1 ∨ r = 2 := by omega
  rcases this with rfl | rfl | rfl <;> ring_nf <;> omega

/-! ### Y -/

theorem length_yBlock (k : Int) (hk : 0 ≤ k) :
    (((irange (-k) k).map fun m => (k, m)).length : Int) = 2 * k + 1 := by
  rw [List.length_map, length_irange_int _ _ (by omega)]; ring

theorem ysize_eq_length (ell_min ell_max : Int) (h0 : 0 ≤ ell_min) (h1 : ell_min ≤ ell_max + 1) :
    Ysize ell_min ell_max = ((yRange ell_min ell_max).length : Int) := by
  unfold yRange
  rw [flatMap_irange_length _ (fun k => k ^ 2 - ell_min ^ 2) ell_min ell_max h1 (by simp)
    (by intro k hk _; rw [length_yBlock k (by omega)]; ring)]
  unfold Ysize; ring

theorem yindex_get (ell_min ell_max ell m : Int) (h0 : 0 ≤ ell_min) (h1 : ell_min ≤ ell)
    (h2 : ell ≤ ell_max) (hm1 : -ell ≤ m) (hm2 : m ≤ ell) :
    0 ≤ Yindex ell m ell_min ∧ Yindex ell m ell_min < Ysize ell_min ell_max ∧
      (yRange ell_min ell_max)[(Yindex ell m ell_min).toNat]? = some (ell, m) := by
  have key := flatMap_irange_get (fun ell => (irange (-ell) ell).map fun m => (ell, m))
    (fun k => k ^ 2 - ell_min ^ 2) ell_min ell_max (by simp)
    (by intro k hk _; rw [length_yBlock k (by omega)]; ring)
    ell h1 h2 (m + ell) (by omega) (by rw [length_yBlock ell (by omega)]; omega)
  have hidx : Yindex ell m ell_min = (ell ^ 2 - ell_min ^ 2) + (m + ell) := by
    unfold Yindex
    split
    · ring
    · have : ell = ell_min := by omega
      subst this; ring
  have hsz : Ysize ell_min ell_max = (ell_max + 1) ^ 2 - ell_min ^ 2 := by
    unfold Ysize; ring
  rw [hidx, hsz]
  obtain ⟨a, b, c⟩ := key
  refine ⟨by omega, b, ?_⟩
  unfold yRange
  rw [c]
  have := getElem?_map_irange (fun m => (ell, m)) (-ell) ell m hm1 hm2
  rw [show m + ell = m - -ell by ring]
  exact this

/-! ### nm_index -/

theorem nm_index_eq (n m : Int) (h : 0 ≤ n) : nm_index n m = Yindex n m 0 := by
  unfold nm_index Yindex
  split
  · ring
  · have : n = 0 := by omega
    subst this; ring

theorem nm_index_get (n_max n m : Int) (h0 : 0 ≤ n) (h1 : n ≤ n_max) (hm1 : -n ≤ m) (hm2 : m ≤ n) :
    0 ≤ nm_index n m ∧ nm_index n m < Ysize 0 n_max ∧
      (nmRange n_max)[(nm_index n m).toNat]? = some (n, m) := by
  rw [nm_index_eq n m h0]
  exact yindex_get 0 n_max n m (le_refl 0) h0 h1 hm1 hm2

/-! ### nabsm_index -/

theorem length_nabsmBlock (k : Int) (hk : 0 ≤ k) :
    (((irange 0 k).map fun m => (k, m)).length : Int) = k + 1 := by
  rw [List.length_map, length_irange_int _ _ (by omega)]; ring

theorem nabsm_step (k : Int) : (k + 1) * (k + 1 + 1) / 2 = k * (k + 1) / 2 + (k + 1) := by
  have e1 := half_mul_succ k
  have e2 := half_mul_succ (k + 1)
  have : 2 * ((k + 1) * (k + 1 + 1) / 2) = 2 * (k * (k + 1) / 2 + (k + 1)) := by
    linear_combination e2 - e1
  omega

theorem nabsm_length (n_max : Int) (h : -1 ≤ n_max) :
    ((nabsmRange n_max).length : Int) = (n_max + 1) * (n_max + 2) / 2 := by
  unfold nabsmRange
  rw [flatMap_irange_length _ (fun k => k * (k + 1) / 2) 0 n_max (by omega) (by simp)
    (by intro k hk _; rw [length_nabsmBlock k hk]; exact nabsm_step k)]
  rw [show n_max + 1 + 1 = n_max + 2 by ring]

theorem nabsm_index_get (n_max n m : Int) (h0 : 0 ≤ n) (h1 : n ≤ n_max) (hm1 : 0 ≤ m) (hm2 : m ≤ n) :
    0 ≤ nabsm_index n m ∧ nabsm_index n m < ((nabsmRange n_max).length : Int) ∧
      (nabsmRange n_max)[(nabsm_index n m).toNat]? = some (n, m) := by
  have key := flatMap_irange_get (fun n => (irange 0 n).map fun m => (n, m))
    (fun k => k * (k + 1) / 2) 0 n_max (by simp)
    (by intro k hk _; rw [length_nabsmBlock k hk]; exact nabsm_step k)
    n h0 h1 m hm1 (by rw [length_nabsmBlock n h0]; omega)
  have hlen := flatMap_irange_length (fun n => (irange 0 n).map fun m => (n, m))
    (fun k => k * (k + 1) / 2) 0 n_max (by omega) (by simp)
    (by intro k hk _; rw [length_nabsmBlock k hk]; exact nabsm_step k)
  have hidx : nabsm_index n m = n * (n + 1) / 2 + m := by
    unfold nabsm_index; ring
  obtain ⟨a, b, c⟩ := key
  unfold nabsmRange
  rw [hidx, hlen]
  refine ⟨by omega, b, ?_⟩
  rw [c]
  have := getElem?_map_irange (fun m => (n, m)) 0 n m hm1 hm2
  rw [show m - 0 = m by ring] at this
  exact this

/-! ### nmpm_index -/

theorem length_nmpmInner (n mp : Int) (hn : 0 ≤ n) :
    (((irange (-n) n).map fun m => (n, mp, m)).length : Int) = 2 * n + 1 := by
  rw [List.length_map, length_irange_int _ _ (by omega)]; ring

theorem length_nmpmBlock (n : Int) (hn : 0 ≤ n) :
    (((irange (-n) n).flatMap fun mp => (irange (-n) n).map fun m => (n, mp, m)).length : Int)
      = (2 * n + 1) * (2 * n + 1) := by
  rw [flatMap_irange_length _ (fun mp => (mp + n) * (2 * n + 1)) (-n) n (by omega) (by simp)
    (by intro k _ _; rw [length_nmpmInner n k hn]; ring)]
  ring

theorem nmpm_step (k : Int) :
    (4 * (k + 1) ^ 3 - (k + 1)) / 3 = (4 * k ^ 3 - k) / 3 + (2 * k + 1) * (2 * k + 1) := by
  have e1 := three_dvd_cube k
  have e2 := three_dvd_cube (k + 1)
  have : 4 * (k + 1) ^ 3 - (k + 1) = (4 * k ^ 3 - k) + 3 * ((2 * k + 1) * (2 * k + 1)) := by ring
  omega

theorem nmpm_index_eq (n mp m : Int) :
    nmpm_index n mp m = (4 * n ^ 3 - n) / 3 + ((mp + n) * (2 * n + 1) + (m + n)) := by
  unfold nmpm_index
  have e1 := three_dvd_cube n
  have : (((4 * n + 6) * n + 6 * mp + 5) * n + 3 * (m + mp))
      = (4 * n ^ 3 - n) + 3 * ((mp + n) * (2 * n + 1) + (m + n)) := by ring
  rw [this]
  omega

theorem nmpm_length (n_max : Int) (h : -1 ≤ n_max) :
    ((nmpmRange n_max).length : Int) = (4 * (n_max + 1) ^ 3 - (n_max + 1)) / 3 := by
  unfold nmpmRange
  rw [flatMap_irange_length _ (fun k => (4 * k ^ 3 - k) / 3) 0 n_max (by omega) (by simp)
    (by intro k hk _; rw [length_nmpmBlock k hk]; exact nmpm_step k)]

theorem nmpm_index_get (n_max n mp m : Int) (h0 : 0 ≤ n) (h1 : n ≤ n_max)
    (hp1 : -n ≤ mp) (hp2 : mp ≤ n) (hm1 : -n ≤ m) (hm2 : m ≤ n) :
    0 ≤ nmpm_index n mp m ∧ nmpm_index n mp m < ((nmpmRange n_max).length : Int) ∧
      (nmpmRange n_max)[(nmpm_index n mp m).toNat]? = some (n, mp, m) := by
  -- inner level
  have inner := flatMap_irange_get (fun mp => (irange (-n) n).map fun m => (n, mp, m))
    (fun mp => (mp + n) * (2 * n + 1)) (-n) n (by simp)
    (by intro k _ _; rw [length_nmpmInner n k h0]; ring)
    mp hp1 hp2 (m + n) (by omega) (by rw [length_nmpmInner n mp h0]; omega)
  obtain ⟨ia, ib, ic⟩ := inner
  have hj : (mp + n) * (2 * n + 1) + (m + n) < (2 * n + 1) * (2 * n + 1) := by
    have : (n + 1 + n) * (2 * n + 1) = (2 * n + 1) * (2 * n + 1) := by ring
    linarith
  have outer := flatMap_irange_get
    (fun n => (irange (-n) n).flatMap fun mp => (irange (-n) n).map fun m => (n, mp, m))
    (fun k => (4 * k ^ 3 - k) / 3) 0 n_max (by simp)
    (by intro k hk _; rw [length_nmpmBlock k hk]; exact nmpm_step k)
    n h0 h1 ((mp + n) * (2 * n + 1) + (m + n)) (by omega)
    (by rw [length_nmpmBlock n h0]; exact hj)
  obtain ⟨oa, ob, oc⟩ := outer
  rw [nmpm_index_eq, nmpm_length n_max (by omega)]
  refine ⟨by omega, ob, ?_⟩
  unfold nmpmRange
  rw [oc, ic]
  have := getElem?_map_irange (fun m => (n, mp, m)) (-n) n m hm1 hm2
  rw [show m + n = m - -n by ring]
  exact this

/-! ### ε -/

theorem neg_one_pow_nat (n : Nat) : ((-1 : Int)) ^ n = if n % 2 = 1 then -1 else 1 := by
  induction n with
  | zero => simp
  | succ n ih =>
    rw [pow_succ, ih]
    by_cases h : n % 2 = 1
    · have : ¬ (n + 1) % 2 = 1 := by omega
      simp [h, this]
    · have : (n + 1) % 2 = 1 := by omega
      simp [h, this]

theorem eps_spec (m : Int) : ε m = if m ≤ 0 then 1 else (-1) ^ m.toNat := by
  unfold ε
  by_cases h : m ≤ 0
  · simp [h]
  · simp only [h, if_false]
    rw [neg_one_pow_nat]
    by_cases h2 : m % 2 = 0
    · have : ¬ m.toNat % 2 = 1 := by omega
      simp [h2, this]
    · have : m.toNat % 2 = 1 := by omega
      simp [h2, this]

theorem eps_mul_neg (k : Int) : ε k * ε (-k) = (-1) ^ k.natAbs := by
  rw [eps_spec, eps_spec]
  rcases lt_trichotomy k 0 with h | h | h
  · have h1 : k ≤ 0 := by omega
    have h2 : ¬ (-k ≤ 0) := by omega
    have h3 : (-k).toNat = k.natAbs := by omega
    simp [h1, h2, h3]
  · subst h; simp
  · have h1 : ¬ k ≤ 0 := by omega
    have h2 : (-k ≤ 0) := by omega
    have h3 : k.toNat = k.natAbs := by omega
    simp [h1, h2, h3]

end Lemmas
