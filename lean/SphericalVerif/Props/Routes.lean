import SphericalVerif.Lemmas.Horner
/-! Properties C03 / C04 / C02 / C07 / C13, exact-arithmetic part: the different routes through
    spherical/wigner.py agree, at `α := ℝ`, for *every* content of the H workspace (no assumption on
    the H values: these are identities of the assembly code, not of Wigner's functions).

    Vocabulary (all from `Lemmas/Horner.lean`):
    * `toC w = ⟨w.re, w.im⟩ : ℂ`;
    * `eps m` is the model's ε (`= (-1)^m` for `m ≥ 0`, `= 1` for `m ≤ 0`: `eps_eq_ite`);
    * `pw z m = if m < 0 then (conj z)^(-m).toNat else z^m.toNat` (`= z^m` as an integer power when
      `|z| = 1`: `Horner.pw_eq_zpow`);
    * `nrm ℓ = √((2ℓ+1)/(4π))`. -/
noncomputable section
namespace Routes
open Model Horner
open scoped ComplexConjugate

variable {μ : Type} [Mem μ ℝ] (st : μ)

theorem eps_eq_ite (m : ℤ) : eps m = if 0 ≤ m then (-1) ^ m.natAbs else 1 := by
  split
  · exact eps_of_nonneg ‹_›
  · exact eps_of_nonpos (by omega)

/-! ## 1. `_evaluate_Horner` (C03 / C04) -/

/-- `_evaluate_Horner` returns a closed-form double sum: no loop, no Horner nesting, no hypothesis.
    Positive-m terms carry the alternation `ε_m = (-1)^m` (the running `e`), negative-m terms none;
    negative powers of `zₐ` are powers of `conj zₐ`.  Note that the incoming cell content `init` is
    multiplied by the final coefficient as well. -/
theorem evaluateHorner_eq_sum (f : Array (Cx ℝ)) (za zgpowE : Cx ℝ) (s : ℤ) (ellMax : ℕ)
    (init : Cx ℝ) :
    toC (evaluateHorner st f za zgpowE s ellMax init) =
      (toC init + ∑ ell ∈ Finset.Icc s.natAbs ellMax,
          (∑ m ∈ Finset.Icc (-(ell : ℤ)) ell,
            toC (fAt f ell m) * ((eps m : ℤ) : ℂ) * ((Hat (α := ℝ) st ell m (-s) : ℝ) : ℂ)
              * pw (toC za) m) * ((nrm ell : ℝ) : ℂ))
        * ((((-1) ^ s.natAbs * eps s : ℤ) : ℂ) * toC zgpowE) :=
  toC_evaluateHorner st f za zgpowE s ellMax init

/-- The Horner route returns `Σ_{ℓ,m} f_{ℓm} · sYlm_{ℓm}` (plus the rescaled incoming content).
    Hypotheses: the array read by `_fill_sYlm` holds the powers of `zₐ`; the two library powers are
    `conj(zᵧ)^s` and `zᵧ^|s|`; `|zᵧ| = 1`.  (`|zₐ| = 1` is *not* needed: both routes use `conj zₐ`
    for negative m.) -/
theorem evaluate_eq_sum_sYlm_init (f : Array (Cx ℝ)) (za zg zgpowE zgpowY : Cx ℝ)
    (zaArr : Array (Cx ℝ)) (s : ℤ) (ellMax : ℕ) (init : Cx ℝ)
    (hza : ∀ k ≤ ellMax, toC (cget zaArr k) = toC za ^ k)
    (hnorm : Complex.normSq (toC zg) = 1)
    (hE : toC zgpowE = (conj (toC zg)) ^ s)
    (hY : toC zgpowY = toC zg ^ s.natAbs) :
    toC (evaluateHorner st f za zgpowE s ellMax init) =
      toC init * ((((-1) ^ s.natAbs * eps s : ℤ) : ℂ) * toC zgpowE) +
      ∑ ell ∈ Finset.Icc s.natAbs ellMax, ∑ m ∈ Finset.Icc (-(ell : ℤ)) ell,
        toC (fAt f ell m) * toC (sYlmEntry st zaArr zgpowY s ell m) := by
  rw [toC_evaluateHorner, add_mul, Finset.sum_mul]
  congr 1
  apply Finset.sum_congr rfl
  intro ell hell
  rw [Finset.mem_Icc] at hell
  unfold evalInner
  rw [Finset.sum_mul, Finset.sum_mul]
  apply Finset.sum_congr rfl
  intro m hm
  rw [Finset.mem_Icc] at hm
  rw [toC_sYlmEntry st _ _ _ _ _ hell.1, apw_eq_pw hza (by omega : m.natAbs ≤ ellMax),
    ← coeff_eq_c1 hnorm s hE hY]
  unfold hterm
  ring

theorem evaluate_eq_sum_sYlm (f : Array (Cx ℝ)) (za zg zgpowE zgpowY : Cx ℝ)
    (zaArr : Array (Cx ℝ)) (s : ℤ) (ellMax : ℕ)
    (hza : ∀ k ≤ ellMax, toC (cget zaArr k) = toC za ^ k)
    (hnorm : Complex.normSq (toC zg) = 1)
    (hE : toC zgpowE = (conj (toC zg)) ^ s)
    (hY : toC zgpowY = toC zg ^ s.natAbs) :
    toC (evaluateHorner st f za zgpowE s ellMax ⟨zero, zero⟩) =
      ∑ ell ∈ Finset.Icc s.natAbs ellMax, ∑ m ∈ Finset.Icc (-(ell : ℤ)) ell,
        toC (fAt f ell m) * toC (sYlmEntry st zaArr zgpowY s ell m) := by
  rw [evaluate_eq_sum_sYlm_init st f za zg zgpowE zgpowY zaArr s ellMax _ hza hnorm hE hY,
    toC_zero, zero_mul, zero_add]

/-- the hypotheses of `evaluate_eq_sum_sYlm` are satisfiable, for every `zₐ`, unit `zᵧ`, `s`, `ellMax` -/
example (a g : ℂ) (hg : Complex.normSq g = 1) (s : ℤ) (ellMax : ℕ) :
    ∃ (za zg zgpowE zgpowY : Cx ℝ) (zaArr : Array (Cx ℝ)),
      toC za = a ∧ toC zg = g ∧
      (∀ k ≤ ellMax, toC (cget zaArr k) = toC za ^ k) ∧
      Complex.normSq (toC zg) = 1 ∧
      toC zgpowE = (conj (toC zg)) ^ s ∧
      toC zgpowY = toC zg ^ s.natAbs :=
  ⟨ofC a, ofC g, ofC ((conj g) ^ s), ofC (g ^ s.natAbs), powArr a ellMax,
    rfl, rfl, powArr_spec a ellMax, hg, rfl, rfl⟩

/-! ## 2. `_rotate_Horner` (C02) -/

/-- `_rotate_Horner` output weight (ℓ, m) as a closed-form single sum; no hypothesis. -/
theorem rotateHorner_eq_sum (f : Array (Cx ℝ)) (za : Cx ℝ) (zgpow : ℤ → Cx ℝ) (ell : ℕ) (m : ℤ) :
    toC (rotateHornerEntry st f za zgpow ell m) =
      (∑ n ∈ Finset.Icc (-(ell : ℤ)) ell,
          toC (fAt f ell n) * ((eps n : ℤ) : ℂ) * ((Hat (α := ℝ) st ell n m : ℝ) : ℂ)
            * pw (toC za) n)
        * (((eps (-m) : ℤ) : ℂ) * toC (zgpow m)) :=
  toC_rotateHornerEntry st f za zgpow ell m

/-- Horner rotation = `Σ_{m'} f_{ℓm'} D^ℓ_{m'm}` with `D` as `_fill_wigner_D` fills it.
    The Horner loop's `(-1)^n` (n > 0) is `ε_n`, its final `ε_{-m}` is the other factor of
    `DEntry`'s `ε_{m'} ε_{-m}`.  `|zₐ| = 1` is not needed. -/
theorem rotateHorner_eq_matrix (f : Array (Cx ℝ)) (za zg : Cx ℝ) (zgpow : ℤ → Cx ℝ)
    (zaArr zgArr : Array (Cx ℝ)) (ell : ℕ) (m : ℤ) (hm : m.natAbs ≤ ell)
    (hza : ∀ k ≤ ell, toC (cget zaArr k) = toC za ^ k)
    (hzg : ∀ k ≤ ell, toC (cget zgArr k) = toC zg ^ k)
    (hnorm : Complex.normSq (toC zg) = 1)
    (hpow : toC (zgpow m) = toC zg ^ m) :
    toC (rotateHornerEntry st f za zgpow ell m) =
      ∑ n ∈ Finset.Icc (-(ell : ℤ)) ell, toC (fAt f ell n) * toC (DEntry st zaArr zgArr ell n m) := by
  rw [toC_rotateHornerEntry, Finset.sum_mul]
  apply Finset.sum_congr rfl
  intro n hn
  rw [Finset.mem_Icc] at hn
  rw [toC_DEntry, apw_eq_pw hza (by omega : n.natAbs ≤ ell), apw_eq_pw hzg hm,
    pw_eq_zpow hnorm, hpow]
  unfold hterm
  push_cast
  ring

/-- the hypotheses of `rotateHorner_eq_matrix` are satisfiable, for every `zₐ`, unit `zᵧ`, ℓ, |m| ≤ ℓ -/
example (a g : ℂ) (hg : Complex.normSq g = 1) (ell : ℕ) (m : ℤ) :
    ∃ (za zg : Cx ℝ) (zgpow : ℤ → Cx ℝ) (zaArr zgArr : Array (Cx ℝ)),
      toC za = a ∧ toC zg = g ∧
      (∀ k ≤ ell, toC (cget zaArr k) = toC za ^ k) ∧
      (∀ k ≤ ell, toC (cget zgArr k) = toC zg ^ k) ∧
      Complex.normSq (toC zg) = 1 ∧
      toC (zgpow m) = toC zg ^ m :=
  ⟨ofC a, ofC g, fun k => ofC (g ^ k), powArr a ell, powArr g ell,
    rfl, rfl, powArr_spec a ell, powArr_spec g ell, hg, rfl⟩

/-! ## 3. `_fill_sYlm` against `_fill_wigner_D` (C07) -/

/-- `sYlm_{ℓm} = (-1)^|s| √((2ℓ+1)/4π) · D^ℓ_{m,-s}`, entry by entry, for `|s| ≤ ℓ`.
    General form: the library power `zᵧ^|s|` equals the array entry, and is real when `s = 0`
    (`_fill_sYlm` conjugates it, `_fill_wigner_D` reads `zᵧ⁰` unconjugated). -/
theorem sYlm_eq_D_column' (zaArr zgArr : Array (Cx ℝ)) (zgpowY : Cx ℝ) (s : ℤ) (ell : ℕ) (m : ℤ)
    (hs : s.natAbs ≤ ell)
    (hY : toC (cget zgArr s.natAbs) = toC zgpowY)
    (h0 : s = 0 → conj (toC zgpowY) = toC zgpowY) :
    toC (sYlmEntry st zaArr zgpowY s ell m) =
      (((-1) ^ s.natAbs * nrm ell : ℝ) : ℂ) * toC (DEntry st zaArr zgArr ell m (-s)) := by
  rw [toC_sYlmEntry st _ _ _ _ _ hs, toC_DEntry, c1_eq_apw zgArr s _ hY h0, neg_neg]
  push_cast
  ring

theorem sYlm_eq_D_column (zaArr zgArr : Array (Cx ℝ)) (zg zgpowY : Cx ℝ) (s : ℤ) (ell : ℕ) (m : ℤ)
    (hs : s.natAbs ≤ ell)
    (hzg : ∀ k ≤ ell, toC (cget zgArr k) = toC zg ^ k)
    (hY : toC zgpowY = toC zg ^ s.natAbs) :
    toC (sYlmEntry st zaArr zgpowY s ell m) =
      (((-1) ^ s.natAbs * nrm ell : ℝ) : ℂ) * toC (DEntry st zaArr zgArr ell m (-s)) := by
  apply sYlm_eq_D_column' st zaArr zgArr zgpowY s ell m hs
  · rw [hzg _ hs, hY]
  · intro h; subst h; rw [hY]; simp

/-- for ℓ < |s| the entry is the literal zero, at every scalar type (in particular at `Float`) -/
theorem sYlm_low_exact_zero {α : Type} [Scalar α] {μ : Type} [Mem μ α] (st : μ)
    (za : Array (Cx α)) (zgpow : Cx α) (s : ℤ) (ell : ℕ) (m : ℤ) (h : ell < s.natAbs) :
    sYlmEntry st za zgpow s ell m = ⟨zero, zero⟩ :=
  sYlmEntry_low st za zgpow s ell m h

/-! ## 4. conjugation symmetry of `_fill_wigner_D` (C13) -/

theorem wedgeRep_neg_neg (mp m : ℤ) : Spec.wedgeRep (-mp) (-m) = Spec.wedgeRep mp m :=
  Horner.wedgeRep_neg_neg mp m

/-- `ε_k ε_{-k} = (-1)^|k|` -/
theorem eps_mul_eps_neg (k : ℤ) : eps k * eps (-k) = (-1) ^ k.natAbs := Horner.eps_mul_eps_neg k

/-- `D^ℓ_{-m',-m} = (-1)^{m'+m} conj D^ℓ_{m',m}` for all integers m', m (no bound needed), provided
    entry 0 of each power array is real. -/
theorem D_conj_symm' (zaArr zgArr : Array (Cx ℝ)) (ell : ℕ) (mp m : ℤ)
    (hza0 : conj (toC (cget zaArr 0)) = toC (cget zaArr 0))
    (hzg0 : conj (toC (cget zgArr 0)) = toC (cget zgArr 0)) :
    toC (DEntry st zaArr zgArr ell (-mp) (-m)) =
      (-1 : ℂ) ^ (mp + m) * conj (toC (DEntry st zaArr zgArr ell mp m)) := by
  rw [toC_DEntry, toC_DEntry, Hat_neg_neg, apw_neg _ hzg0, apw_neg _ hza0, eps_pair_neg]
  simp only [map_mul, conj_intCast, Complex.conj_ofReal]
  ring

theorem D_conj_symm (zaArr zgArr : Array (Cx ℝ)) (za zg : Cx ℝ) (ell : ℕ) (mp m : ℤ)
    (hza : ∀ k ≤ ell, toC (cget zaArr k) = toC za ^ k)
    (hzg : ∀ k ≤ ell, toC (cget zgArr k) = toC zg ^ k) :
    toC (DEntry st zaArr zgArr ell (-mp) (-m)) =
      (-1 : ℂ) ^ (mp + m) * conj (toC (DEntry st zaArr zgArr ell mp m)) := by
  apply D_conj_symm'
  · rw [hza 0 (Nat.zero_le _)]; simp
  · rw [hzg 0 (Nat.zero_le _)]; simp

/-- the hypotheses of `sYlm_eq_D_column` / `D_conj_symm` are satisfiable for every `zₐ`, `zᵧ`, ℓ, s -/
example (a g : ℂ) (ell : ℕ) (s : ℤ) :
    ∃ (za zg zgpowY : Cx ℝ) (zaArr zgArr : Array (Cx ℝ)),
      toC za = a ∧ toC zg = g ∧
      (∀ k ≤ ell, toC (cget zaArr k) = toC za ^ k) ∧
      (∀ k ≤ ell, toC (cget zgArr k) = toC zg ^ k) ∧
      toC zgpowY = toC zg ^ s.natAbs :=
  ⟨ofC a, ofC g, ofC (g ^ s.natAbs), powArr a ell, powArr g ell,
    rfl, rfl, powArr_spec a ell, powArr_spec g ell, rfl⟩

end Routes
end
