"""C18 — copying and pickling Modes and Grid preserves data and metadata independently.

Obligations: Props/C18.lean (model of __reduce__/__setstate__/__array_finalize__: copies preserve and are independent).
Gap/search: Modes and Grid of all spins -3..3, several shapes, contiguous and non-contiguous views, with/without extra
metadata x {obj.copy(), copy.copy, copy.deepcopy, np.array(copy=True, subok=True), pickle protocols 0..5}; mutate either
side afterwards (data and metadata) and check the other is unaffected."""
import copy
import pickle

import numpy as np

from .. import helpers
from . import common
from .C16 import mkgrid


def routes():
    r = [("obj.copy()", lambda o: o.copy()), ("copy.copy", copy.copy), ("copy.deepcopy", copy.deepcopy),
         ("np.array(copy=True,subok=True)", lambda o: np.array(o, copy=True, subok=True))]
    for p in range(0, pickle.HIGHEST_PROTOCOL + 1):
        r.append((f"pickle-{p}", lambda o, p=p: pickle.loads(pickle.dumps(o, protocol=p))))
    return r


def check(run):
    import spherical
    quick = run.tier == "quick"
    run.regenerate()
    run.lean_props(common.modules_for("C18"))
    from .. import glue_grid
    run.attempt("corr:glue_grid.corr_copy", glue_grid.corr_copy, run, quick)   # Lean model of the copy/pickle hooks vs the real Grid class
    from .. import glue_modes
    run.attempt("corr:glue_modes.corr", glue_modes.corr, run, quick)   # ... and of Modes (copy/pickle stratum included)
    rng = run.rng
    objs = []
    for s in range(-3, 4):
        for lead in ([(), (3,)] if quick else [(), (3,), (2, 2)]):
            for extra in (False, True):
                kw = {"multiplication_truncator": max, "note": ["a", 1]} if extra else {}
                L = abs(s) + rng.randint(0, 3)
                if s == 0 and not extra:
                    L = 0          # the smallest object there is: one weight, ell_max = 0 (a falsy but valid label)
                m = helpers.make_modes(rng, s, L, lead, **kw)
                objs.append(("Modes", m, {"class": "Modes", "s": s, "lead": list(lead), "extra": extra, "view": "contiguous"}))
                if lead:
                    big = helpers.make_modes(rng, s, L, (lead[0] * 2,) + lead[1:], **kw)
                    objs.append(("Modes", big[::2], {"class": "Modes", "s": s, "lead": list(lead), "extra": extra, "view": "strided"}))
                g = mkgrid(rng, s, lead, **({"note": ["g", 2]} if extra else {}))
                objs.append(("Grid", g, {"class": "Grid", "s": s, "lead": list(lead), "extra": extra, "view": "contiguous"}))
                if lead:
                    gb = mkgrid(rng, s, (lead[0] * 2,) + lead[1:], g.shape[-2], g.shape[-1], **({"note": ["g", 2]} if extra else {}))
                    objs.append(("Grid", gb[::2], {"class": "Grid", "s": s, "lead": list(lead), "extra": extra, "view": "strided"}))
    # objects that no constructor call would produce but every user can hold: views cut ALONG the mode axis / the grid axes (the
    # metadata no longer matches the shape), and objects whose slots below |s| were assigned after construction.  A copy is a
    # copy of what is there: same class, same bytes, same metadata.
    for cls, obj, inp0 in list(objs):
        if inp0["view"] != "contiguous" or inp0["extra"]:
            continue
        if cls == "Modes" and obj.shape[-1] >= 5:
            objs.append(("Modes", obj[..., 1:4], {**inp0, "view": "mode-axis-slice"}))
            objs.append(("Modes", obj[..., 2:3], {**inp0, "view": "mode-axis-slice-1"}))
            if inp0["s"] != 0:
                low = helpers.make_modes(rng, inp0["s"], obj.ell_max, tuple(inp0["lead"]))
                low.view(np.ndarray)[..., :inp0["s"] ** 2] = 0.25 - 1.5j          # assigned by the user after construction
                objs.append(("Modes", low, {**inp0, "view": "low-slots-assigned"}))
        if cls == "Grid" and obj.shape[-2] >= 4:
            objs.append(("Grid", obj[..., 1:3, :], {**inp0, "view": "theta-band"}))
            objs.append(("Grid", obj[..., :, 0:2], {**inp0, "view": "phi-band"}))
    # Fortran-ordered / transposed memory layouts of the same kinds of object (a copy must hold equal data whatever the layout)
    for cls, obj, inp0 in list(objs):
        if inp0["view"] != "contiguous" or obj.ndim < 2:
            continue
        base = np.asfortranarray(np.array(obj.view(np.ndarray)))
        meta = {k: v for k, v in obj._metadata.items()}
        try:
            if cls == "Modes":
                meta.pop("ell_min", None)
                fo = spherical.Modes(base, **meta)
            else:
                fo = spherical.Grid(base, **meta)
        except Exception as e:
            run.violation("valid-object-rejected", f"{cls}.__new__", {**inp0, "view": "fortran"}, "object", repr(e))
            continue
        if fo.flags.c_contiguous or not np.array_equal(fo.view(np.ndarray), obj.view(np.ndarray)):
            continue   # the constructor copied into C order: nothing new to exercise
        objs.append((cls, fo, {**inp0, "view": "fortran"}))
    for cls, obj, inp0 in objs:
        data0 = np.array(obj.view(np.ndarray), copy=True)
        meta0 = copy.deepcopy({k: v for k, v in obj._metadata.items() if k != "multiplication_truncator"})
        for rname, route in routes():
            inp = {**inp0, "route": rname}
            site = f"{cls}:{rname}"
            try:
                c = route(obj)
            except Exception as e:
                run.violation("copy-route-raised", site, inp, "a copy", repr(e))
                continue
            run.gap_case("copy-routes", (cls, inp0["s"], tuple(inp0["lead"]), inp0["extra"], inp0["view"], rname), f"{cls}|{rname}", inp)
            if type(c) is not type(obj):
                run.violation("copy-changes-class", site, inp, cls, type(c).__name__)
                continue
            if not np.array_equal(c.view(np.ndarray), data0) or c.spin_weight != obj.spin_weight or getattr(c, "ell_max", None) != getattr(obj, "ell_max", None):
                run.violation("copy-loses-data-or-metadata", site, inp, "equal data, spin weight, ell_max", "differs")
                continue
            for k, val in obj._metadata.items():
                if k not in c._metadata or (c._metadata[k] != val):
                    run.violation("copy-loses-data-or-metadata", site, {**inp, "key": k}, "extra metadata preserved", "missing or different")
            if np.shares_memory(c, obj):
                run.violation("copy-shares-data", site, inp, "independent data", "shares memory")
            if (rname == "copy.deepcopy" or rname.startswith("pickle")) and isinstance(obj._metadata.get("note"), list):
                # deep routes: nested mutable metadata values are copies too
                c._metadata["note"].append("changed-on-copy")
                if "changed-on-copy" in obj._metadata["note"]:
                    run.violation("deep-copy-shares-nested-metadata", site, inp, "changing nested metadata of the copy does not affect the original", "original changed")
                    obj._metadata["note"].remove("changed-on-copy")
                else:
                    c._metadata["note"].remove("changed-on-copy")
            if c._metadata is obj._metadata:
                run.violation("copy-shares-metadata", site, inp, "independent metadata dict", "same dict")
            # mutate the copy (data + metadata), original must be unaffected; then mutate original, copy unaffected
            c.view(np.ndarray)[...] = 99.0
            c._metadata["spin_weight"] = 77
            c._metadata["new_key"] = 1
            if not np.array_equal(obj.view(np.ndarray), data0) or obj._metadata.get("spin_weight") != inp0["s"] or "new_key" in obj._metadata:
                run.violation("mutating-copy-affects-original", site, inp, "original unchanged", "changed")
                obj._metadata["spin_weight"] = inp0["s"]
                obj._metadata.pop("new_key", None)
                obj.view(np.ndarray)[...] = data0
            c2 = None
            try:
                c2 = route(obj)
            except Exception:
                pass
            if c2 is not None:
                snap = np.array(c2.view(np.ndarray), copy=True)
                obj.view(np.ndarray)[...] = -5.0
                obj._metadata["other_key"] = 2
                if not np.array_equal(c2.view(np.ndarray), snap) or "other_key" in c2._metadata:
                    run.violation("mutating-original-affects-copy", site, inp, "copy unchanged", "changed")
                obj.view(np.ndarray)[...] = data0
                obj._metadata.pop("other_key", None)
    run.assumptions += ["numpy's own __reduce__/__setstate__/copy machinery is assumed (modelled, not verified)"]


def replay(body):
    print(body["input"], body["expected"], body["got"])
    return 0
