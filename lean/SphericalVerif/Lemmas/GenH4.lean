import SphericalVerif.Lemmas.GenH
/-! `_step_4`: the generated kernel is the coordinate model run on the hybrid memory. -/
namespace GenH
open Gen Model FlatSteps Scalar
section
variable {α : Type} [Scalar α] {φ : Type} [FMem φ α] {L P : Nat}

theorem sim_step4 (d : Int → α)
    (hd : ∀ n k : Int, 0 ≤ n → n ≤ (L : Int) + 1 → -n ≤ k → k ≤ n → d (nm_index n k) = Gen.tab_d n k)
    (F : φ) (J : Loc → α) :
    Model.step4 (α := α) L P (⟨F, J⟩ : Hyb L P φ α) = ⟨Gen.u_step_4 (α := α) d L P idW idV F, J⟩ := by
  unfold Model.step4 Gen.u_step_4
  by_cases h0 : L = 0 ∨ P = 0
  · have h1 : ¬ (((L : Int) > 0) ∧ ((P : Int) > 0)) := by omega
    simp only [if_pos h0, if_neg h1]
  · have h1 : (((L : Int) > 0) ∧ ((P : Int) > 0)) := by omega
    simp only [if_neg h0, if_pos h1]
    have hc : ((((L : Int) + 1)) - 2).toNat = L - 1 := by omega
    rw [hc]
    apply loopN_hyb
    intro k F hk
    have hc2 : (min ((2 : Int) + k) (P : Int) - 1).toNat = min (k + 2) P - 1 := by omega
    rw [hc2]
    apply loopN_hyb
    intro j F hj
    have ek : (2 : Int) + (k : Int) = ((k + 2 : Nat) : Int) := by push_cast; omega
    have ej : (1 : Int) + (j : Int) = ((j + 1 : Nat) : Int) := by push_cast; omega
    simp only [Int.zero_add, ek, ej]
    have hn : (2 : Int) ≤ ((k + 2 : Nat) : Int) := by omega
    have hm1 : (1 : Int) ≤ ((j + 1 : Nat) : Int) := by omega
    have hm2 : ((j + 1 : Nat) : Int) < min ((k + 2 : Nat) : Int) (P : Int) := by omega
    have hnL : k + 2 ≤ L := by omega
    have hc3 : (((k + 2 : Nat) : Int) - ((j + 1 : Nat) : Int) - 1).toNat = k + 2 - (j + 1) - 1 := by omega
    rw [hc3]
    have t5 : d (nm_index ↑(k + 2) ↑(j + 1)) = dC ((k + 2 : Nat) : Int) ((j + 1 : Nat) : Int) :=
      tab_nm L hd (s4_d5_eq _ _ P hm1 hm2) (by omega) (by omega)
    have t6 : d (nm_index ↑(k + 2) (↑(j + 1) - 1)) = dC ((k + 2 : Nat) : Int) (((j + 1 : Nat) : Int) - 1) :=
      tab_nm L hd (s4_d6_eq _ _ P hm1 hm2) (by omega) (by omega)
    rw [t5, t6]
    -- first statement
    rw [rd_hw F J (k + 2) (↑(j + 1) - 1) (j + 1) (WignerHindex ↑(k + 2) (↑(j + 1) - 1) ↑(j + 1) (some ↑P)) hnL
          (hwc (s4_read2_eq _ _ 0 P hn hm1 hm2 (by omega) (by omega)) (by unfold s4_read2 s4_i2; omega) rfl (by omega)),
        rd_hv F J (k + 2) ↑(j + 1) (nm_index ↑(k + 2) ↑(j + 1)) hnL ⟨rfl, by omega, by omega⟩,
        rd_hw F J (k + 2) ↑(j + 1) (j + 1 + 1) (WignerHindex ↑(k + 2) ↑(j + 1) (↑(j + 1) + 1) (some ↑P)) hnL
          (hwc (s4_read4_eq _ _ 0 P hn hm1 hm2 (by omega) (by omega)) (by unfold s4_read4 s4_i4; omega) rfl (by push_cast; omega)),
        wr_hv F J (k + 2) (↑(j + 1) + 1) (nm_index ↑(k + 2) (↑(j + 1) + 1)) _ hnL ⟨rfl, by omega, by omega⟩]
    simp only [one]
    generalize hF1 : (fwr (α := α) F idV _ _ : φ) = F1
    generalize hS : (loopN _ _ (⟨F1, J⟩ : Hyb L P φ α)) = S2
    generalize hG : (loopN _ _ F1 : φ) = F2
    have hrel : S2 = ⟨F2, J⟩ := by
      rw [← hS, ← hG]
      apply loopN_hyb
      intro t F ht
      have et : (1 : Int) + (t : Int) = ((t + 1 : Nat) : Int) := by push_cast; omega
      simp only [et]
      have hi0 : (1 : Int) ≤ ((t + 1 : Nat) : Int) := by omega
      have hi1 : ((t + 1 : Nat) : Int) < ((k + 2 : Nat) : Int) - ((j + 1 : Nat) : Int) := by omega
      have t7 : d (↑(t + 1) + nm_index ↑(k + 2) (↑(j + 1) - 1)) = dC ((k + 2 : Nat) : Int) (((j + 1 : Nat) : Int) - 1 + ((t + 1 : Nat) : Int)) :=
        tab_nm L hd (s4_d7_eq _ _ _ P hm1 hm2 (by omega) (by omega)) (by omega) (by omega)
      have t8 : d (↑(t + 1) + nm_index ↑(k + 2) ↑(j + 1)) = dC ((k + 2 : Nat) : Int) (((j + 1 : Nat) : Int) + ((t + 1 : Nat) : Int)) :=
        tab_nm L hd (s4_d8_eq _ _ _ P hm1 hm2 (by omega) (by omega)) (by omega) (by omega)
      rw [t7, t8]
      rw [rd_hw F J (k + 2) (↑(j + 1) - 1) (j + 1 + (t + 1)) (↑(t + 1) + WignerHindex ↑(k + 2) (↑(j + 1) - 1) ↑(j + 1) (some ↑P)) hnL
            (hwc (s4_read2_eq _ _ ↑(t + 1) P hn hm1 hm2 (by omega) (by omega)) rfl rfl (by push_cast; omega)),
          rd_hw F J (k + 2) ↑(j + 1) (j + 1 + (t + 1) - 1) (↑(t + 1) + (WignerHindex ↑(k + 2) ↑(j + 1) ↑(j + 1) (some ↑P) - 1)) hnL
            (hwc (s4_read3_eq _ _ ↑(t + 1) P hn hm1 hm2 (by omega) (by omega)) rfl rfl (by push_cast; omega)),
          rd_hw F J (k + 2) ↑(j + 1) (j + 1 + (t + 1) + 1) (↑(t + 1) + WignerHindex ↑(k + 2) ↑(j + 1) (↑(j + 1) + 1) (some ↑P)) hnL
            (hwc (s4_read4_eq _ _ ↑(t + 1) P hn hm1 hm2 (by omega) (by omega)) rfl rfl (by push_cast; omega)),
          wr_hw F J (k + 2) (↑(j + 1) + 1) (j + 1 + (t + 1)) (↑(t + 1) + (WignerHindex ↑(k + 2) (↑(j + 1) + 1) (↑(j + 1) + 1) (some ↑P) - 1)) _ hnL
            (hwc (s4_write_eq _ _ ↑(t + 1) P hn hm1 hm2 (by omega) (by omega)) rfl rfl (by push_cast; omega))]
    subst hrel
    obtain ⟨l1, l2, l3, l4⟩ := s4_last_eq ↑(k + 2) ↑(j + 1) P hn hm1 hm2
    have t9 : d (↑(k + 2) - ↑(j + 1) + nm_index ↑(k + 2) (↑(j + 1) - 1)) = dC ((k + 2 : Nat) : Int) (((k + 2 : Nat) : Int) - 1) :=
      tab_nm L hd l4 (by omega) (by omega)
    rw [t9]
    rw [rd_hw F2 J (k + 2) (↑(j + 1) - 1) (k + 2) (↑(k + 2) - ↑(j + 1) + WignerHindex ↑(k + 2) (↑(j + 1) - 1) ↑(j + 1) (some ↑P)) hnL
          (hwc l2 rfl rfl rfl),
        rd_hw F2 J (k + 2) ↑(j + 1) (k + 2 - 1) (↑(k + 2) - ↑(j + 1) + (WignerHindex ↑(k + 2) ↑(j + 1) ↑(j + 1) (some ↑P) - 1)) hnL
          (hwc l3 rfl rfl (by push_cast; omega)),
        wr_hw F2 J (k + 2) (↑(j + 1) + 1) (k + 2) (↑(k + 2) - ↑(j + 1) + (WignerHindex ↑(k + 2) (↑(j + 1) + 1) (↑(j + 1) + 1) (some ↑P) - 1)) _ hnL
          (hwc l1 rfl rfl rfl)]
end
end GenH
