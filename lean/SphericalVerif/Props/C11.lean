import SphericalVerif.Gen.Indexing
import SphericalVerif.Gen.Guards
import SphericalVerif.Spec.Orderings
import SphericalVerif.Lemmas.IndexY
import SphericalVerif.Lemmas.IndexH
import SphericalVerif.Lemmas.IndexD
import SphericalVerif.Lemmas.Int64
/-! C11 — index and size functions are exact inverses of the documented orderings.
    Property theorems only; helper lemmas live in `Lemmas/`. Statements are about the *generated*
    definitions `Gen.*` (re-translated from the Python source on every run). -/
namespace C11
open Gen Spec

/-- The `Wigner` object's index methods are the free functions applied to the object's own fields. -/
theorem methods_agree (ell_min mp_max ell mp m : Int) :
    Wigner_Hindex mp_max ell mp m = WignerHindex ell mp m (some mp_max)
    ∧ Wigner_Dindex ell_min mp_max ell mp m = WignerDindex ell mp m ell_min mp_max
    ∧ Wigner_dindex ell_min mp_max ell mp m = WignerDindex ell mp m ell_min mp_max
    ∧ Wigner_Yindex ell_min ell m = Yindex ell m ell_min := ⟨rfl, rfl, rfl, rfl⟩

/-- Beyond the proved-exact range the compiled (int64) size function really does wrap: the property is
    false of the compiled code for huge `ell_max` (known finding F12); witness replayed on the implementation. -/
theorem int64_overflow_witness : WignerHsize_w 3000000 3000000 ≠ WignerHsize 3000000 3000000 := by decide

/-! ### Y / nm / nabsm / nmpm orderings -/

/-- `Ysize` is the length of the documented `(ell, m)` ordering (also for the empty range `ell_max = ell_min - 1`). -/
theorem ysize_eq_length (ell_min ell_max : Int) (h0 : 0 ≤ ell_min) (h1 : ell_min ≤ ell_max + 1) :
    Ysize ell_min ell_max = ((yRange ell_min ell_max).length : Int) :=
  Lemmas.ysize_eq_length ell_min ell_max h0 h1

/-- `Yindex` is the position of `(ell, m)` in the documented ordering. -/
theorem yindex_get (ell_min ell_max ell m : Int) (h0 : 0 ≤ ell_min) (h1 : ell_min ≤ ell)
    (h2 : ell ≤ ell_max) (hm1 : -ell ≤ m) (hm2 : m ≤ ell) :
    0 ≤ Yindex ell m ell_min ∧ Yindex ell m ell_min < Ysize ell_min ell_max ∧
      (yRange ell_min ell_max)[(Yindex ell m ell_min).toNat]? = some (ell, m) :=
  Lemmas.yindex_get ell_min ell_max ell m h0 h1 h2 hm1 hm2

example : ∃ ell_min ell_max ell m : Int, 0 ≤ ell_min ∧ ell_min ≤ ell ∧ ell ≤ ell_max ∧ -ell ≤ m ∧ m ≤ ell :=
  ⟨2, 5, 3, -3, by decide⟩

theorem nm_index_get (n_max n m : Int) (h0 : 0 ≤ n) (h1 : n ≤ n_max) (hm1 : -n ≤ m) (hm2 : m ≤ n) :
    0 ≤ nm_index n m ∧ nm_index n m < ((nmRange n_max).length : Int) ∧
      (nmRange n_max)[(nm_index n m).toNat]? = some (n, m) := by
  have h := Lemmas.nm_index_get n_max n m h0 h1 hm1 hm2
  rw [Lemmas.ysize_eq_length 0 n_max (le_refl 0) (by omega)] at h
  exact h

theorem nabsm_index_get (n_max n m : Int) (h0 : 0 ≤ n) (h1 : n ≤ n_max) (hm1 : 0 ≤ m) (hm2 : m ≤ n) :
    0 ≤ nabsm_index n m ∧ nabsm_index n m < ((nabsmRange n_max).length : Int) ∧
      (nabsmRange n_max)[(nabsm_index n m).toNat]? = some (n, m) :=
  Lemmas.nabsm_index_get n_max n m h0 h1 hm1 hm2

theorem nmpm_index_get (n_max n mp m : Int) (h0 : 0 ≤ n) (h1 : n ≤ n_max)
    (hp1 : -n ≤ mp) (hp2 : mp ≤ n) (hm1 : -n ≤ m) (hm2 : m ≤ n) :
    0 ≤ nmpm_index n mp m ∧ nmpm_index n mp m < ((nmpmRange n_max).length : Int) ∧
      (nmpmRange n_max)[(nmpm_index n mp m).toNat]? = some (n, mp, m) :=
  Lemmas.nmpm_index_get n_max n mp m h0 h1 hp1 hp2 hm1 hm2

example : ∃ n_max n mp m : Int, 0 ≤ n ∧ n ≤ n_max ∧ -n ≤ mp ∧ mp ≤ n ∧ -n ≤ m ∧ m ≤ n :=
  ⟨4, 3, -3, 2, by decide⟩

/-! ### ε -/

theorem eps_spec (m : Int) : ε m = if m ≤ 0 then 1 else (-1) ^ m.toNat := Lemmas.eps_spec m

theorem eps_mul_neg (k : Int) : ε k * ε (-k) = (-1) ^ k.natAbs := Lemmas.eps_mul_neg k

/-! ### H wedge ordering -/

/-- `WignerHsize` is the length of the documented wedge ordering (explicit `ell_max ≥ -1`). -/
theorem hsize_eq_length (mp_max ell_max : Int) (h0 : 0 ≤ mp_max) (h1 : -1 ≤ ell_max) :
    WignerHsize mp_max ell_max = ((hRange mp_max ell_max).length : Int) :=
  Lemmas.hsize_eq_length mp_max ell_max h0 h1

/-- The sentinel default `ell_max = -2` means `ell_max := mp_max`. -/
theorem hsize_default (mp_max : Int) (h : -2 ≤ mp_max) :
    WignerHsize mp_max (-2) = WignerHsize mp_max mp_max :=
  Lemmas.hsize_default mp_max h

/-- ... and `mp_max ≥ -2` is needed for that reading. -/
theorem hsize_default_fails : WignerHsize (-3) (-2) ≠ WignerHsize (-3) (-3) :=
  Lemmas.hsize_default_fails

/-- `WignerHindex` is the position of a wedge element `(ell, mp, m)`, `|mp| ≤ m`, in the documented ordering. -/
theorem hindex_get (mp_max ell_max ell mp m : Int) (hP : 0 ≤ mp_max) (hl : 0 ≤ ell) (hL : ell ≤ ell_max)
    (h1 : -(min ell mp_max) ≤ mp) (h2 : mp ≤ min ell mp_max) (h3 : (mp.natAbs : Int) ≤ m) (h4 : m ≤ ell) :
    0 ≤ WignerHindex ell mp m (some mp_max) ∧
    WignerHindex ell mp m (some mp_max) < WignerHsize mp_max ell_max ∧
    (hRange mp_max ell_max)[(WignerHindex ell mp m (some mp_max)).toNat]? = some (ell, mp, m) :=
  Lemmas.hindex_get mp_max ell_max ell mp m hP hl hL h1 h2 h3 h4

example : ∃ mp_max ell_max ell mp m : Int, 0 ≤ mp_max ∧ 0 ≤ ell ∧ ell ≤ ell_max ∧
    -(min ell mp_max) ≤ mp ∧ mp ≤ min ell mp_max ∧ (mp.natAbs : Int) ≤ m ∧ m ≤ ell :=
  ⟨2, 5, 4, -2, 3, by decide⟩

/-- `mp_max = None` means `mp_max := ell` (all `ell`). -/
theorem hindex_none (ell mp m : Int) :
    WignerHindex ell mp m none = WignerHindex ell mp m (some ell) :=
  Lemmas.hindex_none ell mp m

/-- Outside the wedge `WignerHindex` is `_WignerHindex` of the documented wedge representative,
    which lies in the wedge and in the symmetry orbit of `(mp, m)`. -/
theorem hindex_fold (mp_max ell mp m : Int) (hl : ell ≠ 0) :
    WignerHindex ell mp m (some mp_max)
        = u_WignerHindex ell (wedgeRep mp m).1 (wedgeRep mp m).2 (min mp_max ell)
    ∧ ((wedgeRep mp m).1.natAbs : Int) ≤ (wedgeRep mp m).2
    ∧ wedgeRep mp m ∈ [(mp, m), (m, mp), (-mp, -m), (-m, -mp)] :=
  ⟨Lemmas.hindex_fold_eq ell mp m mp_max hl, Lemmas.wedgeRep_abs mp m, Lemmas.wedgeRep_mem mp m⟩

/-- the representative stays inside `|·| ≤ ell` -/
theorem hindex_fold_bound (ell mp m : Int) (h1 : -ell ≤ mp) (h2 : mp ≤ ell) (h3 : -ell ≤ m) (h4 : m ≤ ell) :
    (wedgeRep mp m).2 ≤ ell := Lemmas.wedgeRep_bound mp m ell h1 h2 h3 h4

/-- Hence every `(mp, m)` with `|mp|, |m| ≤ ell` is stored at the slot of its wedge representative
    (provided that representative's first order is within `mp_max`). -/
theorem hindex_fold_get (mp_max ell_max ell mp m : Int) (hP : 0 ≤ mp_max) (hl : 0 < ell) (hL : ell ≤ ell_max)
    (h1 : -ell ≤ mp) (h2 : mp ≤ ell) (h3 : -ell ≤ m) (h4 : m ≤ ell)
    (h5 : ((wedgeRep mp m).1.natAbs : Int) ≤ mp_max) :
    0 ≤ WignerHindex ell mp m (some mp_max) ∧
    WignerHindex ell mp m (some mp_max) < WignerHsize mp_max ell_max ∧
    (hRange mp_max ell_max)[(WignerHindex ell mp m (some mp_max)).toNat]?
      = some (ell, (wedgeRep mp m).1, (wedgeRep mp m).2) :=
  Lemmas.hindex_fold_get mp_max ell_max ell mp m hP hl hL h1 h2 h3 h4 h5

/-- The index respects the two H symmetries (ties included). -/
theorem hindex_symm (ell mp m : Int) (P : Option Int) :
    WignerHindex ell mp m P = WignerHindex ell m mp P ∧
    WignerHindex ell mp m P = WignerHindex ell (-mp) (-m) P :=
  Lemmas.hindex_symm ell mp m P

/-! ### D ordering -/

/-- `WignerDsize` is the length of the documented `(ell, mp, m)` ordering, for an explicit `ell_max ≥ 0`
    (empty range `ell_max = ell_min - 1 ≥ 0` included). -/
theorem dsize_eq_length (ell_min mp_max ell_max : Int) (h0 : 0 ≤ ell_min) (h1 : ell_min ≤ ell_max + 1)
    (h2 : 0 ≤ ell_max) (h3 : 0 ≤ mp_max) :
    WignerDsize ell_min mp_max ell_max = ((dRange ell_min mp_max ell_max).length : Int) :=
  Lemmas.dsize_eq_length ell_min mp_max ell_max h0 h1 h2 h3

/-- A negative `ell_max` is the sentinel for `ell_max := mp_max` ... -/
theorem dsize_default (ell_min mp_max ell_max : Int) (h : ell_max < 0) :
    WignerDsize ell_min mp_max ell_max = WignerDsize ell_min mp_max mp_max :=
  Lemmas.dsize_default ell_min mp_max ell_max h

/-- ... so `0 ≤ ell_max` cannot be dropped from `dsize_eq_length` (the empty range `0..-1` has size 1). -/
theorem dsize_neg_ell_max : WignerDsize 0 0 (-1) ≠ ((dRange 0 0 (-1)).length : Int) := by decide

/-- `WignerDindex` is the position of `(ell, mp, m)` in the documented ordering. -/
theorem dindex_get (ell_min mp_max ell_max ell mp m : Int) (h0 : 0 ≤ ell_min) (h1 : ell_min ≤ ell)
    (h2 : ell ≤ ell_max) (hP : 0 ≤ mp_max)
    (hp1 : -(min ell mp_max) ≤ mp) (hp2 : mp ≤ min ell mp_max) (hm1 : -ell ≤ m) (hm2 : m ≤ ell) :
    0 ≤ WignerDindex ell mp m ell_min mp_max ∧
    WignerDindex ell mp m ell_min mp_max < WignerDsize ell_min mp_max ell_max ∧
    (dRange ell_min mp_max ell_max)[(WignerDindex ell mp m ell_min mp_max).toNat]? = some (ell, mp, m) :=
  Lemmas.dindex_get ell_min mp_max ell_max ell mp m h0 h1 h2 hP hp1 hp2 hm1 hm2

example : ∃ ell_min mp_max ell_max ell mp m : Int, 0 ≤ ell_min ∧ ell_min ≤ ell ∧ ell ≤ ell_max ∧ 0 ≤ mp_max ∧
    -(min ell mp_max) ≤ mp ∧ mp ≤ min ell mp_max ∧ -ell ≤ m ∧ m ≤ ell :=
  ⟨1, 2, 5, 4, -2, -4, by decide⟩

/-- A negative `mp_max` means `mp_max := ell`. -/
theorem dindex_default (ell mp m ell_min mp_max : Int) (h : mp_max < 0) :
    WignerDindex ell mp m ell_min mp_max = WignerDindex ell mp m ell_min ell :=
  Lemmas.dindex_default ell mp m ell_min mp_max h

/-! ### int64 exactness -/

/-- On the natural domain with bound `10^6` — degrees/sizes `ell, ell_min, mp_max, n` in `0..10^6`
    (`ell_max` additionally with its documented negative sentinels, `mp_max` of `WignerDindex` with its
    negative sentinel), orders `mp, m` in `-10^6..10^6`, the `Option` argument `none` or `some` of a value in
    `0..10^6` — every compiled (int64, `wrap64`) function equals the unbounded one. -/
theorem int64_exact :
    (∀ mp_max ell_max : Int, 0 ≤ mp_max ∧ mp_max ≤ 1000000 → -2 ≤ ell_max ∧ ell_max ≤ 1000000 →
      WignerHsize_w mp_max ell_max = WignerHsize mp_max ell_max)
    ∧ (∀ ell mp m mp_max : Int, 0 ≤ ell ∧ ell ≤ 1000000 → -1000000 ≤ mp ∧ mp ≤ 1000000 →
      -1000000 ≤ m ∧ m ≤ 1000000 → 0 ≤ mp_max ∧ mp_max ≤ 1000000 →
      u_WignerHindex_w ell mp m mp_max = u_WignerHindex ell mp m mp_max)
    ∧ (∀ (ell mp m : Int) (mp_max : Option Int), 0 ≤ ell ∧ ell ≤ 1000000 → -1000000 ≤ mp ∧ mp ≤ 1000000 →
      -1000000 ≤ m ∧ m ≤ 1000000 → (∀ p, mp_max = some p → 0 ≤ p ∧ p ≤ 1000000) →
      WignerHindex_w ell mp m mp_max = WignerHindex ell mp m mp_max)
    ∧ (∀ ell_min mp_max ell_max : Int, 0 ≤ ell_min ∧ ell_min ≤ 1000000 → 0 ≤ mp_max ∧ mp_max ≤ 1000000 →
      -1000000 ≤ ell_max ∧ ell_max ≤ 1000000 →
      WignerDsize_w ell_min mp_max ell_max = WignerDsize ell_min mp_max ell_max)
    ∧ (∀ ell mp m ell_min mp_max : Int, 0 ≤ ell ∧ ell ≤ 1000000 → -1000000 ≤ mp ∧ mp ≤ 1000000 →
      -1000000 ≤ m ∧ m ≤ 1000000 → 0 ≤ ell_min ∧ ell_min ≤ 1000000 → -1000000 ≤ mp_max ∧ mp_max ≤ 1000000 →
      WignerDindex_w ell mp m ell_min mp_max = WignerDindex ell mp m ell_min mp_max)
    ∧ (∀ ell_min ell_max : Int, -1000000 ≤ ell_min ∧ ell_min ≤ 1000000 → -1000000 ≤ ell_max ∧ ell_max ≤ 1000000 →
      Ysize_w ell_min ell_max = Ysize ell_min ell_max)
    ∧ (∀ ell m ell_min : Int, -1000000 ≤ ell ∧ ell ≤ 1000000 → -1000000 ≤ m ∧ m ≤ 1000000 →
      -1000000 ≤ ell_min ∧ ell_min ≤ 1000000 → Yindex_w ell m ell_min = Yindex ell m ell_min)
    ∧ (∀ n m : Int, -1000000 ≤ n ∧ n ≤ 1000000 → -1000000 ≤ m ∧ m ≤ 1000000 → nm_index_w n m = nm_index n m)
    ∧ (∀ n absm : Int, -1000000 ≤ n ∧ n ≤ 1000000 → -1000000 ≤ absm ∧ absm ≤ 1000000 →
      nabsm_index_w n absm = nabsm_index n absm)
    ∧ (∀ n mp m : Int, -1000000 ≤ n ∧ n ≤ 1000000 → -1000000 ≤ mp ∧ mp ≤ 1000000 → -1000000 ≤ m ∧ m ≤ 1000000 →
      nmpm_index_w n mp m = nmpm_index n mp m)
    ∧ (∀ m : Int, ε_w m = ε m) ∧ (∀ m : Int, sign_w m = sign m) :=
  ⟨Lemmas.Hsize_w_eq, Lemmas.u_Hindex_w_eq, Lemmas.Hindex_w_eq, Lemmas.Dsize_w_eq, Lemmas.Dindex_w_eq,
   Lemmas.Ysize_w_eq, Lemmas.Yindex_w_eq, Lemmas.nm_index_w_eq, Lemmas.nabsm_index_w_eq,
   Lemmas.nmpm_index_w_eq, Lemmas.eps_w_eq, Lemmas.sign_w_eq⟩

/-- With *every* argument merely bounded by `|x| ≤ 5·10^5` (negative sizes, sentinels, nonsense included)
    the H and D functions are exact as well (the Y/nm/nabsm/nmpm ones already are at `10^6` above). -/
theorem int64_exact_symm :
    (∀ mp_max ell_max : Int, -500000 ≤ mp_max ∧ mp_max ≤ 500000 → -500001 ≤ ell_max ∧ ell_max ≤ 500000 →
      WignerHsize_w mp_max ell_max = WignerHsize mp_max ell_max)
    ∧ (∀ ell mp m mp_max : Int, -500000 ≤ ell ∧ ell ≤ 500000 → -500000 ≤ mp ∧ mp ≤ 500000 →
      -500000 ≤ m ∧ m ≤ 500000 → -500000 ≤ mp_max ∧ mp_max ≤ 500000 →
      u_WignerHindex_w ell mp m mp_max = u_WignerHindex ell mp m mp_max)
    ∧ (∀ (ell mp m : Int) (mp_max : Option Int), -500000 ≤ ell ∧ ell ≤ 500000 → -500000 ≤ mp ∧ mp ≤ 500000 →
      -500000 ≤ m ∧ m ≤ 500000 → (∀ p, mp_max = some p → -500000 ≤ p ∧ p ≤ 500000) →
      WignerHindex_w ell mp m mp_max = WignerHindex ell mp m mp_max)
    ∧ (∀ ell_min mp_max ell_max : Int, -500000 ≤ ell_min ∧ ell_min ≤ 500000 → -500000 ≤ mp_max ∧ mp_max ≤ 500000 →
      -500001 ≤ ell_max ∧ ell_max ≤ 500000 →
      WignerDsize_w ell_min mp_max ell_max = WignerDsize ell_min mp_max ell_max)
    ∧ (∀ ell mp m ell_min mp_max : Int, -500000 ≤ ell ∧ ell ≤ 500000 → -500000 ≤ mp ∧ mp ≤ 500000 →
      -500000 ≤ m ∧ m ≤ 500000 → -500000 ≤ ell_min ∧ ell_min ≤ 500000 → -500000 ≤ mp_max ∧ mp_max ≤ 500000 →
      WignerDindex_w ell mp m ell_min mp_max = WignerDindex ell mp m ell_min mp_max) :=
  ⟨Lemmas.Hsize_w_symm, Lemmas.u_Hindex_w_symm, Lemmas.Hindex_w_symm, Lemmas.Dsize_w_symm,
   Lemmas.Dindex_w_symm⟩

/-- The symmetric statement at `10^6` is false for the H functions: a negative `mp_max` makes
    `ell_max - mp_max` as large as `2·10^6`, and `2·d·(d+1)·(d+2)` then exceeds `2^63`. -/
theorem int64_symm_1e6_fails :
    WignerHsize_w (-1000000) 1000000 ≠ WignerHsize (-1000000) 1000000 := Lemmas.Hsize_w_symm_fails

end C11
