"""C05 — Wigner 3-j and Clebsch-Gordan values are exact for all integer arguments.

Obligations: Props/C05.lean about the generated B / A-radicand (no fixed-width overflow up to the proved bound;
witness beyond) and the model of calculate/Wigner3j (selection-rule zeros, purity).
Correspondence: Wigner3jCalculator.calculate vs Model.W3j.calculate bitwise (exhaustive small J, branch-targeted
samples to j=400), Wigner3j / clebsch_gordan front ends.  Gap monitor: exact Racah formula."""
import math

import json
import os

import numpy as np

from .. import kern, oracle
from . import common


def exhaustive_cases(J):
    for j2 in range(J + 1):
        for j3 in range(J + 1):
            for m2 in range(-j2 - 1, j2 + 2):
                for m3 in range(-j3 - 1, j3 + 2):
                    yield (j2, j3, m2, m3)


def targeted(rng, n, jmax):
    out = []
    for _ in range(n):
        kind = rng.choice(["all-m-zero", "m=+-j", "j2=j3", "j3<=2", "generic", "big"])
        jm = rng.choice([20, 60, 150, jmax]) if kind != "big" else jmax
        j2, j3 = rng.randint(0, jm), rng.randint(0, jm)
        if kind == "j2=j3":
            j3 = j2
        if kind == "j3<=2":
            j3 = rng.randint(0, 2)
        m2, m3 = rng.randint(-j2, j2), rng.randint(-j3, j3)
        if kind == "all-m-zero":
            m2 = m3 = 0
        if kind == "m=+-j":
            m2 = rng.choice([-j2, j2])
            m3 = rng.choice([-j3, j3, rng.randint(-j3, j3)])
        out.append((kind, j2, j3, m2, m3))
    return out


def gap_calculate(run, cases, tol_small=1e-12, tol_big=1e-9):
    import spherical
    calcs = {}
    worst = 0.0
    for kind, j2, j3, m2, m3 in cases:
        key = (j2, j3)
        if key not in calcs:
            calcs[key] = spherical.Wigner3jCalculator(j2, j3)
        inp = {"j2": j2, "j3": j3, "m2": m2, "m3": m3}
        try:
            w = calcs[key].calculate(j2, j3, m2, m3).copy()
        except Exception as e:
            run.violation("calculate-raised", "Wigner3jCalculator.calculate", inp, "values", repr(e))
            continue
        m1 = -(m2 + m3)
        tol = tol_small if max(j2, j3, j2 + j3) <= 16 else tol_big
        j1s = range(0, j2 + j3 + 1) if j2 + j3 <= 40 else sorted({0, abs(j2 - j3), max(abs(j2 - j3), abs(m1)), (abs(j2 - j3) + j2 + j3) // 2, j2 + j3 - 1, j2 + j3} |
                                                              {run.rng.randint(0, j2 + j3) for _ in range(4)})
        for j1 in j1s:
            if j1 < 0 or j1 > j2 + j3:
                continue
            ex = oracle.w3j_exact(j1, j2, j3, m1, m2, m3)
            got = float(w[j1])
            run.gap_case("calculate-vs-racah", (j1, j2, j3, m2, m3), kind, {"j1": j1, **inp, "exact": ex, "got": got})
            if ex == 0.0 and got != 0.0 and (abs(m2) > j2 or abs(m3) > j3 or j1 < abs(j2 - j3) or abs(m1) > j1):
                run.violation("selection-rule-not-exact-zero", "Wigner3jCalculator.calculate", {**inp, "j1": j1, "jmax": max(j1, j2, j3)}, 0.0, got)
                break
            err = abs(ex - got)
            worst = max(worst, err)
            if not (err <= tol):
                run.violation("3j-inaccurate", "Wigner3jCalculator.calculate", {**inp, "j1": j1, "jmax": max(j1, j2, j3)}, ex, got, detail={"kind": kind, "tol": tol})
                break
    run.notes["worst_abs_err_calculate"] = worst


def gap_zeros(run, zc):
    import spherical
    calcs = {}
    for (j2, j3, m2, m3, jz) in zc:
        j2, j3, m2, m3, jz = int(j2), int(j3), int(m2), int(m3), int(jz)
        key = (j2, j3)
        if key not in calcs:
            calcs[key] = spherical.Wigner3jCalculator(j2, j3)
        inp = {"j2": j2, "j3": j3, "m2": m2, "m3": m3}
        try:
            w = calcs[key].calculate(j2, j3, m2, m3).copy()
        except Exception as e:   # noqa: BLE001
            run.violation("calculate-raised", "Wigner3jCalculator.calculate", inp, "values", repr(e))
            continue
        m1 = -(m2 + m3)
        tol = 1e-12 if max(j2, j3, j2 + j3) <= 16 else 1e-9
        for j1 in (jz - 1, jz, jz + 1):
            if j1 < 0 or j1 > j2 + j3:
                continue
            ex = oracle.w3j_exact(j1, j2, j3, m1, m2, m3)
            got = float(w[j1])
            run.gap_case("calculate-vs-racah", (j1, j2, j3, m2, m3), "nontrivial-zero", {"j1": j1, **inp, "exact": ex, "got": got})
            if not (abs(ex - got) <= tol):
                run.violation("3j-inaccurate", "Wigner3jCalculator.calculate", {**inp, "j1": j1, "jmax": max(j1, j2, j3)}, ex, got, detail={"kind": "nontrivial-zero", "tol": tol})
                break


def gap_front_ends(run, n, jmax):
    import spherical
    rng = run.rng
    for _ in range(n):
        jm = rng.choice([3, 8, 16, 60, jmax])
        j1, j2, j3 = rng.randint(0, jm), rng.randint(0, jm), rng.randint(0, jm)
        if rng.random() < 0.7:   # make the triangle hold most of the time
            j3 = rng.randint(abs(j1 - j2), j1 + j2)
        m1, m2 = rng.randint(-j1 - 1, j1 + 1), rng.randint(-j2 - 1, j2 + 1)
        m3 = -m1 - m2 if rng.random() < 0.85 else rng.randint(-j3, j3)
        inp = {"j1": j1, "j2": j2, "j3": j3, "m1": m1, "m2": m2, "m3": m3, "jmax": max(j1, j2, j3)}
        ex = oracle.w3j_exact(j1, j2, j3, m1, m2, m3)
        tol = 1e-12 if max(j1, j2, j3) <= 16 else 1e-9
        try:
            got = float(spherical.Wigner3j(j1, j2, j3, m1, m2, m3))
        except Exception as e:
            run.violation("Wigner3j-raised", "Wigner3j", inp, ex, repr(e))
            continue
        stratum = "selection-fails" if ex == 0.0 and (m1 + m2 + m3 != 0 or abs(m1) > j1 or abs(m2) > j2 or abs(m3) > j3 or j3 > j1 + j2 or j3 < abs(j1 - j2)) else "valid"
        run.gap_case("Wigner3j-vs-racah", tuple(inp.values()), stratum, {**inp, "exact": ex, "got": got})
        if stratum == "selection-fails" and got != 0.0:
            run.violation("selection-rule-not-exact-zero", "Wigner3j", inp, 0.0, got)
        elif not (abs(ex - got) <= tol):
            run.violation("3j-inaccurate", "Wigner3j", inp, ex, got)
        # Clebsch-Gordan <j1 m1 j2 m2 | j3 M> = (-1)^(j1-j2+M) sqrt(2 j3+1) 3j(j1 j2 j3; m1 m2 -M)
        M = m1 + m2 if rng.random() < 0.9 else rng.randint(-j3, j3)
        exc = (-1) ** (j1 - j2 + M) * math.sqrt(2 * j3 + 1) * oracle.w3j_exact(j1, j2, j3, m1, m2, -M)
        try:
            gotc = float(spherical.clebsch_gordan(j1, m1, j2, m2, j3, M))
        except Exception as e:
            run.violation("clebsch_gordan-raised", "clebsch_gordan", {**inp, "M": M}, exc, repr(e))
            continue
        run.gap_case("clebsch-gordan-vs-racah", (j1, m1, j2, m2, j3, M), "cg")
        if not (abs(exc - gotc) <= tol * math.sqrt(2 * j3 + 1) * 4):
            run.violation("clebsch-gordan-inaccurate", "clebsch_gordan", {"j1": j1, "m1": m1, "j2": j2, "m2": m2, "j3": j3, "M": M, "jmax": max(j1, j2, j3)}, exc, gotc)


def check(run):
    quick = run.tier == "quick"
    run.regenerate()
    run.lean_props(common.modules_for("C05"))
    rng = run.rng
    J = 5 if quick else 9
    cases = [(j2, j3, j2, j3, m2, m3) for (j2, j3, m2, m3) in exhaustive_cases(J)]
    # larger capacity than the request (C08 clause) and branch-targeted samples up to j=400
    tg = targeted(rng, 150 if quick else 1200, 400)
    cases += [(j2 + rng.randint(0, 3), j3 + rng.randint(0, 3), j2, j3, m2, m3) for (_, j2, j3, m2, m3) in tg]
    run.attempt("corr:corr_w3j", kern.corr_w3j, run, cases)
    # front ends vs model
    lines, exp = [], []
    import spherical
    for _ in range(300 if quick else 3000):
        jm = rng.choice([2, 5, 12, 40])
        a = [rng.randint(0, jm) for _ in range(3)]
        ms = [rng.randint(-a[0] - 1, a[0] + 1), rng.randint(-a[1] - 1, a[1] + 1)]
        ms.append(-ms[0] - ms[1] if rng.random() < 0.8 else rng.randint(-a[2], a[2]))
        try:
            v = kern.corr.bits(spherical.Wigner3j(a[0], a[1], a[2], ms[0], ms[1], ms[2]))
        except Exception:
            v = "raised"
        lines.append(f"w3j1 {a[0]} {a[1]} {a[2]} {ms[0]} {ms[1]} {ms[2]}")
        exp.append(v)
        if v != "raised":       # (the generated text has no exception but the one `raise` of calculate, which the front end cannot reach silently)
            lines.append(f"genw3j1 {a[0]} {a[1]} {a[2]} {ms[0]} {ms[1]} {ms[2]}")
            exp.append(v)
        try:
            v = kern.corr.bits(spherical.clebsch_gordan(a[0], ms[0], a[1], ms[1], a[2], -ms[2]))
        except Exception:
            v = "raised"
        lines.append(f"cg {a[0]} {ms[0]} {a[1]} {ms[1]} {a[2]} {-ms[2]}")
        exp.append(v)
        if v != "raised":
            lines.append(f"gencg {a[0]} {ms[0]} {a[1]} {ms[1]} {a[2]} {-ms[2]}")
            exp.append(v)
    out = run.driver(lines)
    if out is not None:
        nb = 0
        for l, o, e in zip(lines, out, exp):
            o2 = kern.corr.canon(o)
            run.corr_case("w3j-front-ends", l, l.split()[0], {"op": l, "value": o2} if nb == 0 else None)
            if o2 != e:
                nb += 1
                if nb <= 3:
                    run.corr_break("corr:w3j-front-ends", {"op": l, "model": o2, "impl": e})
    # gap monitor: exact Racah
    Jg = 6 if quick else 12
    gap_calculate(run, [("exhaustive", *c) for c in exhaustive_cases(Jg)])
    gap_calculate(run, tg)
    # non-trivial zeros: argument sets whose family contains an exact zero strictly inside the admissible j1 range that no selection rule
    # forces (corpus tools/w3j_zero_corpus.py -> vlib/data/w3j_nontrivial_zeros.npy: found with the library at the pinned commit, each
    # confirmed with the exact Racah sum).  There the forward and backward recurrences may have to meet on a vanishing term.  The zero and
    # its two neighbours are compared with the oracle: every corpus entry in the thorough tier, a sample (plus the largest) in the quick one.
    zpath = os.path.join(os.path.dirname(os.path.abspath(__file__)), "..", "data", "w3j_nontrivial_zeros.npy")
    if os.path.exists(zpath):
        zc = np.load(zpath).astype(int)
        if quick:
            idx = sorted(set(rng.sample(range(len(zc)), min(15000, len(zc)))) | set(range(max(0, len(zc) - 300), len(zc))))
            zc = zc[idx]
        gap_zeros(run, zc)
    gap_front_ends(run, 400 if quick else 4000, 400)
    run.assumptions += ["identification of the Luscombe-Luban solution with the Racah 3-j symbol and the 1e-9/1e-12 bounds are checked by the oracle only",
                        "int32 arguments are promoted to int64 for arithmetic by numba; the declared return type of B truncates (generated B_ret)"]


def replay(body):
    import spherical
    inp = body["input"]
    if body["site"] == "Wigner3j":
        print("implementation:", spherical.Wigner3j(inp["j1"], inp["j2"], inp["j3"], inp["m1"], inp["m2"], inp["m3"]),
              " exact:", oracle.w3j_exact(inp["j1"], inp["j2"], inp["j3"], inp["m1"], inp["m2"], inp["m3"]))
    elif body["site"].startswith("Wigner3jCalculator"):
        w = spherical.Wigner3jCalculator(inp["j2"], inp["j3"]).calculate(inp["j2"], inp["j3"], inp["m2"], inp["m3"])
        j1 = inp.get("j1", 0)
        print("implementation:", w[j1], " exact:", oracle.w3j_exact(j1, inp["j2"], inp["j3"], -(inp["m2"] + inp["m3"]), inp["m2"], inp["m3"]))
    else:
        print(body)
    return 0
