import SphericalVerif.Model.Sched
/-! C10 — calls given private workspaces are independent under every thread interleaving.
    (namespace `Sched`; shared by the C10 check.)  Core Lean only. -/
namespace Sched
open Model.Sched

section
variable {Buf V : Type}

/-- **Interleaving independence.**  `F` = the private region of thread `p`.  If every step of `p` reads only inside `F`
    and no step of the other thread(s) `q` writes inside `F`, then after ANY interleaving `r` of `p` and `q`, `F` holds
    exactly what `p` alone produces (from any initial memory that agrees on `F`).  "All other threads" can be taken as
    `q`, so the statement covers any number of threads. -/
theorem interleave_left (F : Buf → Prop) (p q r : List (Step Buf V)) (h : Interleave p q r)
    (hp : ∀ st ∈ p, (∀ b, st.reads b → F b))
    (hq : ∀ st ∈ q, ∀ b, st.writes b → ¬ F b) :
    ∀ s s' : St Buf V, (∀ b, F b → s b = s' b) → ∀ b, F b → runAll r s b = runAll p s' b := by
  induction h with
  | nil => intro s s' hs b hb; exact hs b hb
  | @left a p q r _ ih =>
    intro s s' hs b hb
    simp only [runAll, List.foldl_cons]
    apply ih (fun st hm => hp st (List.mem_cons_of_mem _ hm)) hq (a.run s) (a.run s') _ b hb
    intro b' hb'
    by_cases hw : a.writes b'
    · exact a.local_ s s' (fun c hc => hs c (hp a List.mem_cons_self c hc)) b' hw
    · rw [a.frame s b' hw, a.frame s' b' hw]; exact hs b' hb'
  | @right a p q r _ ih =>
    intro s s' hs b hb
    simp only [runAll, List.foldl_cons]
    apply ih hp (fun st hm => hq st (List.mem_cons_of_mem _ hm)) (a.run s) s' _ b hb
    intro b' hb'
    have : ¬ a.writes b' := fun hw => hq a List.mem_cons_self b' hw hb'
    rw [a.frame s b' this]; exact hs b' hb'

/-- symmetric statement for the second thread -/
theorem interleave_right (F : Buf → Prop) (p q r : List (Step Buf V)) (h : Interleave p q r)
    (hq : ∀ st ∈ q, (∀ b, st.reads b → F b))
    (hp : ∀ st ∈ p, ∀ b, st.writes b → ¬ F b) :
    ∀ s s' : St Buf V, (∀ b, F b → s b = s' b) → ∀ b, F b → runAll r s b = runAll q s' b := by
  induction h with
  | nil => intro s s' hs b hb; exact hs b hb
  | @right a p q r _ ih =>
    intro s s' hs b hb
    simp only [runAll, List.foldl_cons]
    apply ih (fun st hm => hq st (List.mem_cons_of_mem _ hm)) hp (a.run s) (a.run s') _ b hb
    intro b' hb'
    by_cases hw : a.writes b'
    · exact a.local_ s s' (fun c hc => hs c (hq a List.mem_cons_self c hc)) b' hw
    · rw [a.frame s b' hw, a.frame s' b' hw]; exact hs b' hb'
  | @left a p q r _ ih =>
    intro s s' hs b hb
    simp only [runAll, List.foldl_cons]
    apply ih hq (fun st hm => hp st (List.mem_cons_of_mem _ hm)) (a.run s) s' _ b hb
    intro b' hb'
    have : ¬ a.writes b' := fun hw => hp a List.mem_cons_self b' hw hb'
    rw [a.frame s b' this]; exact hs b' hb'

/-- buffers nobody writes (the default workspace, the coefficient tables) are unchanged by every interleaving -/
theorem interleave_untouched (p q r : List (Step Buf V)) (h : Interleave p q r) (b : Buf)
    (hp : ∀ st ∈ p, ¬ st.writes b) (hq : ∀ st ∈ q, ¬ st.writes b) (s : St Buf V) :
    runAll r s b = s b := by
  induction h generalizing s with
  | nil => rfl
  | @left a p q r _ ih =>
    simp only [runAll, List.foldl_cons]
    have := ih (fun st hm => hp st (List.mem_cons_of_mem _ hm)) hq (a.run s)
    simp only [runAll] at this; rw [this, a.frame s b (hp a List.mem_cons_self)]
  | @right a p q r _ ih =>
    simp only [runAll, List.foldl_cons]
    have := ih hp (fun st hm => hq st (List.mem_cons_of_mem _ hm)) (a.run s)
    simp only [runAll] at this; rw [this, a.frame s b (hq a List.mem_cons_self)]

end

/-! ### The wiring of the methods satisfies the hypotheses -/

/-- every kernel of a call that was given private workspace `k` reads only inside region `k` -/
theorem private_call_reads_in_region (m : Method) (k : Nat) :
    ∀ f ∈ callSteps m k (.private_ k), ∀ b ∈ f.reads, region k b := by
  cases m <;> simp [callSteps, footH, wsBuf, region]

/-- … and writes only inside region `k`, never the tables -/
theorem private_call_writes_in_region (m : Method) (k : Nat) :
    ∀ f ∈ callSteps m k (.private_ k), ∀ b ∈ f.writes, region k b ∧ b ≠ .tables := by
  cases m <;> simp [callSteps, footH, wsBuf, region]

/-- regions of different calls only share the (never written) tables: a write of call `k'` never lands in region `k` -/
theorem private_calls_noninterfering (m : Method) (k k' : Nat) (h : k ≠ k') :
    ∀ f ∈ callSteps m k' (.private_ k'), ∀ b ∈ f.writes, ¬ region k b := by
  cases m <;> simp [callSteps, footH, wsBuf, region] <;> omega

/-- no kernel of a private-workspace call mentions the default workspace -/
theorem private_call_avoids_default (m : Method) (k : Nat) (p : Part) :
    ∀ f ∈ callSteps m k (.private_ k), .dflt p ∉ f.reads ∧ .dflt p ∉ f.writes := by
  cases m <;> simp [callSteps, footH, wsBuf]

/-- no kernel of any call writes the coefficient tables -/
theorem tables_never_written (m : Method) (k : Nat) (ws : WS) :
    ∀ f ∈ callSteps m k ws, Buf.tables ∉ f.writes := by
  cases m <;> cases ws <;> simp [callSteps, footH, wsBuf]

/-! ### Any number of threads -/

section
variable {Buf V : Type}

/-- `InterleaveN ps r`: `r` is an interleaving of the thread programs `ps` (any number of threads; each keeps its order) -/
inductive InterleaveN : List (List (Step Buf V)) → List (Step Buf V) → Prop
  | done {ps} : (∀ p ∈ ps, p = []) → InterleaveN ps []
  | step {ps r} (k : Nat) (a : Step Buf V) (rest : List (Step Buf V)) :
      ps[k]? = some (a :: rest) → InterleaveN (ps.set k rest) r → InterleaveN ps (a :: r)

/-- **n threads.**  Thread `i` reads only inside its region `F`; no step of any OTHER thread writes inside `F`.  Then after
    every interleaving of all the threads, `F` holds exactly what thread `i` alone produces. -/
theorem interleaveN_indep (F : Buf → Prop) (i : Nat) :
    ∀ (ps : List (List (Step Buf V))) (r : List (Step Buf V)), InterleaveN ps r →
    ∀ (p : List (Step Buf V)), ps[i]? = some p →
    (∀ st ∈ p, ∀ b, st.reads b → F b) →
    (∀ j q, j ≠ i → ps[j]? = some q → ∀ st ∈ q, ∀ b, st.writes b → ¬ F b) →
    ∀ s s' : St Buf V, (∀ b, F b → s b = s' b) → ∀ b, F b → runAll r s b = runAll p s' b := by
  intro ps r h
  induction h with
  | @done ps hall =>
    intro p hp _ _ s s' hs b hb
    have : p = [] := hall p (List.mem_of_getElem? hp)
    subst this; exact hs b hb
  | @step ps r k a rest hk _ ih =>
    intro p hp hreads hothers s s' hs b hb
    simp only [runAll, List.foldl_cons]
    by_cases hki : k = i
    · subst hki
      have hpe : p = a :: rest := by rw [hk] at hp; exact (Option.some.inj hp).symm
      subst hpe
      have hlen : k < ps.length := by
        rcases List.getElem?_eq_some_iff.mp hk with ⟨h, _⟩; exact h
      have := ih rest (by simp [hlen])
        (fun st hm => hreads st (List.mem_cons_of_mem _ hm))
        (fun j q hj hq => by
          have : ps[j]? = some q := by
            rw [List.getElem?_set] at hq
            simpa [Ne.symm hj] using hq
          exact hothers j q hj this)
        (a.run s) (a.run s') ?_ b hb
      · simpa [runAll] using this
      · intro b' hb'
        by_cases hw : a.writes b'
        · exact a.local_ s s' (fun c hc => hs c (hreads a List.mem_cons_self c hc)) b' hw
        · rw [a.frame s b' hw, a.frame s' b' hw]; exact hs b' hb'
    · have hnw : ∀ b', F b' → ¬ a.writes b' := fun b' hb' hw =>
        hothers k (a :: rest) hki hk a List.mem_cons_self b' hw hb'
      have := ih p (by rw [List.getElem?_set]; simp [hki, hp])
        hreads
        (fun j q hj hq => by
          rw [List.getElem?_set] at hq
          by_cases hjk : k = j
          · subst hjk
            have hq' : q = rest := by
              have h2 := hq
              simp at h2
              exact h2.2.symm
            subst hq'
            intro st hm
            exact hothers k (a :: q) hj hk st (List.mem_cons_of_mem _ hm)
          · simp [hjk] at hq
            exact hothers j q hj hq)
        (a.run s) s' ?_ b hb
      · simpa [runAll] using this
      · intro b' hb'
        rw [a.frame s b' (hnw b' hb')]; exact hs b' hb'

end

/-- non-vacuity: a `D` call with private workspace 0 has nine kernel steps, all inside region 0 -/
example : (callSteps .D 0 (.private_ 0)).length = 9 := by decide

end Sched
