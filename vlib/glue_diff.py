"""Bit-for-bit correspondence of the Lean model `Model/Operators.lean` (run at Float by the compiled driver, ops
`diff …` of Driver/DiffOps.lean) with the differential operators of spherical/modes/derivatives.py, the array-level
operators of spherical/utilities/operators.py and the conversions of spherical/utilities/mode_conversions.py.

Three layers for the Modes operators:
  coef     every output weight of an all-ones Modes object is the model coefficient (`diff coef`), bit for bit;
  entry    on random / special inputs every touched output weight equals numpy's own product of the MODEL
           coefficient with the input weight (`real * complex` as numpy does it), bit for bit;
  modesop  the whole output object (new spin, new ell_max, every cell incl. the untouched/zeroed ones) equals the
           model operator applied to the same weights (`diff modesop`), bit for bit.
Array-level operators and conversions are compared as whole outputs (`diff arrayop`, `diff conv`).
A disagreement is a broken tie (`corr:operators`); the default repair is to the model."""
import math

import numpy as np

from .corr import bits, fbits, canon, tofloat, first_diff

KIND = "operators"
MODES_OPS = ["Lsquared", "Lz", "Lplus", "Lminus", "Rsquared", "Rz", "Rplus", "Rminus", "eth", "ethbar"]
ARRAY_OPS = ["eth_GHP", "ethbar_GHP", "eth_NP", "ethbar_NP", "ethbar_inverse_NP"]
SPECIAL = [0.0, -0.0, 1.0, -1.5, 1e-310, -4e-320, 1e300, 2.0 ** -1022, 3.0]
NONFINITE = [float("inf"), -float("inf"), float("nan")]


def apply_op(f, name):
    a = getattr(f, name)
    return a() if callable(a) else a


def cx_bits(a):
    a = np.ascontiguousarray(np.asarray(a, dtype=complex)).view(np.float64).ravel()
    return [bits(v) for v in a]


def cx_send(a):
    a = np.ascontiguousarray(np.asarray(a, dtype=complex)).view(np.float64).ravel()
    return " ".join(fbits(v) for v in a)


class Batch:
    def __init__(self, run):
        self.run = run
        self.items = []

    def add(self, line, expect, meta, stratum):
        self.items.append((line, expect, meta, stratum))

    def flush(self):
        if not self.items:
            return 0
        out = self.run.driver([it[0] for it in self.items])
        nbad = 0
        if out is None or len(out) != len(self.items):
            self.run.corr_break("corr:operators", "driver failed")
            self.items = []
            return 1
        for (line, expect, meta, stratum), o in zip(self.items, out):
            got = [canon(t) for t in o.split()]
            ok = got == expect
            self.run.corr_case(KIND, line[:300], stratum, {**meta, "n_values": len(expect)} if ok else None)
            if not ok:
                nbad += 1
                if nbad <= 3:
                    i = first_diff(got, expect)
                    self.run.corr_break("corr:operators", {"case": meta, "stratum": stratum, "first_diff_at": i,
                                                           "model": got[i] if i is not None and i < len(got) else None,
                                                           "impl": expect[i] if i is not None and i < len(expect) else None})
        self.items = []
        return nbad


def rand_weights(rng, n, kind):
    if kind == "ones":
        return np.ones(n, dtype=complex)
    if kind == "special":
        return np.array([complex(rng.choice(SPECIAL), rng.choice(SPECIAL)) for _ in range(n)])
    if kind == "nonfinite":
        pool = SPECIAL + NONFINITE
        return np.array([complex(rng.choice(pool), rng.choice(pool)) for _ in range(n)])
    if kind == "single":
        a = np.zeros(n, dtype=complex)
        a[rng.randrange(n)] = complex(rng.gauss(0, 1), rng.gauss(0, 1))
        return a
    if kind == "dynamic":
        return np.array([complex(rng.gauss(0, 1) * 10.0 ** rng.uniform(-200, 200), rng.gauss(0, 1) * 10.0 ** rng.uniform(-200, 200)) for _ in range(n)])
    return np.array([complex(rng.gauss(0, 1), rng.gauss(0, 1)) for _ in range(n)])


def touched(name, s, ell, m):
    """(coefficient is applied to input entry (ell, m_in)) or None when the code does not multiply this cell"""
    if name in ("Lsquared", "Rsquared", "Lz"):
        return m if ell >= abs(s) else None
    if name == "Lplus":
        return m - 1 if ell >= abs(s) and m > -ell else None
    if name == "Lminus":
        return m + 1 if ell >= abs(s) and m < ell else None
    if name == "Rz":
        return m
    if name in ("Rplus", "ethbar"):
        return m if ell >= max(abs(s), abs(s - 1)) else None
    if name in ("Rminus", "eth"):
        return m if ell >= max(abs(s), abs(s + 1)) else None
    raise KeyError(name)


COEF_NAME = {"Lsquared": "L2", "Rsquared": "L2"}
ARRAY_LEFT = ("Lsquared", "Rsquared", "Lz")      # `array *= int`  (array is the left operand)


def corr_modes(run, quick):
    import spherical
    rng = run.rng
    spins = [-5, -2, -1, 0, 1, 3] if quick else list(range(-5, 6))
    Ls = [0, 1, 2, 3, 6, 10] if quick else list(range(0, 11))
    # ---- layer 1: coefficients from all-ones objects
    lines, refs = [], []
    for s in spins:
        for L in Ls:
            f = spherical.Modes(np.ones((L + 1) ** 2, dtype=complex), spin_weight=s, ell_min=0, ell_max=L)
            for name in MODES_OPS:
                g = apply_op(f, name).ndarray
                for ell in range(L + 1):
                    for m in range(-ell, ell + 1):
                        if touched(name, s, ell, m) is None:
                            continue
                        if name == "Rz" and ell < abs(s):
                            continue    # re-zeroed by the constructor
                        lines.append(f"diff coef {COEF_NAME.get(name, name)} {s} {ell} {m}")
                        refs.append((name, s, L, ell, m, complex(g[ell * (ell + 1) + m])))
    out = run.driver(lines)
    coefs = {}
    nbad = 0
    if out is None:
        run.corr_break("corr:operators", "driver failed")
        return 1
    for line, o, (name, s, L, ell, m, z) in zip(lines, out, refs):
        ok = canon(o.strip()) == bits(z.real) and z.imag == 0.0
        coefs[(name, s, ell, m)] = tofloat(canon(o.strip())) if o.strip() not in ("bad-op", "skip") else None
        run.corr_case(KIND, line + f" L={L}", "coef:" + name, {"op": line, "impl": repr(z)} if ok else None)
        if not ok:
            nbad += 1
            if nbad <= 3:
                run.corr_break("corr:operators", {"layer": "coef", "op": name, "s": s, "ell_max": L, "ell": ell, "m": m, "model_bits": o, "impl": repr(z)})
    # ---- layers 2, 3
    b = Batch(run)
    kinds = ["random", "special", "single", "nonfinite"] + ([] if quick else ["dynamic", "random"])
    leads = [(), (2,), (2, 3)]
    for s in spins:
        for L in Ls:
            n = (L + 1) ** 2
            for ki, kind in enumerate(kinds):
                lead = leads[(ki + L + s) % 3] if kind in ("random", "special") else ()
                nl = int(np.prod(lead)) if lead else 1
                a = np.concatenate([rand_weights(rng, n, kind) for _ in range(nl)]).reshape(lead + (n,))
                f = spherical.Modes(a, spin_weight=s, ell_min=0, ell_max=L)
                fin = f.ndarray.copy()
                rows_in = fin.reshape(-1, n)
                for name in MODES_OPS:
                    with np.errstate(all="ignore"):
                        g = apply_op(f, name)
                    gs, gL = g.spin_weight, g.ell_max
                    gout = g.ndarray
                    meta0 = {"op": name, "s": s, "ell_max": L, "lead": list(lead), "kind": kind}
                    if gout.shape != lead + ((gL + 1) ** 2,):
                        run.corr_break("corr:operators", {**meta0, "shape": list(gout.shape)})
                        continue
                    rows_out = gout.reshape(-1, (gL + 1) ** 2)
                    # layer 2: entrywise, numpy's own product of the model coefficient with the input weight
                    if kind != "ones":
                        for r in range(rows_in.shape[0]):
                            for ell in range(L + 1):
                                for m in range(-ell, ell + 1):
                                    mi = touched(name, s, ell, m)
                                    if mi is None or (name == "Rz" and ell < abs(s)):
                                        continue
                                    c = coefs.get((name, s, ell, m))
                                    if c is None:
                                        continue
                                    zin = rows_in[r, ell * (ell + 1) + mi: ell * (ell + 1) + mi + 1]
                                    with np.errstate(all="ignore"):
                                        if name == "ethbar":          # the code negates the product with the positive coefficient
                                            e = -((-c) * zin)
                                        elif name in ARRAY_LEFT:      # `array *= python int`
                                            e = zin * int(c)
                                        elif name == "Rz":            # `python int * array`
                                            e = int(c) * zin
                                        else:                         # `python float * array`
                                            e = c * zin
                                    z = rows_out[r, ell * (ell + 1) + m]
                                    if cx_bits(e) != cx_bits([z]):
                                        nbad += 1
                                        if nbad <= 3:
                                            run.corr_break("corr:operators", {"layer": "entry", **meta0, "row": r, "ell": ell, "m": m, "coef": c,
                                                                              "input": repr(complex(zin[0])), "impl": repr(complex(z)), "model": repr(complex(e[0]))})
                            run.corr_case(KIND, ("entry", name, s, L, kind, lead, r), "entry:" + name)
                    # layer 3: whole object
                    for r in range(rows_in.shape[0]):
                        b.add(f"diff modesop {name} {s} {L} " + cx_send(rows_in[r]), [f"s={gs}", f"L={gL}"] + cx_bits(rows_out[r]),
                              {**meta0, "row": r}, f"modesop:{name}:{kind}")
                        if name in GEN_LOOPS:
                            # the loop GENERATED from the method's text (Gen/DiffKern.lean), on the executable flat memory
                            b.add(f"diff genmodesop {name} {s} {L} " + cx_send(rows_in[r]), [f"s={gs}", f"L={gL}"] + cx_bits(rows_out[r]),
                                  {**meta0, "row": r, "model": "generated"}, f"genmodesop:{name}:{kind}")
                if not np.array_equal(f.ndarray.view(np.float64), fin.view(np.float64), equal_nan=True):
                    run.corr_break("corr:operators", {"layer": "input-mutated", "s": s, "ell_max": L})
        nbad += b.flush()
    return nbad


GEN_LOOPS = ("Lsquared", "Rsquared", "Lz", "Lplus", "Lminus", "Rplus", "Rminus", "eth")


def corr_arrays(run, quick):
    import spherical
    from spherical import LM_total_size
    rng = run.rng
    fns = {nm: getattr(spherical, nm) for nm in ARRAY_OPS}
    spins = list(range(-3, 4)) if quick else list(range(-5, 6))
    LM = 8 if quick else 12
    nbad = 0
    # inferred ell_max
    lines, exp = [], []
    for ell_min in range(0, 8):
        for n in list(range(0, 60)) + [rng.randrange(60, 5000) for _ in range(10)]:
            lines.append(f"diff ellmax {n} {ell_min}")
            exp.append(int(math.sqrt(n + LM_total_size(0, ell_min - 1))) - 1)
    out = run.driver(lines)
    if out is None:
        run.corr_break("corr:operators", "driver failed")
        return 1
    for line, o, e in zip(lines, out, exp):
        ok = o.strip() == str(e)
        run.corr_case(KIND, line, "inferred-ell_max", {"op": line, "ell_max": e} if ok else None)
        if not ok:
            nbad += 1
            if nbad <= 3:
                run.corr_break("corr:operators", {"layer": "ellmax", "op": line, "model": o, "impl": e})
    # factors from all-ones arrays + whole arrays
    b = Batch(run)
    for s in spins:
        coef_lines, coef_ref = [], []
        for ell_max in range(0, LM + 1):
            for ell_min in range(0, ell_max + 1):
                n = (ell_max + 1) ** 2 - ell_min ** 2
                kinds = ["ones", "random"] + (["special"] if (ell_max + ell_min + s) % 3 == 0 else []) + (["nonfinite"] if (ell_max + ell_min + s) % 5 == 0 else [])
                for kind in kinds:
                    a = rand_weights(rng, n, kind)
                    for nm, fn in fns.items():
                        with np.errstate(all="ignore"):
                            r = fn(a.copy(), s, ell_min)
                        meta = {"op": nm, "s": s, "ell_min": ell_min, "ell_max": ell_max, "kind": kind}
                        b.add(f"diff arrayop {nm} {s} {ell_min} {n} " + cx_send(a), cx_bits(r), meta, f"arrayop:{nm}:{kind}")
                        b.add(f"diff genarrayop {nm} {s} {ell_min} {n} " + cx_send(a), cx_bits(r), {**meta, "model": "generated"}, f"genarrayop:{nm}:{kind}")
                        if kind == "ones" and ell_min == 0 and nm != "ethbar_inverse_NP":
                            for ell in range(ell_max + 1):
                                coef_lines.append(f"diff coef {nm.replace('_', '')} {s} {ell} 0")
                                coef_ref.append((nm, ell_max, ell, complex(r[ell * (ell + 1)])))
        # a few lengths that are not (ell_max+1)^2 - ell_min^2: trailing entries must stay untouched
        for _ in range(6 if quick else 20):
            ell_min = rng.randrange(0, 5)
            n = rng.randrange(0, 80)
            a = rand_weights(rng, n, "random")
            for nm, fn in fns.items():
                r = fn(a.copy(), s, ell_min)
                b.add(f"diff arrayop {nm} {s} {ell_min} {n} " + cx_send(a), cx_bits(r), {"op": nm, "s": s, "ell_min": ell_min, "n": n, "kind": "odd-length"}, f"arrayop:{nm}:odd-length")
                b.add(f"diff genarrayop {nm} {s} {ell_min} {n} " + cx_send(a), cx_bits(r), {"op": nm, "s": s, "ell_min": ell_min, "n": n, "kind": "odd-length", "model": "generated"}, f"genarrayop:{nm}:odd-length")
        nbad += b.flush()
        out = run.driver(coef_lines) if coef_lines else []
        if out is None:
            run.corr_break("corr:operators", "driver failed")
            return nbad + 1
        for line, o, (nm, ell_max, ell, z) in zip(coef_lines, out, coef_ref):
            ok = canon(o.strip()) == bits(z.real)
            run.corr_case(KIND, line + f" L={ell_max}", "coef:" + nm, {"op": line, "impl": repr(z)} if ok else None)
            if not ok:
                nbad += 1
                if nbad <= 3:
                    run.corr_break("corr:operators", {"layer": "array-coef", "op": nm, "s": s, "ell": ell, "model_bits": o, "impl": repr(z)})
    return nbad


def corr_conv(run, quick):
    import spherical
    rng = run.rng
    K = (math.sqrt(4 * math.pi), math.sqrt(2 * math.pi / 3.), math.sqrt(4 * math.pi / 3.))
    Ks = " ".join(fbits(k) for k in K)
    b = Batch(run)
    N = 25 if quick else 200

    def rnd(kind):
        if kind == "special":
            return rng.choice(SPECIAL)
        if kind == "nonfinite":
            return rng.choice(SPECIAL + NONFINITE)
        if kind == "dynamic":
            return rng.gauss(0, 1) * 10.0 ** rng.uniform(-300, 300)
        return rng.gauss(0, 3)
    kinds = ["random", "random", "special", "dynamic", "nonfinite"]
    for i in range(N):
        kind = kinds[i % len(kinds)]
        with np.errstate(all="ignore"):
            # constants: complex / float, scalar and arrays
            c = complex(rnd(kind), rnd(kind))
            b.add(f"diff conv cas {Ks} {cx_send([c])}", cx_bits([spherical.constant_as_ell_0_mode(c)]), {"op": "constant_as_ell_0_mode", "c": repr(c)}, "conv:constant_as:" + kind)
            b.add(f"diff conv cfrom {Ks} {cx_send([c])}", cx_bits([spherical.constant_from_ell_0_mode(c)]), {"op": "constant_from_ell_0_mode", "w": repr(c)}, "conv:constant_from:" + kind)
            x = float(rnd(kind))
            b.add(f"diff conv casR {Ks} {fbits(x)}", [bits(spherical.constant_as_ell_0_mode(x))], {"op": "constant_as_ell_0_mode", "c": repr(x)}, "conv:constant_as(float):" + kind)
            b.add(f"diff conv cfromR {Ks} {fbits(x)}", [bits(spherical.constant_from_ell_0_mode(x))], {"op": "constant_from_ell_0_mode", "w": repr(x)}, "conv:constant_from(float):" + kind)
            # vectors: complex, float
            v = np.array([complex(rnd(kind), rnd(kind)) for _ in range(3)])
            b.add(f"diff conv vas {Ks} {cx_send(v)}", cx_bits(spherical.vector_as_ell_1_modes(v)), {"op": "vector_as_ell_1_modes", "v": [repr(complex(t)) for t in v]}, "conv:vector_as(complex):" + kind)
            b.add(f"diff conv vfrom {Ks} {cx_send(v)}", cx_bits(spherical.vector_from_ell_1_modes(v)), {"op": "vector_from_ell_1_modes", "w": [repr(complex(t)) for t in v]}, "conv:vector_from:" + kind)
            vr = np.array([float(rnd(kind)) for _ in range(3)])
            b.add(f"diff conv vasR {Ks} {' '.join(fbits(t) for t in vr)}", cx_bits(spherical.vector_as_ell_1_modes(vr)), {"op": "vector_as_ell_1_modes", "v": [repr(float(t)) for t in vr]}, "conv:vector_as(float):" + kind)
    # arrays of constants / vectors along the last axis
    for shape in [(2,), (2, 3), (1, 2, 2)] + ([] if quick else [(4, 1), (3, 2, 2)]):
        nv = int(np.prod(shape))
        with np.errstate(all="ignore"):
            C = np.array([complex(rnd("random"), rnd("special")) for _ in range(nv)]).reshape(shape)
            Wc, Cb = spherical.constant_as_ell_0_mode(C), spherical.constant_from_ell_0_mode(C)
            V = np.array([complex(rnd("random"), rnd("random")) for _ in range(nv * 3)]).reshape(shape + (3,))
            VR = np.array([float(rnd("random")) for _ in range(nv * 3)]).reshape(shape + (3,))
            Wv, Wr, Vb = spherical.vector_as_ell_1_modes(V), spherical.vector_as_ell_1_modes(VR), spherical.vector_from_ell_1_modes(V)
        ok_shape = Wc.shape == shape and Cb.shape == shape and Wv.shape == shape + (3,) and Wr.shape == shape + (3,) and Vb.shape == shape + (3,)
        if not ok_shape:
            run.corr_break("corr:operators", {"layer": "conv-array-shape", "shape": list(shape)})
            continue
        st = "conv:arrays"
        for i in range(nv):
            meta = {"shape": list(shape), "i": i}
            b.add(f"diff conv cas {Ks} {cx_send([C.reshape(-1)[i]])}", cx_bits([Wc.reshape(-1)[i]]), {"op": "constant_as_ell_0_mode[array]", **meta}, st)
            b.add(f"diff conv cfrom {Ks} {cx_send([C.reshape(-1)[i]])}", cx_bits([Cb.reshape(-1)[i]]), {"op": "constant_from_ell_0_mode[array]", **meta}, st)
            b.add(f"diff conv vas {Ks} {cx_send(V.reshape(-1, 3)[i])}", cx_bits(Wv.reshape(-1, 3)[i]), {"op": "vector_as_ell_1_modes[array]", **meta}, st)
            b.add(f"diff conv vasR {Ks} {' '.join(fbits(t) for t in VR.reshape(-1, 3)[i])}", cx_bits(Wr.reshape(-1, 3)[i]), {"op": "vector_as_ell_1_modes[float array]", **meta}, st)
            b.add(f"diff conv vfrom {Ks} {cx_send(V.reshape(-1, 3)[i])}", cx_bits(Vb.reshape(-1, 3)[i]), {"op": "vector_from_ell_1_modes[array]", **meta}, st)
    return b.flush()


def corr_algebra(run, quick):
    """the loops of Modes.conjugate / _real_func / _imag_func GENERATED from spherical/modes/algebra.py (Gen/AlgKern.lean), both the
    fresh-output and the in-place form, against the real methods, bit for bit"""
    import spherical
    rng = run.rng
    b = Batch(run)
    nbad = 0
    for L in ([0, 1, 2, 4] if quick else [0, 1, 2, 3, 4, 6, 9]):
        for s in ([-2, -1, 0, 1, 3] if quick else range(-4, 5)):
            if abs(s) > L and L > 0 and s not in (0, 1):
                continue
            for kind in ["random", "special", "nonfinite", "single"]:
                n = (L + 1) ** 2
                a = rand_weights(rng, n, kind)
                f = spherical.Modes(a.copy(), spin_weight=s, ell_min=0, ell_max=L)
                fin = f.ndarray.copy()
                cases = [("conjugate", lambda g: g.conjugate()), ("conjugate_inplace", lambda g: g.conjugate(inplace=True))]
                if s == 0:
                    cases += [("real", lambda g: g.real), ("real_inplace", lambda g: g._real_func(True)),
                              ("imag", lambda g: g.imag), ("imag_inplace", lambda g: g._imag_func(True))]
                for name, fn in cases:
                    g = f.copy()
                    with np.errstate(all="ignore"):
                        r = fn(g)
                    meta = {"op": name, "s": s, "ell_max": L, "kind": kind, "model": "generated"}
                    if name.endswith("_inplace") and r is not g:
                        run.corr_break("corr:operators", {**meta, "layer": "in-place call did not return the receiver"})
                        nbad += 1
                    b.add(f"diff genalgop {name} {s} {L} " + cx_send(fin), cx_bits(r.ndarray), meta, f"genalgop:{name}:{kind}")
    # the row placement of `m1 ± m2` (np.add / np.subtract branch of __array_ufunc__), incl. `out=` aliasing an operand
    for (L1, L2) in ([(0, 0), (1, 3), (3, 1), (2, 2), (4, 0)] if quick else [(a, c) for a in range(0, 5) for c in range(0, 5)]):
        for s in (0, -1, 2):
            if abs(s) > min(L1, L2):
                continue
            for kind in ["random", "special", "nonfinite"]:
                w1 = rand_weights(rng, (L1 + 1) ** 2, kind)
                w2 = rand_weights(rng, (L2 + 1) ** 2, "random" if kind == "nonfinite" else kind)
                f1 = spherical.Modes(w1.copy(), spin_weight=s, ell_min=0, ell_max=L1)
                f2 = spherical.Modes(w2.copy(), spin_weight=s, ell_min=0, ell_max=L2)
                send = cx_send(np.concatenate([f1.ndarray, f2.ndarray]))
                for name, fn in (("add", lambda x, y: x + y), ("subtract", lambda x, y: x - y)):
                    forms = [("operator", lambda: fn(f1.copy(), f2.copy()))]
                    if L1 >= L2:
                        def inplace(name=name):
                            g = f1.copy()
                            return np.add(g, f2, out=g) if name == "add" else np.subtract(g, f2, out=g)
                        forms.append(("out-is-first-operand", inplace))
                    for form, call in forms:
                        with np.errstate(all="ignore"):
                            r = call()
                        b.add(f"diff genaddrows {name} {L1} {L2} " + send, cx_bits(r.ndarray), {"op": name, "s": s, "L1": L1, "L2": L2, "kind": kind, "form": form, "model": "generated"},
                              f"genaddrows:{name}:{form}:{kind}")
    return nbad + b.flush()


def corr(run, quick, parts=("modes", "arrays", "conv")):
    """returns the number of disagreements (each also recorded as a `corr:operators` break)"""
    nbad = 0
    if "modes" in parts:
        nbad += corr_modes(run, quick)
    if "arrays" in parts:
        nbad += corr_arrays(run, quick)
    if "conv" in parts:
        nbad += corr_conv(run, quick)
    if "algebra" in parts:
        nbad += corr_algebra(run, quick)
    return nbad
