import SphericalVerif.Model.W3j
/-! Instrumented twin of `Model.W3j.calculate` (core Lean only, no Mathlib).

    The accessors of the model (`geti`/`seti`: `getD`/`set!` after `Int.toNat`) are total: an index
    outside the buffer is silently ignored, whereas the numba kernel (compiled without bounds checks)
    would read or corrupt foreign memory (and a negative index would wrap around).  To *state* memory
    safety we run the same program in a writer monad `Chk β = β × Bool` whose second component records
    whether ANY index `i` handed to an accessor satisfied `i < 0 ∨ size ≤ i` (tested on the `Int`,
    before `toNat`).

    `calculateChk` is the text of `calculate` with `geti a i ↦ (← getC size a i)`,
    `seti a i v ↦ (← setC size a i v)`, and the slice helpers replaced by their element-by-element
    checked versions.  Control flow and arithmetic are copied verbatim.  `Lemmas/W3jBounds.lean` proves
    that its first component IS `calculate` (for every `Scalar α`). -/
namespace Model.W3j
open Scalar
variable {α : Type} [Scalar α]

/-- value and "some index was out of range" -/
def Chk (β : Type) : Type := β × Bool

instance : Monad Chk where
  map f x := (f x.1, x.2)
  pure a := (a, false)
  bind x f := ((f x.1).1, x.2 || (f x.1).2)

/-- index `i` is outside a buffer of `size` cells -/
def oobIdx (size : Nat) (i : Int) : Bool := decide (i < 0 ∨ (size : Int) ≤ i)

/-- checked read: the value of `geti`, flag raised if `i` is out of range -/
def getC (size : Nat) (a : Array α) (i : Int) : Chk α := (geti a i, oobIdx size i)
/-- checked write: the effect of `seti`, flag raised if `i` is out of range -/
def setC (size : Nat) (a : Array α) (i : Int) (v : α) : Chk (Array α) := (seti a i v, oobIdx size i)

/-- `a[lo:hi+1] /= x`, element by element through the checked accessors -/
def divRangeC (size : Nat) (a : Array α) (lo hi : Int) (x : α) : Chk (Array α) :=
  loopN (hi + 1 - lo).toNat (fun k (s : Chk (Array α)) => do
    let a ← s
    setC size a (lo + k) ((← getC size a (lo + k)) /. x)) (pure a)
/-- `a[lo:hi+1] *= x` -/
def mulRangeC (size : Nat) (a : Array α) (lo hi : Int) (x : α) : Chk (Array α) :=
  loopN (hi + 1 - lo).toNat (fun k (s : Chk (Array α)) => do
    let a ← s
    setC size a (lo + k) ((← getC size a (lo + k)) *. x)) (pure a)
/-- `dst[lo:hi+1] = src[lo:hi+1]` -/
def copyRangeC (size : Nat) (dst src : Array α) (lo hi : Int) : Chk (Array α) :=
  loopN (hi + 1 - lo).toNat (fun k (s : Chk (Array α)) => do
    let d ← s
    setC size d (lo + k) (← getC size src (lo + k))) (pure dst)

def normalizeC (size : Nat) (f : Array α) (jmin jmax : Int) : Chk (Array α) := do
  let norm : α ← loopN (jmax + 1 - jmin).toNat (fun k (s : Chk α) => do
    let n ← s
    let j := jmin + k
    let v ← getC size f j
    pure (n +. ((ofInt (2*j+1) : α) *. (v *. v)))) (pure zero)
  divRangeC size f jmin jmax (sqrt norm)

def determineSignsC (size : Nat) (f : Array α) (jmin jmax j2 j3 m2 m3 : Int) : Chk (Array α) := do
  let p := parity (j2 - j3 + m2 + m3)
  let v ← getC size f jmax
  if (lt0 v && decide (p > 0)) || (gt0 v && decide (p < 0)) then
    mulRangeC size f jmin jmax (ofInt (-1)) else pure f

/-- `Model.W3j.calculate` with checked accessors: `.1` is the output, `.2` the out-of-range flag. -/
def calculateChk (size : Nat) (ws : Array α) (j2 j3 m2 m3 : Int) : Chk (Out α) := do
  let m1 : Int := -(m2 + m3)
  let scale : α := ofInt 1000
  -- self.workspace[:] = 0.0 ; four views of length `size`
  let w0 : Array α := ws.map (fun _ => zero)
  let mut f : Array α := w0.extract 0 size
  let mut sf : Array α := w0.extract size (2*size)      -- also `rf`
  let mut Fm : Array α := w0.extract (2*size) (3*size)
  let mut Fp : Array α := w0.extract (3*size) (4*size)
  let jmin : Int := max ((j2 - j3).natAbs : Int) ((m2 + m3).natAbs : Int)
  let jmax : Int := j2 + j3
  if (m2.natAbs : Int) > j2 || (m3.natAbs : Int) > j3 then return ⟨f, false⟩
  if jmax < jmin then return ⟨f, false⟩
  if jmax = jmin then
    let v : α := one /. sqrt (((ofInt 2 : α) *. ofInt jmin) +. one)
    let p := parity (j2 - j3 + m2 + m3)
    let v := if (lt0 v && decide (p > 0)) || (gt0 v && decide (p < 0)) then v *. ofInt (-1) else v
    return ⟨← setC size f jmin v, false⟩
  -- forward iteration over the first non-classical region
  let mut undefMin := false
  let mut undefMax := false
  let mut jminus : Int := jmin
  let XfMin : α := Xf jmin j2 j3 m1
  let YfMin : α := Yf jmin j2 j3 m2 m3
  if m1 = 0 && m2 = 0 && m3 = 0 then
    Fm ← setC size Fm jmin one
    Fm ← setC size Fm (jmin+1) zero
    jminus := jmin + 1
  else if isZero YfMin then
    if isZero XfMin then
      undefMin := true
      jminus := jmin
    else
      Fm ← setC size Fm jmin one
      Fm ← setC size Fm (jmin+1) zero
      jminus := jmin + 1
  else if ge0 (XfMin *. YfMin) then
    Fm ← setC size Fm jmin one
    Fm ← setC size Fm (jmin+1) ((negYf jmin j2 j3 m2 m3 : α) /. XfMin)
    jminus := jmin + 1
  else
    sf ← setC size sf jmin ((neg XfMin) /. YfMin)
    jminus := jmax
    for k in [0:(jmax - (jmin+1)).toNat] do
      let j : Int := jmin + 1 + k
      let denominator : α := Yf j j2 j3 m2 m3 +. (Zf j j2 j3 m1 *. (← getC size sf (j-1)))
      let Xfj : α := Xf j j2 j3 m1
      if lt (abs denominator) (abs Xfj) || ge0 (Xfj *. denominator) || isZero denominator then
        jminus := j - 1
        break
      else
        sf ← setC size sf j ((neg Xfj) /. denominator)
    Fm ← setC size Fm jminus one
    for k in [1:(jminus - jmin + 1).toNat] do
      Fm ← setC size Fm (jminus - k) ((← getC size Fm (jminus - k + 1)) *. (← getC size sf (jminus - k)))
    if jminus = jmin then
      Fm ← setC size Fm (jmin+1) ((negYf jmin j2 j3 m2 m3 : α) /. XfMin)
      jminus := jmin + 1
  if jminus = jmax then
    f ← copyRangeC size f Fm jmin jmax
    f ← normalizeC size f jmin jmax
    f ← determineSignsC size f jmin jmax j2 j3 m2 m3
    return ⟨f, false⟩
  -- reverse iteration over the second non-classical region
  let mut jplus : Int := jmax
  let YfMax : α := Yf jmax j2 j3 m2 m3
  let ZfMax : α := Zf jmax j2 j3 m1
  if m1 = 0 && m2 = 0 && m3 = 0 then
    Fp ← setC size Fp jmax one
    Fp ← setC size Fp (jmax-1) zero
    jplus := jmax - 1
  else if isZero YfMax then
    if isZero ZfMax then
      undefMax := true
      jplus := jmax
    else
      Fp ← setC size Fp jmax one
      Fp ← setC size Fp (jmax-1) ((negYf jmax j2 j3 m2 m3 : α) /. ZfMax)
      jplus := jmax - 1
  else if ge0 (YfMax *. ZfMax) then
    Fp ← setC size Fp jmax one
    Fp ← setC size Fp (jmax-1) ((negYf jmax j2 j3 m2 m3 : α) /. ZfMax)
    jplus := jmax - 1
  else
    sf ← setC size sf jmax ((neg ZfMax) /. YfMax)
    jplus := jmin
    for k in [0:(jmax - 1 - (jminus - 1)).toNat] do
      let j : Int := jmax - 1 - k
      let denominator : α := Yf j j2 j3 m2 m3 +. (Xf j j2 j3 m1 *. (← getC size sf (j+1)))
      let Zfj : α := Zf j j2 j3 m1
      if isZero denominator || lt (abs denominator) (abs Zfj) || ge0 (Zfj *. denominator) then
        jplus := j + 1
        break
      else
        sf ← setC size sf j ((neg Zfj) /. denominator)
    Fp ← setC size Fp jplus one
    for k in [1:(jmax - jplus + 1).toNat] do
      Fp ← setC size Fp (jplus + k) ((← getC size Fp (jplus + k - 1)) *. (← getC size sf (jplus + k)))
    if jplus = jmax then
      Fp ← setC size Fp (jmax-1) ((negYf jmax j2 j3 m2 m3 : α) /. ZfMax)
      jplus := jmax - 1
  -- three-term recurrence over the classical region
  if undefMin && undefMax then return ⟨f, true⟩
  if !undefMin && !undefMax then
    let mut jmid : Int := (jminus + jplus) / 2
    for k in [0:(jmid - jminus).toNat] do
      let j : Int := jminus + k
      Fm ← setC size Fm (j+1) ((neg ((Yf j j2 j3 m2 m3 *. (← getC size Fm j)) +. (Zf j j2 j3 m1 *. (← getC size Fm (j-1))))) /. Xf j j2 j3 m1)
      if lt one (abs (← getC size Fm (j+1))) then
        Fm ← divRangeC size Fm jmin (j+1) scale
      if lt (abs ((← getC size Fm (j+1)) /. (← getC size Fm (j-1)))) one && !(isZero (← getC size Fm (j+1))) then
        jmid := j + 1
        break
    let mut FmMid : α ← getC size Fm jmid
    if !(isZero (← getC size Fm (jmid-1))) && lt (abs (FmMid /. (← getC size Fm (jmid-1)))) ((ofInt 1 : α) /. ofInt 1000000) then
      jmid := jmid - 1
      FmMid ← getC size Fm jmid
    for k in [0:(jplus - jmid).toNat] do
      let j : Int := jplus - k
      Fp ← setC size Fp (j-1) ((neg ((Xf j j2 j3 m1 *. (← getC size Fp (j+1))) +. (Yf j j2 j3 m2 m3 *. (← getC size Fp j)))) /. Zf j j2 j3 m1)
      if lt one (abs (← getC size Fp (j-1))) then
        Fp ← divRangeC size Fp (j-1) jmax scale
    let FpMid : α ← getC size Fp jmid
    if jmid = jmax then
      f ← copyRangeC size f Fm jmin jmax
    else if jmid = jmin then
      f ← copyRangeC size f Fp jmin jmax
    else
      -- f[jmin:jmid+1] = F_minus[jmin:jmid+1] * F_plus_j_mid / F_minus_j_mid
      for k in [0:(jmid + 1 - jmin).toNat] do
        let j : Int := jmin + k
        f ← setC size f j (((← getC size Fm j) *. FpMid) /. FmMid)
      f ← copyRangeC size f Fp (jmid+1) jmax
  else if !undefMin && undefMax then
    for k in [0:(jplus - jminus).toNat] do
      let j : Int := jminus + k
      Fm ← setC size Fm (j+1) ((neg ((Zf j j2 j3 m1 *. (← getC size Fm (j-1))) +. (Yf j j2 j3 m2 m3 *. (← getC size Fm j)))) /. Xf j j2 j3 m1)
      if lt one (abs (← getC size Fm (j+1))) then
        Fm ← divRangeC size Fm jmin (j+1) scale
    f ← copyRangeC size f Fm jmin jmax
  else
    for k in [0:(jplus - jmin).toNat] do
      let j : Int := jplus - k
      Fp ← setC size Fp (j-1) ((neg ((Xf j j2 j3 m1 *. (← getC size Fp (j+1))) +. (Yf j j2 j3 m2 m3 *. (← getC size Fp j)))) /. Zf j j2 j3 m1)
      if lt one (abs (← getC size Fp (j-1))) then
        Fp ← divRangeC size Fp (j-1) jmax scale
    f ← copyRangeC size f Fp jmin jmax
  f ← normalizeC size f jmin jmax
  f ← determineSignsC size f jmin jmax j2 j3 m2 m3
  return ⟨f, false⟩

end Model.W3j
