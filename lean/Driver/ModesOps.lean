/-! Line-protocol operations for the Modes glue model (filled in by the Modes model; `none` = unknown op). -/
namespace ModesOps
def step (_toks : List String) : Option String := none
end ModesOps
