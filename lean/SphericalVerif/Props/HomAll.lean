import SphericalVerif.Lemmas.HomAll
/-! HomAll — the representation laws of what the MODEL computes, for EVERY degree ℓ.

    `Props/DHom.lean` proves 𝔇(P·Q) = 𝔇(P)·𝔇(Q), unitarity, 𝔇(R̄) = 𝔇(R)†, 𝔇(−R) = 𝔇(R) for the object-level model
    `Model.objD` of `Wigner.D` at ℓ = 1, 2 by brute force.  Here the same statements (same index set
    `Finset.Icc (−ℓ) ℓ`, same order of factors, every call on its OWN memory type / initial workspace content / size /
    `imsqrt`) are proved with 1 resp. 2 replaced by an arbitrary ℓ ≤ ell_max, from
      * `DAll.D_all`, `DAll.sYlm_all`  (model = documented sum `DDef.docD`, every ℓ, every unit quaternion), and
      * `DocHom.docD_*`                 (the documented sum is a unitary representation, every ℓ).
    Property theorems only; helpers live in `Lemmas/HomAll.lean`.  Exact arithmetic (`α := ℝ`); hypotheses: unit norm
    of the rotors, the `imsqrt` law, index ranges, and that the library powers handed to the Horner kernels are the
    stated powers of the third Euler phase (as in `Props/Routes.lean`, `Props/DAll.lean`).

    Conventions.  A rotor is a `Model.Quat ℝ` = (w, x, y, z); `qmul` is the product of `quaternionic`, `qconj` the
    conjugate (= inverse of a unit rotor), `qneg` the other rotor of the same rotation, `qone` = (1, 0, 0, 0).
    Matrices have rows m', columns m.  Mode weights are ROW vectors: `Wigner.rotate` computes `f @ 𝔇`,
      (rot R f)_{ℓ,m} = Σ_n f_{ℓ,n} 𝔇^ℓ_{n,m}(R),
    and ₛY_{ℓm}(Q) = (−1)^s √((2ℓ+1)/(4π)) 𝔇^ℓ_{m,−s}(Q) (`Ylm`), (evalW s Q f) = Σ_{ℓ=|s|}^{ellMax} Σ_m f_{ℓm} ₛY_{ℓm}(Q).

    1. `Wigner.D`, every ℓ ≤ ell_max:
      * `D_hom_all`        𝔇(P·Q)_{m',m} = Σ_k 𝔇(P)_{m',k} 𝔇(Q)_{k,m}
      * `D_unitary_all`    Σ_k 𝔇_{m',k} conj 𝔇_{m,k} = δ_{m',m}  (rows);  `D_col_unitary_all`  (columns)
      * `D_inverse_all`    𝔇(R̄)_{m',m} = conj 𝔇(R)_{m,m'}
      * `D_neg_all`        𝔇(−R) = 𝔇(R)
      * `D_conj_symm_all`  𝔇_{−m',−m} = (−1)^{m'+m} conj 𝔇_{m',m}
      * `D_identity_all`   𝔇(1) = 1
    2. `Wigner.sYlm`: `addition_theorem`  Σ_m |ₛY_{ℓm}(R)|² = (2ℓ+1)/(4π) for every unit R, spin s, ℓ ≥ |s|.
    3. rotation of mode weights (C04).  The composition orders that are TRUE with the library's conventions:
      * `rotate_is_rot`    the model of `Wigner.rotate` computes `rot R`
      * `evaluate_is_evalW` the model of `Wigner.evaluate` computes `evalW s Q`
      * `rot_compose`      rot Q (rot P f) = rot (P·Q) f   — rotate by P FIRST, then by Q: the product is P·Q
      * `rot_inverse`      rot R̄ (rot R f) = f = rot R (rot R̄ f)
      * `rot_identity`, `rot_neg`
      * `rot_block_norm`   Σ_m |(rot R f)_{ℓm}|² = Σ_m |f_{ℓm}|²
      * `rot_evaluate`     evalW s Q (rot R f) = evalW s (R·Q) f  — the rotated weights evaluated at Q are the
                           original weights evaluated at R·Q (R on the LEFT): f'(Q) = f(R Q)
      * `rotate_compose`, `rotate_inverse`, `rotate_block_norm`, `rotate_evaluate`: the same for chains of calls of
        the MODELS (`objRotH`, `objEvalH`), the second call reading an array that holds the first call's output. -/
noncomputable section
namespace HomAll
open Model Spec Horner DDef DHom
open scoped ComplexConjugate

section
variable {μ μ₁ μ₂ : Type} [Mem μ ℝ] [LawfulMem μ ℝ] [Mem μ₁ ℝ] [LawfulMem μ₁ ℝ] [Mem μ₂ ℝ] [LawfulMem μ₂ ℝ]

/-! ### 1. `Wigner.D` is a unitary representation, every ℓ -/

/-- What `Wigner.D` computes for the product P·Q is the matrix product of what it computes for P and for Q, for every
    ℓ — the three calls on arbitrary (different) calculators, workspaces, workspace contents.
    (`DHom.D_hom_ell1` with 1 replaced by ℓ.) -/
theorem D_hom_all (L L₁ L₂ : ℕ) (ℓ : ℕ) (hL : ℓ ≤ L) (hL₁ : ℓ ≤ L₁) (hL₂ : ℓ ≤ L₂) (st : μ) (st₁ : μ₁) (st₂ : μ₂)
    (P Q : Quat ℝ) (hP : P.w ^ 2 + P.x ^ 2 + P.y ^ 2 + P.z ^ 2 = 1) (hQ : Q.w ^ 2 + Q.x ^ 2 + Q.y ^ 2 + Q.z ^ 2 = 1)
    (imsqrt imsqrt₁ imsqrt₂ : Cx ℝ → ℝ)
    (hs : ∀ w : Cx ℝ, w.re ^ 2 + w.im ^ 2 = 1 → 2 * (imsqrt w) ^ 2 = 1 - w.re)
    (hs₁ : ∀ w : Cx ℝ, w.re ^ 2 + w.im ^ 2 = 1 → 2 * (imsqrt₁ w) ^ 2 = 1 - w.re)
    (hs₂ : ∀ w : Cx ℝ, w.re ^ 2 + w.im ^ 2 = 1 → 2 * (imsqrt₂ w) ^ 2 = 1 - w.re)
    (mp m : ℤ) (hmp : mp.natAbs ≤ ℓ) (hm : m.natAbs ≤ ℓ) :
    toC (objD L st (qmul P Q).w (qmul P Q).x (qmul P Q).y (qmul P Q).z imsqrt ℓ mp m)
      = ∑ k ∈ Finset.Icc (-(ℓ : ℤ)) ℓ,
          toC (objD L₁ st₁ P.w P.x P.y P.z imsqrt₁ ℓ mp k) * toC (objD L₂ st₂ Q.w Q.x Q.y Q.z imsqrt₂ ℓ k m) := by
  rw [objD_doc L st (qmul P Q) (quat_mul_unit P Q hP hQ) imsqrt hs ℓ hL mp m hmp hm,
    DocHom.docD_hom_quat ℓ P Q mp m hmp hm]
  apply Finset.sum_congr rfl
  intro k hk
  have hk' := mem_blk hk
  rw [objD_doc L₁ st₁ P hP imsqrt₁ hs₁ ℓ hL₁ mp k hmp hk', objD_doc L₂ st₂ Q hQ imsqrt₂ hs₂ ℓ hL₂ k m hk' hm]

/-- regression: `DHom.D_hom_ell1` is the instance ℓ = 1 of `D_hom_all` (same statement, independent proofs) -/
example (L L₁ L₂ : ℕ) (hL : 1 ≤ L) (hL₁ : 1 ≤ L₁) (hL₂ : 1 ≤ L₂) (st : μ) (st₁ : μ₁) (st₂ : μ₂)
    (P Q : Quat ℝ) (hP : P.w ^ 2 + P.x ^ 2 + P.y ^ 2 + P.z ^ 2 = 1) (hQ : Q.w ^ 2 + Q.x ^ 2 + Q.y ^ 2 + Q.z ^ 2 = 1)
    (imsqrt imsqrt₁ imsqrt₂ : Cx ℝ → ℝ)
    (hs : ∀ w : Cx ℝ, w.re ^ 2 + w.im ^ 2 = 1 → 2 * (imsqrt w) ^ 2 = 1 - w.re)
    (hs₁ : ∀ w : Cx ℝ, w.re ^ 2 + w.im ^ 2 = 1 → 2 * (imsqrt₁ w) ^ 2 = 1 - w.re)
    (hs₂ : ∀ w : Cx ℝ, w.re ^ 2 + w.im ^ 2 = 1 → 2 * (imsqrt₂ w) ^ 2 = 1 - w.re)
    (mp m : ℤ) (hmp : mp.natAbs ≤ 1) (hm : m.natAbs ≤ 1) :
    toC (objD L st (qmul P Q).w (qmul P Q).x (qmul P Q).y (qmul P Q).z imsqrt 1 mp m)
      = ∑ k ∈ Finset.Icc (-1 : ℤ) 1,
          toC (objD L₁ st₁ P.w P.x P.y P.z imsqrt₁ 1 mp k) * toC (objD L₂ st₂ Q.w Q.x Q.y Q.z imsqrt₂ 1 k m) :=
  D_hom_all L L₁ L₂ 1 hL hL₁ hL₂ st st₁ st₂ P Q hP hQ imsqrt imsqrt₁ imsqrt₂ hs hs₁ hs₂ mp m hmp hm

/-- regression: `DHom.D_hom_ell2` likewise -/
example (L L₁ L₂ : ℕ) (hL : 2 ≤ L) (hL₁ : 2 ≤ L₁) (hL₂ : 2 ≤ L₂) (st : μ) (st₁ : μ₁) (st₂ : μ₂)
    (P Q : Quat ℝ) (hP : P.w ^ 2 + P.x ^ 2 + P.y ^ 2 + P.z ^ 2 = 1) (hQ : Q.w ^ 2 + Q.x ^ 2 + Q.y ^ 2 + Q.z ^ 2 = 1)
    (imsqrt imsqrt₁ imsqrt₂ : Cx ℝ → ℝ)
    (hs : ∀ w : Cx ℝ, w.re ^ 2 + w.im ^ 2 = 1 → 2 * (imsqrt w) ^ 2 = 1 - w.re)
    (hs₁ : ∀ w : Cx ℝ, w.re ^ 2 + w.im ^ 2 = 1 → 2 * (imsqrt₁ w) ^ 2 = 1 - w.re)
    (hs₂ : ∀ w : Cx ℝ, w.re ^ 2 + w.im ^ 2 = 1 → 2 * (imsqrt₂ w) ^ 2 = 1 - w.re)
    (mp m : ℤ) (hmp : mp.natAbs ≤ 2) (hm : m.natAbs ≤ 2) :
    toC (objD L st (qmul P Q).w (qmul P Q).x (qmul P Q).y (qmul P Q).z imsqrt 2 mp m)
      = ∑ k ∈ Finset.Icc (-2 : ℤ) 2,
          toC (objD L₁ st₁ P.w P.x P.y P.z imsqrt₁ 2 mp k) * toC (objD L₂ st₂ Q.w Q.x Q.y Q.z imsqrt₂ 2 k m) :=
  D_hom_all L L₁ L₂ 2 hL hL₁ hL₂ st st₁ st₂ P Q hP hQ imsqrt imsqrt₁ imsqrt₂ hs hs₁ hs₂ mp m hmp hm

/-- the ROWS of 𝔇^ℓ(R) are orthonormal, Σ_k 𝔇_{m',k} conj(𝔇_{m,k}) = δ_{m',m}, every ℓ -/
theorem D_unitary_all (L : ℕ) (ℓ : ℕ) (hL : ℓ ≤ L) (st : μ) (R : Quat ℝ)
    (hR : R.w ^ 2 + R.x ^ 2 + R.y ^ 2 + R.z ^ 2 = 1) (imsqrt : Cx ℝ → ℝ)
    (hs : ∀ w : Cx ℝ, w.re ^ 2 + w.im ^ 2 = 1 → 2 * (imsqrt w) ^ 2 = 1 - w.re)
    (mp m : ℤ) (hmp : mp.natAbs ≤ ℓ) (hm : m.natAbs ≤ ℓ) :
    ∑ k ∈ Finset.Icc (-(ℓ : ℤ)) ℓ,
        toC (objD L st R.w R.x R.y R.z imsqrt ℓ mp k) * conj (toC (objD L st R.w R.x R.y R.z imsqrt ℓ m k))
      = if mp = m then 1 else 0 := by
  rw [← DocHom.docD_unitary_quat ℓ R hR mp m hmp hm]
  apply Finset.sum_congr rfl
  intro k hk
  have hk' := mem_blk hk
  rw [objD_doc L st R hR imsqrt hs ℓ hL mp k hmp hk', objD_doc L st R hR imsqrt hs ℓ hL m k hm hk']

/-- the COLUMNS of 𝔇^ℓ(R) are orthonormal, Σ_k conj(𝔇_{k,m'}) 𝔇_{k,m} = δ_{m',m}, every ℓ -/
theorem D_col_unitary_all (L : ℕ) (ℓ : ℕ) (hL : ℓ ≤ L) (st : μ) (R : Quat ℝ)
    (hR : R.w ^ 2 + R.x ^ 2 + R.y ^ 2 + R.z ^ 2 = 1) (imsqrt : Cx ℝ → ℝ)
    (hs : ∀ w : Cx ℝ, w.re ^ 2 + w.im ^ 2 = 1 → 2 * (imsqrt w) ^ 2 = 1 - w.re)
    (mp m : ℤ) (hmp : mp.natAbs ≤ ℓ) (hm : m.natAbs ≤ ℓ) :
    ∑ k ∈ Finset.Icc (-(ℓ : ℤ)) ℓ,
        conj (toC (objD L st R.w R.x R.y R.z imsqrt ℓ k mp)) * toC (objD L st R.w R.x R.y R.z imsqrt ℓ k m)
      = if mp = m then 1 else 0 := by
  rw [← docD_col_unitary ℓ (QA R) (QB R) (QAB_unit R hR) mp m hmp hm]
  apply Finset.sum_congr rfl
  intro k hk
  have hk' := mem_blk hk
  rw [objD_doc L st R hR imsqrt hs ℓ hL k mp hk' hmp, objD_doc L st R hR imsqrt hs ℓ hL k m hk' hm]

/-- 𝔇^ℓ(R⁻¹) = 𝔇^ℓ(R)†, with R⁻¹ = R̄ = (w, −x, −y, −z), every ℓ; the two calls on different calculators -/
theorem D_inverse_all (L L₁ : ℕ) (ℓ : ℕ) (hL : ℓ ≤ L) (hL₁ : ℓ ≤ L₁) (st : μ) (st₁ : μ₁) (R : Quat ℝ)
    (hR : R.w ^ 2 + R.x ^ 2 + R.y ^ 2 + R.z ^ 2 = 1) (imsqrt imsqrt₁ : Cx ℝ → ℝ)
    (hs : ∀ w : Cx ℝ, w.re ^ 2 + w.im ^ 2 = 1 → 2 * (imsqrt w) ^ 2 = 1 - w.re)
    (hs₁ : ∀ w : Cx ℝ, w.re ^ 2 + w.im ^ 2 = 1 → 2 * (imsqrt₁ w) ^ 2 = 1 - w.re)
    (mp m : ℤ) (hmp : mp.natAbs ≤ ℓ) (hm : m.natAbs ≤ ℓ) :
    toC (objD L st (qconj R).w (qconj R).x (qconj R).y (qconj R).z imsqrt ℓ mp m)
      = conj (toC (objD L₁ st₁ R.w R.x R.y R.z imsqrt₁ ℓ m mp)) := by
  rw [objD_doc L st (qconj R) (qconj_unit R hR) imsqrt hs ℓ hL mp m hmp hm,
    objD_doc L₁ st₁ R hR imsqrt₁ hs₁ ℓ hL₁ m mp hm hmp]
  exact DocHom.docD_inverse_quat ℓ R mp m hmp hm

/-- the two rotors ±R of one rotation give the same matrix (integer ℓ), every ℓ -/
theorem D_neg_all (L L₁ : ℕ) (ℓ : ℕ) (hL : ℓ ≤ L) (hL₁ : ℓ ≤ L₁) (st : μ) (st₁ : μ₁) (R : Quat ℝ)
    (hR : R.w ^ 2 + R.x ^ 2 + R.y ^ 2 + R.z ^ 2 = 1) (imsqrt imsqrt₁ : Cx ℝ → ℝ)
    (hs : ∀ w : Cx ℝ, w.re ^ 2 + w.im ^ 2 = 1 → 2 * (imsqrt w) ^ 2 = 1 - w.re)
    (hs₁ : ∀ w : Cx ℝ, w.re ^ 2 + w.im ^ 2 = 1 → 2 * (imsqrt₁ w) ^ 2 = 1 - w.re)
    (mp m : ℤ) (hmp : mp.natAbs ≤ ℓ) (hm : m.natAbs ≤ ℓ) :
    toC (objD L st (qneg R).w (qneg R).x (qneg R).y (qneg R).z imsqrt ℓ mp m)
      = toC (objD L₁ st₁ R.w R.x R.y R.z imsqrt₁ ℓ mp m) := by
  rw [objD_doc L st (qneg R) (qneg_unit R hR) imsqrt hs ℓ hL mp m hmp hm,
    objD_doc L₁ st₁ R hR imsqrt₁ hs₁ ℓ hL₁ mp m hmp hm]
  exact DocHom.docD_neg_quat ℓ R mp m hmp hm

/-- 𝔇_{−m',−m} = (−1)^{m'+m} conj 𝔇_{m',m} (integer power of −1), every ℓ; the two entries may come from different calls -/
theorem D_conj_symm_all (L L₁ : ℕ) (ℓ : ℕ) (hL : ℓ ≤ L) (hL₁ : ℓ ≤ L₁) (st : μ) (st₁ : μ₁) (R : Quat ℝ)
    (hR : R.w ^ 2 + R.x ^ 2 + R.y ^ 2 + R.z ^ 2 = 1) (imsqrt imsqrt₁ : Cx ℝ → ℝ)
    (hs : ∀ w : Cx ℝ, w.re ^ 2 + w.im ^ 2 = 1 → 2 * (imsqrt w) ^ 2 = 1 - w.re)
    (hs₁ : ∀ w : Cx ℝ, w.re ^ 2 + w.im ^ 2 = 1 → 2 * (imsqrt₁ w) ^ 2 = 1 - w.re)
    (mp m : ℤ) (hmp : mp.natAbs ≤ ℓ) (hm : m.natAbs ≤ ℓ) :
    toC (objD L st R.w R.x R.y R.z imsqrt ℓ (-mp) (-m))
      = (-1 : ℂ) ^ (mp + m) * conj (toC (objD L₁ st₁ R.w R.x R.y R.z imsqrt₁ ℓ mp m)) := by
  rw [objD_doc L st R hR imsqrt hs ℓ hL (-mp) (-m) (by omega) (by omega),
    objD_doc L₁ st₁ R hR imsqrt₁ hs₁ ℓ hL₁ mp m hmp hm]
  exact DocHom.docD_conj_symm ℓ (QA R) (QB R) mp m hmp hm

/-- `Wigner.D` of the identity rotor (1, 0, 0, 0) is the identity matrix, every ℓ -/
theorem D_identity_all (L : ℕ) (ℓ : ℕ) (hL : ℓ ≤ L) (st : μ) (imsqrt : Cx ℝ → ℝ)
    (hs : ∀ w : Cx ℝ, w.re ^ 2 + w.im ^ 2 = 1 → 2 * (imsqrt w) ^ 2 = 1 - w.re)
    (mp m : ℤ) (hmp : mp.natAbs ≤ ℓ) (hm : m.natAbs ≤ ℓ) :
    toC (objD L st 1 0 0 0 imsqrt ℓ mp m) = if mp = m then 1 else 0 := by
  rw [DAll.D_all L st 1 0 0 0 (by norm_num) imsqrt hs ℓ hL mp m hmp hm, Ra_one, Rb_zero]
  exact DocHom.docD_identity ℓ mp m hmp hm

/-- 𝔇(R)·𝔇(R̄) = 1: the matrix computed for the inverse rotor is the inverse matrix, every ℓ -/
theorem D_mul_inverse_all (L₁ L₂ : ℕ) (ℓ : ℕ) (hL₁ : ℓ ≤ L₁) (hL₂ : ℓ ≤ L₂) (st₁ : μ₁) (st₂ : μ₂) (R : Quat ℝ)
    (hR : R.w ^ 2 + R.x ^ 2 + R.y ^ 2 + R.z ^ 2 = 1) (imsqrt₁ imsqrt₂ : Cx ℝ → ℝ)
    (hs₁ : ∀ w : Cx ℝ, w.re ^ 2 + w.im ^ 2 = 1 → 2 * (imsqrt₁ w) ^ 2 = 1 - w.re)
    (hs₂ : ∀ w : Cx ℝ, w.re ^ 2 + w.im ^ 2 = 1 → 2 * (imsqrt₂ w) ^ 2 = 1 - w.re)
    (mp m : ℤ) (hmp : mp.natAbs ≤ ℓ) (hm : m.natAbs ≤ ℓ) :
    ∑ k ∈ Finset.Icc (-(ℓ : ℤ)) ℓ,
        toC (objD L₁ st₁ R.w R.x R.y R.z imsqrt₁ ℓ mp k)
          * toC (objD L₂ st₂ (qconj R).w (qconj R).x (qconj R).y (qconj R).z imsqrt₂ ℓ k m)
      = if mp = m then 1 else 0 := by
  rw [← DocHom.docD_mul_inverse ℓ (QA R) (QB R) (QAB_unit R hR) mp m hmp hm]
  apply Finset.sum_congr rfl
  intro k hk
  have hk' := mem_blk hk
  rw [objD_doc L₁ st₁ R hR imsqrt₁ hs₁ ℓ hL₁ mp k hmp hk',
    objD_doc L₂ st₂ (qconj R) (qconj_unit R hR) imsqrt₂ hs₂ ℓ hL₂ k m hk' hm, QA_conj, QB_conj]

/-! ### 2. the addition theorem for `Wigner.sYlm` -/

/-- For every unit quaternion R, every spin s and every degree ℓ ≥ |s| (ℓ ≤ ell_max, |s| ≤ mp_max), the values
    `Wigner.sYlm(s, R)` computes satisfy  Σ_{m=−ℓ}^{ℓ} |ₛY_{ℓm}(R)|² = (2ℓ+1)/(4π)
    (a column of the unitary matrix 𝔇^ℓ(R), scaled).  `zgpow` is the library power `z[2]**abs(s)` as in
    `DAll.sYlm_all`. -/
theorem addition_theorem (L P : ℕ) (st : μ) (R : Quat ℝ) (hR : R.w ^ 2 + R.x ^ 2 + R.y ^ 2 + R.z ^ 2 = 1)
    (imsqrt : Cx ℝ → ℝ) (hs : ∀ w : Cx ℝ, w.re ^ 2 + w.im ^ 2 = 1 → 2 * (imsqrt w) ^ 2 = 1 - w.re)
    (zgpow : Cx ℝ) (s : ℤ) (hY : toC zgpow = toC (eulerPhases R.w R.x R.y R.z).2.2 ^ s.natAbs)
    (ℓ : ℕ) (hl : ℓ ≤ L) (hsl : s.natAbs ≤ ℓ) (hsP : s.natAbs ≤ P) :
    ∑ m ∈ Finset.Icc (-(ℓ : ℤ)) ℓ, Complex.normSq (toC (objY L P st R.w R.x R.y R.z imsqrt zgpow s ℓ m))
      = (2 * (ℓ : ℝ) + 1) / (4 * Real.pi) := by
  rw [← Ylm_normSq_sum s R hR ℓ hsl]
  apply Finset.sum_congr rfl
  intro m hm
  rw [objY_doc L P st R hR imsqrt hs zgpow s hY ℓ hl hsl hsP m (mem_blk hm)]

/-- the same with z·conj z in place of |z|² -/
theorem addition_theorem_conj (L P : ℕ) (st : μ) (R : Quat ℝ) (hR : R.w ^ 2 + R.x ^ 2 + R.y ^ 2 + R.z ^ 2 = 1)
    (imsqrt : Cx ℝ → ℝ) (hs : ∀ w : Cx ℝ, w.re ^ 2 + w.im ^ 2 = 1 → 2 * (imsqrt w) ^ 2 = 1 - w.re)
    (zgpow : Cx ℝ) (s : ℤ) (hY : toC zgpow = toC (eulerPhases R.w R.x R.y R.z).2.2 ^ s.natAbs)
    (ℓ : ℕ) (hl : ℓ ≤ L) (hsl : s.natAbs ≤ ℓ) (hsP : s.natAbs ≤ P) :
    ∑ m ∈ Finset.Icc (-(ℓ : ℤ)) ℓ,
        toC (objY L P st R.w R.x R.y R.z imsqrt zgpow s ℓ m)
          * conj (toC (objY L P st R.w R.x R.y R.z imsqrt zgpow s ℓ m))
      = (((2 * (ℓ : ℝ) + 1) / (4 * Real.pi) : ℝ) : ℂ) := by
  rw [← addition_theorem L P st R hR imsqrt hs zgpow s hY ℓ hl hsl hsP, Complex.ofReal_sum]
  apply Finset.sum_congr rfl
  intro m _
  rw [Complex.mul_conj]

/-- the documented harmonics themselves: Σ_m |ₛY_{ℓm}(Q)|² = (2ℓ+1)/(4π) -/
theorem addition_theorem_doc (s : ℤ) (Q : Quat ℝ) (hQ : Q.w ^ 2 + Q.x ^ 2 + Q.y ^ 2 + Q.z ^ 2 = 1) (ℓ : ℕ)
    (hs : s.natAbs ≤ ℓ) :
    ∑ m ∈ Finset.Icc (-(ℓ : ℤ)) ℓ, Complex.normSq (Ylm s Q ℓ m) = (2 * (ℓ : ℝ) + 1) / (4 * Real.pi) :=
  Ylm_normSq_sum s Q hQ ℓ hs

/-! ### 3. rotation of mode weights (C04) -/

/-- The model of `Wigner.rotate(modes, R, horner=True)` computes `rot R` of the input weights: output weight (ℓ, m),
    ℓ ≥ |s|, is Σ_n f_{ℓ,n} 𝔇^ℓ_{n,m}(R) with the DOCUMENTED matrix — every ℓ ≤ ell_max, every unit quaternion, every
    lawful memory and initial workspace content.  `zgpow m` is the library power `zᵧ**m`. -/
theorem rotate_is_rot (L : ℕ) (st : μ) (R : Quat ℝ) (hR : R.w ^ 2 + R.x ^ 2 + R.y ^ 2 + R.z ^ 2 = 1)
    (zgpow : ℤ → Cx ℝ) (f : Array (Cx ℝ)) (s : ℤ) (ℓ : ℕ) (hl : ℓ ≤ L) (hsl : s.natAbs ≤ ℓ)
    (m : ℤ) (hm : m.natAbs ≤ ℓ)
    (hpow : toC (zgpow m) = toC (eulerPhases R.w R.x R.y R.z).2.2 ^ m) :
    toC (objRotH L st R.w R.x R.y R.z zgpow f s ℓ m) = rot R (wts f) ℓ m :=
  objRotH_doc L st R hR zgpow f s ℓ hl hsl m hm hpow

/-- the same in terms of what `Wigner.D` computes on any other calculator: `rotate(horner=True)` is `f @ 𝔇`
    (`Routes.rotateHorner_eq_matrix` at the level of the methods) -/
theorem rotate_is_matrix (L L₁ : ℕ) (st : μ) (st₁ : μ₁) (R : Quat ℝ)
    (hR : R.w ^ 2 + R.x ^ 2 + R.y ^ 2 + R.z ^ 2 = 1) (imsqrt₁ : Cx ℝ → ℝ)
    (hs₁ : ∀ w : Cx ℝ, w.re ^ 2 + w.im ^ 2 = 1 → 2 * (imsqrt₁ w) ^ 2 = 1 - w.re)
    (zgpow : ℤ → Cx ℝ) (f : Array (Cx ℝ)) (s : ℤ) (ℓ : ℕ) (hl : ℓ ≤ L) (hl₁ : ℓ ≤ L₁) (hsl : s.natAbs ≤ ℓ)
    (m : ℤ) (hm : m.natAbs ≤ ℓ)
    (hpow : toC (zgpow m) = toC (eulerPhases R.w R.x R.y R.z).2.2 ^ m) :
    toC (objRotH L st R.w R.x R.y R.z zgpow f s ℓ m)
      = ∑ n ∈ Finset.Icc (-(ℓ : ℤ)) ℓ, toC (fAt f ℓ n) * toC (objD L₁ st₁ R.w R.x R.y R.z imsqrt₁ ℓ n m) := by
  rw [objRotH_doc L st R hR zgpow f s ℓ hl hsl m hm hpow]
  apply Finset.sum_congr rfl
  intro n hn
  rw [objD_doc L₁ st₁ R hR imsqrt₁ hs₁ ℓ hl₁ n m (mem_blk hn) hm]

/-- The model of `Wigner.evaluate(modes, Q, horner=True)` computes `evalW s Q` of the input weights,
    Σ_{ℓ=|s|}^{ellMax} Σ_m f_{ℓm} ₛY_{ℓm}(Q) with the DOCUMENTED harmonics.  `zgpowE` is the library power
    `zᵧ.conjugate()**s`. -/
theorem evaluate_is_evalW (L P : ℕ) (st : μ) (Q : Quat ℝ) (hQ : Q.w ^ 2 + Q.x ^ 2 + Q.y ^ 2 + Q.z ^ 2 = 1)
    (zgpowE : Cx ℝ) (f : Array (Cx ℝ)) (s : ℤ) (ellMax : ℕ) (hL : ellMax ≤ L) (hsP : s.natAbs ≤ P) (prev : Cx ℝ)
    (hE : toC zgpowE = conj (toC (eulerPhases Q.w Q.x Q.y Q.z).2.2) ^ s) :
    toC (objEvalH L P st Q.w Q.x Q.y Q.z zgpowE f s ellMax prev) = evalW s Q (wts f) ellMax :=
  objEvalH_doc L P st Q hQ zgpowE f s ellMax hL hsP prev hE

end

/-- rotations compose: rotating the weights by P and then by Q is rotating them by the product P·Q (P, the FIRST
    rotation, on the LEFT).  Any quaternions (the identity is polynomial). -/
theorem rot_compose (P Q : Quat ℝ) (f : ℕ → ℤ → ℂ) (ℓ : ℕ) (m : ℤ) (hm : m.natAbs ≤ ℓ) :
    rot Q (rot P f) ℓ m = rot (qmul P Q) f ℓ m :=
  compose_rot P Q f ℓ m hm

/-- the identity rotor leaves the weights alone -/
theorem rot_identity (f : ℕ → ℤ → ℂ) (ℓ : ℕ) (m : ℤ) (hm : m.natAbs ≤ ℓ) : rot qone f ℓ m = f ℓ m :=
  identity_rot f ℓ m hm

/-- the inverse rotation undoes the rotation — in either order — for a unit rotor -/
theorem rot_inverse (R : Quat ℝ) (hR : R.w ^ 2 + R.x ^ 2 + R.y ^ 2 + R.z ^ 2 = 1) (f : ℕ → ℤ → ℂ) (ℓ : ℕ) (m : ℤ)
    (hm : m.natAbs ≤ ℓ) :
    rot (qconj R) (rot R f) ℓ m = f ℓ m ∧ rot R (rot (qconj R) f) ℓ m = f ℓ m := by
  rw [compose_rot R (qconj R) f ℓ m hm, compose_rot (qconj R) R f ℓ m hm, qmul_qconj R hR, qconj_qmul R hR]
  exact ⟨identity_rot f ℓ m hm, identity_rot f ℓ m hm⟩

/-- R and −R rotate alike -/
theorem rot_neg (R : Quat ℝ) (f : ℕ → ℤ → ℂ) (ℓ : ℕ) (m : ℤ) (hm : m.natAbs ≤ ℓ) :
    rot (qneg R) f ℓ m = rot R f ℓ m :=
  neg_rot R f ℓ m hm

/-- every ℓ-block keeps its norm under a unit rotor: Σ_m |(rot R f)_{ℓm}|² = Σ_m |f_{ℓm}|² -/
theorem rot_block_norm (R : Quat ℝ) (hR : R.w ^ 2 + R.x ^ 2 + R.y ^ 2 + R.z ^ 2 = 1) (f : ℕ → ℤ → ℂ) (ℓ : ℕ) :
    ∑ m ∈ Finset.Icc (-(ℓ : ℤ)) ℓ, Complex.normSq (rot R f ℓ m)
      = ∑ m ∈ Finset.Icc (-(ℓ : ℤ)) ℓ, Complex.normSq (f ℓ m) := by
  have h := block_norm_rot R hR f ℓ
  simp only [Complex.mul_conj] at h
  rw [← Complex.ofReal_sum, ← Complex.ofReal_sum] at h
  exact_mod_cast h

/-- the same with z·conj z -/
theorem rot_block_norm_conj (R : Quat ℝ) (hR : R.w ^ 2 + R.x ^ 2 + R.y ^ 2 + R.z ^ 2 = 1) (f : ℕ → ℤ → ℂ) (ℓ : ℕ) :
    ∑ m ∈ Finset.Icc (-(ℓ : ℤ)) ℓ, rot R f ℓ m * conj (rot R f ℓ m)
      = ∑ m ∈ Finset.Icc (-(ℓ : ℤ)) ℓ, f ℓ m * conj (f ℓ m) :=
  block_norm_rot R hR f ℓ

/-- Rotating the weights by R gives the weights of the rotated function: the rotated weights evaluated at the rotor Q
    give what the original weights give at the rotor R·Q (R on the LEFT of Q) — f'(Q) = f(R Q) — for every spin s and
    every ellMax.  Any quaternions R, Q (the identity is polynomial; degrees ℓ < |s| do not enter). -/
theorem rot_evaluate (R Q : Quat ℝ) (f : ℕ → ℤ → ℂ) (s : ℤ) (ellMax : ℕ) :
    evalW s Q (rot R f) ellMax = evalW s (qmul R Q) f ellMax := by
  unfold evalW
  apply Finset.sum_congr rfl
  intro ℓ hℓ
  rw [Finset.mem_Icc] at hℓ
  exact evaluate_rot_block R Q f s ℓ hℓ.1

/-- degree by degree -/
theorem rot_evaluate_block (R Q : Quat ℝ) (f : ℕ → ℤ → ℂ) (s : ℤ) (ℓ : ℕ) (hs : s.natAbs ≤ ℓ) :
    ∑ m ∈ Finset.Icc (-(ℓ : ℤ)) ℓ, rot R f ℓ m * Ylm s Q ℓ m
      = ∑ n ∈ Finset.Icc (-(ℓ : ℤ)) ℓ, f ℓ n * Ylm s (qmul R Q) ℓ n :=
  evaluate_rot_block R Q f s ℓ hs

/-- consistency of `rot_compose` and `rot_evaluate`: (f rotated by P, then by Q) at S is f at P·(Q·S) = (P·Q)·S -/
example (P Q S : Quat ℝ) (f : ℕ → ℤ → ℂ) (s : ℤ) (ellMax : ℕ) :
    evalW s S (rot Q (rot P f)) ellMax = evalW s (qmul (qmul P Q) S) f ellMax := by
  rw [rot_evaluate, rot_evaluate, qmul_assoc]

/-! ### 4. the same for chains of calls of the models

    `g` is any array that holds, in degree ℓ, the output of the first `rotate` call (e.g. the `out` array of that call);
    every call has its own calculator size, memory type, initial workspace content and library powers. -/

section
variable {μ μ₁ μ₂ : Type} [Mem μ ℝ] [LawfulMem μ ℝ] [Mem μ₁ ℝ] [LawfulMem μ₁ ℝ] [Mem μ₂ ℝ] [LawfulMem μ₂ ℝ]

/-- `rotate(rotate(f, P), Q) = rotate(f, P·Q)`, weight (ℓ, m), every ℓ with |s| ≤ ℓ ≤ ell_max of the three calculators -/
theorem rotate_compose (L L₁ L₂ : ℕ) (st : μ) (st₁ : μ₁) (st₂ : μ₂) (P Q : Quat ℝ)
    (hP : P.w ^ 2 + P.x ^ 2 + P.y ^ 2 + P.z ^ 2 = 1) (hQ : Q.w ^ 2 + Q.x ^ 2 + Q.y ^ 2 + Q.z ^ 2 = 1)
    (zgpow zgpow₁ zgpow₂ : ℤ → Cx ℝ) (f g : Array (Cx ℝ)) (s : ℤ) (ℓ : ℕ)
    (hl : ℓ ≤ L) (hl₁ : ℓ ≤ L₁) (hl₂ : ℓ ≤ L₂) (hsl : s.natAbs ≤ ℓ) (m : ℤ) (hm : m.natAbs ≤ ℓ)
    (hpow : toC (zgpow m)
      = toC (eulerPhases (qmul P Q).w (qmul P Q).x (qmul P Q).y (qmul P Q).z).2.2 ^ m)
    (hpow₁ : ∀ n : ℤ, toC (zgpow₁ n) = toC (eulerPhases P.w P.x P.y P.z).2.2 ^ n)
    (hpow₂ : toC (zgpow₂ m) = toC (eulerPhases Q.w Q.x Q.y Q.z).2.2 ^ m)
    (hg : ∀ n : ℤ, n.natAbs ≤ ℓ → fAt g ℓ n = objRotH L₁ st₁ P.w P.x P.y P.z zgpow₁ f s ℓ n) :
    toC (objRotH L₂ st₂ Q.w Q.x Q.y Q.z zgpow₂ g s ℓ m)
      = toC (objRotH L st (qmul P Q).w (qmul P Q).x (qmul P Q).y (qmul P Q).z zgpow f s ℓ m) := by
  rw [rotate_is_rot L₂ st₂ Q hQ zgpow₂ g s ℓ hl₂ hsl m hm hpow₂,
    rotate_is_rot L st (qmul P Q) (quat_mul_unit P Q hP hQ) zgpow f s ℓ hl hsl m hm hpow,
    ← rot_compose P Q (wts f) ℓ m hm]
  apply rot_congr
  intro n hn
  unfold wts
  rw [hg n hn, rotate_is_rot L₁ st₁ P hP zgpow₁ f s ℓ hl₁ hsl n hn (hpow₁ n)]
  rfl

/-- `rotate(rotate(f, R), R̄) = f`: the inverse rotor undoes the rotation, weight (ℓ, m), every ℓ -/
theorem rotate_inverse (L₁ L₂ : ℕ) (st₁ : μ₁) (st₂ : μ₂) (R : Quat ℝ)
    (hR : R.w ^ 2 + R.x ^ 2 + R.y ^ 2 + R.z ^ 2 = 1)
    (zgpow₁ zgpow₂ : ℤ → Cx ℝ) (f g : Array (Cx ℝ)) (s : ℤ) (ℓ : ℕ)
    (hl₁ : ℓ ≤ L₁) (hl₂ : ℓ ≤ L₂) (hsl : s.natAbs ≤ ℓ) (m : ℤ) (hm : m.natAbs ≤ ℓ)
    (hpow₁ : ∀ n : ℤ, toC (zgpow₁ n) = toC (eulerPhases R.w R.x R.y R.z).2.2 ^ n)
    (hpow₂ : toC (zgpow₂ m)
      = toC (eulerPhases (qconj R).w (qconj R).x (qconj R).y (qconj R).z).2.2 ^ m)
    (hg : ∀ n : ℤ, n.natAbs ≤ ℓ → fAt g ℓ n = objRotH L₁ st₁ R.w R.x R.y R.z zgpow₁ f s ℓ n) :
    toC (objRotH L₂ st₂ (qconj R).w (qconj R).x (qconj R).y (qconj R).z zgpow₂ g s ℓ m) = toC (fAt f ℓ m) := by
  rw [rotate_is_rot L₂ st₂ (qconj R) (qconj_unit R hR) zgpow₂ g s ℓ hl₂ hsl m hm hpow₂]
  refine Eq.trans ?_ (rot_inverse R hR (wts f) ℓ m hm).1
  apply rot_congr
  intro n hn
  unfold wts
  rw [hg n hn, rotate_is_rot L₁ st₁ R hR zgpow₁ f s ℓ hl₁ hsl n hn (hpow₁ n)]
  rfl

/-- `rotate` keeps the norm of every ℓ-block, |s| ≤ ℓ ≤ ell_max -/
theorem rotate_block_norm (L : ℕ) (st : μ) (R : Quat ℝ) (hR : R.w ^ 2 + R.x ^ 2 + R.y ^ 2 + R.z ^ 2 = 1)
    (zgpow : ℤ → Cx ℝ) (f : Array (Cx ℝ)) (s : ℤ) (ℓ : ℕ) (hl : ℓ ≤ L) (hsl : s.natAbs ≤ ℓ)
    (hpow : ∀ n : ℤ, toC (zgpow n) = toC (eulerPhases R.w R.x R.y R.z).2.2 ^ n) :
    ∑ m ∈ Finset.Icc (-(ℓ : ℤ)) ℓ, Complex.normSq (toC (objRotH L st R.w R.x R.y R.z zgpow f s ℓ m))
      = ∑ m ∈ Finset.Icc (-(ℓ : ℤ)) ℓ, Complex.normSq (toC (fAt f ℓ m)) := by
  rw [← show ∑ m ∈ Finset.Icc (-(ℓ : ℤ)) ℓ, Complex.normSq (wts f ℓ m)
      = ∑ m ∈ Finset.Icc (-(ℓ : ℤ)) ℓ, Complex.normSq (toC (fAt f ℓ m)) from rfl,
    ← rot_block_norm R hR (wts f) ℓ]
  apply Finset.sum_congr rfl
  intro m hm
  rw [rotate_is_rot L st R hR zgpow f s ℓ hl hsl m (mem_blk hm) (hpow m)]

/-- `evaluate(rotate(f, R), Q) = evaluate(f, R·Q)`: the rotated weights evaluated at Q give the value of the original
    weights at R·Q (R on the LEFT), for chains of calls of the models; ellMax ≤ ell_max of all three calculators -/
theorem rotate_evaluate (L L₁ L₂ P P₂ : ℕ) (st : μ) (st₁ : μ₁) (st₂ : μ₂) (R Q : Quat ℝ)
    (hR : R.w ^ 2 + R.x ^ 2 + R.y ^ 2 + R.z ^ 2 = 1) (hQ : Q.w ^ 2 + Q.x ^ 2 + Q.y ^ 2 + Q.z ^ 2 = 1)
    (zgpow₁ : ℤ → Cx ℝ) (zgpowE zgpowE₂ : Cx ℝ) (f g : Array (Cx ℝ)) (s : ℤ) (ellMax : ℕ)
    (hL : ellMax ≤ L) (hL₁ : ellMax ≤ L₁) (hL₂ : ellMax ≤ L₂) (hsP : s.natAbs ≤ P) (hsP₂ : s.natAbs ≤ P₂)
    (prev prev₂ : Cx ℝ)
    (hE : toC zgpowE
      = conj (toC (eulerPhases (qmul R Q).w (qmul R Q).x (qmul R Q).y (qmul R Q).z).2.2) ^ s)
    (hpow₁ : ∀ n : ℤ, toC (zgpow₁ n) = toC (eulerPhases R.w R.x R.y R.z).2.2 ^ n)
    (hE₂ : toC zgpowE₂ = conj (toC (eulerPhases Q.w Q.x Q.y Q.z).2.2) ^ s)
    (hg : ∀ ℓ : ℕ, s.natAbs ≤ ℓ → ℓ ≤ ellMax → ∀ n : ℤ, n.natAbs ≤ ℓ →
      fAt g ℓ n = objRotH L₁ st₁ R.w R.x R.y R.z zgpow₁ f s ℓ n) :
    toC (objEvalH L₂ P₂ st₂ Q.w Q.x Q.y Q.z zgpowE₂ g s ellMax prev₂)
      = toC (objEvalH L P st (qmul R Q).w (qmul R Q).x (qmul R Q).y (qmul R Q).z zgpowE f s ellMax prev) := by
  rw [evaluate_is_evalW L₂ P₂ st₂ Q hQ zgpowE₂ g s ellMax hL₂ hsP₂ prev₂ hE₂,
    evaluate_is_evalW L P st (qmul R Q) (quat_mul_unit R Q hR hQ) zgpowE f s ellMax hL hsP prev hE,
    ← rot_evaluate R Q (wts f) s ellMax]
  apply evalW_congr
  intro ℓ h1 h2 n hn
  unfold wts
  rw [hg ℓ h1 h2 n hn, rotate_is_rot L₁ st₁ R hR zgpow₁ f s ℓ (by omega) h1 n hn (hpow₁ n)]
  rfl

end

/-! ### instances: the hypotheses are satisfiable and the statements have content -/

/-- ℓ = 3 (beyond the brute-force range of `Props/DHom.lean`), P = (1/2, 1/2, 1/2, 1/2), Q = (3/5, 0, 4/5, 0),
    P·Q = (−1/10, −1/10, 7/10, 7/10) (`DHom.qmul_example`): all 49 entries, the three calls on calculators of sizes
    3, 4, 5 whose workspaces initially hold 7's, 0's, −1's -/
example (mp m : ℤ) (hmp : mp.natAbs ≤ 3) (hm : m.natAbs ≤ 3) :
    toC (objD 3 (fun _ : Loc => (7 : ℝ)) (-1/10) (-1/10) (7/10) (7/10) imsqrtR 3 mp m)
      = ∑ k ∈ Finset.Icc (-3 : ℤ) 3,
          toC (objD 4 (fun _ : Loc => (0 : ℝ)) (1/2) (1/2) (1/2) (1/2) imsqrtR 3 mp k)
            * toC (objD 5 (fun _ : Loc => (-1 : ℝ)) (3/5) 0 (4/5) 0 imsqrtR 3 k m) := by
  have h := D_hom_all 3 4 5 3 (by decide) (by decide) (by decide) (fun _ : Loc => (7 : ℝ))
    (fun _ : Loc => (0 : ℝ)) (fun _ : Loc => (-1 : ℝ)) ⟨1/2, 1/2, 1/2, 1/2⟩ ⟨3/5, 0, 4/5, 0⟩ (by norm_num)
    (by norm_num) imsqrtR imsqrtR imsqrtR imsqrtR_spec imsqrtR_spec imsqrtR_spec mp m hmp hm
  rw [qmul_example] at h
  exact h

/-- ℓ = 3 at (3/5, 0, 4/5, 0): row 3 has norm 1 and is orthogonal to row −2; column 0 has norm 1 -/
example :
    ∑ k ∈ Finset.Icc (-3 : ℤ) 3,
        toC (objD 3 (fun _ : Loc => (0 : ℝ)) (3/5) 0 (4/5) 0 imsqrtR 3 3 k)
          * conj (toC (objD 3 (fun _ : Loc => (0 : ℝ)) (3/5) 0 (4/5) 0 imsqrtR 3 3 k)) = 1 ∧
    ∑ k ∈ Finset.Icc (-3 : ℤ) 3,
        toC (objD 3 (fun _ : Loc => (0 : ℝ)) (3/5) 0 (4/5) 0 imsqrtR 3 3 k)
          * conj (toC (objD 3 (fun _ : Loc => (0 : ℝ)) (3/5) 0 (4/5) 0 imsqrtR 3 (-2) k)) = 0 ∧
    ∑ k ∈ Finset.Icc (-3 : ℤ) 3,
        conj (toC (objD 3 (fun _ : Loc => (0 : ℝ)) (3/5) 0 (4/5) 0 imsqrtR 3 k 0))
          * toC (objD 3 (fun _ : Loc => (0 : ℝ)) (3/5) 0 (4/5) 0 imsqrtR 3 k 0) = 1 :=
  ⟨D_unitary_all 3 3 (by decide) _ ⟨3/5, 0, 4/5, 0⟩ (by norm_num) imsqrtR imsqrtR_spec 3 3 (by decide) (by decide),
   D_unitary_all 3 3 (by decide) _ ⟨3/5, 0, 4/5, 0⟩ (by norm_num) imsqrtR imsqrtR_spec 3 (-2) (by decide) (by decide),
   D_col_unitary_all 3 3 (by decide) _ ⟨3/5, 0, 4/5, 0⟩ (by norm_num) imsqrtR imsqrtR_spec 0 0 (by decide)
     (by decide)⟩

/-- ℓ = 3 at (1/2, 1/2, 1/2, 1/2): inverse, sign, conjugation symmetry; and the identity rotor -/
example :
    toC (objD 3 (fun _ : Loc => (7 : ℝ)) (1/2) (-(1/2)) (-(1/2)) (-(1/2)) imsqrtR 3 3 (-1))
      = conj (toC (objD 4 (fun _ : Loc => (0 : ℝ)) (1/2) (1/2) (1/2) (1/2) imsqrtR 3 (-1) 3)) ∧
    toC (objD 3 (fun _ : Loc => (7 : ℝ)) (-(1/2)) (-(1/2)) (-(1/2)) (-(1/2)) imsqrtR 3 2 1)
      = toC (objD 4 (fun _ : Loc => (0 : ℝ)) (1/2) (1/2) (1/2) (1/2) imsqrtR 3 2 1) ∧
    toC (objD 3 (fun _ : Loc => (7 : ℝ)) (1/2) (1/2) (1/2) (1/2) imsqrtR 3 (-2) (-1))
      = -conj (toC (objD 4 (fun _ : Loc => (0 : ℝ)) (1/2) (1/2) (1/2) (1/2) imsqrtR 3 2 1)) ∧
    toC (objD 3 (fun _ : Loc => (7 : ℝ)) 1 0 0 0 imsqrtR 3 2 2) = 1 ∧
    toC (objD 3 (fun _ : Loc => (7 : ℝ)) 1 0 0 0 imsqrtR 3 2 (-3)) = 0 := by
  refine ⟨D_inverse_all 3 4 3 (by decide) (by decide) (fun _ : Loc => (7 : ℝ)) (fun _ : Loc => (0 : ℝ))
      ⟨1/2, 1/2, 1/2, 1/2⟩ (by norm_num) imsqrtR imsqrtR imsqrtR_spec imsqrtR_spec 3 (-1) (by decide) (by decide),
    D_neg_all 3 4 3 (by decide) (by decide) (fun _ : Loc => (7 : ℝ)) (fun _ : Loc => (0 : ℝ))
      ⟨1/2, 1/2, 1/2, 1/2⟩ (by norm_num) imsqrtR imsqrtR imsqrtR_spec imsqrtR_spec 2 1 (by decide) (by decide),
    ?_, ?_, ?_⟩
  · have h := D_conj_symm_all 3 4 3 (by decide) (by decide) (fun _ : Loc => (7 : ℝ)) (fun _ : Loc => (0 : ℝ))
      ⟨1/2, 1/2, 1/2, 1/2⟩ (by norm_num) imsqrtR imsqrtR imsqrtR_spec imsqrtR_spec 2 1 (by decide) (by decide)
    simpa [show (-1 : ℂ) ^ 3 = -1 by norm_num] using h
  · have h := D_identity_all 3 3 (by decide) (fun _ : Loc => (7 : ℝ)) imsqrtR imsqrtR_spec 2 2 (by decide)
      (by decide)
    simpa using h
  · have h := D_identity_all 3 3 (by decide) (fun _ : Loc => (7 : ℝ)) imsqrtR imsqrtR_spec 2 (-3) (by decide)
      (by decide)
    simpa using h

/-- the addition theorem at ℓ = 3, spin s = −2, R = (1/2, 1/2, 1/2, 1/2), ell_max = 4, mp_max = 2:
    Σ_m |₋₂Y_{3m}(R)|² = 7/(4π) -/
example :
    ∑ m ∈ Finset.Icc (-3 : ℤ) 3,
        Complex.normSq (toC (objY 4 2 (fun _ : Loc => (7 : ℝ)) (1/2) (1/2) (1/2) (1/2) imsqrtR
          (ofC (toC (eulerPhases (1/2 : ℝ) (1/2) (1/2) (1/2)).2.2 ^ (-2 : ℤ).natAbs)) (-2) 3 m))
      = 7 / (4 * Real.pi) := by
  have h := addition_theorem 4 2 (fun _ : Loc => (7 : ℝ)) ⟨1/2, 1/2, 1/2, 1/2⟩ (by norm_num) imsqrtR imsqrtR_spec
    (ofC (toC (eulerPhases (1/2 : ℝ) (1/2) (1/2) (1/2)).2.2 ^ (-2 : ℤ).natAbs)) (-2) (toC_ofC _) 3 (by decide)
    (by decide) (by decide)
  exact h.trans (by norm_num)

/-- `Wigner.rotate` at ℓ = 3 for ANY array of weights, spin −2, R = (3/5, 0, 4/5, 0), with exact library powers -/
example (f : Array (Cx ℝ)) (m : ℤ) (hm : m.natAbs ≤ 3) :
    toC (objRotH 5 (fun _ : Loc => (7 : ℝ)) (3/5) 0 (4/5) 0
        (fun k => ofC (toC (eulerPhases (3/5 : ℝ) 0 (4/5) 0).2.2 ^ k)) f (-2) 3 m)
      = rot ⟨3/5, 0, 4/5, 0⟩ (wts f) 3 m :=
  rotate_is_rot 5 _ ⟨3/5, 0, 4/5, 0⟩ (by norm_num) _ f (-2) 3 (by decide) (by decide) m hm (toC_ofC _)

/-- the composition with concrete rotors, ℓ = 3: rotating by P = (1/2, 1/2, 1/2, 1/2) and then by Q = (3/5, 0, 4/5, 0)
    is rotating by P·Q = (−1/10, −1/10, 7/10, 7/10); and evaluating the P-rotated weights at Q is evaluating the
    original ones at P·Q -/
example (f : ℕ → ℤ → ℂ) (m : ℤ) (hm : m.natAbs ≤ 3) (s : ℤ) (ellMax : ℕ) :
    rot ⟨3/5, 0, 4/5, 0⟩ (rot ⟨1/2, 1/2, 1/2, 1/2⟩ f) 3 m = rot ⟨-1/10, -1/10, 7/10, 7/10⟩ f 3 m ∧
    evalW s ⟨3/5, 0, 4/5, 0⟩ (rot ⟨1/2, 1/2, 1/2, 1/2⟩ f) ellMax = evalW s ⟨-1/10, -1/10, 7/10, 7/10⟩ f ellMax := by
  rw [← qmul_example]
  exact ⟨rot_compose _ _ f 3 m hm, rot_evaluate _ _ f s ellMax⟩

/-- the order matters: with the same P, Q the OTHER product Q·P = (−1/10, 7/10, 1/10, −1/10) gives different weights —
    for the unit weight at (ℓ, n) = (1, 1), output weight (1, 1) is R_a(P·Q)² = −12/25 − 7i/50, not R_a(Q·P)² = i/50 -/
example : ∃ f : ℕ → ℤ → ℂ,
    rot ⟨3/5, 0, 4/5, 0⟩ (rot ⟨1/2, 1/2, 1/2, 1/2⟩ f) 1 1
      ≠ rot (qmul ⟨3/5, 0, 4/5, 0⟩ ⟨1/2, 1/2, 1/2, 1/2⟩) f 1 1 := by
  refine ⟨fun _ n => if n = 1 then 1 else 0, ?_⟩
  rw [rot_compose _ _ _ 1 1 (by decide), rot_delta _ 1 1 1 (by decide), rot_delta _ 1 1 1 (by decide),
    show ((1 : ℤ)) = ((1 : ℕ) : ℤ) from rfl, DocHom.docD_corner 1, DocHom.docD_corner 1]
  intro h
  have h2 := congrArg Complex.re h
  simp [QA, Ra, qmul, pow_two] at h2
  norm_num at h2

end HomAll
end
