import SphericalVerif.Model.FlatSteps
import SphericalVerif.Spec.Orderings
import SphericalVerif.Lemmas.IndexY
import SphericalVerif.Lemmas.IndexH
import SphericalVerif.Lemmas.IndexWalk
import Mathlib.Tactic.Ring

/-! Helper definitions and lemmas for `Props/FlatSteps`: what it means for a flat index to *be* a wedge
    cell / a table slot, how `WignerHindex` moves inside one column of the wedge, how `nm_index` /
    `nabsm_index` move inside one row, and the array sizes of `Wigner.__init__` / `_split_workspace`. -/
namespace FlatSteps
open Gen Spec

/-! ### vocabulary -/

/-- `(n, c, r)` is a coordinate of the stored wedge for `mp_max = P`:
    `c ∈ [-min(n, P), min(n, P)]`, `r ∈ [|c|, n]` (the documented ordering `Spec.hRange`). -/
def InWedge (P n c r : Int) : Prop :=
  -(min n P) ≤ c ∧ c ≤ min n P ∧ (c.natAbs : Int) ≤ r ∧ r ≤ n

/-- `idx` is the flat `Hwedge` position of the wedge cell `.hw n c r` (no folding involved). -/
def HwCell (P idx n c r : Int) : Prop :=
  idx = WignerHindex n c r (some P) ∧ InWedge P n c r

/-- `idx` is the position `nm_index n k` of the pair `(n, k)`, `|k| ≤ n`
    (tables `b d g h`: entry `(n, k)`; `Hv`: cell `.hv n k`). -/
def NmSlot (idx n k : Int) : Prop := idx = nm_index n k ∧ -n ≤ k ∧ k ≤ n

/-- `idx` is the position `nabsm_index n k` of the pair `(n, k)`, `0 ≤ k ≤ n` (table `a`). -/
def NabsmSlot (idx n k : Int) : Prop := idx = nabsm_index n k ∧ 0 ≤ k ∧ k ≤ n

/-- `idx` is the `Hextra` cell `.hx k` of the extra row `n = n_max+1` (`Hextra` has `n_max+2 = n+1` cells). -/
def XCell (idx n k : Int) : Prop := idx = k ∧ 0 ≤ k ∧ k ≤ n

instance (P n c r : Int) : Decidable (InWedge P n c r) := by unfold InWedge; infer_instance
instance (P idx n c r : Int) : Decidable (HwCell P idx n c r) := by unfold HwCell; infer_instance
instance (idx n k : Int) : Decidable (NmSlot idx n k) := by unfold NmSlot; infer_instance
instance (idx n k : Int) : Decidable (NabsmSlot idx n k) := by unfold NabsmSlot; infer_instance
instance (idx n k : Int) : Decidable (XCell idx n k) := by unfold XCell; infer_instance

/-! ### moving inside one wedge column -/

/-- Inside the wedge, consecutive `m` of one column `(n, c)` are consecutive flat positions. -/
theorem hindex_row (n c r r' P : Int) (hn : 0 ≤ n) (hP : 0 ≤ P)
    (h1 : -(min n P) ≤ c) (h2 : c ≤ min n P)
    (h3 : (c.natAbs : Int) ≤ r) (h4 : r ≤ n) (h3' : (c.natAbs : Int) ≤ r') (h4' : r' ≤ n) :
    WignerHindex n c r' (some P) = WignerHindex n c r (some P) + (r' - r) := by
  rw [Lemmas.hindex_wedge n c r' P hn hP h1 h2 h3' h4', Lemmas.hindex_wedge n c r P hn hP h1 h2 h3 h4]
  have h := Lemmas.u_row n c r (r' - r) P
  have e : r + (r' - r) = r' := by ring
  rw [e] at h
  exact h

/-- An index that is `r' - r` past the position of the wedge cell `(n, c, r)` is the wedge cell `(n, c, r')`. -/
theorem hwCell_of_row (P n c r r' idx : Int) (hn : 0 ≤ n) (hP : 0 ≤ P)
    (hw : InWedge P n c r) (hw' : InWedge P n c r')
    (hidx : idx = WignerHindex n c r (some P) + (r' - r)) : HwCell P idx n c r' := by
  obtain ⟨a1, a2, a3, a4⟩ := hw
  have ⟨_, _, b3, b4⟩ := hw'
  refine ⟨?_, hw'⟩
  rw [hidx, hindex_row n c r r' P hn hP a1 a2 a3 a4 b3 b4]

/-! ### moving inside one row of the `(n, m)` tables -/

theorem nm_index_shift (n k d : Int) : nm_index n k + d = nm_index n (k + d) := by
  unfold nm_index; ring

theorem nabsm_index_shift (n k d : Int) : nabsm_index n k + d = nabsm_index n (k + d) := by
  unfold nabsm_index; ring

/-! ### sizes -/

/-- A wedge cell with `n ≤ L` is inside `Hwedge` (`WignerHsize P L` cells) and is the documented position. -/
theorem HwCell.get {P idx n c r : Int} (h : HwCell P idx n c r) (L : Int) (hP : 0 ≤ P) (hn : 0 ≤ n) (hL : n ≤ L) :
    0 ≤ idx ∧ idx < WignerHsize P L ∧ (hRange P L)[idx.toNat]? = some (n, c, r) := by
  obtain ⟨e, a1, a2, a3, a4⟩ := h
  subst e
  exact Lemmas.hindex_get P L n c r hP hn hL a1 a2 a3 a4

theorem ysize_zero (N : Int) : Ysize 0 N = (N + 1) ^ 2 := by
  unfold Ysize; ring

/-- The tables `b d g h` of `Wigner.__init__` list `(n, m)` for `n in range(ell_max+2)`, `m in range(-n, n+1)`:
    `(ell_max+2)^2` entries.  A slot with `n ≤ ell_max+1` is inside and holds the entry `(n, k)`. -/
theorem NmSlot.table {idx n k : Int} (h : NmSlot idx n k) (L : Int) (hn : 0 ≤ n) (hL : n ≤ L + 1) :
    0 ≤ idx ∧ idx < (L + 2) ^ 2 ∧ (nmRange (L + 1))[idx.toNat]? = some (n, k) := by
  obtain ⟨e, a1, a2⟩ := h
  subst e
  have g := Lemmas.nm_index_get (L + 1) n k hn hL a1 a2
  rw [ysize_zero, show L + 1 + 1 = L + 2 by ring] at g
  exact g

/-- `Hv` has `(ell_max+1)^2` cells, ordered `(n, m)` for `n in range(ell_max+1)`, `m in range(-n, n+1)`. -/
theorem NmSlot.hv {idx n k : Int} (h : NmSlot idx n k) (L : Int) (hn : 0 ≤ n) (hL : n ≤ L) :
    0 ≤ idx ∧ idx < (L + 1) ^ 2 ∧ (nmRange L)[idx.toNat]? = some (n, k) := by
  obtain ⟨e, a1, a2⟩ := h
  subst e
  have g := Lemmas.nm_index_get L n k hn hL a1 a2
  rw [ysize_zero] at g
  exact g

/-- The table `a` lists `(n, m)` for `n in range(ell_max+2)`, `m in range(n+1)`: `(ell_max+2)(ell_max+3)/2` entries. -/
theorem NabsmSlot.table {idx n k : Int} (h : NabsmSlot idx n k) (L : Int) (hn : 0 ≤ n) (hL : n ≤ L + 1) :
    0 ≤ idx ∧ idx < (L + 2) * (L + 3) / 2 ∧ (nabsmRange (L + 1))[idx.toNat]? = some (n, k) := by
  obtain ⟨e, a1, a2⟩ := h
  subst e
  have g := Lemmas.nabsm_index_get (L + 1) n k hn hL a1 a2
  rw [Lemmas.nabsm_length (L + 1) (by omega), show L + 1 + 1 = L + 2 by ring,
    show L + 1 + 2 = L + 3 by ring] at g
  exact g

/-- `Hextra` has `ell_max+2` cells; the extra row is `n = ell_max+1`. -/
theorem XCell.get {idx n k : Int} (h : XCell idx n k) (L : Int) (hL : n = L + 1) :
    0 ≤ idx ∧ idx < L + 2 := by
  obtain ⟨e, a1, a2⟩ := h
  omega

end FlatSteps
