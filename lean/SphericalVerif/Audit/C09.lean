import SphericalVerif.Props.C09
import SphericalVerif.Props.HKernel
import SphericalVerif.Props.GenH
import SphericalVerif.Props.GenHorner
import SphericalVerif.Props.Footprint
import SphericalVerif.Props.GenMethod
#print axioms C09.objd_pure
#print axioms C09.objD_pure
#print axioms C09.objY_pure
#print axioms C09.objEvalH_pure
#print axioms C09.objRotH_pure
#print axioms C09.op_out_pure
#print axioms C09.history_indep
#print axioms C09.history_indep_all
#print axioms HKernel.runH_pure
#print axioms HKernel.runH_size_indep
#print axioms GenH.tables
#print axioms GenH.genH_sim
#print axioms GenH.genH_refines
#print axioms GenH.genH_pure
#print axioms GenH.genH_size_indep
#print axioms GenH.tabOK_ranges
#print axioms GenHorner.gen_evaluate_row
#print axioms GenHorner.gen_evaluate_rows
#print axioms Footprint.step3_only
#print axioms Footprint.step1_only
#print axioms Footprint.step2_only
#print axioms Footprint.step4_only
#print axioms Footprint.step5_only
#print axioms Footprint.fill_d_only
#print axioms Footprint.fill_D_only
#print axioms Footprint.fill_sYlm_only
#print axioms Footprint.euler_only
#print axioms Footprint.cpow_only
#print axioms Footprint.evalH_only
#print axioms Footprint.rotH_only
#print axioms Footprint.wigner_H_only
#print axioms Footprint.gen_D_chain_inplace
#print axioms GenMethod.cpow_one
#print axioms GenMethod.half_double
#print axioms GenMethod.D_rotor_eq
#print axioms GenMethod.frdC_after_H
#print axioms GenMethod.sYlm_rotor_eq
#print axioms GenMethod.evaluate_rotor_eq
#print axioms GenMethod.rotate_rotor_eq
#print axioms GenMethod.D_rotor_only
#print axioms GenMethod.sYlm_rotor_only
#print axioms GenMethod.evaluate_rotor_only
#print axioms GenMethod.rotate_rotor_only
#print axioms GenMethod.loop_keeps
#print axioms GenMethod.loop_keepsC
#print axioms GenMethod.D_rotor_pure
#print axioms GenMethod.D_loop_row
#print axioms GenMethod.sYlm_rotor_pure
#print axioms GenMethod.sYlm_loop_row
#print axioms GenMethod.evaluate_rotor_pure
#print axioms GenMethod.evaluate_loop_col
#print axioms GenMethod.rotate_rotor_pure
#print axioms GenMethod.D_rotor_doc
#print axioms GenMethod.sYlm_rotor_doc
#print axioms GenMethod.evaluate_rotor_doc
#print axioms GenMethod.rotate_rotor_doc
