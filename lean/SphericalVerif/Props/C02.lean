import SphericalVerif.Model.Assemble
/-! C02 — spin-weighted spherical harmonics.  Property theorems specific to C02 that hold for EVERY arithmetic
    (the exact-arithmetic identities are in Props/Routes.lean, the H refinement in Props/HKernel.lean). -/
namespace C02
open Model

/-- Entries with ℓ < |s| are the literal zero — for every scalar type (IEEE doubles included), every memory
    content, every rotor: no arithmetic is performed for them. -/
theorem sYlm_low_exact_zero {α μ : Type} [Scalar α] [Mem μ α] (st : μ) (za : Array (Cx α)) (zgpow : Cx α)
    (s : Int) (ell : Nat) (m : Int) (h : (ell : Int) < (s.natAbs : Int)) :
    sYlmEntry (α := α) st za zgpow s ell m = ⟨zero, zero⟩ := by
  unfold sYlmEntry; simp [h]

/-- Every H lookup made for spin weight s has first order m' = (wedge representative of (m, -s)) with
    |m'| ≤ |s|: a calculator with mp_max ≥ |s| stores every cell sYlm reads, for every ell_max. -/
theorem sYlm_reads_in_narrow_wedge (s m : Int) :
    ((Spec.wedgeRep m (-s)).1.natAbs : Int) ≤ (s.natAbs : Int) := by
  unfold Spec.wedgeRep
  split <;> split <;> omega

example : ((Spec.wedgeRep 5 (-(-2))).1.natAbs : Int) ≤ 2 := by decide
end C02
