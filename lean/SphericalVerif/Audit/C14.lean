import SphericalVerif.Props.C14
import SphericalVerif.Props.GenCPow
#print axioms C14.cpow_exact
#print axioms C14.cpow_exact_at
#print axioms C14.quadrant_loop_le3
#print axioms C14.quadrant_fuel_irrelevant
#print axioms C14.quadrant_norm_and_back
#print axioms C14.cpow_entry0
#print axioms C14.cpow_entry0_real
#print axioms C14.cpow_entry1
#print axioms GenCPow.gen_cpow_exact
#print axioms GenCPow.gen_cpow_entry0
#print axioms GenCPow.gen_cpow_entry1
