import SphericalVerif.Lemmas.GenH
/-! `_step_1` and `_step_3`: the generated kernels are the coordinate model run on the hybrid memory. -/
namespace GenH
open Gen Model FlatSteps Scalar
section
variable {α : Type} [Scalar α] {φ : Type} [FMem φ α] {L P : Nat}

theorem sim_step1 (F : φ) (J : Loc → α) :
    Model.step1 (α := α) (⟨F, J⟩ : Hyb L P φ α) = ⟨Gen.u_step_1 (α := α) idW F, J⟩ := by
  unfold Model.step1 Gen.u_step_1
  rw [wr_hw (L := L) (P := P) F J 0 0 0 0 _ (Nat.zero_le _) ⟨rfl, by unfold InWedge; omega⟩]
  rfl

theorem sim_step3 (c s : α) (a b : Int → α) 
    (ha : ∀ n k : Int, 0 ≤ n → n ≤ (L : Int) + 1 → 0 ≤ k → k ≤ n → a (nabsm_index n k) = Gen.tab_a n k)
    (hb : ∀ n k : Int, 0 ≤ n → n ≤ (L : Int) + 1 → -n ≤ k → k ≤ n → b (nm_index n k) = Gen.tab_b n k)
    (F : φ) (J : Loc → α) :
    Model.step3 L P c s (⟨F, J⟩ : Hyb L P φ α) = ⟨Gen.u_step_3 (α := α) a b L P idW idX ⟨c, s⟩ F, J⟩ := by
  unfold Model.step3 Gen.u_step_3
  by_cases h0 : L = 0 ∨ P = 0
  · have h1 : ¬ (((L : Int) > 0) ∧ ((P : Int) > 0)) := by omega
    simp only [if_pos h0, if_neg h1]
  · have h1 : (((L : Int) > 0) ∧ ((P : Int) > 0)) := by omega
    simp only [if_neg h0, if_pos h1]
    have hc : ((((L : Int) + 1)) - 1).toNat = L := by omega
    rw [hc]
    apply loopN_hyb
    intro k F hk
    have hc2 : (1 + (k : Int) - 0).toNat = k + 1 := by omega
    rw [hc2]
    apply loopN_hyb
    intro i F hi
    have hn : (1 : Int) + k = ((k + 1 : Nat) : Int) := by push_cast; omega
    have hP : (1 : Int) ≤ P := by omega
    rw [wr_hw F J (k+1) 1 (i+1) (0 + (i : Int) + WignerHindex (1 + ↑k) 1 1 (some ↑P)) _ (by omega)
      (hwc (s3_write_eq (1 + (k : Int)) i P hP (by omega) (by omega) (by omega)) (by unfold s3_write s3_i1; omega) (by push_cast; omega) (by push_cast; omega))]
    congr 2
    simp only [Int.zero_add, ← hn]
    have e5 : b (nm_index (1 + ↑k + 1) 0) = bC (1 + ↑k + 1) 0 :=
      tab_nm L hb (s3_b5_eq (1 + (k : Int)) (by omega)) (by omega) (by omega)
    have e6 : b (-(i : Int) + nm_index (1 + ↑k + 1) 0 - 2) = bC (1 + ↑k + 1) (-(i : Int) - 2) :=
      tab_nm L hb (s3_b6_eq (1 + (k : Int)) i (by omega) (by omega)) (by omega) (by omega)
    have e7 : b ((i : Int) + nm_index (1 + ↑k + 1) 0) = bC (1 + ↑k + 1) (i : Int) :=
      tab_nm L hb (s3_b7_eq (1 + (k : Int)) i (by omega) (by omega)) (by omega) (by omega)
    have e8 : a ((i : Int) + nabsm_index (1 + ↑k) 1) = aC (1 + ↑k) ((i : Int) + 1) :=
      tab_nabsm L ha (s3_a8_eq (1 + (k : Int)) i (by omega) (by omega)) (by omega) (by omega)
    rw [e5, e6, e7, e8]
    by_cases hr : k + 1 + 1 ≤ L
    · have hr' : (1 : Int) + k + 1 ≤ L := by omega
      simp only [if_pos hr', rowLoc, if_pos hr]
      rw [rd_hw F J (k+1+1) 0 (i+2) ((i : Int) + WignerHindex (1 + ↑k + 1) 0 0 (some ↑P) + 2) hr
            (hwc (s3_src2_eq (1 + (k : Int)) i P (by omega) (by omega) (by omega) (by omega)) (by unfold s3_src2 s3_i2; omega) (by push_cast; omega) (by push_cast; omega)),
          rd_hw F J (k+1+1) 0 i ((i : Int) + WignerHindex (1 + ↑k + 1) 0 0 (some ↑P)) hr
            (hwc (s3_src0_eq (1 + (k : Int)) i P (by omega) (by omega) (by omega) (by omega)) (by unfold s3_src0 s3_i2; omega) (by push_cast; omega) (by push_cast; omega)),
          rd_hw F J (k+1+1) 0 (i+1) ((i : Int) + WignerHindex (1 + ↑k + 1) 0 0 (some ↑P) + 1) hr
            (hwc (s3_src1_eq (1 + (k : Int)) i P (by omega) (by omega) (by omega) (by omega)) (by unfold s3_src1 s3_i2; omega) (by push_cast; omega) (by push_cast; omega))]
      rfl
    · have hr' : ¬ ((1 : Int) + k + 1 ≤ L) := by omega
      simp only [if_neg hr', rowLoc, if_neg hr]
      rw [rd_hx F J (i+2) ((i : Int) + 0 + 2) (by omega) (by push_cast; omega),
          rd_hx F J i ((i : Int) + 0) (by omega) (by push_cast; omega),
          rd_hx F J (i+1) ((i : Int) + 0 + 1) (by omega) (by push_cast; omega)]
      rfl
end
end GenH
