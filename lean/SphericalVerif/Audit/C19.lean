import SphericalVerif.Props.C19
#print axioms C19.constant_round_trip
#print axioms C19.constant_real_variant
#print axioms C19.vector_round_trip
#print axioms C19.vector_round_trip'
#print axioms C19.vector_real_variant
#print axioms C19.round_trips_Kreal
#print axioms C19.constant_is_Y00
#print axioms C19.vector_is_Y1
#print axioms C19.real_vector_is_Y1
#print axioms C19.Y1_standard_form
#print axioms C19.dot_components
#print axioms C19.real_vector_reality
