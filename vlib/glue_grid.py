"""Correspondence of the Lean decision model of `spherical.Grid` (lean/SphericalVerif/Model/Grid.lean, run by the
compiled driver through Driver/GridOps.lean) with the REAL class.

Every generated operation is executed on real `spherical.Grid` objects, its outcome is canonicalised to the same
one-line string the driver prints for the model, and the two strings are compared.

  kind "grid-dispatch": __array_ufunc__ (ufunc / operator / reflected / in-place / out= / kwargs / at, outer, reduce …
                        forms), the method forms of algebra.py, and Grid.__new__
  kind "grid-copy":     copy routes (obj.copy(), copy.copy, copy.deepcopy, np.array(copy=True, subok=True), pickle 0..5)
                        against the model's hook functions: hook sequence, what is preserved, what is shared, and
                        whether mutating either side is visible on the other

What the canonical strings contain: for a returned Grid — exact class, spin weight, n_theta, n_phi, leading shape, extra
metadata keys, whether `result._metadata` IS an operand's dict (`pre:i`) or a new one (`fresh`), whether the result IS
an operand; for `out=` — what `out[0]._metadata` became; for exceptions — which raise statement (`reason`) and the class.
`TypeError(... all returned NotImplemented ...)` raised by numpy is canonicalised to `notimpl`."""
import copy
import operator
import pickle
import traceback
import warnings

import numpy as np

KIND = "grid-dispatch"
KIND_COPY = "grid-copy"

PASS = ["greater", "greater_equal", "less", "less_equal", "not_equal", "equal", "logical_and", "logical_or",
        "isfinite", "isinf", "isnan"]
UNARY = ["positive", "negative", "conj", "conjugate", "absolute", "sqrt", "square", "reciprocal"]
BINARY = ["add", "subtract", "multiply", "divide", "true_divide", "power"]
OTHERS1 = ["exp", "log", "sin", "tanh", "floor", "sign", "cbrt", "exp2", "logical_not", "fabs", "rint", "arccos", "signbit",
           "invert", "deg2rad", "expm1", "log1p", "trunc", "spacing"]
OTHERS2 = ["arctan2", "maximum", "minimum", "hypot", "floor_divide", "remainder", "float_power", "logical_xor", "bitwise_and",
           "copysign", "fmax", "matmul", "heaviside", "nextafter", "logaddexp", "mod", "fmod", "left_shift"]
OPS = {"add": operator.add, "subtract": operator.sub, "multiply": operator.mul, "divide": operator.truediv,
       "true_divide": operator.truediv, "power": operator.pow}
IOPS = {"add": operator.iadd, "subtract": operator.isub, "multiply": operator.imul, "divide": operator.itruediv,
        "true_divide": operator.itruediv, "power": operator.ipow}
UOPS = {"positive": operator.pos, "negative": operator.neg, "absolute": abs}
KWARGS = [{"where": True}, {"dtype": complex}, {"casting": "unsafe"}, {"order": "C"}, {"subok": True}]
PASS_KWARGS = [{"where": True}, {"casting": "unsafe"}, {"order": "C"}]
SPINS = [-3, -2, -1, 0, 1, 2, 3]
BIG_SPINS = [-8, -5, 4, 6, 9]
LEADS = [(), (), (), (2,), (1,), (3,), (2, 3), (1, 3), (2, 1)]


def sh(s):
    return "x".join(str(d) for d in s) if len(s) else "-"


def ex(keys):
    return ",".join(keys) if keys else "-"


# ---------------------------------------------------------------- real objects

def mkgrid(rng, s, nt, nph, lead=(), extra=()):
    """A real Grid with spin s and grid (nt, nph).  When (nt, nph) is too small for the constructor, it is obtained by
    slicing a larger Grid (slicing goes through __array_finalize__ and by-passes the size check)."""
    import spherical
    need = 2 * abs(s) + 1
    NT, NP = max(nt, need), max(nph, need)
    nprng = np.random.default_rng(rng.randint(0, 2 ** 31))
    a = nprng.uniform(0.5, 2.0, size=tuple(lead) + (NT, NP)) + 1j * nprng.uniform(0.5, 2.0, size=tuple(lead) + (NT, NP))
    g = spherical.Grid(a, spin_weight=s, **{k: [k] for k in extra})
    if (NT, NP) != (nt, nph):
        g = g[..., :nt, :nph].copy()
    assert g.shape == tuple(lead) + (nt, nph) and g._metadata["spin_weight"] == s
    return g


def extras_of(md):
    return [k for k in md if k != "spin_weight"]


def int_value(x):
    """the exponent test of the source, verbatim: `some k` iff int(x) succeeds and int(x) == x"""
    with warnings.catch_warnings():
        warnings.simplefilter("ignore")  # same filter as when the operation itself is executed (ComplexWarning)
        try:
            e = int(x)
            if e != x:
                return None
            return e
        except:  # noqa: E722  (the source uses a bare except)
            return None


def scalar_tok(x):
    nz = bool(np.any(np.asanyarray(x)))
    k = int_value(x)
    return f"s:{'nz' if nz else 'z'}:{sh(np.shape(x))}:{'none' if k is None else k}"


class Ids:
    """identity of the metadata dicts alive before the call"""

    def __init__(self):
        self.dicts = []

    def of(self, d):
        for i, e in enumerate(self.dicts):
            if e is d:
                return i
        self.dicts.append(d)
        return len(self.dicts) - 1

    def find(self, d):
        for i, e in enumerate(self.dicts):
            if e is d:
                return i
        return None


def grid_tok(g, ids):
    md = g._metadata
    return f"g:{md['spin_weight']}:{g.shape[-2]}:{g.shape[-1]}:{sh(g.shape[:-2])}:{ids.of(md)}:{ex(extras_of(md))}"


def arg_tok(a, ids):
    import spherical
    return grid_tok(a, ids) if isinstance(a, spherical.Grid) else scalar_tok(a)


# ---------------------------------------------------------------- canonicalisation

def classify(e):
    cls = type(e).__name__
    msg = str(e)
    frames = traceback.extract_tb(e.__traceback__)
    fn = frames[-1].name if frames else "?"
    if isinstance(e, TypeError) and "returned NotImplemented" in msg:
        return "notimpl"
    reason = None
    if isinstance(e, NameError) and "'s'" in msg:
        reason = {"__new__": "toosmall", "subtract": "spin-subtract"}.get(fn)
    elif isinstance(e, NotImplementedError) and "Unrecognized arguments" in msg:
        reason = "kwargs"
    elif isinstance(e, IndexError) and "tuple index out of range" in msg:
        reason = "index"
    elif isinstance(e, ValueError):
        for pat, r in (("Only one positional", "toomanypos"), ("at least two dimensions", "ndim"), ("Spin weight must be specified", "nospin"),
                       ("points in each direction", "toosmall"), ("with different spin weights", "spin" if fn != "subtract" else "spin-subtract"),
                       ("Shape mismatch", "shape"), ("Cannot broadcast array of", "scalardims"),
                       ("could not be broadcast together", "npbroadcast"), ("non-broadcastable output", "npbroadcast"),
                       ("is meaningless", "realimag"), ("non-zero scalars", "scalarnonzero"), ("Cannot broadcast input array to this", "cannotbroadcast")):
            if pat in msg:
                reason = r
                break
    if reason is None:
        return f"raise other:{fn}:{msg[:80]!r} {cls}"
    return f"raise {reason} {cls}"


def canon_result(r, ids, receiver=None, operands=()):
    import spherical
    if r is None:
        return "none"
    if isinstance(r, spherical.Grid):
        if type(r) is not spherical.Grid:
            return f"grid-subclass {type(r).__name__}"
        md = r._metadata
        i = ids.find(md)
        meta = "fresh" if i is None else f"pre:{i}"
        obj = "self" if r is receiver else ("new" if not any(r is o for o in operands) else "operand")
        return (f"grid spin={md['spin_weight']} nt={r.shape[-2]} np={r.shape[-1]} lead={sh(r.shape[:-2])} extra={ex(extras_of(md))} "
                f"meta={meta} obj={obj}")
    return "plain"


def canon_out(o, old_md, r, ids):
    import spherical
    if not isinstance(o, spherical.Grid):
        return "out0 na"
    md = o._metadata
    if md is old_md:
        return "out0 unchanged"
    i = ids.find(md)
    same = isinstance(r, spherical.Grid) and r._metadata is md
    return f"out0 spin={md.get('spin_weight')} extra={ex(extras_of(md))} meta={'fresh' if i is None else f'pre:{i}'} sameasresult={1 if same else 0}"


def outkind(s):
    t = s.split(" | ")[0].split()
    return t[0] if t[0] != "raise" else f"raise:{t[1]}"


# ---------------------------------------------------------------- generators

def pick_scalar(rng, lead, want=None):
    """a non-Grid operand.  want in {None, 'zero', 'nonzero', 'array', 'toomany', 'nobcast'}"""
    want = want or rng.choice(["zero", "nonzero", "nonzero", "nonzero", "array", "array", "toomany", "nobcast"])
    if want == "zero":
        return rng.choice([0, 0.0, 0j, False, np.float64(0.0), np.array(0.0), np.zeros(lead) if lead else np.array(0j), [0.0] * lead[-1] if lead else 0])
    if want == "nonzero":
        return rng.choice([2, 2.5, -1, 3.0, 1 - 2j, True, np.float64(2.0), np.int64(3), np.complex128(2), np.array(2.0), np.array(3), float("nan"), -2.0, 1e-300])
    if want == "array":
        if not lead:
            return np.array(rng.choice([2.0, 0.0, 1j]))
        shapes = [tuple(lead), lead[-1:], (1,) * len(lead), tuple(1 if rng.random() < 0.5 else d for d in lead)]
        s = rng.choice(shapes)
        v = rng.choice([0.0, 1.5, 2.0 + 1j])
        a = np.full(s, v, dtype=complex)
        return a.tolist() if rng.random() < 0.15 else a
    if want == "toomany":
        s = (1,) * (len(lead) + rng.randint(1, 2)) if rng.random() < 0.5 else tuple(lead) + (rng.choice([1, 5]),)
        return np.full(s, rng.choice([0.0, 2.0]), dtype=complex)
    # same number of dims (or fewer) but incompatible sizes
    if not lead:
        return np.array(rng.choice([2.0, 0.0]))
    s = tuple(d + 2 for d in lead)[-rng.randint(1, len(lead)):]
    return np.full(s, rng.choice([0.0, 2.0]), dtype=complex)


def pick_exponent(rng):
    return rng.choice([0, 1, 2, 3, -1, -2, 2.0, -3.0, True, np.int64(2), np.float64(3.0), np.array(2), np.array(-1.0), 4, 5, 6, -4,
                       2.5, -0.5, 1.000001, float("nan"), float("inf"), 2 + 0j, 1j, np.complex128(2), np.array([2.0]), np.array([2, 3]),
                       [2], "2", None, np.float64(2.5), np.array(1.5)])


def grid_pair(rng):
    """two Grid descriptors with a controlled relation between sizes and the needs of the result"""
    s1 = rng.choice(SPINS + SPINS + BIG_SPINS)
    s2 = rng.choice(SPINS + [s1, s1, -s1]) if rng.random() < 0.9 else rng.choice(BIG_SPINS)
    need_ops = 2 * max(abs(s1), abs(s2)) + 1
    need_all = 2 * max(abs(s1), abs(s2), abs(s1 + s2), abs(s1 - s2)) + 1
    mode = rng.choice(["enough", "enough", "enough", "operands-only", "random"])
    if mode == "enough":
        nt, nph = need_all + rng.randint(0, 2), need_all + rng.randint(0, 3)
    elif mode == "operands-only":
        nt, nph = need_ops + rng.randint(0, 1), need_ops + rng.randint(0, 1)
    else:
        nt, nph = rng.randint(1, 9), rng.randint(1, 9)
    nt2, nph2 = nt, nph
    r = rng.random()
    if r < 0.08:
        nt2 = nt + rng.choice([-1, 1, 2])
    elif r < 0.16:
        nph2 = nph + rng.choice([-1, 1])
    elif r < 0.19:
        nt2, nph2 = 1, 1
    nt2, nph2 = max(nt2, 1), max(nph2, 1)
    l1 = rng.choice(LEADS)
    l2 = rng.choice([l1, l1, l1, (), rng.choice(LEADS)])
    e1 = rng.choice([(), (), ("a",), ("a", "b")])
    e2 = rng.choice([(), ("c",), ("a",)])
    return (s1, nt, nph, l1, e1), (s2, nt2, nph2, l2, e2)


def one_grid(rng, result_spins=lambda s: [s]):
    s = rng.choice(SPINS + SPINS + BIG_SPINS)
    need_self = 2 * abs(s) + 1
    need_all = 2 * max([abs(s)] + [abs(t) for t in result_spins(s)]) + 1
    mode = rng.choice(["enough", "enough", "enough", "self-only", "random"])
    if mode == "enough":
        nt, nph = need_all + rng.randint(0, 2), need_all + rng.randint(0, 3)
    elif mode == "self-only":
        nt, nph = need_self + rng.randint(0, 1), need_self + rng.randint(0, 1)
    else:
        nt, nph = rng.randint(1, 9), rng.randint(1, 9)
    return (s, nt, nph, rng.choice(LEADS), rng.choice([(), (), ("a",), ("a", "b")]))


def make_out(rng, inputs_shapes, spin_hint):
    """an out array for inputs of the given shapes: mostly of the right shape, sometimes larger / wrong; Grid or plain"""
    import spherical
    try:
        R = np.broadcast_shapes(*inputs_shapes)
    except ValueError:
        R = inputs_shapes[0]
    r = rng.random()
    if r < 0.7 or len(R) < 2:
        S = R
    elif r < 0.8:
        S = (2,) + tuple(R)
    elif r < 0.9:
        S = tuple(R[:-1]) + (R[-1] + 1,)
    else:
        S = tuple(R[1:]) if len(R) > 2 else tuple(R[:-2]) + (R[-2] + 2, R[-1])
    if len(S) < 2 or rng.random() < 0.2:
        return np.zeros(S, dtype=complex)
    so = rng.choice([0, 0, spin_hint, 1, -2])
    return mkgrid(rng, so, S[-2], S[-1], S[:-2], rng.choice([(), ("o",)]))


class Case:
    __slots__ = ("line", "impl", "stratum", "sample")


def run_call(fn, ids, out=None, receiver=None, operands=()):
    """execute `fn` on the real objects and canonicalise (result | out effect)"""
    old_md = getattr(out, "_metadata", None)
    try:
        with warnings.catch_warnings(), np.errstate(all="ignore"):
            warnings.simplefilter("ignore")
            r = fn()
        res = canon_result(r, ids, receiver, operands)
    except Exception as e:  # noqa: BLE001
        r = None
        res = classify(e)
    return res, r, old_md


def gen_ufunc(rng):
    """one __array_ufunc__ case: (driver line, canonical implementation outcome, family)"""
    import spherical
    Grid = spherical.Grid
    fam = rng.choice(["binary"] * 9 + ["unary"] * 4 + ["pass"] * 2 + ["other"] * 2 + ["meth"] * 2 + ["selfout"])
    ids = Ids()
    kw = {}
    meth = "call"
    out = None
    form = "ufunc"
    if fam == "binary":
        name = rng.choice(BINARY)
        pat = rng.choice(["GG", "GG", "GG", "Gs", "Gs", "sG", "sG"]) if name != "power" else rng.choice(["Gs", "Gs", "Gs", "Gs", "GG", "sG"])
        if pat == "GG":
            d1, d2 = grid_pair(rng)
            a = mkgrid(rng, *d1)
            b = a if (rng.random() < 0.05) else mkgrid(rng, *d2)
        elif pat == "Gs":
            a = mkgrid(rng, *one_grid(rng, (lambda s: [k * s for k in (2, 3, -2)]) if name == "power" else (lambda s: [s])))
            b = pick_exponent(rng) if name == "power" else pick_scalar(rng, a.shape[:-2])
        else:
            b = mkgrid(rng, *one_grid(rng))
            a = pick_scalar(rng, b.shape[:-2]) if name != "power" or rng.random() < 0.5 else pick_exponent(rng)
        args = [a, b]
        forms = ["ufunc", "ufunc", "operator", "out", "kwargs"]
        if isinstance(a, Grid):
            forms += ["inplace", "inplace"]
        form = rng.choice(forms)
        uf = getattr(np, name)
        if form in ("ufunc",):
            fn = lambda: uf(a, b)
        elif form == "operator":
            if isinstance(a, list) or isinstance(b, list) or a is None or b is None or isinstance(a, str) or isinstance(b, str):
                form = "ufunc"
                fn = lambda: uf(a, b)
            else:
                form = "operator" if isinstance(a, Grid) else "reflected"
                fn = lambda: OPS[name](a, b)
        elif form == "inplace":
            out = a
            if isinstance(b, (list, str)) or b is None:
                fn = lambda: uf(a, b, out=a)
                form = "out-self"
            else:
                fn = lambda: IOPS[name](a, b)
        elif form == "out":
            shapes = [np.shape(a) if isinstance(a, Grid) else tuple(np.shape(a)) + (1, 1), np.shape(b) if isinstance(b, Grid) else tuple(np.shape(b)) + (1, 1)]
            if name == "power" and not isinstance(b, Grid):
                shapes = shapes[:1]
            gs = [x for x in args if isinstance(x, Grid)]
            out = make_out(rng, shapes, gs[0]._metadata["spin_weight"])
            tup = rng.random() < 0.3
            fn = lambda: uf(a, b, out=(out,) if tup else out)
        else:
            kw = rng.choice(KWARGS)
            fn = lambda: uf(a, b, **kw)
    elif fam == "unary":
        name = rng.choice(UNARY)
        spins = {"sqrt": lambda s: [s // 2], "square": lambda s: [2 * s]}.get(name, lambda s: [s])
        a = mkgrid(rng, *one_grid(rng, spins))
        args = [a]
        uf = getattr(np, name)
        forms = ["ufunc", "ufunc", "out", "out-self", "kwargs"] + (["operator"] if name in UOPS else [])
        form = rng.choice(forms)
        if form == "ufunc":
            fn = lambda: uf(a)
        elif form == "operator":
            fn = lambda: UOPS[name](a)
        elif form == "out":
            out = make_out(rng, [a.shape], a._metadata["spin_weight"])
            fn = lambda: uf(a, out=out)
        elif form == "out-self":
            out = a
            fn = lambda: uf(a, out=a)
        else:
            kw = rng.choice(KWARGS)
            fn = lambda: uf(a, **kw)
    elif fam == "pass":
        name = rng.choice(PASS)
        uf = getattr(np, name)
        if uf.nin == 1:
            a = mkgrid(rng, *one_grid(rng))
            args = [a]
        else:
            d1, d2 = grid_pair(rng)
            a = mkgrid(rng, *d1)
            b = rng.choice([mkgrid(rng, *d2), pick_scalar(rng, a.shape[:-2], "nonzero"), a])
            args = [a, b] if rng.random() < 0.8 else [b, a]
        form = rng.choice(["ufunc", "ufunc", "kwargs", "out", "reduce"])
        if form == "ufunc":
            fn = lambda: uf(*args)
        elif form == "kwargs":
            kw = rng.choice(PASS_KWARGS)
            fn = lambda: uf(*args, **kw)
        elif form == "out":
            out = make_out(rng, [np.shape(x) for x in args], 0)
            fn = lambda: uf(*args, out=out)
        else:
            if name in ("logical_and", "logical_or"):   # (numpy has no complex reduce loop for the orderings)
                meth = "other"
                kw = {"axis": 0}
                args = [a]
                fn = lambda: uf.reduce(a, axis=0)
            else:
                form = "ufunc"
                fn = lambda: uf(*args)
    elif fam == "other":
        name = rng.choice(OTHERS1 + OTHERS2)
        uf = getattr(np, name)
        a = mkgrid(rng, *one_grid(rng))
        if uf.nin == 1:
            args = [a]
        else:
            b = rng.choice([a, 2.0, mkgrid(rng, *one_grid(rng))])
            args = [a, b] if rng.random() < 0.7 else [b, a]
        form = rng.choice(["ufunc", "ufunc", "kwargs", "out"] if uf.nout == 1 else ["ufunc", "kwargs"])
        if form == "ufunc":
            fn = lambda: uf(*args)
        elif form == "kwargs":
            kw = {"where": True} if name != "matmul" else {"casting": "unsafe"}
            fn = lambda: uf(*args, **kw)
        else:
            out = mkgrid(rng, 0, a.shape[-2], a.shape[-1], a.shape[:-2])
            fn = lambda: uf(*args, out=out)
    elif fam == "meth":
        which = rng.choice(["outer", "reduce", "reduce-axis", "accumulate", "reduceat", "at1", "at2", "max", "sum", "any"])
        d1, d2 = grid_pair(rng)
        a = mkgrid(rng, *d1)
        b = mkgrid(rng, *d2)
        form = which
        meth = "other"
        if which == "outer":
            name = rng.choice(["add", "multiply", "subtract", "divide"])
            args = [a, b]
            fn = lambda: getattr(np, name).outer(a, b)
        elif which in ("reduce", "accumulate"):
            name = rng.choice(["add", "multiply", "power", "subtract"])
            args = [a]
            fn = lambda: getattr(getattr(np, name), which)(a)
        elif which == "reduce-axis":
            name = rng.choice(["add", "multiply", "maximum"])
            args = [a]
            kw = {"axis": 0}
            fn = lambda: getattr(np, name).reduce(a, axis=0)
        elif which == "reduceat":
            name = rng.choice(["add", "multiply"])
            idx = rng.choice([[0], [0, 0], np.array([0])])
            args = [a, idx]
            fn = lambda: getattr(np, name).reduceat(a, idx)
        elif which == "at1":
            meth = "at"
            name = rng.choice(["negative", "positive", "sqrt", "conjugate", "square", "absolute", "exp"])
            idx = rng.choice([[0], 0, np.array([0, 0])])
            args = [a, idx]
            fn = lambda: getattr(np, name).at(a, idx)
        elif which == "at2":
            meth = "at"
            name = rng.choice(["add", "multiply", "subtract", "power"])
            idx = rng.choice([[0], 0, [1]])
            v = rng.choice([0.0, 2.0, b])
            args = [a, idx, v]
            fn = lambda: getattr(np, name).at(a, idx, v)
        elif which == "max":
            name = "maximum"
            args = [a]
            kw = {"axis": None}
            fn = lambda: a.max()
        elif which == "sum":
            name = "add"
            args = [a]
            kw = {"axis": None}
            fn = lambda: a.sum()
        else:
            name = "logical_or"
            args = [a]
            kw = {"axis": None}
            fn = lambda: np.any(a)
    else:  # selfout: no Grid among the inputs, a Grid as out -> `self` is the out array
        name = rng.choice(["negative", "positive", "conjugate", "add", "multiply", "absolute", "power", "sqrt"])
        uf = getattr(np, name)
        out = mkgrid(rng, *one_grid(rng))
        x = np.full(out.shape, 2.0 + 0j) if rng.random() < 0.7 else np.array(2.0 + 0j)
        args = [x] if uf.nin == 1 else [x, rng.choice([2.0, x])]
        form = "out"
        fn = lambda: uf(*args, out=out)
    # tokens BEFORE executing (in-place forms rebind out[0]._metadata)
    toks = [arg_tok(x, ids) for x in args]
    otok = "none" if out is None else (grid_tok(out, ids) if isinstance(out, Grid) else f"p:{sh(out.shape)}")
    line = f"grid ufunc {name} {meth} kw={1 if kw else 0} out={otok} form={form} " + " ".join(toks)
    operands = [x for x in args if isinstance(x, Grid)] + ([out] if isinstance(out, Grid) else [])
    res, r, old_md = run_call(fn, ids, out, None, operands)
    impl = res + " | " + (canon_out(out, old_md, r, ids) if out is not None else "out0 na")
    return line, impl, f"ufunc:{fam}"


def gen_method(rng):
    import spherical
    Grid = spherical.Grid
    ids = Ids()
    name = rng.choice(["conjugate", "conjugate_inplace", "bar", "real", "imag", "absolute", "conj"] + ["add", "subtract", "multiply", "divide"] * 4)
    if name in ("add", "subtract", "multiply", "divide"):
        if rng.random() < 0.55:
            d1, d2 = grid_pair(rng)
            a = mkgrid(rng, *d1)
            b = a if rng.random() < 0.05 else mkgrid(rng, *d2)
        else:
            a = mkgrid(rng, *one_grid(rng))
            b = pick_scalar(rng, a.shape[:-2])
            if rng.random() < 0.15:
                b = np.full(rng.choice([a.shape[-1:], a.shape[-2:], a.shape, (3,) + a.shape]), rng.choice([0.0, 2.0]))
        toks = [grid_tok(a, ids), arg_tok(b, ids)]
        fn = lambda: getattr(a, name)(b)
        operands = [a] + ([b] if isinstance(b, Grid) else [])
        mname = name
    else:
        a = mkgrid(rng, *one_grid(rng, lambda s: [0]))
        toks = [grid_tok(a, ids)]
        operands = [a]
        mname = {"conj": "conjugate"}.get(name, name)
        if name == "conjugate_inplace":
            fn = (lambda: a.conjugate(inplace=True)) if rng.random() < 0.5 else (lambda: a.conj(True))
        elif name in ("conjugate", "conj", "absolute"):
            fn = lambda: getattr(a, name)()
        else:
            fn = lambda: getattr(a, name)
    line = f"grid method {mname} " + " ".join(toks)
    res, r, _ = run_call(fn, ids, None, a, operands)
    if name == "conjugate_inplace" and r is a:
        # in place: the receiver's own dict now carries the negated spin; nothing else may have changed
        pass
    return line, res, "method"


def gen_new(rng):
    import spherical
    Grid = spherical.Grid
    ids = Ids()
    shape = rng.choice([(5, 5), (3, 4), (2, 7, 7), (7,), (1, 1), (), (2, 2), (9, 2), (1, 3, 9, 11)])
    arr = np.ones(shape, dtype=complex)
    src = rng.choice(["ndarray", "ndarray", "grid", "grid", "list"])
    inm = "none"
    inp = arr
    if src == "grid" and len(shape) >= 2:
        s0 = rng.choice([0, 1, 2, -1, None])
        e0 = rng.choice([(), ("a",), ("a", "b")])
        need = 2 * abs(s0 or 0) + 1
        big = Grid(np.ones(tuple(shape[:-2]) + (max(shape[-2], need), max(shape[-1], need)), dtype=complex), spin_weight=s0 or 0, **{k: [k] for k in e0})
        inp = big[..., :shape[-2], :shape[-1]]
        inp._metadata["spin_weight"] = s0
        ids.of(inp._metadata)
        inm = f"{'none' if s0 is None else s0};{ex(e0)}"
    elif src == "list":
        inp = arr.tolist()
    npos = rng.choice([0, 0, 0, 1, 1, 2, 3])
    pos = [rng.choice([0, 1, -2, 3, None]) for _ in range(npos)]
    kwspin = rng.choice(["absent", "absent", 0, 1, -1, 2, -3, None])
    kwextra = rng.choice([(), (), ("b",), ("z", "a")])
    kwargs = {k: [k] for k in kwextra}
    if kwspin != "absent":
        kwargs["spin_weight"] = kwspin
    line = (f"grid new shape={sh(shape)} in={inm} pos={','.join('none' if p is None else str(p) for p in pos) or '-'} "
            f"kwspin={'none' if kwspin is None else kwspin} kwextra={ex(kwextra)}")
    res, r, _ = run_call(lambda: Grid(inp, *pos, **kwargs), ids, None, None, [inp] if isinstance(inp, Grid) else [])
    return line, res, "new"


# ---------------------------------------------------------------- copy / pickle

ROUTES = [("objCopy", lambda o: o.copy()), ("copyCopy", copy.copy), ("copyDeepcopy", copy.deepcopy),
          ("npArraySubok", lambda o: np.array(o, copy=True, subok=True))]
for _p in range(pickle.HIGHEST_PROTOCOL + 1):
    ROUTES.append((f"pickle:{_p}", lambda o, p=_p: pickle.loads(pickle.dumps(o, protocol=p))))


class HookSpy:
    """records which Grid hooks run (restores the class afterwards)"""

    def __init__(self):
        import spherical
        self.G = spherical.Grid
        self.calls = []
        self.saved = {}

    def __enter__(self):
        G, calls = self.G, self.calls
        for n in ("__array_finalize__", "__reduce__", "__setstate__", "__deepcopy__"):
            self.saved[n] = G.__dict__[n]
        fin, red, sst, dcp = (self.saved[n] for n in ("__array_finalize__", "__reduce__", "__setstate__", "__deepcopy__"))

        def __array_finalize__(self, obj):
            calls.append("finalize-none" if obj is None else "finalize")
            return fin(self, obj)

        def __reduce__(self):
            calls.append("reduce")
            return red(self)

        def __setstate__(self, state):
            calls.append("setstate")
            return sst(self, state)

        def __deepcopy__(self, memo):
            calls.append("deepcopy")
            return dcp(self, memo)
        G.__array_finalize__, G.__reduce__, G.__setstate__, G.__deepcopy__ = __array_finalize__, __reduce__, __setstate__, __deepcopy__
        return self

    def __exit__(self, *a):
        for n, f in self.saved.items():
            setattr(self.G, n, f)


def b01(x):
    return "1" if x else "0"


def copy_case(rng, rname, route, s, keys, lead):
    import spherical
    Grid = spherical.Grid

    def fresh():
        need = 2 * abs(s) + 1
        g = mkgrid(rng, s, need + 1, need + 2, lead)
        for i, k in enumerate(keys):
            g._metadata[k] = [f"v{i + 1}"]
        return g
    o = fresh()
    data0 = np.array(o.view(np.ndarray), copy=True)
    with HookSpy() as spy:
        c = route(o)
        hooks = list(spy.calls)
    md, cmd = o._metadata, getattr(c, "_metadata", None)
    ckeys = extras_of(cmd) if cmd is not None else []
    valsequal = cmd is not None and [(k, cmd[k]) for k in ckeys] == [(k, md[k]) for k in keys]
    valsshared = bool(keys) and cmd is not None and ckeys == list(keys) and all(cmd[k] is md[k] for k in keys)
    head = (f"hooks={','.join(hooks) or '-'} cls={type(c).__name__} hasmd={b01(cmd is not None)} spin={cmd.get('spin_weight') if cmd is not None else 'none'} "
            f"extra={ex(ckeys)} valsequal={b01(valsequal)} mdsame={b01(cmd is md)} valsshared={b01(valsshared)} bufsame={b01(np.shares_memory(c, o))} "
            f"databytes={b01(np.array_equal(c.view(np.ndarray), data0))}")
    # experiment 1: mutate the copy (dict, first value object, data); look at the original
    snap_items = [(k, id(v)) for k, v in md.items()]
    ofirst = md[keys[0]] if keys else None
    snap_val = list(ofirst) if keys else None
    cmd["spin_weight"] = 77
    cmd["new_key"] = 0
    if ckeys:
        cmd[ckeys[0]].append("mutated")
    c.view(np.ndarray)[...] = 99.0
    e1 = (f"orig_dict_unaffected={b01([(k, id(v)) for k, v in md.items()] == snap_items and md.get('spin_weight') == s)} "
          f"orig_buf_unaffected={b01(np.array_equal(o.view(np.ndarray), data0))} "
          f"orig_val_unaffected={b01((list(ofirst) == snap_val) if keys else True)}")
    # experiment 2 (fresh pair): mutate the original; look at the copy
    o = fresh()
    c = route(o)
    md, cmd = o._metadata, c._metadata
    ckeys = extras_of(cmd)
    snap_items = [(k, id(v)) for k, v in cmd.items()]
    cfirst = cmd[ckeys[0]] if ckeys else None
    snap_val = list(cfirst) if ckeys else None
    snap_data = np.array(c.view(np.ndarray), copy=True)
    first = md[keys[0]] if keys else None
    for k in list(md):
        del md[k]
    md["spin_weight"] = 55
    md["other_key"] = 0
    if first is not None:
        first.append("mutated")
    o.view(np.ndarray)[...] = 7.0
    e2 = (f"copy_dict_unaffected={b01([(k, id(v)) for k, v in cmd.items()] == snap_items and cmd.get('spin_weight') == s)} "
          f"copy_buf_unaffected={b01(np.array_equal(c.view(np.ndarray), snap_data))} "
          f"copy_val_unaffected={b01((list(cfirst) == snap_val) if ckeys else True)}")
    line = f"grid copy {rname} {s} {ex(keys)} lead={sh(lead)}"
    return line, f"{head} {e1} {e2}", rname.split(":")[0]


# ---------------------------------------------------------------- entry point

def compare(run, kind, cases, label):
    """cases: list of (line, impl, stratum-prefix).  Sends the lines to the model, compares, records."""
    if not cases:
        return 0
    out = run.driver([c[0] for c in cases])
    if out is None or len(out) != len(cases):
        run.corr_break(f"corr:{label}", "driver failed" if out is None else f"driver returned {len(out)} lines for {len(cases)} ops")
        return len(cases)
    bad = 0
    for (line, impl, pre), model in zip(cases, out):
        ok = model == impl
        stratum = f"{pre}|{outkind(impl)}" if kind == KIND else pre
        run.corr_case(kind, line, stratum, {"op": line, "outcome": impl} if ok else None)
        if not ok:
            bad += 1
            if bad <= 5:
                run.corr_break(f"corr:{label}", {"op": line, "model": model, "impl": impl})
    return bad


def corr_dispatch(run, quick):
    """__array_ufunc__ / method forms / __new__ : model vs real class.  Returns the number of disagreements."""
    import spherical  # noqa: F401
    rng = run.rng
    n_uf, n_me, n_new = (2600, 700, 300) if quick else (12000, 3000, 1000)
    cases = []
    for _ in range(n_uf):
        cases.append(gen_ufunc(rng))
    for _ in range(n_me):
        cases.append(gen_method(rng))
    for _ in range(n_new):
        cases.append(gen_new(rng))
    bad = compare(run, KIND, cases, KIND)
    dist = {}
    for _, impl, _ in cases:
        k = outkind(impl)
        dist[k] = dist.get(k, 0) + 1
    run.notes["grid_outcome_distribution"] = dict(sorted(dist.items(), key=lambda t: -t[1]))
    run.notes.setdefault("grid_corr", {}).update({"dispatch_cases": len(cases), "dispatch_disagreements": bad})
    return bad


def corr_copy(run, quick):
    """copy / pickle routes: model hooks vs real class.  Returns the number of disagreements."""
    import spherical  # noqa: F401
    rng = run.rng
    ccases = []
    for s in ([-2, 0, 1, 3] if quick else range(-3, 4)):
        for keys in ((), ("note",), ("note", "k2")):
            for lead in ((), (2,)):
                for rname, route in ROUTES:
                    try:
                        ccases.append(copy_case(rng, rname, route, s, keys, lead))
                    except Exception as e:  # noqa: BLE001  (a route that raises is a disagreement, not a crash)
                        ccases.append((f"grid copy {rname} {s} {ex(keys)}", f"raised {type(e).__name__}: {str(e)[:120]}", rname.split(":")[0]))
    badc = compare(run, KIND_COPY, ccases, KIND_COPY)
    run.notes.setdefault("grid_corr", {}).update({"copy_cases": len(ccases), "copy_disagreements": badc})
    return badc


def corr(run, quick):
    """both parts (C16 needs `corr_dispatch`, C18 needs `corr_copy`)"""
    return corr_dispatch(run, quick) + corr_copy(run, quick)
