import SphericalVerif.Lemmas.DocD3
/-! Relation (50) of Gumerov–Duraiswami for the documented d.

    Polynomial content: (1 + t²) P' − 2ℓ t P = (ℓ−m') P_{m'+1} − (ℓ+m') P_{m'−1} for P_{m'} = u^{ℓ+m'} v^{ℓ−m'} — here
    obtained coefficientwise from the Pascal and lowering relations. -/
noncomputable section
namespace DocD
open Polynomial Nat Model GDFamily
set_option linter.unusedVariables false

variable (ch sh : ℝ)

/-- (j+2) T(a,b,j+2) − (i+2) T(a,b,j) = b T(a+1,b−1,j+1) − a T(a−1,b+1,j+1), a = A+1, b = B+1, A + B = I + J -/
theorem raw50 (hcs : ch ^ 2 + sh ^ 2 = 1) (A B I J : ℕ) (h : A + B = I + J) :
    ((J : ℝ) + 2) * T ch sh (A + 1) (B + 1) (J + 2) - ((I : ℝ) + 2) * T ch sh (A + 1) (B + 1) J
      = ((B : ℝ) + 1) * T ch sh (A + 2) B (J + 1) - ((A : ℝ) + 1) * T ch sh A (B + 2) (J + 1) := by
  have hR : (A : ℝ) + B = I + J := by exact_mod_cast h
  have lb1 := lower_b ch sh hcs (A + 1) B (J + 1)
  have lb0 := lower_b ch sh hcs (A + 1) B J
  have la1 := lower_a ch sh hcs A (B + 1) (J + 1)
  have la0 := lower_a ch sh hcs A (B + 1) J
  rw [T_a_succ ch sh (A + 1) B J, T_b_succ ch sh A (B + 1) J]
  push_cast at lb1 lb0 la1 la0
  linear_combination (-ch) * lb1 + sh * lb0 + sh * la1 + ch * la0
    - (((J : ℝ) + 2) * T ch sh (A + 1) (B + 1) (J + 2) - ((I : ℝ) + 2) * T ch sh (A + 1) (B + 1) J) * hcs
    + (T ch sh (A + 1) (B + 1) J * (ch ^ 2 + sh ^ 2)) * hR

/-- the instance j = 0: T(a,b,1) = b T(a+1,b−1,0) − a T(a−1,b+1,0) -/
theorem raw50_zero (hcs : ch ^ 2 + sh ^ 2 = 1) (A B : ℕ) :
    T ch sh (A + 1) (B + 1) 1
      = ((B : ℝ) + 1) * T ch sh (A + 2) B 0 - ((A : ℝ) + 1) * T ch sh A (B + 2) 0 := by
  have lb0 := lower_b ch sh hcs (A + 1) B 0
  have la0 := lower_a ch sh hcs A (B + 1) 0
  rw [T_a_zero ch sh (A + 1) B, T_b_zero ch sh A (B + 1)]
  push_cast at lb0 la0
  linear_combination (-ch) * lb0 + sh * la0 - (T ch sh (A + 1) (B + 1) 1) * hcs

/-- (50), normalised, natural-number indices, j ≥ 1 -/
theorem dN50 (hcs : ch ^ 2 + sh ^ 2 = 1) (A B I J : ℕ) (h : A + B = I + J) :
    Real.sqrt (((J : ℝ) + 1 + 1) * ((I : ℝ) + 1)) * dN ch sh (A + 1) (B + 1) I (J + 2)
      - Real.sqrt (((J : ℝ) + 1) * ((I : ℝ) + 1 + 1)) * dN ch sh (A + 1) (B + 1) (I + 2) J
    = Real.sqrt (((B : ℝ) + 1) * ((A : ℝ) + 1 + 1)) * dN ch sh (A + 2) B (I + 1) (J + 1)
      - Real.sqrt (((B : ℝ) + 1 + 1) * ((A : ℝ) + 1)) * dN ch sh A (B + 2) (I + 1) (J + 1) := by
  have r := raw50 ch sh hcs A B I J h
  have n1 := nrm_j_up (A + 1) (B + 1) I (J + 1)
  have n2 := nrm_i_up (A + 1) (B + 1) (I + 1) J
  have n3 := nrm_a_up (A + 1) B (I + 1) (J + 1)
  have n4 := nrm_b_up A (B + 1) (I + 1) (J + 1)
  push_cast at n1 n2 n3 n4
  unfold dN
  linear_combination (T ch sh (A + 1) (B + 1) (J + 2)) * n1 - (T ch sh (A + 1) (B + 1) J) * n2
    - (T ch sh (A + 2) B (J + 1)) * n3 + (T ch sh A (B + 2) (J + 1)) * n4
    + (nrm (A + 1) (B + 1) (I + 1) (J + 1)) * r

/-- (50), normalised, j = 0 -/
theorem dN50_zero (hcs : ch ^ 2 + sh ^ 2 = 1) (A B I : ℕ) :
    Real.sqrt (((0 : ℝ) + 1) * ((I : ℝ) + 1)) * dN ch sh (A + 1) (B + 1) I 1
    = Real.sqrt (((B : ℝ) + 1) * ((A : ℝ) + 1 + 1)) * dN ch sh (A + 2) B (I + 1) 0
      - Real.sqrt (((B : ℝ) + 1 + 1) * ((A : ℝ) + 1)) * dN ch sh A (B + 2) (I + 1) 0 := by
  have r := raw50_zero ch sh hcs A B
  have n1 := nrm_j_up (A + 1) (B + 1) I 0
  have n3 := nrm_a_up (A + 1) B (I + 1) 0
  have n4 := nrm_b_up A (B + 1) (I + 1) 0
  push_cast at n1 n3 n4
  unfold dN
  linear_combination (T ch sh (A + 1) (B + 1) 1) * n1
    - (T ch sh (A + 2) B 0) * n3 + (T ch sh A (B + 2) 0) * n4
    + (nrm (A + 1) (B + 1) (I + 1) 0) * r

/-- e(k) = √((n−k)(n+k+1)) = 2 |d^k_n| -/
def ee (n k : ℤ) : ℝ := Real.sqrt (((n - k) * (n + k + 1) : ℤ) : ℝ)

theorem gdD_eq (n k : ℤ) : gdD n k = sgn k / 2 * ee n k := rfl

theorem ee_eq (n k : ℤ) (x y : ℝ) (hx : x = ((n - k : ℤ) : ℝ)) (hy : y = ((n + k + 1 : ℤ) : ℝ)) :
    ee n k = Real.sqrt (x * y) := by
  unfold ee; rw [hx, hy]; push_cast; rfl

/-- the core of (50) for the documented d, integer indices, on the stored wedge -/
theorem docd50 (hcs : ch ^ 2 + sh ^ 2 = 1) (n : ℕ) (mp m : ℤ)
    (h1 : mp.natAbs < n) (h2 : (mp.natAbs : ℤ) ≤ m) (h3 : m ≤ n) :
    ee n (m - 1) * docd ch sh n mp (m - 1) - ee n m * docd ch sh n mp (m + 1)
      = ee n mp * docd ch sh n (mp + 1) m - ee n (mp - 1) * docd ch sh n (mp - 1) m := by
  obtain ⟨A, hA⟩ : ∃ A : ℕ, (A : ℤ) + 1 = n + mp := ⟨((n : ℤ) + mp - 1).toNat, by omega⟩
  obtain ⟨B, hB⟩ : ∃ B : ℕ, (B : ℤ) + 1 = n - mp := ⟨((n : ℤ) - mp - 1).toNat, by omega⟩
  obtain ⟨I, hI⟩ : ∃ I : ℕ, (I : ℤ) + 1 = n + m := ⟨((n : ℤ) + m - 1).toNat, by omega⟩
  have hAr : (A : ℝ) + 1 = (n : ℝ) + mp := by exact_mod_cast hA
  have hBr : (B : ℝ) + 1 = (n : ℝ) - mp := by exact_mod_cast hB
  have hIr : (I : ℝ) + 1 = (n : ℝ) + m := by exact_mod_cast hI
  by_cases hmn : m = n
  · -- j = 0
    have e0 : ee n m = 0 := by
      unfold ee; rw [hmn, sub_self, zero_mul]; simp
    rw [e0, zero_mul, sub_zero,
      docd_eq_dN ch sh n mp (m - 1) (A + 1) (B + 1) I 1 (by omega) (by omega) (by omega) (by omega),
      docd_eq_dN ch sh n (mp + 1) m (A + 2) B (I + 1) 0 (by omega) (by omega) (by omega) (by omega),
      docd_eq_dN ch sh n (mp - 1) m A (B + 2) (I + 1) 0 (by omega) (by omega) (by omega) (by omega),
      ee_eq n (m - 1) ((0 : ℝ) + 1) ((I : ℝ) + 1) (by rw [hmn]; push_cast; ring) (by push_cast; linarith),
      ee_eq n mp ((B : ℝ) + 1) ((A : ℝ) + 1 + 1) (by push_cast; linarith) (by push_cast; linarith),
      ee_eq n (mp - 1) ((B : ℝ) + 1 + 1) ((A : ℝ) + 1) (by push_cast; linarith) (by push_cast; linarith)]
    exact dN50_zero ch sh hcs A B I
  · obtain ⟨J, hJ⟩ : ∃ J : ℕ, (J : ℤ) + 1 = n - m := ⟨((n : ℤ) - m - 1).toNat, by omega⟩
    have hJr : (J : ℝ) + 1 = (n : ℝ) - m := by exact_mod_cast hJ
    rw [docd_eq_dN ch sh n mp (m - 1) (A + 1) (B + 1) I (J + 2) (by omega) (by omega) (by omega) (by omega),
      docd_eq_dN ch sh n mp (m + 1) (A + 1) (B + 1) (I + 2) J (by omega) (by omega) (by omega) (by omega),
      docd_eq_dN ch sh n (mp + 1) m (A + 2) B (I + 1) (J + 1) (by omega) (by omega) (by omega) (by omega),
      docd_eq_dN ch sh n (mp - 1) m A (B + 2) (I + 1) (J + 1) (by omega) (by omega) (by omega) (by omega),
      ee_eq n (m - 1) ((J : ℝ) + 1 + 1) ((I : ℝ) + 1) (by push_cast; linarith) (by push_cast; linarith),
      ee_eq n m ((J : ℝ) + 1) ((I : ℝ) + 1 + 1) (by push_cast; linarith) (by push_cast; linarith),
      ee_eq n mp ((B : ℝ) + 1) ((A : ℝ) + 1 + 1) (by push_cast; linarith) (by push_cast; linarith),
      ee_eq n (mp - 1) ((B : ℝ) + 1 + 1) ((A : ℝ) + 1) (by push_cast; linarith) (by push_cast; linarith)]
    exact dN50 ch sh hcs A B I J (by omega)

/-- relation (50) for `Hdoc` on the stored wedge -/
theorem Hdoc_rel50 (hcs : ch ^ 2 + sh ^ 2 = 1) (n : ℕ) (mp m : ℤ)
    (h1 : mp.natAbs < n) (h2 : (mp.natAbs : ℤ) ≤ m) (h3 : m ≤ n) : Rel50 (Hdoc ch sh) n mp m := by
  have core := docd50 ch sh hcs n mp m h1 h2 h3
  have s1 := sg_up mp
  have s2 := sg_dn mp
  have s3 := sg_m_dn m
  have s4 := sg_m_up m
  unfold Rel50 Hdoc
  rw [gdD_eq, gdD_eq, gdD_eq, gdD_eq]
  push_cast
  linear_combination
    (ee n mp / 2 * ((eps (-m) : ℤ) : ℝ) * docd ch sh n (mp + 1) m) * s1
    - (ee n (mp - 1) / 2 * ((eps (-m) : ℤ) : ℝ) * docd ch sh n (mp - 1) m) * s2
    + (ee n (m - 1) / 2 * ((eps mp : ℤ) : ℝ) * docd ch sh n mp (m - 1)) * s3
    - (ee n m / 2 * ((eps mp : ℤ) : ℝ) * docd ch sh n mp (m + 1)) * s4
    + (((eps mp : ℤ) : ℝ) * ((eps (-m) : ℤ) : ℝ) / 2) * core

end DocD
end
