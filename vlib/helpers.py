"""Small helpers shared by the implementation-side sweeps."""
import math

import numpy as np


def random_weights(rng, s, ell_max, lead=(), kind="random"):
    n = (ell_max + 1) ** 2
    size = int(np.prod(lead)) * n if lead else n
    nprng = np.random.default_rng(rng.randint(0, 2 ** 31))
    if kind == "zero":
        a = np.zeros(size, dtype=complex)
    elif kind == "single":
        a = np.zeros(size, dtype=complex)
        for k in range(int(np.prod(lead)) if lead else 1):
            ell = rng.randint(min(abs(s), ell_max), ell_max)
            a[k * n + ell * (ell + 1) + rng.randint(-ell, ell)] = complex(rng.gauss(0, 1), rng.gauss(0, 1))
    elif kind == "dynamic":
        a = (nprng.normal(size=size) + 1j * nprng.normal(size=size)) * 10.0 ** nprng.uniform(-12, 12, size=size)
    else:
        a = nprng.normal(size=size) + 1j * nprng.normal(size=size)
    a = a.reshape(tuple(lead) + (n,))
    # value patterns a fast path might special-case (all legitimate functions)
    if kind == "tiny":            # data in small units (e.g. strain ~ 1e-21)
        a *= 1e-21
    elif kind == "huge":
        a *= 1e18
    elif kind == "real":          # real weights (not, in general, a real function)
        a = a.real + 0j
    elif kind == "imag":
        a = 1j * a.real
    elif kind == "axisym":        # only m = 0
        keep = np.zeros(n, dtype=bool)
        keep[[l * (l + 1) for l in range(ell_max + 1)]] = True
        a = a * keep
    elif kind == "lastzero":      # dense, but the very last weight (ell_max, +ell_max) vanishes
        a[..., -1] = 0
    elif kind == "toplow":        # highest shell many orders of magnitude below the rest (rapidly decaying spectrum)
        a[..., ell_max ** 2:] *= 1e-12
    elif kind == "realfunc":      # weights of a real-valued spin-0 function: f_{l,-m} = (-1)^m conj(f_{l,m})
        for l in range(ell_max + 1):
            for m in range(1, l + 1):
                a[..., l * (l + 1) - m] = (-1) ** m * np.conj(a[..., l * (l + 1) + m])
            a[..., l * (l + 1)] = a[..., l * (l + 1)].real
    return a


KINDS = ["random", "tiny", "real", "axisym", "lastzero", "dynamic", "toplow", "imag", "huge", "single", "realfunc", "zero"]


def make_modes(rng, s, ell_max, lead=(), kind="random", **kw):
    import spherical
    return spherical.Modes(random_weights(rng, s, ell_max, lead, kind), spin_weight=s, ell_min=0, ell_max=ell_max, **kw)


def random_rotor(rng):
    v = [rng.gauss(0, 1) for _ in range(4)]
    n = math.sqrt(sum(x * x for x in v))
    return tuple(x / n for x in v)


def qmul(a, b):
    w1, x1, y1, z1 = a
    w2, x2, y2, z2 = b
    return (w1 * w2 - x1 * x2 - y1 * y2 - z1 * z2, w1 * x2 + x1 * w2 + y1 * z2 - z1 * y2,
            w1 * y2 - x1 * z2 + y1 * w2 + z1 * x2, w1 * z2 + x1 * y2 - y1 * x2 + z1 * w2)


def qconj(a):
    return (a[0], -a[1], -a[2], -a[3])


def bits_equal(a, b):
    a, b = np.asarray(a), np.asarray(b)
    if a.shape != b.shape or a.dtype != b.dtype:
        return False
    return a.tobytes() == b.tobytes() or bool(np.array_equal(a, b, equal_nan=True) and np.array_equal(np.signbit(a.view(float) if np.iscomplexobj(a) else a), np.signbit(b.view(float) if np.iscomplexobj(b) else b)))


def sYlm_sum(w, modes_arr, s, ell_max_m, R):
    """reference: sum_{l,m} f_lm sYlm(R) with sYlm from a generously sized calculator (plain numpy sum)"""
    import quaternionic
    Y = w.sYlm(s, quaternionic.array(R))
    n = (ell_max_m + 1) ** 2
    lo = w.Yindex(0, 0) if w.ell_min == 0 else None
    return np.tensordot(modes_arr[..., :n], Y[:n], axes=([-1], [0]))
