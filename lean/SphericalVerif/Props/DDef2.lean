import SphericalVerif.Props.DDef
import SphericalVerif.Lemmas.DDef2
/-! DDef2 — ℓ = 2: the object-level models of `Wigner.D` / `Wigner.d` compute the DOCUMENTED matrices
    (docs/WignerDMatrices.md of the library), in exact arithmetic, for every unit quaternion.

    Property theorems only; helpers live in `Lemmas/DDef2.lean`.  Same setting as `Props/DDef.lean` (which covers
    ℓ ≤ 1 and the two pole families for every ℓ): the hand-written models `Model.eulerPhases`, `Model.runH`,
    `Model.cpowers`, `Model.objD`, `Model.objd` run at the exact scalar `α := ℝ`, for EVERY real unit quaternion
    (degenerate branches of `to_euler_phases` included), every lawful workspace memory and initial content, every
    calculator size `L = ell_max ≥ 2`, every `imsqrt` with `2·imsqrt(w)² = 1 − Re w` on the unit circle.

    What ℓ = 2 adds over ℓ ≤ 1: the H recursion now goes through
      * step 2 up to row 3 (row `ell_max + 1` when `ell_max = 2`, kept in `Hextra`), which step 3 reads;
      * step 3 at n = 2 (two cells);
      * step 4, m' = 1 → 2 (the cell H²(2,2)) — not exercised by ℓ ≤ 1;
      * step 5, both columns: m' = 0 → −1 (inner and top cell) and m' = −1 → −2 (the cell H²(−2,2)) — the second
        column is not exercised by ℓ ≤ 1;
    and the assembly reads z_α², z_γ² and their conjugates.  `H_ell2` gives the nine wedge cells in closed form,
    `d_ell2` / `D_ell2` the 25 entries of `Wigner.d` / `Wigner.D`.  ℓ ≥ 3 at generic β: see `Props/DocD.lean` (`objd_eq_docd`) and `Props/DAll.lean` (`D_all`). -/
noncomputable section
namespace DDef2
open Model Spec Horner DDef
open scoped ComplexConjugate

/-! ### 1. the H wedge at n = 2 -/

/-- The nine wedge cells H²(m', m), |m'| ≤ m ≤ 2, for real c, s with c² + s² = 1 (s of either sign), c = cos β,
    s = sin β.  They are ε_{m'} ε_{−m} d²_{m',m}(β):
    ```
      m' = −2:                                             (1−c)²/4
      m' = −1:                       (1+c−2c²)/2           (1−c)s/2
      m' =  0:   (3c²−1)/2           (√6/2) c s            (√6/4) s²
      m' =  1:                      −(2c²+c−1)/2          −(1+c)s/2
      m' =  2:                                             (1+c)²/4
                   m = 0                m = 1                m = 2
    ```
    (`valW` has no size, memory or state argument; `HRefine.runH_refines` identifies it with what `Model.runH`
    leaves in the workspace.) -/
theorem H_ell2 (c s : ℝ) (h : c ^ 2 + s ^ 2 = 1) :
    valW c s 2 (-2) 2 = (1 - c) ^ 2 / 4 ∧
    valW c s 2 (-1) 1 = (1 + c - 2 * c ^ 2) / 2 ∧ valW c s 2 (-1) 2 = (1 - c) * s / 2 ∧
    valW c s 2 0 0 = (3 * c ^ 2 - 1) / 2 ∧ valW c s 2 0 1 = c * s * Real.sqrt 6 / 2 ∧
    valW c s 2 0 2 = s ^ 2 * Real.sqrt 6 / 4 ∧
    valW c s 2 1 1 = -(2 * c ^ 2 + c - 1) / 2 ∧ valW c s 2 1 2 = -((1 + c) * s) / 2 ∧
    valW c s 2 2 2 = (1 + c) ^ 2 / 4 :=
  ⟨valW_2_m2_2 c s h, valW_2_m1_1 c s h, valW_2_m1_2 c s h, valW_2_0_0 c s h, valW_2_0_1 c s, valW_2_0_2 c s,
   valW_2_1_1 c s h, valW_2_1_2 c s h, valW_2_2_2 c s h⟩

/-- Row 3 of the m' = 0 column (what step 2 leaves in `Hextra` when `ell_max = 2`), for ARBITRARY real c, s:
    H³(0,0) = c³ − (3/2) c s², H³(0,1) = (√3/4) s (4c² − s²), H³(0,2) = (√30/4) c s², H³(0,3) = (√5/4) s³;
    and H²(0,0) = c² − s²/2 as computed. -/
theorem H_col0_row3 (c s : ℝ) :
    col0 c s 3 0 = c ^ 3 - 3 * c * s ^ 2 / 2 ∧ col0 c s 3 1 = s * (4 * c ^ 2 - s ^ 2) * Real.sqrt 3 / 4 ∧
    col0 c s 3 2 = c * s ^ 2 * Real.sqrt 30 / 4 ∧ col0 c s 3 3 = s ^ 3 * Real.sqrt 5 / 4 ∧
    valW c s 2 0 0 = c ^ 2 - s ^ 2 / 2 :=
  ⟨col0_3_0 c s, col0_3_1 c s, col0_3_2 c s, col0_3_3 c s, valW_2_0_0_raw c s⟩

section
variable {μ : Type} [Mem μ ℝ] [LawfulMem μ ℝ]

/-! ### 2. the real d²(β) -/

/-- Every entry of `Wigner.d(exp iβ)` for ℓ = 2 is the entry of the table `d2doc`, with c = cos β, s = sin β (only
    c² + s² = 1 is used; s may be negative). -/
theorem d_ell2 (L : ℕ) (hL : 2 ≤ L) (st : μ) (c s : ℝ) (hcs : c ^ 2 + s ^ 2 = 1)
    (mp m : ℤ) (hmp : mp.natAbs ≤ 2) (hm : m.natAbs ≤ 2) :
    objd L st c s 2 mp m = d2doc c s mp m :=
  objd_two_eq_table L st c s hcs hL mp m hmp hm

/-- The table written out (rows m' = −2, …, 2; columns m = −2, …, 2), r = √6:
    ```
      (1+c)²/4      (1+c)s/2       r s²/4      (1−c)s/2       (1−c)²/4
     −(1+c)s/2     (2c²+c−1)/2     r c s/2     (1+c−2c²)/2    (1−c)s/2
       r s²/4       −r c s/2      (3c²−1)/2      r c s/2        r s²/4
     −(1−c)s/2     (1+c−2c²)/2    −r c s/2     (2c²+c−1)/2    (1+c)s/2
      (1−c)²/4     −(1−c)s/2       r s²/4     −(1+c)s/2       (1+c)²/4
    ```
    which is the standard d²_{m',m}(β). -/
theorem d_ell2_entries (L : ℕ) (hL : 2 ≤ L) (st : μ) (c s : ℝ) (hcs : c ^ 2 + s ^ 2 = 1) :
    let d := fun mp m => objd L st c s 2 mp m
    let r := Real.sqrt 6
    (d (-2) (-2) = (1 + c) ^ 2 / 4 ∧ d (-2) (-1) = (1 + c) * s / 2 ∧ d (-2) 0 = s ^ 2 * r / 4 ∧
      d (-2) 1 = (1 - c) * s / 2 ∧ d (-2) 2 = (1 - c) ^ 2 / 4) ∧
    (d (-1) (-2) = -((1 + c) * s / 2) ∧ d (-1) (-1) = (2 * c ^ 2 + c - 1) / 2 ∧ d (-1) 0 = c * s * r / 2 ∧
      d (-1) 1 = (1 + c - 2 * c ^ 2) / 2 ∧ d (-1) 2 = (1 - c) * s / 2) ∧
    (d 0 (-2) = s ^ 2 * r / 4 ∧ d 0 (-1) = -(c * s * r / 2) ∧ d 0 0 = (3 * c ^ 2 - 1) / 2 ∧
      d 0 1 = c * s * r / 2 ∧ d 0 2 = s ^ 2 * r / 4) ∧
    (d 1 (-2) = -((1 - c) * s / 2) ∧ d 1 (-1) = (1 + c - 2 * c ^ 2) / 2 ∧ d 1 0 = -(c * s * r / 2) ∧
      d 1 1 = (2 * c ^ 2 + c - 1) / 2 ∧ d 1 2 = (1 + c) * s / 2) ∧
    (d 2 (-2) = (1 - c) ^ 2 / 4 ∧ d 2 (-1) = -((1 - c) * s / 2) ∧ d 2 0 = s ^ 2 * r / 4 ∧
      d 2 1 = -((1 + c) * s / 2) ∧ d 2 2 = (1 + c) ^ 2 / 4) :=
  ⟨⟨d2_m2_m2 L st c s hcs hL, d2_m2_m1 L st c s hcs hL, d2_m2_z L st c s hL, d2_m2_p1 L st c s hcs hL,
     d2_m2_p2 L st c s hcs hL⟩,
   ⟨d2_m1_m2 L st c s hcs hL, d2_m1_m1 L st c s hcs hL, d2_m1_z L st c s hL, d2_m1_p1 L st c s hcs hL,
     d2_m1_p2 L st c s hcs hL⟩,
   ⟨d2_z_m2 L st c s hL, d2_z_m1 L st c s hL, d2_z_z L st c s hcs hL, d2_z_p1 L st c s hL, d2_z_p2 L st c s hL⟩,
   ⟨d2_p1_m2 L st c s hcs hL, d2_p1_m1 L st c s hcs hL, d2_p1_z L st c s hL, d2_p1_p1 L st c s hcs hL,
     d2_p1_p2 L st c s hcs hL⟩,
   ⟨d2_p2_m2 L st c s hcs hL, d2_p2_m1 L st c s hcs hL, d2_p2_z L st c s hL, d2_p2_p1 L st c s hcs hL,
     d2_p2_p2 L st c s hcs hL⟩⟩

/-- consistency of the two tables: with c = x² − y², s = 2xy (x = cos β/2, y = sin β/2) the d² table is the
    documented sum at R_a = x, R_b = y -/
theorem d_ell2_is_D (x y : ℝ) (h : x ^ 2 + y ^ 2 = 1) (mp m : ℤ) (hmp : mp.natAbs ≤ 2) (hm : m.natAbs ≤ 2) :
    ((d2doc (x ^ 2 - y ^ 2) (2 * x * y) mp m : ℝ) : ℂ) = docD 2 (x : ℂ) (y : ℂ) mp m := by
  rw [docD_two _ _ mp m hmp hm]
  exact d2doc_eq_D2doc x y h mp m hmp hm

/-- `Wigner.d` against the documented definition directly: d²_{m',m}(β) computed by the model at
    exp(iβ) = (x² − y²) + 2xy i is the documented D² of the rotor (x, 0, y, 0) = (cos β/2, 0, sin β/2, 0). -/
theorem d_ell2_docD (L : ℕ) (hL : 2 ≤ L) (st : μ) (x y : ℝ) (h : x ^ 2 + y ^ 2 = 1)
    (mp m : ℤ) (hmp : mp.natAbs ≤ 2) (hm : m.natAbs ≤ 2) :
    ((objd L st (x ^ 2 - y ^ 2) (2 * x * y) 2 mp m : ℝ) : ℂ) = docD 2 (x : ℂ) (y : ℂ) mp m := by
  have hcs : (x ^ 2 - y ^ 2) ^ 2 + (2 * x * y) ^ 2 = 1 := by
    have : (x ^ 2 - y ^ 2) ^ 2 + (2 * x * y) ^ 2 = (x ^ 2 + y ^ 2) ^ 2 := by ring
    rw [this, h]; norm_num
  rw [d_ell2 L hL st _ _ hcs mp m hmp hm]
  exact d_ell2_is_D x y h mp m hmp hm

/-! ### 3. D²(R) -/

/-- Every entry of D²(R) computed by the model equals the documented sum, for every unit quaternion. -/
theorem D_ell2 (L : ℕ) (hL : 2 ≤ L) (st : μ) (R0 R1 R2 R3 : ℝ) (hR : R0 ^ 2 + R1 ^ 2 + R2 ^ 2 + R3 ^ 2 = 1)
    (imsqrt : Cx ℝ → ℝ) (hs : ∀ w : Cx ℝ, w.re ^ 2 + w.im ^ 2 = 1 → 2 * (imsqrt w) ^ 2 = 1 - w.re)
    (mp m : ℤ) (hmp : mp.natAbs ≤ 2) (hm : m.natAbs ≤ 2) :
    toC (objD L st R0 R1 R2 R3 imsqrt 2 mp m) = docD 2 (Ra R0 R3) (Rb R1 R2) mp m := by
  rw [docD_two _ _ mp m hmp hm]
  exact objD_two_eq_table L st R0 R1 R2 R3 hR imsqrt hs hL mp m hmp hm

/-- The 25 entries written out (rows m' = −2, …, 2; columns m = −2, …, 2), A = R_a, B = R_b, Ā, B̄ their
    conjugates, a = AĀ, b = BB̄, r = √6:
    ```
        Ā⁴          2Ā³B         r Ā²B²        2ĀB³         B⁴
      −2Ā³B̄       Ā²(a−3b)     r ĀB(a−b)     B²(3a−b)      2AB³
       r Ā²B̄²    −r ĀB̄(a−b)    a²−4ab+b²     r AB(a−b)    r A²B²
      −2ĀB̄³      B̄²(3a−b)    −r AB̄(a−b)     A²(a−3b)      2A³B
        B̄⁴        −2AB̄³        r A²B̄²        −2A³B̄         A⁴
    ``` -/
theorem D_ell2_entries (L : ℕ) (hL : 2 ≤ L) (st : μ) (R0 R1 R2 R3 : ℝ)
    (hR : R0 ^ 2 + R1 ^ 2 + R2 ^ 2 + R3 ^ 2 = 1)
    (imsqrt : Cx ℝ → ℝ) (hs : ∀ w : Cx ℝ, w.re ^ 2 + w.im ^ 2 = 1 → 2 * (imsqrt w) ^ 2 = 1 - w.re) :
    let D := fun mp m => toC (objD L st R0 R1 R2 R3 imsqrt 2 mp m)
    let A := Ra R0 R3
    let B := Rb R1 R2
    let r : ℂ := (Real.sqrt 6 : ℂ)
    (D (-2) (-2) = conj A ^ 4 ∧ D (-2) (-1) = 2 * conj A ^ 3 * B ∧ D (-2) 0 = r * conj A ^ 2 * B ^ 2 ∧
      D (-2) 1 = 2 * conj A * B ^ 3 ∧ D (-2) 2 = B ^ 4) ∧
    (D (-1) (-2) = -(2 * conj A ^ 3 * conj B) ∧ D (-1) (-1) = conj A ^ 2 * ((A * conj A) - 3 * (B * conj B)) ∧
      D (-1) 0 = r * conj A * B * ((A * conj A) - (B * conj B)) ∧
      D (-1) 1 = B ^ 2 * (3 * (A * conj A) - (B * conj B)) ∧ D (-1) 2 = 2 * A * B ^ 3) ∧
    (D 0 (-2) = r * conj A ^ 2 * conj B ^ 2 ∧ D 0 (-1) = -(r * conj A * conj B * ((A * conj A) - (B * conj B))) ∧
      D 0 0 = (A * conj A) ^ 2 - 4 * (A * conj A) * (B * conj B) + (B * conj B) ^ 2 ∧
      D 0 1 = r * A * B * ((A * conj A) - (B * conj B)) ∧ D 0 2 = r * A ^ 2 * B ^ 2) ∧
    (D 1 (-2) = -(2 * conj A * conj B ^ 3) ∧ D 1 (-1) = conj B ^ 2 * (3 * (A * conj A) - (B * conj B)) ∧
      D 1 0 = -(r * A * conj B * ((A * conj A) - (B * conj B))) ∧
      D 1 1 = A ^ 2 * ((A * conj A) - 3 * (B * conj B)) ∧ D 1 2 = 2 * A ^ 3 * B) ∧
    (D 2 (-2) = conj B ^ 4 ∧ D 2 (-1) = -(2 * A * conj B ^ 3) ∧ D 2 0 = r * A ^ 2 * conj B ^ 2 ∧
      D 2 1 = -(2 * A ^ 3 * conj B) ∧ D 2 2 = A ^ 4) :=
  ⟨⟨D2_m2_m2 L st R0 R1 R2 R3 hR imsqrt hs hL, D2_m2_m1 L st R0 R1 R2 R3 hR imsqrt hs hL,
     D2_m2_z L st R0 R1 R2 R3 hR imsqrt hs hL, D2_m2_p1 L st R0 R1 R2 R3 hR imsqrt hs hL,
     D2_m2_p2 L st R0 R1 R2 R3 hR imsqrt hs hL⟩,
   ⟨D2_m1_m2 L st R0 R1 R2 R3 hR imsqrt hs hL, D2_m1_m1 L st R0 R1 R2 R3 hR imsqrt hs hL,
     D2_m1_z L st R0 R1 R2 R3 hR imsqrt hs hL, D2_m1_p1 L st R0 R1 R2 R3 hR imsqrt hs hL,
     D2_m1_p2 L st R0 R1 R2 R3 hR imsqrt hs hL⟩,
   ⟨D2_z_m2 L st R0 R1 R2 R3 hR imsqrt hs hL, D2_z_m1 L st R0 R1 R2 R3 hR imsqrt hs hL,
     D2_z_z L st R0 R1 R2 R3 hR imsqrt hs hL, D2_z_p1 L st R0 R1 R2 R3 hR imsqrt hs hL,
     D2_z_p2 L st R0 R1 R2 R3 hR imsqrt hs hL⟩,
   ⟨D2_p1_m2 L st R0 R1 R2 R3 hR imsqrt hs hL, D2_p1_m1 L st R0 R1 R2 R3 hR imsqrt hs hL,
     D2_p1_z L st R0 R1 R2 R3 hR imsqrt hs hL, D2_p1_p1 L st R0 R1 R2 R3 hR imsqrt hs hL,
     D2_p1_p2 L st R0 R1 R2 R3 hR imsqrt hs hL⟩,
   ⟨D2_p2_m2 L st R0 R1 R2 R3 hR imsqrt hs hL, D2_p2_m1 L st R0 R1 R2 R3 hR imsqrt hs hL,
     D2_p2_z L st R0 R1 R2 R3 hR imsqrt hs hL, D2_p2_p1 L st R0 R1 R2 R3 hR imsqrt hs hL,
     D2_p2_p2 L st R0 R1 R2 R3 hR imsqrt hs hL⟩⟩

end

/-! ### instances: the hypotheses are satisfiable and the statements have content -/

theorem Ra_half : Ra (1/2) (1/2) = 1/2 + 1/2 * Complex.I := by
  apply Complex.ext <;> simp [Ra]
theorem Rb_half : Rb (1/2) (1/2) = 1/2 + 1/2 * Complex.I := by
  apply Complex.ext <;> simp [Rb]
theorem conj_half : conj ((1/2 : ℂ) + 1/2 * Complex.I) = 1/2 - 1/2 * Complex.I := by
  apply Complex.ext <;> simp

/-- (1/2, 1/2, 1/2, 1/2) (β = π/2, R_a = R_b = (1+i)/2), workspace initially all 7's, ell_max = 2:
    D²_{2,2} = R_a⁴ = −1/4 — the cell H²(2,2) is the one written by step 4 -/
example : toC (objD 2 (fun _ : Loc => (7 : ℝ)) (1/2) (1/2) (1/2) (1/2) imsqrtR 2 2 2) = -1/4 := by
  rw [D2_p2_p2 2 (fun _ : Loc => (7 : ℝ)) (1/2) (1/2) (1/2) (1/2) (by norm_num) imsqrtR imsqrtR_spec (by decide),
    Ra_half]
  have := Complex.I_sq
  grind

/-- same rotor: D²_{2,−2} = conj(R_b)⁴ = −1/4 — the cell H²(−2,2) is the one written by the second column of step 5 -/
example : toC (objD 2 (fun _ : Loc => (7 : ℝ)) (1/2) (1/2) (1/2) (1/2) imsqrtR 2 2 (-2)) = -1/4 := by
  rw [D2_p2_m2 2 (fun _ : Loc => (7 : ℝ)) (1/2) (1/2) (1/2) (1/2) (by norm_num) imsqrtR imsqrtR_spec (by decide),
    Rb_half, conj_half]
  have := Complex.I_sq
  grind

/-- same rotor: D²_{2,1} = −2 R_a³ conj(R_b) = −i/2, and D²_{0,0} = −1/2 = (3cos²β − 1)/2 at cos β = 0 -/
example : toC (objD 3 (fun _ : Loc => (0 : ℝ)) (1/2) (1/2) (1/2) (1/2) imsqrtR 2 2 1) = -Complex.I / 2 ∧
    toC (objD 3 (fun _ : Loc => (0 : ℝ)) (1/2) (1/2) (1/2) (1/2) imsqrtR 2 0 0) = -1/2 := by
  rw [D2_p2_p1 3 (fun _ : Loc => (0 : ℝ)) (1/2) (1/2) (1/2) (1/2) (by norm_num) imsqrtR imsqrtR_spec (by decide),
    D2_z_z 3 (fun _ : Loc => (0 : ℝ)) (1/2) (1/2) (1/2) (1/2) (by norm_num) imsqrtR imsqrtR_spec (by decide),
    Ra_half, Rb_half, conj_half]
  have := Complex.I_sq
  constructor <;> grind

/-- the same entry through the documented sum -/
example : toC (objD 3 (fun _ : Loc => (0 : ℝ)) (1/2) (1/2) (1/2) (1/2) imsqrtR 2 2 1)
    = docD 2 (Ra (1/2) (1/2)) (Rb (1/2) (1/2)) 2 1 :=
  D_ell2 3 (by decide) _ (1/2) (1/2) (1/2) (1/2) (by norm_num) imsqrtR imsqrtR_spec 2 1 (by decide) (by decide)

theorem Ra_35 : Ra (3/5) 0 = (3/5 : ℂ) := by
  apply Complex.ext <;> simp [Ra]
theorem Rb_45 : Rb 0 (4/5) = (4/5 : ℂ) := by
  apply Complex.ext <;> simp [Rb]

/-- (3/5, 0, 4/5, 0): a rotation about y with cos β = −7/25; R_a = 3/5, R_b = 4/5.
    D²_{2,2} = R_a⁴ = 81/625 (step 4), D²_{−2,2} = R_b⁴ = 256/625 (step 5, second column),
    D²_{0,0} = a² − 4ab + b² = −239/625 = (3cos²β − 1)/2, D²_{−1,−2} = −2 conj(R_a)³ conj(R_b) = −216/625 -/
example :
    toC (objD 2 (fun _ : Loc => (0 : ℝ)) (3/5) 0 (4/5) 0 imsqrtR 2 2 2) = 81/625 ∧
    toC (objD 2 (fun _ : Loc => (0 : ℝ)) (3/5) 0 (4/5) 0 imsqrtR 2 (-2) 2) = 256/625 ∧
    toC (objD 2 (fun _ : Loc => (0 : ℝ)) (3/5) 0 (4/5) 0 imsqrtR 2 0 0) = -239/625 ∧
    toC (objD 2 (fun _ : Loc => (0 : ℝ)) (3/5) 0 (4/5) 0 imsqrtR 2 (-1) (-2)) = -216/625 := by
  rw [D2_p2_p2 2 (fun _ : Loc => (0 : ℝ)) (3/5) 0 (4/5) 0 (by norm_num) imsqrtR imsqrtR_spec (by decide),
    D2_m2_p2 2 (fun _ : Loc => (0 : ℝ)) (3/5) 0 (4/5) 0 (by norm_num) imsqrtR imsqrtR_spec (by decide),
    D2_z_z 2 (fun _ : Loc => (0 : ℝ)) (3/5) 0 (4/5) 0 (by norm_num) imsqrtR imsqrtR_spec (by decide),
    D2_m1_m2 2 (fun _ : Loc => (0 : ℝ)) (3/5) 0 (4/5) 0 (by norm_num) imsqrtR imsqrtR_spec (by decide),
    Ra_35, Rb_45]
  have c1 : conj (3/5 : ℂ) = 3/5 := by rw [map_div₀, Complex.conj_ofNat, Complex.conj_ofNat]
  have c2 : conj (4/5 : ℂ) = 4/5 := by rw [map_div₀, Complex.conj_ofNat, Complex.conj_ofNat]
  rw [c1, c2]
  norm_num

/-- the same rotor through the documented sum -/
example : toC (objD 2 (fun _ : Loc => (0 : ℝ)) (3/5) 0 (4/5) 0 imsqrtR 2 (-2) 2)
    = docD 2 (Ra (3/5) 0) (Rb 0 (4/5)) (-2) 2 :=
  D_ell2 2 (by decide) _ (3/5) 0 (4/5) 0 (by norm_num) imsqrtR imsqrtR_spec (-2) 2 (by decide) (by decide)

/-- d² at (cos β, sin β) = (3/5, −4/5) (negative sin β is allowed), ell_max = 2:
    d²_{2,2} = (1+c)²/4 = 16/25, d²_{2,−2} = (1−c)²/4 = 1/25, d²_{2,1} = −(1+c)s/2 = 16/25 -/
example : objd 2 (fun _ : Loc => (0 : ℝ)) (3/5 : ℝ) (-4/5) 2 2 2 = 16/25 ∧
    objd 2 (fun _ : Loc => (0 : ℝ)) (3/5 : ℝ) (-4/5) 2 2 (-2) = 1/25 ∧
    objd 2 (fun _ : Loc => (0 : ℝ)) (3/5 : ℝ) (-4/5) 2 2 1 = 16/25 := by
  rw [d2_p2_p2 2 (fun _ : Loc => (0 : ℝ)) (3/5) (-4/5) (by norm_num) (by decide),
    d2_p2_m2 2 (fun _ : Loc => (0 : ℝ)) (3/5) (-4/5) (by norm_num) (by decide),
    d2_p2_p1 2 (fun _ : Loc => (0 : ℝ)) (3/5) (-4/5) (by norm_num) (by decide)]
  norm_num

/-- the H wedge at n = 2 for (cos β, sin β) = (3/5, 4/5): the step-4 cell and the second step-5 cell -/
example : valW (3/5 : ℝ) (4/5) 2 2 2 = 16/25 ∧ valW (3/5 : ℝ) (4/5) 2 (-2) 2 = 1/25 := by
  obtain ⟨h1, _, _, _, _, _, _, _, h9⟩ := H_ell2 (3/5) (4/5) (by norm_num)
  rw [h1, h9]; norm_num

end DDef2
end
