import SphericalVerif.Props.HKernel
#print axioms HKernel.runH_pure
#print axioms HKernel.runH_size_indep
