import SphericalVerif.Gen.HKern
import SphericalVerif.Gen.FillKern
import SphericalVerif.Gen.HornerKern
import SphericalVerif.Gen.RotHKern
import SphericalVerif.Gen.CPowKern
import SphericalVerif.Gen.EulerKern
/-! Write footprints of the generated kernels: `Only α ids st st'` — `st'` differs from `st` at most on the arrays `ids` —
    with closure rules for stores, conditionals, counted and fuel-bounded loops, and the tactic `frame_step` that decomposes a
    generated kernel's text with them. -/
set_option linter.unusedSectionVars false
namespace Frame
open Gen

section
variable {α : Type} {φ : Type} [FMem φ α] [LawfulFMem φ α]

/-- `st'` differs from `st` at most on the arrays named in `ids` -/
def Only (α : Type) {φ : Type} [FMem φ α] (ids : List Nat) (st st' : φ) : Prop :=
  ∀ (a : Nat) (i : Int), a ∉ ids → frd (α := α) st' a i = frd (α := α) st a i

theorem Only.refl (ids : List Nat) (st : φ) : Only α ids st st := fun _ _ _ => rfl

theorem Only.trans (ids : List Nat) (st st' st'' : φ) (h1 : Only α ids st st') (h2 : Only α ids st' st'') : Only α ids st st'' :=
  fun a i ha => (h2 a i ha).trans (h1 a i ha)

theorem Only.mono (ids ids' : List Nat) (st st' : φ) (h : ∀ a, a ∈ ids → a ∈ ids') (h1 : Only α ids st st') : Only α ids' st st' :=
  fun a i ha => h1 a i (fun hm => ha (h a hm))

theorem Only.frdC (ids : List Nat) (st st' : φ) (h : Only α ids st st') (a : Nat) (i : Int) (ha : a ∉ ids) :
    frdC (α := α) st' a i = frdC (α := α) st a i := by
  unfold _root_.frdC; rw [h a _ ha, h a _ ha]

theorem only_fwr (ids : List Nat) (st x : φ) (a : Nat) (i : Int) (v : α) (h : a ∈ ids) (hx : Only α ids st x) :
    Only α ids st (fwr (α := α) x a i v) := by
  intro a' i' ha'
  have : a' ≠ a := fun e => ha' (e ▸ h)
  show FMem.get (FMem.set x a i v) a' i' = _
  rw [LawfulFMem.get_set]; simp only [this, false_and, if_false]; exact hx a' i' ha'

theorem only_fwrC (ids : List Nat) (st x : φ) (a : Nat) (i : Int) (z : Cx α) (h : a ∈ ids) (hx : Only α ids st x) :
    Only α ids st (fwrC (α := α) x a i z) :=
  only_fwr ids st _ a _ _ h (only_fwr ids st x a _ _ h hx)

theorem only_ite (ids : List Nat) (st x y : φ) (c : Prop) [Decidable c] (hx : Only α ids st x) (hy : Only α ids st y) :
    Only α ids st (if c then x else y) := by
  split <;> assumption

theorem only_loopN {σ : Type} (ids : List Nat) (st : φ) (π : σ → φ) (cnt : Nat) (f : Nat → σ → σ) (s : σ)
    (h0 : Only α ids st (π s)) (hs : ∀ k s, Only α ids st (π s) → Only α ids st (π (f k s))) :
    Only α ids st (π (loopN cnt f s)) := by
  induction cnt with
  | zero => exact h0
  | succ n ih => simp only [loopN]; exact hs n _ ih

theorem only_loopWhile {σ : Type} (ids : List Nat) (st : φ) (π : σ → φ) (fuel : Nat) (c : σ → Bool) (f : σ → σ) (s : σ)
    (h0 : Only α ids st (π s)) (hs : ∀ s, Only α ids st (π s) → Only α ids st (π (f s))) :
    Only α ids st (π (loopWhile fuel c f s)) := by
  induction fuel generalizing s with
  | zero => exact h0
  | succ n ih =>
    simp only [loopWhile]
    split
    · exact ih _ (hs _ h0)
    · exact h0
end

/-- one decomposition step of a goal `Only α ids st <generated term>` -/
macro "frame_mem" : tactic => `(tactic| first | (simp; done) | (split <;> simp; done) | (simp only [List.mem_cons, List.mem_singleton]; split <;> simp; done))

/-- one decomposition step of a goal `Only α ids st <generated term>` -/
macro "frame_step" : tactic => `(tactic| first
  | assumption
  | exact Only.refl _ _
  | (apply only_fwrC _ _ _ _ _ _ (by frame_mem))
  | (apply only_fwr _ _ _ _ _ _ (by frame_mem))
  | (apply only_ite)
  | (refine only_loopN _ _ id _ _ _ ?_ (fun _ _ _ => ?_))
  | (refine only_loopN _ _ Prod.fst _ _ _ ?_ (fun _ _ _ => ?_))
  | (refine only_loopWhile _ _ id _ _ _ _ ?_ (fun _ _ => ?_))
  | (refine only_loopWhile _ _ Prod.fst _ _ _ _ ?_ (fun _ _ => ?_))
  | dsimp only)


section
variable {α : Type} {φ : Type} [FMem φ α]
/-- cut rule: establish the footprint of an intermediate memory, then continue with it as a hypothesis -/
theorem only_via (ids : List Nat) (st x T : φ) (h1 : Only α ids st x) (h2 : Only α ids st x → Only α ids st T) : Only α ids st T := h2 h1
end

/-- `peel_all`: footprint proofs for LARGE generated kernels, without zeta-reducing them (zeta-reduction multiplies every tuple-valued
    conditional by the number of its components at each nesting level: the 400-line 3-j kernel does not finish that way).  The leading
    `have x := v; …` of the goal `Only α ids st (have x := v; b)` is pulled out as a local definition; if `x` is a memory, or a tuple whose
    first component is, `Only α ids st x` (resp. `x.1`) is proved first — recursively, with `frame_step` at the leaves — and kept as a
    hypothesis; then the value of `x` is forgotten.  Only first components of tuples are ever followed, so nothing is duplicated. -/
syntax "peel_all" : tactic
macro "peel_let" : tactic => `(tactic| (
  extract_lets (onlyGivenNames := true) x
  first
    | (refine only_via _ _ x _ (by dsimp only [x]; peel_all) (fun hx => ?_)
       clear_value x)
    | (refine only_via _ _ x.1 _ (by dsimp only [x]; peel_all) (fun hx => ?_)
       clear_value x)
    | clear_value x))
macro_rules
  | `(tactic| peel_all) => `(tactic| repeat (first
      | assumption
      | apply_assumption      -- (a hypothesis `∀ …, Only α ids st x → Only α ids st (callee … x)`: the footprint of a callee)
      | peel_let
      | (simp only [apply_ite Prod.fst]; done)
      | frame_step
      | (rw [apply_ite Prod.fst])))

end Frame
