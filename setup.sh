#!/bin/sh
# Build the framework offline from files on disk: regenerate Gen/ from /repo, build the Lean library and the
# compiled driver, warm numba's cache (kept outside /repo).
set -e
cd "$(dirname "$0")"
. ./nbenv.sh
/venv/bin/python vlib/py2lean.py > /dev/null
cd lean
lake build SphericalVerif driver 2>&1 | tail -3
for f in SphericalVerif/Props/*.lean; do m=$(echo "${f%.lean}" | tr / .); lake build "$m" 2>&1 | tail -1 || echo "note: $m does not build (its check will report it)"; done
cd ..
/venv/bin/python - <<'PY'
import numpy as np, quaternionic, spherical
w = spherical.Wigner(4)
R = quaternionic.array([1, 2, 3, 4.]).normalized
w.D(R); w.sYlm(-1, R); w.d(np.exp(0.3j))
m = spherical.Modes(np.arange(25) + 0j, spin_weight=0, ell_min=0, ell_max=4)
w.evaluate(m, R, horner=True); w.rotate(m, R, horner=True)
spherical.Wigner3j(2, 6, 4, 0, 0, 0); spherical.clebsch_gordan(1, 0, 1, 0, 2, 0)
spherical.complex_powers(np.exp(0.2j), 3)
print("numba cache warm")
PY
