#!/bin/sh
# tools/keep_mut.sh Cxx <seed-name> [--full] : confirm in the scratch worktree, copy into seeded/<seed-name>/
# (MUT_ROOT / MUTWORK_ROOT select the round: default /tmp/mut, /tmp/mutwork)
pid=$1; name=$2
W=${MUTWORK_ROOT:-/tmp/mutwork}
/verif/tools/confirm_mut.py $pid ${3:-} > $W/$pid/confirm.out 2>&1
if grep -q '"confirmed": true' $W/$pid/confirm.json; then
  mkdir -p /verif/seeded/$name
  cp $W/$pid/patch.diff $W/$pid/demo.py $W/$pid/meta.json $W/$pid/confirm.json /verif/seeded/$name/
  echo "kept $name"
else
  echo "NOT confirmed: $pid"; cat $W/$pid/confirm.json
fi
