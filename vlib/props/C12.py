"""C12 — differential operators on Modes are the generators of left and right rotations.

Obligations: Props/C12.lean (ladder coefficients, commutators, Casimir, NP = sqrt2 GHP, annihilation, in exact arithmetic).
Gap/search: exponential series of L_z, L_x, L_y (resp. R_z, R_x, R_y) applied to f and evaluated at Q against f evaluated
at exp(t g) Q (resp. Q exp(t g)); commutators; array-level eth/ethbar for every (spin, ell_min <= ell_max)."""
import math

import numpy as np

from .. import helpers
from . import common
from .C13 import ev

EPS = 2.0 ** -52


def qexp(t, axis):
    v = [0.0, 0.0, 0.0]
    v[axis] = 1.0
    return (math.cos(t), v[0] * math.sin(t), v[1] * math.sin(t), v[2] * math.sin(t))


def series(f, op, t, factor, nterms=40):
    """sum_k (factor*t)^k/k! op^k f   as a list of Modes terms evaluated lazily"""
    terms = []
    cur = f
    coef = 1.0 + 0j
    for k in range(nterms):
        terms.append((coef, cur))
        cur = op(cur)
        coef = coef * factor * t / (k + 1)
    return terms


def check(run):
    import spherical
    quick = run.tier == "quick"
    run.regenerate()
    run.lean_props(common.modules_for("C12"))
    from .. import glue_diff
    run.attempt("corr:glue_diff.corr", glue_diff.corr, run, quick, parts=("modes", "arrays"))   # operators/conversions: model vs implementation, bit for bit
    rng = run.rng
    Qs = [helpers.random_rotor(rng) for _ in range(2)] + [(1.0, 0.0, 0.0, 0.0), (0.0, 0.6, 0.8, 0.0)]
    Lops = {2: lambda m: m.Lz(), 0: lambda m: 0.5 * (m.Lplus() + m.Lminus()), 1: lambda m: -0.5j * (m.Lplus() - m.Lminus())}
    spins = [-2, 0, 1, 3] if quick else list(range(-5, 6))
    for s in spins:
        for L in ([abs(s), abs(s) + 2, 6] if quick else [abs(s), abs(s) + 1, 6, 10]):
            L = max(L, abs(s))
            f = helpers.make_modes(rng, s, L, () if rng.random() < 0.7 else (2,))
            scale = max(float(np.max(np.sum(np.abs(f.ndarray), axis=-1))), 1e-300)
            tol = 1e-11 * (L + 1) ** 2 * scale
            inp0 = {"s": s, "ell_max": L, "lead": list(f.shape[:-1])}
            for axis in (0, 1, 2):
                t = rng.uniform(-0.5, 0.5)
                # ---- left: f(exp(t g) Q) = sum_k (2 i t)^k / k! (L_g^k f)(Q)
                try:
                    tot = 0
                    for coef, term in series(f, Lops[axis], t, 2j):
                        tot = tot + coef * ev(term, Qs)
                    ref = ev(f, [helpers.qmul(qexp(t, axis), Q) for Q in Qs])
                    run.gap_case("left-generators", (s, L, axis), f"L_{'xyz'[axis]}", {**inp0, "axis": "xyz"[axis], "t": t})
                    if not (float(np.max(np.abs(tot - ref))) <= tol):
                        run.violation("left-generator-series", f"L_{'xyz'[axis]}", {**inp0, "t": t}, "f(exp(t g) Q)", f"err {float(np.max(np.abs(tot - ref)))}")
                except Exception as e:
                    run.violation("operator-raised", f"L_{'xyz'[axis]}", inp0, "Modes", repr(e))
                # ---- right: f(Q exp(t g)) with R_z = Rz, R_x = (ethbar - eth)/2, R_y = i (eth + ethbar)/2 ; spin changes -> evaluate termwise
                try:
                    tot = _right_series(f, axis, t, Qs)
                    ref = ev(f, [helpers.qmul(Q, qexp(t, axis)) for Q in Qs])
                    run.gap_case("right-generators", (s, L, axis), f"R_{'xyz'[axis]}", {**inp0, "axis": "xyz"[axis], "t": t})
                    if tot is not None and not (float(np.max(np.abs(tot - ref))) <= tol):
                        run.violation("right-generator-series", f"R_{'xyz'[axis]}", {**inp0, "t": t}, "f(Q exp(t g))", f"err {float(np.max(np.abs(tot - ref)))}")
                except Exception as e:
                    run.violation("operator-raised", f"R_{'xyz'[axis]}", inp0, "Modes", repr(e))
            # commutators / Casimir / [ethbar, eth] = 2s / annihilation / ladder coefficients
            try:
                A = f.ndarray
                def arr(m):
                    return m.ndarray if hasattr(m, "ndarray") else np.asarray(m)
                c1 = arr(f.Lplus().Lz()) - arr(f.Lz().Lplus()) - arr(f.Lplus())          # [Lz,L+] = L+
                c2 = arr(f.Lminus().Lz()) - arr(f.Lz().Lminus()) + arr(f.Lminus())        # [Lz,L-] = -L-
                c3 = arr(f.Lminus().Lplus()) - arr(f.Lplus().Lminus()) - 2 * arr(f.Lz())  # [L+,L-] = 2Lz
                L2 = 0.5 * (arr(f.Lminus().Lplus()) + arr(f.Lplus().Lminus())) + arr(f.Lz().Lz())
                ells = np.concatenate([[l] * (2 * l + 1) for l in range(L + 1)])
                c4 = L2 - A * ells * (ells + 1)
                c5 = arr(f.Lsquared()) - A * ells * (ells + 1)
                c6 = arr(f.Rsquared()) - A * ells * (ells + 1)
                e1 = f.eth.ethbar
                e2 = f.ethbar.eth
                c7 = arr(e1) - arr(e2) - 2 * s * A      # [ethbar, eth] f = ethbar(eth f) - eth(ethbar f) = 2 s f
                big = 64 * (L + 1) ** 2 * EPS * max(float(np.max(np.abs(A))), 1e-300)
                run.gap_case("commutators", (s, L), "su2")
                for nm, c in (("[Lz,L+]=L+", c1), ("[Lz,L-]=-L-", c2), ("[L+,L-]=2Lz", c3), ("L^2=l(l+1)", c4), ("Lsquared", c5), ("Rsquared", c6), ("[ethbar,eth]=2s", c7)):
                    if not (float(np.max(np.abs(c))) <= big):
                        run.violation("operator-algebra", nm, inp0, "0", float(np.max(np.abs(c))))
                for nm, g, ns in (("eth", f.eth, s + 1), ("ethbar", f.ethbar, s - 1), ("Rplus", f.Rplus(), s - 1), ("Rminus", f.Rminus(), s + 1)):
                    if g.spin_weight != ns or g.ell_max != L:
                        run.violation("operator-spin", nm, inp0, ns, g.spin_weight)
                    if np.any(g.ndarray[..., :ns * ns] != 0):
                        run.violation("operator-annihilation", nm, inp0, "zero below new |s|", "nonzero")
                    # coefficient check: eth: sqrt((l-s)(l+s+1)), ethbar: -sqrt((l+s)(l-s+1))
                    co = np.array([(math.sqrt(max((l - s) * (l + s + 1), 0)) if nm in ("eth", "Rminus") else (-1 if nm == "ethbar" else 1) * math.sqrt(max((l + s) * (l - s + 1), 0))) if l >= abs(ns) and l >= abs(s) else 0.0 for l in ells])
                    if not np.allclose(g.ndarray, A * co, rtol=8 * EPS, atol=0):
                        run.violation("ladder-coefficient", nm, inp0, "documented coefficient", "differs")
                if float(np.max(np.abs(arr(f.Rz()) + s * A))) != 0.0:
                    run.violation("Rz", "Rz", inp0, "-s f", "differs")
            except Exception as e:
                run.violation("operator-raised", "commutators", inp0, "Modes", repr(e))
    # memory layouts: an operator applied to a Modes object wrapping a non-C-ordered multi-dimensional view acts row by row
    OPS = [("Lz", lambda m: m.Lz()), ("Lplus", lambda m: m.Lplus()), ("Lminus", lambda m: m.Lminus()), ("Lsquared", lambda m: m.Lsquared()),
           ("Rz", lambda m: m.Rz()), ("Rplus", lambda m: m.Rplus()), ("Rminus", lambda m: m.Rminus()), ("Rsquared", lambda m: m.Rsquared()),
           ("eth", lambda m: m.eth), ("ethbar", lambda m: m.ethbar)]
    for s in ([-2, 0, 1] if quick else range(-3, 4)):
        L = abs(s) + 2
        n = (L + 1) ** 2
        for layout in ("moveaxis", "fortran", "strided"):
            raw = np.array([complex(rng.gauss(0, 1), rng.gauss(0, 1)) for _ in range(2 * 3 * n * 2)])
            if layout == "moveaxis":
                data = np.moveaxis(raw[:2 * 3 * n].reshape(2, n, 3), 1, -1)
            elif layout == "fortran":
                data = np.asfortranarray(raw[:2 * 3 * n].reshape(2, 3, n))
            else:
                data = raw.reshape(2, 6, n)[:, ::2, :]
            data[..., :s * s] = 0
            inp = {"s": s, "ell_max": L, "lead": [2, 3], "layout": layout}
            try:
                f = spherical.Modes(data, spin_weight=s, ell_min=0, ell_max=L)
            except Exception as e:
                run.violation("operator-raised", "Modes.__new__", inp, "Modes", repr(e))
                continue
            for nm, op in OPS:
                run.gap_case("operator-layout", (s, layout, nm), f"layout|{layout}")
                try:
                    got = op(f)
                    got = got.ndarray if hasattr(got, "ndarray") else np.asarray(got)
                    for idx in np.ndindex(2, 3):
                        row = spherical.Modes(np.array(data[idx], copy=True), spin_weight=s, ell_min=0, ell_max=L)
                        ref = op(row)
                        ref = ref.ndarray if hasattr(ref, "ndarray") else np.asarray(ref)
                        if got[idx].shape != ref.shape or not helpers.bits_equal(got[idx], ref):
                            run.violation("operator-depends-on-memory-layout", nm, {**inp, "row": list(idx), "data_row": [[float(v.real), float(v.imag)] for v in data[idx]]},
                                          "the operator applied to that row alone", "differs")
                            break
                except Exception as e:
                    run.violation("operator-raised", nm, inp, "Modes", repr(e))
    # array-level operators for all (spin, ell_min <= ell_max)
    LM = 8 if quick else 12
    for s in range(-3, 4):
        for ell_max in range(0, LM + 1):
            for ell_min in range(0, ell_max + 1):
                n = (ell_max + 1) ** 2 - ell_min ** 2
                a = np.array([complex(rng.gauss(0, 1), rng.gauss(0, 1)) for _ in range(n)])
                full = np.zeros((ell_max + 1) ** 2, dtype=complex)
                full[ell_min ** 2:] = a
                full[:s * s] = 0
                inp = {"s": s, "ell_min": ell_min, "ell_max": ell_max}
                run.gap_case("array-level-operators", (s, ell_min, ell_max), "array")
                if ell_max < abs(s):
                    continue
                m = spherical.Modes(full.copy(), spin_weight=s, ell_min=0, ell_max=ell_max)
                masked = a.copy()
                lo = max(ell_min, abs(s))
                if lo > ell_min:
                    masked[:min(n, lo ** 2 - ell_min ** 2)] = 0
                try:
                    np_e = spherical.eth_NP(masked.copy(), s, ell_min)
                    np_b = spherical.ethbar_NP(masked.copy(), s, ell_min)
                    gh_e = spherical.eth_GHP(masked.copy(), s, ell_min)
                    gh_b = spherical.ethbar_GHP(masked.copy(), s, ell_min)
                except Exception as e:
                    run.violation("operator-raised", "array-level", inp, "array", repr(e))
                    continue
                tol = 16 * EPS * max(float(np.max(np.abs(a))), 1e-300) * (ell_max + 2)
                if not np.allclose(np_e, m.eth.ndarray[ell_min ** 2:], rtol=0, atol=tol):
                    run.violation("array-operator-differs-from-Modes", "eth_NP", inp, "Modes.eth", "differs")
                if not np.allclose(np_b, m.ethbar.ndarray[ell_min ** 2:], rtol=0, atol=tol):
                    run.violation("array-operator-differs-from-Modes", "ethbar_NP", inp, "Modes.ethbar", "differs")
                if not np.allclose(np_e, math.sqrt(2) * gh_e, rtol=8 * EPS, atol=0) or not np.allclose(np_b, math.sqrt(2) * gh_b, rtol=8 * EPS, atol=0):
                    run.violation("NP-vs-GHP", "eth_GHP/ethbar_GHP", inp, "NP = sqrt(2) GHP", "differs")
                # ethbar_inverse_NP: two-sided inverse of ethbar_NP on its domain (ell >= max(|s|,|s+1|) for the spin s+1 -> s map)
                try:
                    src = masked.copy()
                    up = spherical.eth_NP(src.copy(), s, ell_min)           # spin s+1
                    back = spherical.ethbar_NP(up.copy(), s + 1, ell_min)    # spin s
                    inv = spherical.ethbar_inverse_NP(back.copy(), s, ell_min)   # should give `up` where ethbar is invertible
                    ells = np.concatenate([[l] * (2 * l + 1) for l in range(ell_min, ell_max + 1)])
                    dom = (ells + s + 1.0) * (ells - s) > 0
                    if not np.allclose(inv[dom], up[dom], rtol=0, atol=64 * tol * (ell_max + 1) ** 2):
                        run.violation("ethbar-inverse", "ethbar_inverse_NP", inp, "inverse of ethbar_NP on its domain", "differs")
                    again = spherical.ethbar_NP(spherical.ethbar_inverse_NP(up.copy(), s, ell_min), s + 1, ell_min)
                    if not np.allclose(again[dom], up[dom], rtol=0, atol=64 * tol):
                        run.violation("ethbar-inverse", "ethbar_inverse_NP(right)", inp, "ethbar(ethbar^-1 g) = g", "differs")
                except Exception as e:
                    run.violation("operator-raised", "ethbar_inverse_NP", inp, "array", repr(e))
    run.assumptions += ["'the series reproduces f at the rotated rotor' is proved in exact arithmetic for every ell (Generators.left_series_eval / right_series_eval); the numerical sweep sums 40 terms at |t|<=0.5 on the real code",
                        "left generator convention measured on the pinned tree: f(exp(t g) Q) = exp(2 i t L_g) f ; right: f(Q exp(t g)) = exp(2 i t R_g) f"]


def _right_series(f, axis, t, Qs, nterms=40):
    """exp(2 i t R_g) f evaluated at Qs, R_x=(ethbar-eth)/2, R_y=i(eth+ethbar)/2, R_z=Rz.  Terms of different spin weight
    are kept as a dict spin -> Modes and evaluated separately."""
    import spherical

    def apply(d):
        out = {}

        def add(sw, m):
            if sw in out:
                out[sw] = out[sw] + m
            else:
                out[sw] = m
        for sw, m in d.items():
            if axis == 2:
                add(sw, m.Rz())
            else:
                e, b = m.eth, m.ethbar
                if axis == 0:
                    add(sw - 1, 0.5 * b)
                    add(sw + 1, -0.5 * e)
                else:
                    add(sw + 1, 0.5j * e)
                    add(sw - 1, 0.5j * b)
        return out
    cur = {f.spin_weight: f}
    coef = 1.0 + 0j
    tot = 0
    for k in range(nterms):
        for sw, m in cur.items():
            if abs(sw) <= m.ell_max:
                tot = tot + coef * ev(m, Qs)
        cur = apply(cur)
        coef = coef * 2j * t / (k + 1)
    return tot


def replay(body):
    print(body["input"], body["expected"], body["got"])
    return 0
