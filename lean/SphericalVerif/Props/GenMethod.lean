import SphericalVerif.Gen.MethodKern
import SphericalVerif.Props.Footprint
import SphericalVerif.Props.C09
import SphericalVerif.Props.C08
/-! GenMethod — **the wiring of the public methods, from the method text**.

    `Gen/MethodKern.lean` is regenerated on every run from the bodies of `Wigner.D`, `Wigner.sYlm` and the Horner branches
    of `Wigner.evaluate` and `Wigner.rotate` (and from `Wigner._split_workspace`, which fixes the shapes of the power arrays):
    the kernel calls for one rotor in the order and with the arguments the Python text gives them, every read-only argument
    being the *current content* of the array at the time of the call.  The theorems below identify each of them with the
    chain of `GenChain` (inputs captured where they are produced), whenever the workspace parts and the output are pairwise
    distinct arrays — which is what `_split_workspace` guarantees (consecutive slices; checked syntactically by the
    translator) and what the footprint theorems (`Footprint.*_only`) turn into "still there when read".  Hence everything
    `GenChain` proves (`gen_D_chain(_doc)`, `gen_Y_chain(_doc)`, `gen_evaluate_chain(_doc)`, `gen_rotate_chain(_doc)`) is a
    statement about the generated method bodies: a change of the order of the calls, of which phase goes where, of the array
    a kernel is handed, or of the workspace layout changes the definition these theorems are about. -/
namespace GenMethod
open Gen Frame Footprint GenH

section
variable {α : Type} [Scalar α] {φ : Type} [FMem φ α] [LawfulFMem φ α]

/-- `_complex_powers` on a one-element slice reads that one element -/
theorem cpow_one (zr : Int → Cx α) (M : Int) (zp : Nat) (nc : Int) (imsqrt : Cx α → α) (fuel : Nat) (st : φ) :
    Gen.u_complex_powers (α := α) zr M zp 1 nc imsqrt fuel st
      = Gen.u_complex_powers (α := α) (fun _ => zr 0) M zp 1 nc imsqrt fuel st := by
  rw [GenCPow.gen_eq_rows, GenCPow.gen_eq_rows]
  rfl

theorem half_double (L : Nat) : ((2 : Int) * ((L : Int) + (1 : Int))) / 2 = (L : Int) + 1 := by omega

/-- the body of `Wigner.D`'s loop, as generated from the method, is the chain of `GenChain.gen_D_chain` -/
theorem D_rotor_eq (L : Nat) (ell_min : Int) (zI aI gI DI : Nat) (a b d g h : Int → α) (imsqrt : Cx α → α) (R : Int → α) (st : φ)
    (hz : 2 < zI) (ha : 2 < aI) (hg : 2 < gI) (hza : zI ≠ aI) (hzg : zI ≠ gI) (hag : aI ≠ gI) :
    Gen.Wigner_D_rotor (α := α) R zI g h (L : Int) (L : Int) a b d idW idV idX DI aI imsqrt gI ell_min st
      = GenChain.wignerD L ell_min zI aI gI DI a b d g h imsqrt R st := by
  rw [← gen_D_chain_inplace L ell_min zI aI gI DI a b d g h imsqrt R st hz ha hg hza hzg hag]
  unfold Gen.Wigner_D_rotor Footprint.wignerD'
  simp only [half_double]
  rw [cpow_one]
  conv => lhs; arg 8; rw [cpow_one]
  rfl

/-- reading an array that `Wigner.H` does not own, after `Wigner.H` -/
theorem frdC_after_H (g h : Int → α) (L P : Int) (a b d : Int → α) (w : Cx α) (st : φ) (zI : Nat) (hz : 2 < zI) (i : Int) :
    frdC (α := α) (Gen.Wigner_H (α := α) g h L P a b d w idW idV idX st) zI i = frdC (α := α) st zI i :=
  Only.frdC _ _ _ (wigner_H_only g h L P a b d w idW idV idX st) zI i (by simp [idW, idV, idX]; omega)

/-- the body of `Wigner.sYlm`'s loop, as generated from the method, is the chain of `GenChain.gen_Y_chain`, the library power
    `z[2]**abs(s)` being taken of the phase the Euler kernel wrote -/
theorem sYlm_rotor_eq (L P : Nat) (ell_min sw : Int) (zI aI YI : Nat) (a b d g h : Int → α) (imsqrt : Cx α → α)
    (cpowi : Cx α → Int → Cx α) (R : Int → α) (st : φ) (hz : 2 < zI) (ha : 2 < aI) (hza : zI ≠ aI) :
    Gen.Wigner_sYlm_rotor (α := α) R zI g h (L : Int) (P : Int) a b d idW idV idX YI aI imsqrt cpowi sw ell_min st
      = GenChain.wignerY L P ell_min sw zI aI YI a b d g h imsqrt
          (cpowi (frdC (α := α) (Gen.u_to_euler_phases (α := α) R zI st) zI 2) ((Int.natAbs sw : Nat) : Int)) R st := by
  unfold Gen.Wigner_sYlm_rotor GenChain.wignerY
  simp only [half_double]
  rw [cpow_one]
  generalize Gen.u_to_euler_phases (α := α) R zI st = st1
  have e0 : frdC (α := α) (Gen.Wigner_H (α := α) g h (L : Int) (P : Int) a b d (frdC (α := α) st1 zI 1) idW idV idX st1) zI ((0 : Int) + 0)
      = frdC (α := α) st1 zI 0 := frdC_after_H g h _ _ a b d _ st1 zI hz _
  rw [e0]
  generalize hH : Gen.Wigner_H (α := α) g h (L : Int) (P : Int) a b d (frdC (α := α) st1 zI 1) idW idV idX st1 = stH
  have fa := cpow_only (fun _ => frdC (α := α) st1 zI 0) (L : Int) aI 1 ((L : Int) + 1) imsqrt 4 stH
  have e2 : frdC (α := α) (Gen.u_complex_powers (α := α) (fun _ => frdC (α := α) st1 zI 0) (L : Int) aI 1 ((L : Int) + 1) imsqrt 4 stH) zI 2
      = frdC (α := α) st1 zI 2 := by
    rw [Only.frdC _ _ _ fa zI 2 (by simp; exact hza), ← hH]; exact frdC_after_H g h _ _ a b d _ st1 zI hz _
  have eW : ∀ i, frd (α := α) (Gen.u_complex_powers (α := α) (fun _ => frdC (α := α) st1 zI 0) (L : Int) aI 1 ((L : Int) + 1) imsqrt 4 stH) idW i
      = frd (α := α) stH idW i := fun i => fa idW i (by simp [idW]; omega)
  simp only [e2, eW]

/-- the body of the Horner branch of `Wigner.evaluate`, as generated from the method, is the chain of `GenChain.gen_evaluate_chain` -/
theorem evaluate_rotor_eq (L P : Nat) (sw : Int) (ellMax : Nat) (zI fvI : Nat) (a b d g h : Int → α) (cpowi : Cx α → Int → Cx α) (ncols : Int)
    (farr : Array (Cx α)) (R : Int → α) (st : φ) (hz : 2 < zI) :
    Gen.Wigner_evaluate_rotor (α := α) R zI g h (L : Int) (P : Int) a b d idW idV idX (fun i => Model.cget farr i.toNat) fvI
        0 0 (ellMax : Int) sw 1 ncols cpowi st
      = GenChain.wignerEval L P sw ellMax zI fvI a b d g h cpowi ncols farr R st := by
  unfold Gen.Wigner_evaluate_rotor GenChain.wignerEval
  simp only []
  rw [frdC_after_H g h _ _ a b d _ _ zI hz 0, frdC_after_H g h _ _ a b d _ _ zI hz 2]

/-- the Horner branch of `Wigner.rotate`, as generated from the method, is the chain of `GenChain.gen_rotate_chain` -/
theorem rotate_rotor_eq (L : Nat) (sw : Int) (ellMax : Nat) (zI flnI nT pT : Nat) (a b d g h : Int → α) (cpowi : Cx α → Int → Cx α) (ncn nc : Int)
    (farr : Array (Cx α)) (R : Int → α) (st : φ) (hz : 2 < zI) :
    Gen.Wigner_rotate_rotor (α := α) R zI g h (L : Int) (L : Int) a b d idW idV idX (fun i => Model.cget farr i.toNat) flnI
        0 0 (ellMax : Int) sw nT pT 1 1 ncn nc cpowi st
      = GenChain.wignerRot L sw ellMax zI flnI nT pT a b d g h cpowi ncn nc farr R st := by
  unfold Gen.Wigner_rotate_rotor GenChain.wignerRot
  simp only []
  rw [frdC_after_H g h _ _ a b d _ _ zI hz 0, frdC_after_H g h _ _ a b d _ _ zI hz 2]

/-! ### what a whole method body writes: its workspace parts and its output, nothing else -/

macro "sub_ids" : tactic => `(tactic| (intro a ha; simp only [List.mem_cons, List.mem_singleton, List.not_mem_nil, or_false] at ha ⊢; tauto))

/-- the generated body of `Wigner.d`, every arithmetic: entry (ℓ, m', m) is the model's `dEntry` -/
theorem d_body_entry (L : Nat) (ell_min : Int) (dId : Nat) (c s : α) (a b d g h : Int → α) (ht : TabOK L a b d g h)
    (F : φ) (J : Loc → α) (h0 : 0 ≤ ell_min) (ell : Nat) (mp m : Int) (h1 : ell_min ≤ ell) (hl : ell ≤ L)
    (hp1 : -(ell : Int) ≤ mp) (hp2 : mp ≤ ell) (hm1 : -(ell : Int) ≤ m) (hm2 : m ≤ ell) :
    frd (α := α) (Gen.Wigner_d_body (α := α) g h (L : Int) (L : Int) a b d ⟨c, s⟩ idW idV idX dId ell_min F) dId (WignerDindex (ell : Int) mp m ell_min (-1))
      = Model.dEntry (α := α) (Model.runH (α := α) L L c s (⟨F, J⟩ : Hyb L L φ α)) ell mp m :=
  GenFill.gen_d_entry L ell_min dId c s a b d g h ht F J h0 ell mp m h1 hl hp1 hp2 hm1 hm2

theorem d_body_only (g h : Int → α) (L P : Int) (a b d : Int → α) (z : Cx α) (Hw Hv Hx dId : Nat) (ell_min : Int) (st : φ) :
    Only α [Hw, Hv, Hx, dId] st (Gen.Wigner_d_body (α := α) g h L P a b d z Hw Hv Hx dId ell_min st) := by
  unfold Gen.Wigner_d_body
  simp only []
  refine Only.trans _ _ _ _ ?_ (Only.mono _ _ _ _ (by sub_ids) (fill_d_only _ _ _ dId _ _))
  exact Only.mono _ _ _ _ (by sub_ids) (wigner_H_only g h L P a b d z Hw Hv Hx st)

theorem D_rotor_only (R : Int → α) (zI : Nat) (g h : Int → α) (L P : Int) (a b d : Int → α) (Hw Hv Hx DI aI : Nat) (imsqrt : Cx α → α) (gI : Nat)
    (ell_min : Int) (st : φ) :
    Only α [Hw, Hv, Hx, zI, aI, gI, DI] st (Gen.Wigner_D_rotor (α := α) R zI g h L P a b d Hw Hv Hx DI aI imsqrt gI ell_min st) := by
  unfold Gen.Wigner_D_rotor
  simp only []
  refine Only.trans _ _ _ _ ?_ (Only.mono _ _ _ _ (by sub_ids) (fill_D_only _ _ _ DI _ _ _ _))
  refine Only.trans _ _ _ _ ?_ (Only.mono _ _ _ _ (by sub_ids) (cpow_only _ _ gI _ _ _ _ _))
  refine Only.trans _ _ _ _ ?_ (Only.mono _ _ _ _ (by sub_ids) (cpow_only _ _ aI _ _ _ _ _))
  refine Only.trans _ _ _ _ ?_ (Only.mono _ _ _ _ (by sub_ids) (wigner_H_only g h L P a b d _ Hw Hv Hx _))
  exact Only.mono _ _ _ _ (by sub_ids) (euler_only R zI st)

theorem sYlm_rotor_only (R : Int → α) (zI : Nat) (g h : Int → α) (L P : Int) (a b d : Int → α) (Hw Hv Hx YI aI : Nat) (imsqrt : Cx α → α)
    (cpowi : Cx α → Int → Cx α) (s ell_min : Int) (st : φ) :
    Only α [Hw, Hv, Hx, zI, aI, YI] st (Gen.Wigner_sYlm_rotor (α := α) R zI g h L P a b d Hw Hv Hx YI aI imsqrt cpowi s ell_min st) := by
  unfold Gen.Wigner_sYlm_rotor
  simp only []
  refine Only.trans _ _ _ _ ?_ (Only.mono _ _ _ _ (by sub_ids) (fill_sYlm_only _ _ _ _ YI _ _ _ _))
  refine Only.trans _ _ _ _ ?_ (Only.mono _ _ _ _ (by sub_ids) (cpow_only _ _ aI _ _ _ _ _))
  refine Only.trans _ _ _ _ ?_ (Only.mono _ _ _ _ (by sub_ids) (wigner_H_only g h L P a b d _ Hw Hv Hx _))
  exact Only.mono _ _ _ _ (by sub_ids) (euler_only R zI st)

theorem evaluate_rotor_only (R : Int → α) (zI : Nat) (g h : Int → α) (L P : Int) (a b d : Int → α) (Hw Hv Hx : Nat) (mw : Int → Cx α) (fvI : Nat)
    (a1 a2 a3 a4 n nc : Int) (cpowi : Cx α → Int → Cx α) (st : φ) :
    Only α [Hw, Hv, Hx, zI, fvI] st (Gen.Wigner_evaluate_rotor (α := α) R zI g h L P a b d Hw Hv Hx mw fvI a1 a2 a3 a4 n nc cpowi st) := by
  unfold Gen.Wigner_evaluate_rotor
  simp only []
  refine Only.trans _ _ _ _ ?_ (Only.mono _ _ _ _ (by sub_ids) (evalH_only _ fvI _ _ _ _ _ _ _ _ _ _ _ _ _))
  refine Only.trans _ _ _ _ ?_ (Only.mono _ _ _ _ (by sub_ids) (wigner_H_only g h L P a b d _ Hw Hv Hx _))
  exact Only.mono _ _ _ _ (by sub_ids) (euler_only R zI st)

theorem rotate_rotor_only (R : Int → α) (zI : Nat) (g h : Int → α) (L P : Int) (a b d : Int → α) (Hw Hv Hx : Nat) (mw : Int → Cx α) (flnI : Nat)
    (a1 a2 a3 a4 : Int) (nT pT : Nat) (n1 n2 n3 n4 : Int) (cpowi : Cx α → Int → Cx α) (st : φ) :
    Only α [Hw, Hv, Hx, zI, flnI, nT, pT] st
      (Gen.Wigner_rotate_rotor (α := α) R zI g h L P a b d Hw Hv Hx mw flnI a1 a2 a3 a4 nT pT n1 n2 n3 n4 cpowi st) := by
  unfold Gen.Wigner_rotate_rotor
  simp only []
  refine Only.trans _ _ _ _ ?_ (Only.mono _ _ _ _ (by sub_ids) (rotH_only _ flnI _ _ _ _ _ _ _ _ _ nT pT _ _ _ _ _ _))
  refine Only.trans _ _ _ _ ?_ (Only.mono _ _ _ _ (by sub_ids) (wigner_H_only g h L P a b d _ Hw Hv Hx _))
  exact Only.mono _ _ _ _ (by sub_ids) (euler_only R zI st)
end

/-! ### the loop over rotors (`for i_R in range(quaternions.shape[0])`), as generated: every output row is the single-rotor result -/
section
variable {α : Type} [Scalar α] {φ : Type} [FMem φ α] [LawfulFMem φ α]

/-- a cell of an array that no later iteration may write keeps the value iteration `i` left in it -/
theorem loop_keeps (body : Nat → φ → φ) (ids : Nat → List Nat) (hframe : ∀ k st, Only α (ids k) st (body k st))
    (N i : Nat) (hi : i < N) (arr : Nat) (hnot : ∀ k, i < k → k < N → arr ∉ ids k) (idx : Int) (st : φ) :
    frd (α := α) (loopN N body st) arr idx = frd (α := α) (body i (loopN i body st)) arr idx := by
  induction N with
  | zero => omega
  | succ n ih =>
    simp only [loopN]
    by_cases h : i = n
    · subst h; rfl
    · rw [hframe n _ arr idx (hnot n (by omega) (by omega))]
      exact ih (by omega) (fun k h1 h2 => hnot k h1 (by omega))

theorem loop_keepsC (body : Nat → φ → φ) (ids : Nat → List Nat) (hframe : ∀ k st, Only α (ids k) st (body k st))
    (N i : Nat) (hi : i < N) (arr : Nat) (hnot : ∀ k, i < k → k < N → arr ∉ ids k) (idx : Int) (st : φ) :
    frdC (α := α) (loopN N body st) arr idx = frdC (α := α) (body i (loopN i body st)) arr idx := by
  unfold frdC
  rw [loop_keeps body ids hframe N i hi arr hnot, loop_keeps body ids hframe N i hi arr hnot]

/-- the row `Wigner.D`'s loop body writes does not depend on the memory the body starts from (workspace left by earlier rotors,
    earlier content of the output): every arithmetic, bit for bit -/
theorem D_rotor_pure (L : Nat) (ell_min : Int) (zI aI gI DI : Nat) (a b d g h : Int → α) (ht : TabOK L a b d g h) (imsqrt : Cx α → α)
    (R : Int → α) (st₁ st₂ : φ) (h0 : 0 ≤ ell_min)
    (hz : 2 < zI) (ha : 2 < aI) (hg : 2 < gI) (hza : zI ≠ aI) (hzg : zI ≠ gI) (hag : aI ≠ gI)
    (ell : Nat) (mp m : Int) (h1 : ell_min ≤ ell) (hl : ell ≤ L) (hmp : mp.natAbs ≤ ell) (hm : m.natAbs ≤ ell) :
    frdC (α := α) (Gen.Wigner_D_rotor (α := α) R zI g h (L : Int) (L : Int) a b d idW idV idX DI aI imsqrt gI ell_min st₁) DI
        (WignerDindex (ell : Int) mp m ell_min (-1))
      = frdC (α := α) (Gen.Wigner_D_rotor (α := α) R zI g h (L : Int) (L : Int) a b d idW idV idX DI aI imsqrt gI ell_min st₂) DI
        (WignerDindex (ell : Int) mp m ell_min (-1)) := by
  rw [D_rotor_eq L ell_min zI aI gI DI a b d g h imsqrt R st₁ hz ha hg hza hzg hag,
    D_rotor_eq L ell_min zI aI gI DI a b d g h imsqrt R st₂ hz ha hg hza hzg hag,
    GenChain.gen_D_chain L ell_min zI aI gI DI a b d g h ht imsqrt R st₁ (fun _ => R 0) h0 ell mp m h1 hl (by omega) (by omega) (by omega) (by omega),
    GenChain.gen_D_chain L ell_min zI aI gI DI a b d g h ht imsqrt R st₂ (fun _ => R 0) h0 ell mp m h1 hl (by omega) (by omega) (by omega) (by omega)]
  exact C09.objD_pure L _ _ _ _ _ _ imsqrt ell mp m hl hmp hm

/-- **C08 for the generated `Wigner.D`**: two calculators of different size (`ell_max` `L₁`, `L₂`), different `ell_min`, each with its own
    tables, its own arrays (possibly on memories of different representation) and its own history, leave the same value — every arithmetic,
    bit for bit — at the position each one's own `WignerDindex` gives to `(ℓ, m', m)`, for every `ℓ` both of them store -/
theorem D_rotor_size_indep {φ' : Type} [FMem φ' α] [LawfulFMem φ' α] (L₁ L₂ : Nat) (e₁ e₂ : Int) (zI aI gI DI zI' aI' gI' DI' : Nat)
    (a₁ b₁ d₁ g₁ h₁ a₂ b₂ d₂ g₂ h₂ : Int → α) (ht₁ : TabOK L₁ a₁ b₁ d₁ g₁ h₁) (ht₂ : TabOK L₂ a₂ b₂ d₂ g₂ h₂) (imsqrt : Cx α → α)
    (R : Int → α) (st₁ : φ) (st₂ : φ') (h01 : 0 ≤ e₁) (h02 : 0 ≤ e₂)
    (hz : 2 < zI) (ha : 2 < aI) (hg : 2 < gI) (hza : zI ≠ aI) (hzg : zI ≠ gI) (hag : aI ≠ gI)
    (hz' : 2 < zI') (ha' : 2 < aI') (hg' : 2 < gI') (hza' : zI' ≠ aI') (hzg' : zI' ≠ gI') (hag' : aI' ≠ gI')
    (ell : Nat) (mp m : Int) (h11 : e₁ ≤ ell) (h12 : e₂ ≤ ell) (hl₁ : ell ≤ L₁) (hl₂ : ell ≤ L₂) (hmp : mp.natAbs ≤ ell) (hm : m.natAbs ≤ ell) :
    frdC (α := α) (Gen.Wigner_D_rotor (α := α) R zI g₁ h₁ (L₁ : Int) (L₁ : Int) a₁ b₁ d₁ idW idV idX DI aI imsqrt gI e₁ st₁) DI
        (WignerDindex (ell : Int) mp m e₁ (-1))
      = frdC (α := α) (Gen.Wigner_D_rotor (α := α) R zI' g₂ h₂ (L₂ : Int) (L₂ : Int) a₂ b₂ d₂ idW idV idX DI' aI' imsqrt gI' e₂ st₂) DI'
        (WignerDindex (ell : Int) mp m e₂ (-1)) := by
  rw [D_rotor_eq L₁ e₁ zI aI gI DI a₁ b₁ d₁ g₁ h₁ imsqrt R st₁ hz ha hg hza hzg hag,
    D_rotor_eq L₂ e₂ zI' aI' gI' DI' a₂ b₂ d₂ g₂ h₂ imsqrt R st₂ hz' ha' hg' hza' hzg' hag',
    GenChain.gen_D_chain L₁ e₁ zI aI gI DI a₁ b₁ d₁ g₁ h₁ ht₁ imsqrt R st₁ (fun _ => R 0) h01 ell mp m h11 hl₁ (by omega) (by omega) (by omega) (by omega),
    GenChain.gen_D_chain L₂ e₂ zI' aI' gI' DI' a₂ b₂ d₂ g₂ h₂ ht₂ imsqrt R st₂ (fun _ => R 0) h02 ell mp m h12 hl₂ (by omega) (by omega) (by omega) (by omega)]
  exact C08.objD_cfg_indep L₁ L₂ _ _ _ _ _ _ imsqrt ell mp m hl₁ hl₂ hmp hm

/-- **C17 for the generated `Wigner.D`**: after the whole loop over `N` rotors, row `i` of the output holds exactly (every arithmetic: bit
    for bit) what the single-rotor body writes for rotor `i` on ANY memory `st'` — in particular on a fresh workspace.  Rows are
    distinct arrays, distinct from the workspace parts. -/
theorem D_loop_row (N : Nat) (L : Nat) (ell_min : Int) (zI aI gI : Nat) (rows : Int → Nat) (a b d g h : Int → α) (ht : TabOK L a b d g h)
    (imsqrt : Cx α → α) (quats : Int → Int → α) (st st' : φ) (h0 : 0 ≤ ell_min)
    (hz : 2 < zI) (ha : 2 < aI) (hg : 2 < gI) (hza : zI ≠ aI) (hzg : zI ≠ gI) (hag : aI ≠ gI)
    (hrows : ∀ k : Nat, k < N → 2 < rows k ∧ rows k ≠ zI ∧ rows k ≠ aI ∧ rows k ≠ gI)
    (hinj : ∀ j k : Nat, j < N → k < N → j ≠ k → rows j ≠ rows k)
    (i : Nat) (hi : i < N) (ell : Nat) (mp m : Int) (h1 : ell_min ≤ ell) (hl : ell ≤ L) (hmp : mp.natAbs ≤ ell) (hm : m.natAbs ≤ ell) :
    frdC (α := α) (Gen.Wigner_D_loop (α := α) (N : Int) quats zI g h (L : Int) (L : Int) a b d idW idV idX rows aI imsqrt gI ell_min st) (rows i)
        (WignerDindex (ell : Int) mp m ell_min (-1))
      = frdC (α := α) (Gen.Wigner_D_rotor (α := α) (quats i) zI g h (L : Int) (L : Int) a b d idW idV idX (rows i) aI imsqrt gI ell_min st') (rows i)
        (WignerDindex (ell : Int) mp m ell_min (-1)) := by
  unfold Gen.Wigner_D_loop
  have eN : ((N : Int) - (0 : Int)).toNat = N := by omega
  rw [eN]
  rw [loop_keepsC (fun k (st : φ) => Gen.Wigner_D_rotor (α := α) (quats ((0 : Int) + (k : Int))) zI g h (L : Int) (L : Int) a b d idW idV idX
        (rows ((0 : Int) + (k : Int))) aI imsqrt gI ell_min st)
      (fun k => [idW, idV, idX, zI, aI, gI, rows ((0 : Int) + (k : Int))])
      (fun k st => D_rotor_only _ zI g h _ _ a b d idW idV idX _ aI imsqrt gI ell_min st) N i hi (rows i) ?_]
  · simp only [Int.zero_add]
    exact D_rotor_pure L ell_min zI aI gI (rows i) a b d g h ht imsqrt (quats i) _ st' h0 hz ha hg hza hzg hag ell mp m h1 hl hmp hm
  · intro k hik hkN
    obtain ⟨r1, r2, r3, r4⟩ := hrows i hi
    have := hinj i k hi hkN (by omega)
    simp only [Int.zero_add, List.mem_cons, List.mem_singleton, List.not_mem_nil, or_false, idW, idV, idX]
    omega

/-- the row `Wigner.sYlm`'s loop body writes does not depend on the memory it starts from -/
theorem sYlm_rotor_pure (L P : Nat) (hPL : P ≤ L) (ell_min sw : Int) (zI aI YI : Nat) (a b d g h : Int → α) (ht : TabOK L a b d g h)
    (imsqrt : Cx α → α) (cpowi : Cx α → Int → Cx α) (R : Int → α) (st₁ st₂ : φ) (h0 : 0 ≤ ell_min)
    (hz : 2 < zI) (ha : 2 < aI) (hza : zI ≠ aI) (hs : sw.natAbs ≤ P)
    (ell : Nat) (m : Int) (h1 : ell_min ≤ ell) (hl : ell ≤ L) (hm : m.natAbs ≤ ell) :
    frdC (α := α) (Gen.Wigner_sYlm_rotor (α := α) R zI g h (L : Int) (P : Int) a b d idW idV idX YI aI imsqrt cpowi sw ell_min st₁) YI
        (Yindex (ell : Int) m ell_min)
      = frdC (α := α) (Gen.Wigner_sYlm_rotor (α := α) R zI g h (L : Int) (P : Int) a b d idW idV idX YI aI imsqrt cpowi sw ell_min st₂) YI
        (Yindex (ell : Int) m ell_min) := by
  rw [sYlm_rotor_eq L P ell_min sw zI aI YI a b d g h imsqrt cpowi R st₁ hz ha hza,
    sYlm_rotor_eq L P ell_min sw zI aI YI a b d g h imsqrt cpowi R st₂ hz ha hza,
    (GenEuler.gen_euler_phases R zI st₁).2.2, (GenEuler.gen_euler_phases R zI st₂).2.2,
    GenChain.gen_Y_chain L P ell_min sw zI aI YI a b d g h ht imsqrt _ R st₁ (fun _ => R 0) h0 hs (by omega) ell m h1 hl (by omega) (by omega),
    GenChain.gen_Y_chain L P ell_min sw zI aI YI a b d g h ht imsqrt _ R st₂ (fun _ => R 0) h0 hs (by omega) ell m h1 hl (by omega) (by omega)]
  exact C09.objY_pure L P hPL _ _ _ _ _ _ imsqrt _ sw ell m hs hl hm

/-- **C17 for the generated `Wigner.sYlm`**: row `i` after the loop over `N` rotors = the single-rotor body on any memory -/
theorem sYlm_loop_row (N : Nat) (L P : Nat) (hPL : P ≤ L) (ell_min sw : Int) (zI aI : Nat) (rows : Int → Nat) (a b d g h : Int → α)
    (ht : TabOK L a b d g h) (imsqrt : Cx α → α) (cpowi : Cx α → Int → Cx α) (quats : Int → Int → α) (st st' : φ) (h0 : 0 ≤ ell_min)
    (hz : 2 < zI) (ha : 2 < aI) (hza : zI ≠ aI) (hs : sw.natAbs ≤ P)
    (hrows : ∀ k : Nat, k < N → 2 < rows k ∧ rows k ≠ zI ∧ rows k ≠ aI)
    (hinj : ∀ j k : Nat, j < N → k < N → j ≠ k → rows j ≠ rows k)
    (i : Nat) (hi : i < N) (ell : Nat) (m : Int) (h1 : ell_min ≤ ell) (hl : ell ≤ L) (hm : m.natAbs ≤ ell) :
    frdC (α := α) (Gen.Wigner_sYlm_loop (α := α) (N : Int) quats zI g h (L : Int) (P : Int) a b d idW idV idX rows aI imsqrt cpowi sw ell_min st)
        (rows i) (Yindex (ell : Int) m ell_min)
      = frdC (α := α) (Gen.Wigner_sYlm_rotor (α := α) (quats i) zI g h (L : Int) (P : Int) a b d idW idV idX (rows i) aI imsqrt cpowi sw ell_min st')
        (rows i) (Yindex (ell : Int) m ell_min) := by
  unfold Gen.Wigner_sYlm_loop
  have eN : ((N : Int) - (0 : Int)).toNat = N := by omega
  rw [eN]
  rw [loop_keepsC (fun k (st : φ) => Gen.Wigner_sYlm_rotor (α := α) (quats ((0 : Int) + (k : Int))) zI g h (L : Int) (P : Int) a b d idW idV idX
        (rows ((0 : Int) + (k : Int))) aI imsqrt cpowi sw ell_min st)
      (fun k => [idW, idV, idX, zI, aI, rows ((0 : Int) + (k : Int))])
      (fun k st => sYlm_rotor_only _ zI g h _ _ a b d idW idV idX _ aI imsqrt cpowi sw ell_min st) N i hi (rows i) ?_]
  · simp only [Int.zero_add]
    exact sYlm_rotor_pure L P hPL ell_min sw zI aI (rows i) a b d g h ht imsqrt cpowi (quats i) _ st' h0 hz ha hza hs ell m h1 hl hm
  · intro k hik hkN
    obtain ⟨r1, r2, r3⟩ := hrows i hi
    have := hinj i k hi hkN (by omega)
    simp only [Int.zero_add, List.mem_cons, List.mem_singleton, List.not_mem_nil, or_false, idW, idV, idX]
    omega

/-- the value the Horner branch of `Wigner.evaluate` writes for one rotor does not depend on the memory it starts from, nor on what the
    output cell held -/
theorem evaluate_rotor_pure (L P : Nat) (hPL : P ≤ L) (sw : Int) (ellMax : Nat) (zI fvI : Nat) (a b d g h : Int → α) (ht : TabOK L a b d g h)
    (cpowi : Cx α → Int → Cx α) (ncols : Int) (farr : Array (Cx α)) (R : Int → α) (st₁ st₂ : φ) (hz : 2 < zI) (hsP : sw.natAbs ≤ P) (hM : ellMax ≤ L) :
    frdC (α := α) (Gen.Wigner_evaluate_rotor (α := α) R zI g h (L : Int) (P : Int) a b d idW idV idX (fun i => Model.cget farr i.toNat) fvI
        0 0 (ellMax : Int) sw 1 ncols cpowi st₁) fvI 0
      = frdC (α := α) (Gen.Wigner_evaluate_rotor (α := α) R zI g h (L : Int) (P : Int) a b d idW idV idX (fun i => Model.cget farr i.toNat) fvI
        0 0 (ellMax : Int) sw 1 ncols cpowi st₂) fvI 0 := by
  rw [evaluate_rotor_eq L P sw ellMax zI fvI a b d g h cpowi ncols farr R st₁ hz, evaluate_rotor_eq L P sw ellMax zI fvI a b d g h cpowi ncols farr R st₂ hz]
  obtain ⟨p1, e1⟩ := GenChain.gen_evaluate_chain L P sw ellMax zI fvI a b d g h ht cpowi ncols farr R st₁ (fun _ => R 0) hsP hM
  obtain ⟨p2, e2⟩ := GenChain.gen_evaluate_chain L P sw ellMax zI fvI a b d g h ht cpowi ncols farr R st₂ (fun _ => R 0) hsP hM
  rw [e1, e2]
  exact C09.objEvalH_pure L P hPL _ _ _ _ _ _ _ farr sw ellMax p1 p2 hsP hM

/-- **C17 for the generated Horner `Wigner.evaluate`** (one row of weights): after the loop over `N` rotors, the output cell of rotor `i`
    (its own column) = the single-rotor body on any memory -/
theorem evaluate_loop_col (N : Nat) (L P : Nat) (hPL : P ≤ L) (sw : Int) (ellMax : Nat) (zI : Nat) (cols : Int → Nat) (a b d g h : Int → α)
    (ht : TabOK L a b d g h) (cpowi : Cx α → Int → Cx α) (ncols : Int) (farr : Array (Cx α)) (quats : Int → Int → α) (st st' : φ)
    (hz : 2 < zI) (hsP : sw.natAbs ≤ P) (hM : ellMax ≤ L)
    (hcols : ∀ k : Nat, k < N → 2 < cols k ∧ cols k ≠ zI)
    (hinj : ∀ j k : Nat, j < N → k < N → j ≠ k → cols j ≠ cols k) (i : Nat) (hi : i < N) :
    frdC (α := α) (Gen.Wigner_evaluate_loop (α := α) (N : Int) quats zI g h (L : Int) (P : Int) a b d idW idV idX (fun i => Model.cget farr i.toNat) cols
        0 0 (ellMax : Int) sw 1 ncols cpowi st) (cols i) 0
      = frdC (α := α) (Gen.Wigner_evaluate_rotor (α := α) (quats i) zI g h (L : Int) (P : Int) a b d idW idV idX (fun i => Model.cget farr i.toNat) (cols i)
        0 0 (ellMax : Int) sw 1 ncols cpowi st') (cols i) 0 := by
  unfold Gen.Wigner_evaluate_loop
  have eN : ((N : Int) - (0 : Int)).toNat = N := by omega
  rw [eN]
  rw [loop_keepsC (fun k (st : φ) => Gen.Wigner_evaluate_rotor (α := α) (quats ((0 : Int) + (k : Int))) zI g h (L : Int) (P : Int) a b d idW idV idX
        (fun i => Model.cget farr i.toNat) (cols ((0 : Int) + (k : Int))) 0 0 (ellMax : Int) sw 1 ncols cpowi st)
      (fun k => [idW, idV, idX, zI, cols ((0 : Int) + (k : Int))])
      (fun k st => evaluate_rotor_only _ zI g h _ _ a b d idW idV idX _ _ _ _ _ _ _ _ cpowi st) N i hi (cols i) ?_]
  · simp only [Int.zero_add]
    exact evaluate_rotor_pure L P hPL sw ellMax zI (cols i) a b d g h ht cpowi ncols farr (quats i) _ st' hz hsP hM
  · intro k hik hkN
    obtain ⟨r1, r2⟩ := hcols i hi
    have := hinj i k hi hkN (by omega)
    simp only [Int.zero_add, List.mem_cons, List.mem_singleton, List.not_mem_nil, or_false, idW, idV, idX]
    omega

/-- the weights the Horner branch of `Wigner.rotate` writes do not depend on the memory it starts from -/
theorem rotate_rotor_pure (L : Nat) (sw : Int) (ellMax : Nat) (zI flnI nT pT : Nat) (a b d g h : Int → α) (ht : TabOK L a b d g h)
    (cpowi : Cx α → Int → Cx α) (ncn nc : Int) (farr : Array (Cx α)) (R : Int → α) (st₁ st₂ : φ) (hz : 2 < zI)
    (h1 : nT ≠ pT) (h2 : flnI ≠ nT) (h3 : flnI ≠ pT) (hM : ellMax ≤ L)
    (n : Nat) (m : Int) (hsn : sw.natAbs ≤ n) (hn : n ≤ ellMax) (hm : m.natAbs ≤ n) :
    frdC (α := α) (Gen.Wigner_rotate_rotor (α := α) R zI g h (L : Int) (L : Int) a b d idW idV idX (fun i => Model.cget farr i.toNat) flnI
        0 0 (ellMax : Int) sw nT pT 1 1 ncn nc cpowi st₁) flnI ((n : Int) * ((n : Int) + 1) + m)
      = frdC (α := α) (Gen.Wigner_rotate_rotor (α := α) R zI g h (L : Int) (L : Int) a b d idW idV idX (fun i => Model.cget farr i.toNat) flnI
        0 0 (ellMax : Int) sw nT pT 1 1 ncn nc cpowi st₂) flnI ((n : Int) * ((n : Int) + 1) + m) := by
  rw [rotate_rotor_eq L sw ellMax zI flnI nT pT a b d g h cpowi ncn nc farr R st₁ hz, rotate_rotor_eq L sw ellMax zI flnI nT pT a b d g h cpowi ncn nc farr R st₂ hz,
    GenChain.gen_rotate_chain L sw ellMax zI flnI nT pT a b d g h ht cpowi ncn nc farr R st₁ (fun _ => R 0) h1 h2 h3 hM n m hsn hn (by omega) (by omega),
    GenChain.gen_rotate_chain L sw ellMax zI flnI nT pT a b d g h ht cpowi ncn nc farr R st₂ (fun _ => R 0) h1 h2 h3 hM n m hsn hn (by omega) (by omega)]
  exact C09.objRotH_pure L _ _ _ _ _ _ _ farr sw n m (by omega) hm
end

/-! ### the documented functions, for the generated method bodies (exact reals, every unit quaternion) -/
section
variable {φ : Type} [FMem φ ℝ] [LawfulFMem φ ℝ]

/-- **`Wigner.d` — method body and every kernel from the source — writes the documented d** (`expiβ = (cos β, sin β)` with
    `cos β = ch² − sh²`, `sin β = 2 ch sh`: every β) -/
theorem d_body_doc (ch sh : ℝ) (hcs : ch ^ 2 + sh ^ 2 = 1) (L : Nat) (ell_min : Int) (dId : Nat) (a b d g h : Int → ℝ) (ht : TabOK L a b d g h)
    (F : φ) (h0 : 0 ≤ ell_min) (ell : Nat) (mp m : Int) (h1 : ell_min ≤ ell) (hl : ell ≤ L) (hmp : mp.natAbs ≤ ell) (hm : m.natAbs ≤ ell) :
    frd (α := ℝ) (Gen.Wigner_d_body (α := ℝ) g h (L : Int) (L : Int) a b d ⟨ch ^ 2 - sh ^ 2, 2 * ch * sh⟩ idW idV idX dId ell_min F) dId
        (WignerDindex (ell : Int) mp m ell_min (-1))
      = DocD.docd ch sh ell mp m :=
  GenFill.gen_d_eq_docd ch sh hcs L ell_min dId a b d g h ht F h0 ell mp m h1 hl hmp hm

/-- **`Wigner.D` — method body and every kernel from the source — writes the documented 𝔇** -/
theorem D_rotor_doc (L : Nat) (ell_min : Int) (zI aI gI DI : Nat) (a b d g h : Int → ℝ) (ht : TabOK L a b d g h) (imsqrt : Cx ℝ → ℝ)
    (hs : ∀ w : Cx ℝ, w.re ^ 2 + w.im ^ 2 = 1 → 2 * (imsqrt w) ^ 2 = 1 - w.re)
    (R : Int → ℝ) (hR : R 0 ^ 2 + R 1 ^ 2 + R 2 ^ 2 + R 3 ^ 2 = 1) (F : φ) (h0 : 0 ≤ ell_min)
    (hz : 2 < zI) (ha : 2 < aI) (hg : 2 < gI) (hza : zI ≠ aI) (hzg : zI ≠ gI) (hag : aI ≠ gI)
    (ell : Nat) (mp m : Int) (h1 : ell_min ≤ ell) (hl : ell ≤ L) (hmp : mp.natAbs ≤ ell) (hm : m.natAbs ≤ ell) :
    CPow.toC (frdC (α := ℝ) (Gen.Wigner_D_rotor (α := ℝ) R zI g h (L : Int) (L : Int) a b d idW idV idX DI aI imsqrt gI ell_min F) DI
        (WignerDindex (ell : Int) mp m ell_min (-1)))
      = DDef.docD ell (DDef.Ra (R 0) (R 3)) (DDef.Rb (R 1) (R 2)) mp m := by
  rw [D_rotor_eq L ell_min zI aI gI DI a b d g h imsqrt R F hz ha hg hza hzg hag]
  exact GenChain.gen_D_chain_doc L ell_min zI aI gI DI a b d g h ht imsqrt hs R hR F h0 ell mp m h1 hl hmp hm

/-- **`Wigner.sYlm` — method body and every kernel from the source — writes (−1)^s √((2ℓ+1)/4π) 𝔇^ℓ_{m,−s}** -/
theorem sYlm_rotor_doc (L P : Nat) (ell_min sw : Int) (zI aI YI : Nat) (a b d g h : Int → ℝ) (ht : TabOK L a b d g h) (imsqrt : Cx ℝ → ℝ)
    (hs : ∀ w : Cx ℝ, w.re ^ 2 + w.im ^ 2 = 1 → 2 * (imsqrt w) ^ 2 = 1 - w.re) (cpowi : Cx ℝ → Int → Cx ℝ)
    (R : Int → ℝ) (hR : R 0 ^ 2 + R 1 ^ 2 + R 2 ^ 2 + R 3 ^ 2 = 1)
    (hY : CPow.toC (cpowi (Model.eulerPhases (R 0) (R 1) (R 2) (R 3)).2.2 ((Int.natAbs sw : Nat) : Int))
        = CPow.toC (Model.eulerPhases (R 0) (R 1) (R 2) (R 3)).2.2 ^ sw.natAbs) (F : φ) (h0 : 0 ≤ ell_min)
    (hz : 2 < zI) (ha : 2 < aI) (hza : zI ≠ aI)
    (hsP : sw.natAbs ≤ P) (ell : Nat) (m : Int) (h1 : ell_min ≤ ell) (hl : ell ≤ L) (hsl : sw.natAbs ≤ ell) (hm : m.natAbs ≤ ell) :
    CPow.toC (frdC (α := ℝ) (Gen.Wigner_sYlm_rotor (α := ℝ) R zI g h (L : Int) (P : Int) a b d idW idV idX YI aI imsqrt cpowi sw ell_min F) YI
        (Yindex (ell : Int) m ell_min))
      = (((-1) ^ sw.natAbs * Real.sqrt ((2 * (ell : ℝ) + 1) / (4 * Real.pi)) : ℝ) : ℂ)
          * DDef.docD ell (DDef.Ra (R 0) (R 3)) (DDef.Rb (R 1) (R 2)) m (-sw) := by
  rw [sYlm_rotor_eq L P ell_min sw zI aI YI a b d g h imsqrt cpowi R F hz ha hza]
  refine GenChain.gen_Y_chain_doc L P ell_min sw zI aI YI a b d g h ht imsqrt hs _ R hR ?_ F h0 hsP ell m h1 hl hsl hm
  rw [(GenEuler.gen_euler_phases R zI F).2.2]; exact hY

/-- **`Wigner.evaluate(horner=True)` — method body and every kernel from the source — writes Σ f_{ℓm} ₛY_{ℓm}(Q)** -/
theorem evaluate_rotor_doc (L P : Nat) (sw : Int) (ellMax : Nat) (zI fvI : Nat)
    (a b d g h : Int → ℝ) (ht : TabOK L a b d g h) (cpowi : Cx ℝ → Int → Cx ℝ) (ncols : Int) (farr : Array (Cx ℝ))
    (Q : Model.Quat ℝ) (hQ : Q.w ^ 2 + Q.x ^ 2 + Q.y ^ 2 + Q.z ^ 2 = 1) (F : φ) (hz : 2 < zI) (hsP : sw.natAbs ≤ P) (hM : ellMax ≤ L)
    (hE : CPow.toC (cpowi (Cx.conj (Model.eulerPhases Q.w Q.x Q.y Q.z).2.2) sw)
        = (starRingEnd ℂ) (CPow.toC (Model.eulerPhases Q.w Q.x Q.y Q.z).2.2) ^ sw) :
    CPow.toC (frdC (α := ℝ) (Gen.Wigner_evaluate_rotor (α := ℝ) (fun i => if i = 0 then Q.w else if i = 1 then Q.x else if i = 2 then Q.y else Q.z)
        zI g h (L : Int) (P : Int) a b d idW idV idX (fun i => Model.cget farr i.toNat) fvI 0 0 (ellMax : Int) sw 1 ncols cpowi F) fvI 0)
      = HomAll.evalW sw Q (HomAll.wts farr) ellMax := by
  rw [evaluate_rotor_eq L P sw ellMax zI fvI a b d g h cpowi ncols farr _ F hz]
  exact GenChain.gen_evaluate_chain_doc L P sw ellMax zI fvI a b d g h ht cpowi ncols farr Q hQ F hsP hM hE

/-- **`Wigner.rotate(horner=True)` — method body and every kernel from the source — writes f · 𝔇(documented)** -/
theorem rotate_rotor_doc (L : Nat) (sw : Int) (ellMax : Nat) (zI flnI nT pT : Nat)
    (a b d g h : Int → ℝ) (ht : TabOK L a b d g h) (cpowi : Cx ℝ → Int → Cx ℝ) (ncn nc : Int) (farr : Array (Cx ℝ))
    (R : Model.Quat ℝ) (hR : R.w ^ 2 + R.x ^ 2 + R.y ^ 2 + R.z ^ 2 = 1) (F : φ) (hz : 2 < zI)
    (h1 : nT ≠ pT) (h2 : flnI ≠ nT) (h3 : flnI ≠ pT) (hM : ellMax ≤ L)
    (n : Nat) (m : Int) (hsn : sw.natAbs ≤ n) (hn : n ≤ ellMax) (hm : m.natAbs ≤ n)
    (hpow : CPow.toC (cpowi (Model.eulerPhases R.w R.x R.y R.z).2.2 m) = CPow.toC (Model.eulerPhases R.w R.x R.y R.z).2.2 ^ m) :
    CPow.toC (frdC (α := ℝ) (Gen.Wigner_rotate_rotor (α := ℝ) (fun i => if i = 0 then R.w else if i = 1 then R.x else if i = 2 then R.y else R.z)
        zI g h (L : Int) (L : Int) a b d idW idV idX (fun i => Model.cget farr i.toNat) flnI 0 0 (ellMax : Int) sw nT pT 1 1 ncn nc cpowi F)
        flnI ((n : Int) * ((n : Int) + 1) + m))
      = HomAll.rot R (HomAll.wts farr) n m := by
  rw [rotate_rotor_eq L sw ellMax zI flnI nT pT a b d g h cpowi ncn nc farr _ F hz]
  exact GenChain.gen_rotate_chain_doc L sw ellMax zI flnI nT pT a b d g h ht cpowi ncn nc farr R hR F h1 h2 h3 hM n m hsn hn hm hpow
end

/-- the premises of `D_loop_row` are satisfiable: IEEE doubles on the executable memory, a calculator with `ell_max = 3` and the
    tables the driver builds, three rotors, rows 7, 8, 9, workspace parts 0..6 — row 1, entry (3, −2, 3) -/
example (quats : Int → Int → Float) (imsqrt : Cx Float → Float) (st st' : HFMem Float) :
    frdC (α := Float) (Gen.Wigner_D_loop (α := Float) ((3 : Nat) : Int) quats 6 (tabOfRange Scalar.half (Spec.nmRange 4) Gen.tab_g)
        (tabOfRange Scalar.half (Spec.nmRange 4) Gen.tab_h) ((3 : Nat) : Int) ((3 : Nat) : Int)
        (tabOfRange Scalar.half (Spec.nabsmRange 4) Gen.tab_a) (tabOfRange Scalar.half (Spec.nmRange 4) Gen.tab_b)
        (tabOfRange Scalar.half (Spec.nmRange 4) Gen.tab_d) idW idV idX (fun i => 7 + i.toNat) 4 imsqrt 5 0 st) 8 (WignerDindex ((3 : Nat) : Int) (-2) 3 0 (-1))
      = frdC (α := Float) (Gen.Wigner_D_rotor (α := Float) (quats 1) 6 (tabOfRange Scalar.half (Spec.nmRange 4) Gen.tab_g)
        (tabOfRange Scalar.half (Spec.nmRange 4) Gen.tab_h) ((3 : Nat) : Int) ((3 : Nat) : Int)
        (tabOfRange Scalar.half (Spec.nabsmRange 4) Gen.tab_a) (tabOfRange Scalar.half (Spec.nmRange 4) Gen.tab_b)
        (tabOfRange Scalar.half (Spec.nmRange 4) Gen.tab_d) idW idV idX 8 4 imsqrt 5 0 st') 8 (WignerDindex ((3 : Nat) : Int) (-2) 3 0 (-1)) :=
  D_loop_row 3 3 0 6 4 5 (fun i => 7 + i.toNat) _ _ _ _ _ (tabOK_ranges 3) imsqrt quats st st' (by decide) (by decide) (by decide) (by decide)
    (by decide) (by decide) (by decide) (fun k hk => by simp only [Int.toNat_natCast]; omega)
    (fun j k _ _ hjk => by simp only [Int.toNat_natCast]; omega) 1 (by decide) 3 (-2) 3 (by decide) (by decide) (by decide) (by decide)
end GenMethod
