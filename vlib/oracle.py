"""Independent exact oracles (mpmath / big integers) written from the *documentation*, used only by the
failing-input searches and gap monitors (never as a proof).

D: docs/WignerDMatrices.md eq. (DAnalytically), with R_a = w + i z, R_b = y + i x:
   D^l_{m',m}(R) = sqrt[(l+m)!(l-m)! / ((l+m')!(l-m')!)] * sum_rho C(l+m',rho) C(l-m', l-rho-m) (-1)^rho
                   R_a^{l+m'-rho} conj(R_a)^{l-rho-m} R_b^{rho-m'+m} conj(R_b)^rho
sYlm(R) = (-1)^s sqrt((2l+1)/4pi) D^l_{m,-s}(R)
3-j: Racah's formula in exact rational arithmetic."""
import math
from fractions import Fraction
from functools import lru_cache

import mpmath as mp


def dps_for(ell):
    return int(60 + 1.3 * ell)


def unit_quat_mp(R):
    w, x, y, z = (mp.mpf(float(c)) for c in R)
    n = mp.sqrt(w * w + x * x + y * y + z * z)
    return w / n, x / n, y / n, z / n


def D_exact(R, ell, mp_, m, normalize=True):
    """exact D^ell_{mp,m}(R) as mpc; R = 4 floats (normalised in high precision)"""
    with mp.workdps(dps_for(ell)):
        if normalize:
            w, x, y, z = unit_quat_mp(R)
        else:
            w, x, y, z = (mp.mpf(float(c)) for c in R)
        Ra, Rb = mp.mpc(w, z), mp.mpc(y, x)
        Rac, Rbc = mp.conj(Ra), mp.conj(Rb)
        pref = mp.sqrt(mp.factorial(ell + m) * mp.factorial(ell - m) / (mp.factorial(ell + mp_) * mp.factorial(ell - mp_)))
        lo, hi = max(0, mp_ - m), min(ell + mp_, ell - m)
        tot = mp.mpc(0)
        for rho in range(lo, hi + 1):
            term = mp.binomial(ell + mp_, rho) * mp.binomial(ell - mp_, ell - rho - m) * (-1) ** rho
            # powers: zero bases with zero exponents are 1
            term *= _pw(Ra, ell + mp_ - rho) * _pw(Rac, ell - rho - m) * _pw(Rb, rho - mp_ + m) * _pw(Rbc, rho)
            tot += term
        return pref * tot


def _pw(z, k):
    if k == 0:
        return mp.mpc(1)
    return z ** k


def d_exact(expibeta, ell, mp_, m):
    """exact d^ell_{mp,m}(beta) with beta = arg(expibeta) in [0, pi]"""
    with mp.workdps(dps_for(ell)):
        c, s = mp.mpf(float(expibeta.real)), mp.mpf(float(expibeta.imag))
        beta = mp.atan2(s, c)
        R = (mp.cos(beta / 2), mp.mpf(0), mp.sin(beta / 2), mp.mpf(0))
        w, x, y, z = R
        Ra, Rb = mp.mpc(w, z), mp.mpc(y, x)
        pref = mp.sqrt(mp.factorial(ell + m) * mp.factorial(ell - m) / (mp.factorial(ell + mp_) * mp.factorial(ell - mp_)))
        lo, hi = max(0, mp_ - m), min(ell + mp_, ell - m)
        tot = mp.mpf(0)
        for rho in range(lo, hi + 1):
            term = mp.binomial(ell + mp_, rho) * mp.binomial(ell - mp_, ell - rho - m) * (-1) ** rho
            term *= _pw(Ra, 2 * ell + mp_ - m - 2 * rho).real * _pw(Rb, 2 * rho - mp_ + m).real
            tot += term
        return pref * tot


def sYlm_exact(s, ell, m, R):
    with mp.workdps(dps_for(ell)):
        if ell < abs(s):
            return mp.mpc(0)
        return (-1) ** s * mp.sqrt((2 * ell + 1) / (4 * mp.pi)) * D_exact(R, ell, m, -s)


def to_complex(z):
    return complex(float(mp.re(z)), float(mp.im(z)))


def err(z_mp, z_float):
    """|exact - computed| as float, computed in high precision"""
    with mp.workdps(40):
        return float(abs(z_mp - mp.mpc(float(z_float.real), float(z_float.imag))))


@lru_cache(maxsize=None)
def fact(n):
    return math.factorial(n)


def w3j_exact(j1, j2, j3, m1, m2, m3):
    """exact 3-j symbol as (sign-carrying) high-precision float via Racah's formula in exact integers"""
    if m1 + m2 + m3 != 0 or abs(m1) > j1 or abs(m2) > j2 or abs(m3) > j3:
        return 0.0
    if j1 < 0 or j2 < 0 or j3 < 0 or j3 > j1 + j2 or j3 < abs(j1 - j2):
        return 0.0
    tmin = max(0, j2 - j3 - m1, j1 - j3 + m2)
    tmax = min(j1 + j2 - j3, j1 - m1, j2 + m2)
    S = Fraction(0)
    for t in range(tmin, tmax + 1):
        den = fact(t) * fact(j3 - j2 + t + m1) * fact(j3 - j1 + t - m2) * fact(j1 + j2 - j3 - t) * fact(j1 - t - m1) * fact(j2 - t + m2)
        S += Fraction((-1) ** t, den)
    if S == 0:
        return 0.0
    delta = Fraction(fact(j1 + j2 - j3) * fact(j1 - j2 + j3) * fact(-j1 + j2 + j3), fact(j1 + j2 + j3 + 1))
    pref = delta * fact(j1 + m1) * fact(j1 - m1) * fact(j2 + m2) * fact(j2 - m2) * fact(j3 + m3) * fact(j3 - m3)
    # value = (-1)^(j1-j2-m3) * sqrt(pref) * S ; square exactly, root in high precision
    sq = pref * S * S
    with mp.workdps(40):
        val = mp.sqrt(mp.mpf(sq.numerator) / mp.mpf(sq.denominator))
        sign = (-1) ** (j1 - j2 - m3) * (1 if S > 0 else -1)
        return float(sign * val)


def cpow_exact(z, m):
    """exact z^m for the complex double z normalised to unit modulus in high precision"""
    with mp.workdps(50):
        zz = mp.mpc(float(z.real), float(z.imag))
        zz = zz / abs(zz)
        return zz ** m
