import SphericalVerif.Lemmas.DDef
import SphericalVerif.Lemmas.DocHom1
import Mathlib.Data.Int.Interval
import Mathlib.Algebra.BigOperators.Intervals
import Mathlib.Analysis.Real.Sqrt
import Mathlib.Tactic.Ring
import Mathlib.Tactic.Linarith
import Mathlib.Tactic.NormNum
import Mathlib.Tactic.FieldSimp
import Mathlib.Tactic.LinearCombination
/-! Helper lemmas for `Props/DocHom.lean`: the group laws of the DOCUMENTED Wigner D matrix `DDef.docD` for EVERY ℓ.

    `docD_eq_coeff`: for |m'|, |m| ≤ ℓ,
        docD ℓ A B m' m = √[(ℓ+m)!(ℓ−m)!/((ℓ+m')!(ℓ−m')!)] · [t^{ℓ−m}] (A − conj(B) t)^{ℓ+m'} (B + conj(A) t)^{ℓ−m'},
    i.e. up to the normalisation the documented matrix is the matrix of the substitution
    x ↦ A x − conj(B) y, y ↦ B x + conj(A) y on binary forms of degree 2ℓ, in the basis x^{ℓ+m} y^{ℓ−m}.
    The laws are then consequences of the polynomial facts of `Lemmas/DocHom1.lean`. -/
noncomputable section
namespace DocHom
open Polynomial DDef
open scoped ComplexConjugate Nat

/-- (ℓ+m)! (ℓ−m)! -/
def fac (ℓ : ℕ) (m : ℤ) : ℝ := ((((ℓ : ℤ) + m).toNat ! * ((ℓ : ℤ) - m).toNat ! : ℕ) : ℝ)

/-- the normalisation √[(ℓ+m)!(ℓ−m)!/((ℓ+m')!(ℓ−m')!)] of the documented formula -/
def nrm (ℓ : ℕ) (mp m : ℤ) : ℂ := ((Real.sqrt (fac ℓ m / fac ℓ mp) : ℝ) : ℂ)

theorem fac_pos (ℓ : ℕ) (m : ℤ) : 0 < fac ℓ m :=
  Nat.cast_pos.2 (Nat.mul_pos (Nat.factorial_pos _) (Nat.factorial_pos _))

theorem fac_neg (ℓ : ℕ) (m : ℤ) : fac ℓ (-m) = fac ℓ m := by
  unfold fac
  rw [← sub_eq_add_neg, sub_neg_eq_add, mul_comm]

theorem fac_cast (ℓ : ℕ) (m : ℤ) : ((fac ℓ m : ℝ) : ℂ) = ((((ℓ : ℤ) + m).toNat ! : ℂ) * (((ℓ : ℤ) - m).toNat ! : ℂ)) := by
  unfold fac; push_cast; ring

theorem nrm_mul (ℓ : ℕ) (mp k m : ℤ) : nrm ℓ mp k * nrm ℓ k m = nrm ℓ mp m := by
  unfold nrm
  have h1 := fac_pos ℓ mp
  have h2 := fac_pos ℓ k
  have h3 := fac_pos ℓ m
  rw [← Complex.ofReal_mul, ← Real.sqrt_mul (div_nonneg h2.le h1.le)]
  congr 2
  field_simp

theorem nrm_self (ℓ : ℕ) (m : ℤ) : nrm ℓ m m = 1 := by
  unfold nrm
  rw [div_self (fac_pos ℓ m).ne', Real.sqrt_one, Complex.ofReal_one]

theorem nrm_neg (ℓ : ℕ) (mp m : ℤ) : nrm ℓ (-mp) (-m) = nrm ℓ mp m := by
  unfold nrm; rw [fac_neg, fac_neg]

theorem conj_nrm (ℓ : ℕ) (mp m : ℤ) : conj (nrm ℓ mp m) = nrm ℓ mp m := Complex.conj_ofReal _

/-- (ℓ+m)!(ℓ−m)! c = (ℓ+m')!(ℓ−m')! c' gives N_{m',m} c = N_{m,m'} c' -/
theorem nrm_transpose (ℓ : ℕ) (mp m : ℤ) (c c' : ℂ) (h : ((fac ℓ m : ℝ) : ℂ) * c = ((fac ℓ mp : ℝ) : ℂ) * c') :
    nrm ℓ mp m * c = nrm ℓ m mp * c' := by
  unfold nrm
  have h1 := fac_pos ℓ mp
  have h3 := fac_pos ℓ m
  have s1 : Real.sqrt (fac ℓ mp) ≠ 0 := (Real.sqrt_pos.2 h1).ne'
  have s3 : Real.sqrt (fac ℓ m) ≠ 0 := (Real.sqrt_pos.2 h3).ne'
  have q1 : ((Real.sqrt (fac ℓ mp) : ℝ) : ℂ) * ((Real.sqrt (fac ℓ mp) : ℝ) : ℂ) = ((fac ℓ mp : ℝ) : ℂ) := by
    rw [← Complex.ofReal_mul, Real.mul_self_sqrt h1.le]
  have q3 : ((Real.sqrt (fac ℓ m) : ℝ) : ℂ) * ((Real.sqrt (fac ℓ m) : ℝ) : ℂ) = ((fac ℓ m : ℝ) : ℂ) := by
    rw [← Complex.ofReal_mul, Real.mul_self_sqrt h3.le]
  have c1 : ((Real.sqrt (fac ℓ mp) : ℝ) : ℂ) ≠ 0 := Complex.ofReal_ne_zero.2 s1
  have c3 : ((Real.sqrt (fac ℓ m) : ℝ) : ℂ) ≠ 0 := Complex.ofReal_ne_zero.2 s3
  rw [Real.sqrt_div h3.le, Real.sqrt_div h1.le, Complex.ofReal_div, Complex.ofReal_div, div_mul_eq_mul_div,
    div_mul_eq_mul_div, div_eq_div_iff c1 c3]
  linear_combination h + c * q3 - c' * q1

/-- Σ over k = −ℓ..ℓ as a sum over i = ℓ − k = 0..2ℓ -/
theorem sum_Icc_eq_sum_range (ℓ : ℕ) (f : ℤ → ℂ) :
    ∑ k ∈ Finset.Icc (-(ℓ : ℤ)) ℓ, f k = ∑ i ∈ Finset.range (2 * ℓ + 1), f ((ℓ : ℤ) - i) := by
  refine Finset.sum_nbij' (fun k => ((ℓ : ℤ) - k).toNat) (fun i => (ℓ : ℤ) - i) ?_ ?_ ?_ ?_ ?_
  · intro k hk
    rw [Finset.mem_Icc] at hk
    rw [Finset.mem_range]
    omega
  · intro i hi
    rw [Finset.mem_range] at hi
    rw [Finset.mem_Icc]
    omega
  · intro k hk
    rw [Finset.mem_Icc] at hk
    show (ℓ : ℤ) - (((ℓ : ℤ) - k).toNat : ℤ) = k
    omega
  · intro i hi
    show ((ℓ : ℤ) - ((ℓ : ℤ) - i)).toNat = i
    omega
  · intro k hk
    rw [Finset.mem_Icc] at hk
    show f k = f ((ℓ : ℤ) - (((ℓ : ℤ) - k).toNat : ℤ))
    congr 1
    omega

/-- the generating-polynomial characterisation of the documented D -/
theorem docD_eq_coeff (ℓ : ℕ) (A B : ℂ) (mp m : ℤ) (hmp : mp.natAbs ≤ ℓ) (hm : m.natAbs ≤ ℓ) :
    docD ℓ A B mp m = nrm ℓ mp m *
      (gen A (-conj B) B (conj A) ((ℓ : ℤ) + mp).toNat ((ℓ : ℤ) - mp).toNat).coeff ((ℓ : ℤ) - m).toNat := by
  have _ := hmp
  unfold docD nrm fac
  congr 1
  have hsub : Finset.range (((ℓ : ℤ) - m).toNat + 1) ⊆ Finset.range (2 * ℓ + 1) := by
    intro q hq
    rw [Finset.mem_range] at hq ⊢
    omega
  rw [← Finset.sum_subset hsub]
  · unfold gen
    rw [coeff_mul, Finset.Nat.sum_antidiagonal_eq_sum_range_succ_mk]
    apply Finset.sum_congr rfl
    intro ρ hρ
    rw [Finset.mem_range] at hρ
    have i1 : ichoose ((ℓ : ℤ) + mp) ρ = ((ℓ : ℤ) + mp).toNat.choose ρ := by
      unfold ichoose
      rw [if_pos (Int.natCast_nonneg ρ), Int.toNat_natCast]
    have i2 : ichoose ((ℓ : ℤ) - mp) ((ℓ : ℤ) - ρ - m) = ((ℓ : ℤ) - mp).toNat.choose (((ℓ : ℤ) - m).toNat - ρ) := by
      unfold ichoose
      rw [if_pos (by omega)]
      congr 1
      omega
    have e1 : ((ℓ : ℤ) - ρ - m).toNat = ((ℓ : ℤ) - m).toNat - ρ := by omega
    have e2 : ((ℓ : ℤ) + mp - ρ).toNat = ((ℓ : ℤ) + mp).toNat - ρ := by omega
    have e3 : ((ρ : ℤ) - mp + m).toNat = ((ℓ : ℤ) - mp).toNat - (((ℓ : ℤ) - m).toNat - ρ) := by omega
    rw [i1, i2, e1, e2, e3, coeff_lin_pow, coeff_lin_pow, neg_pow (conj B)]
    push_cast
    ring
  · intro ρ hρ hρ'
    rw [Finset.mem_range] at hρ hρ'
    have i2 : ichoose ((ℓ : ℤ) - mp) ((ℓ : ℤ) - ρ - m) = 0 := by
      unfold ichoose
      rw [if_neg (by omega)]
    rw [i2]
    simp

/-- ℓ + m' + (ℓ − m') = 2ℓ -/
theorem toNat_add_toNat (ℓ : ℕ) (mp : ℤ) (hmp : mp.natAbs ≤ ℓ) :
    ((ℓ : ℤ) + mp).toNat + ((ℓ : ℤ) - mp).toNat = 2 * ℓ := by omega

/-! ### 1. representation property -/

theorem hom_docD (ℓ : ℕ) (A1 B1 A2 B2 : ℂ) (mp m : ℤ) (hmp : mp.natAbs ≤ ℓ) (hm : m.natAbs ≤ ℓ) :
    docD ℓ (A1 * A2 - conj B1 * B2) (B1 * A2 + conj A1 * B2) mp m
      = ∑ k ∈ Finset.Icc (-(ℓ : ℤ)) ℓ, docD ℓ A1 B1 mp k * docD ℓ A2 B2 k m := by
  rw [sum_Icc_eq_sum_range, docD_eq_coeff _ _ _ mp m hmp hm]
  have e : ∀ a b : ℕ, gen (A1 * A2 - conj B1 * B2) (-conj (B1 * A2 + conj A1 * B2)) (B1 * A2 + conj A1 * B2)
        (conj (A1 * A2 - conj B1 * B2)) a b
      = gen (A1 * A2 + (-conj B1) * B2) (A1 * (-conj B2) + (-conj B1) * conj A2) (B1 * A2 + conj A1 * B2)
        (B1 * (-conj B2) + conj A1 * conj A2) a b := by
    intro a b
    congr 1
    · ring
    · simp only [map_add, map_mul, Complex.conj_conj]; ring
    · simp only [map_sub, map_mul, Complex.conj_conj]; ring
  rw [e, coeff_gen_comp, toNat_add_toNat ℓ mp hmp, Finset.mul_sum]
  apply Finset.sum_congr rfl
  intro i hi
  rw [Finset.mem_range] at hi
  have hk : ((ℓ : ℤ) - i).natAbs ≤ ℓ := by omega
  rw [docD_eq_coeff _ _ _ mp ((ℓ : ℤ) - i) hmp hk, docD_eq_coeff _ _ _ ((ℓ : ℤ) - i) m hk hm,
    ← nrm_mul ℓ mp ((ℓ : ℤ) - i) m]
  have x1 : ((ℓ : ℤ) - ((ℓ : ℤ) - i)).toNat = i := by omega
  have x2 : ((ℓ : ℤ) + ((ℓ : ℤ) - i)).toNat = 2 * ℓ - i := by omega
  rw [x1, x2]
  ring

/-! ### 2. diagonal rotors (rotations about z), identity -/

theorem diag_docD (ℓ : ℕ) (A : ℂ) (mp m : ℤ) (hmp : mp.natAbs ≤ ℓ) (hm : m.natAbs ≤ ℓ) :
    docD ℓ A 0 mp m = if mp = m then A ^ ((ℓ : ℤ) + mp).toNat * conj A ^ ((ℓ : ℤ) - mp).toNat else 0 := by
  rw [docD_eq_coeff _ _ _ mp m hmp hm, map_zero, neg_zero, coeff_gen_diag]
  by_cases h : mp = m
  · subst h
    rw [if_pos rfl, if_pos rfl, nrm_self, one_mul]
  · rw [if_neg h, if_neg (by omega), mul_zero]

theorem identity_docD (ℓ : ℕ) (mp m : ℤ) (hmp : mp.natAbs ≤ ℓ) (hm : m.natAbs ≤ ℓ) :
    docD ℓ 1 0 mp m = if mp = m then 1 else 0 := by
  rw [diag_docD ℓ 1 mp m hmp hm, map_one, one_pow, one_pow, one_mul]

/-- the corner entry D_{ℓ,ℓ} = R_a^{2ℓ} -/
theorem corner_docD (ℓ : ℕ) (A B : ℂ) : docD ℓ A B ℓ ℓ = A ^ (2 * ℓ) := by
  rw [docD_eq_coeff _ _ _ ℓ ℓ (by simp) (by simp), nrm_self, one_mul]
  have x1 : ((ℓ : ℤ) + ℓ).toNat = 2 * ℓ := by omega
  have x2 : ((ℓ : ℤ) - ℓ).toNat = 0 := by omega
  rw [x1, x2]
  unfold gen
  rw [pow_zero, mul_one, coeff_lin_pow]
  simp

/-! ### 4. the two rotors of one rotation -/

theorem neg_docD (ℓ : ℕ) (A B : ℂ) (mp m : ℤ) (hmp : mp.natAbs ≤ ℓ) (hm : m.natAbs ≤ ℓ) :
    docD ℓ (-A) (-B) mp m = docD ℓ A B mp m := by
  rw [docD_eq_coeff _ _ _ mp m hmp hm, docD_eq_coeff _ _ _ mp m hmp hm, map_neg, map_neg, gen_neg, coeff_C_mul,
    toNat_add_toNat ℓ mp hmp, pow_mul, neg_one_sq, one_pow, one_mul]

/-! ### 5. (m', m) ↦ (−m', −m) -/

/-- the sign as a natural power -/
theorem conj_symm_nat_docD (ℓ : ℕ) (A B : ℂ) (mp m : ℤ) (hmp : mp.natAbs ≤ ℓ) (hm : m.natAbs ≤ ℓ) :
    docD ℓ A B (-mp) (-m)
      = (-1) ^ (((ℓ : ℤ) + mp).toNat + ((ℓ : ℤ) + m).toNat) * conj (docD ℓ A B mp m) := by
  rw [docD_eq_coeff _ _ _ (-mp) (-m) (by omega) (by omega), docD_eq_coeff _ _ _ mp m hmp hm, map_mul, conj_nrm,
    nrm_neg, conj_coeff_gen, map_neg, Complex.conj_conj, Complex.conj_conj]
  have x1 : ((ℓ : ℤ) + -mp).toNat = ((ℓ : ℤ) - mp).toNat := by omega
  have x2 : ((ℓ : ℤ) - -mp).toNat = ((ℓ : ℤ) + mp).toNat := by omega
  have x3 : ((ℓ : ℤ) - -m).toNat
      = ((ℓ : ℤ) + mp).toNat + ((ℓ : ℤ) - mp).toNat - ((ℓ : ℤ) - m).toNat := by omega
  have x4 : ((ℓ : ℤ) + m).toNat
      = ((ℓ : ℤ) + mp).toNat + ((ℓ : ℤ) - mp).toNat - ((ℓ : ℤ) - m).toNat := by omega
  have hj : ((ℓ : ℤ) - m).toNat ≤ ((ℓ : ℤ) + mp).toNat + ((ℓ : ℤ) - mp).toNat := by omega
  have h := coeff_gen_rev_neg (conj A) (-B) (conj B) A ((ℓ : ℤ) + mp).toNat ((ℓ : ℤ) - mp).toNat
    ((ℓ : ℤ) - m).toNat hj
  rw [gen_swap, gen_neg_snd, coeff_C_mul] at h
  rw [x1, x2, x3, x4, pow_add]
  have s : ((-1 : ℂ) ^ ((ℓ : ℤ) + mp).toNat) * ((-1 : ℂ) ^ ((ℓ : ℤ) + mp).toNat) = 1 := by
    rw [← mul_pow]; norm_num
  linear_combination (nrm ℓ mp m * (-1 : ℂ) ^ ((ℓ : ℤ) + mp).toNat) * h
    - (nrm ℓ mp m * (gen A (-conj B) B (conj A) ((ℓ : ℤ) - mp).toNat ((ℓ : ℤ) + mp).toNat).coeff
        (((ℓ : ℤ) + mp).toNat + ((ℓ : ℤ) - mp).toNat - ((ℓ : ℤ) - m).toNat)) * s

/-- (−1)^N = (−1)^z when N = 2ℓ + z -/
theorem neg_one_pow_eq_zpow (N ℓ : ℕ) (z : ℤ) (h : (N : ℤ) = 2 * ℓ + z) : (-1 : ℂ) ^ N = (-1 : ℂ) ^ z := by
  have hz : z = (N : ℤ) - 2 * ℓ := by omega
  have h2 : (-1 : ℂ) ^ ((2 : ℤ) * ℓ) = 1 := by
    rw [zpow_mul]; norm_num
  rw [hz, zpow_sub₀ (by norm_num : (-1 : ℂ) ≠ 0), h2, div_one, zpow_natCast]

theorem conj_symm_docD (ℓ : ℕ) (A B : ℂ) (mp m : ℤ) (hmp : mp.natAbs ≤ ℓ) (hm : m.natAbs ≤ ℓ) :
    docD ℓ A B (-mp) (-m) = (-1 : ℂ) ^ (mp + m) * conj (docD ℓ A B mp m) := by
  rw [conj_symm_nat_docD ℓ A B mp m hmp hm,
    neg_one_pow_eq_zpow (((ℓ : ℤ) + mp).toNat + ((ℓ : ℤ) + m).toNat) ℓ (mp + m) (by push_cast; omega)]

/-! ### 3. inverse rotor, unitarity -/

theorem inverse_docD (ℓ : ℕ) (A B : ℂ) (mp m : ℤ) (hmp : mp.natAbs ≤ ℓ) (hm : m.natAbs ≤ ℓ) :
    docD ℓ (conj A) (-B) mp m = conj (docD ℓ A B m mp) := by
  rw [docD_eq_coeff _ _ _ mp m hmp hm, docD_eq_coeff _ _ _ m mp hm hmp, map_mul, conj_nrm, conj_coeff_gen, map_neg,
    map_neg, neg_neg, Complex.conj_conj, Complex.conj_conj]
  apply nrm_transpose
  rw [fac_cast, fac_cast]
  exact coeff_gen_transpose (conj A) (conj B) (-B) A _ _ _ _
    (by rw [toNat_add_toNat ℓ mp hmp, toNat_add_toNat ℓ m hm])

/-- D·D† = (|A|² + |B|²)^{2ℓ} · 1 for ALL complex A, B -/
theorem unitary_gen_docD (ℓ : ℕ) (A B : ℂ) (mp m : ℤ) (hmp : mp.natAbs ≤ ℓ) (hm : m.natAbs ≤ ℓ) :
    ∑ k ∈ Finset.Icc (-(ℓ : ℤ)) ℓ, docD ℓ A B mp k * conj (docD ℓ A B m k)
      = if mp = m then (A * conj A + B * conj B) ^ (2 * ℓ) else 0 := by
  have h := hom_docD ℓ A B (conj A) (-B) mp m hmp hm
  have eA : A * conj A - conj B * -B = A * conj A + B * conj B := by ring
  have eB : B * conj A + conj A * -B = 0 := by ring
  have eC : conj (A * conj A + B * conj B) = A * conj A + B * conj B := by
    simp only [map_add, map_mul, Complex.conj_conj]; ring
  rw [eA, eB, diag_docD ℓ _ mp m hmp hm, eC, ← pow_add, toNat_add_toNat ℓ mp hmp] at h
  rw [h]
  apply Finset.sum_congr rfl
  intro k hk
  rw [Finset.mem_Icc] at hk
  rw [inverse_docD ℓ A B k m (by omega) hm]

theorem unitary_docD (ℓ : ℕ) (A B : ℂ) (hAB : A * conj A + B * conj B = 1) (mp m : ℤ) (hmp : mp.natAbs ≤ ℓ)
    (hm : m.natAbs ≤ ℓ) :
    ∑ k ∈ Finset.Icc (-(ℓ : ℤ)) ℓ, docD ℓ A B mp k * conj (docD ℓ A B m k) = if mp = m then 1 else 0 := by
  rw [unitary_gen_docD ℓ A B mp m hmp hm, hAB, one_pow]

end DocHom
end
