import SphericalVerif.Props.C01
#print axioms C01.eps_eq_gen
#print axioms C01.dEntry_formula
